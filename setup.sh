#!/bin/bash
# Builds the framework from files on disk only (offline): Coq development, extracted model + driver, Rust harness.
set -e
cd "$(dirname "$0")"
export CARGO_NET_OFFLINE=true
mkdir -p .build evidence replays coq/gen
python3 tools/extract_facts.py >/dev/null 2>&1 || true
(cd coq && coq_makefile -f _CoqProject -o Makefile >/dev/null && make -j16 >/dev/null)
(cd ocaml && coqc -Q ../coq MRB ../coq/Extract/Extract.v >/dev/null && ocamlfind ocamlopt -O2 -w -a model.mli model.ml driver.ml -o model && ocamlfind ocamlopt -O2 -w -a model.mli model.ml concdriver.ml -o concmodel && coqc -Q ../coq MRB ../coq/Extract/ExtractConc.v >/dev/null && ocamlfind ocamlopt -O2 -w -a cmodel.mli cmodel.ml concdriver2.ml -o concmodel2 && coqc -Q ../coq MRB ../coq/Extract/ExtractDrop.v >/dev/null && ocamlfind ocamlopt -O2 -w -a dmodel.mli dmodel.ml dropdriver.ml -o dropmodel && coqc -Q ../coq MRB ../coq/Extract/ExtractConc3x.v >/dev/null && ocamlfind ocamlopt -O2 -w -a c3xmodel.mli c3xmodel.ml concdriver3x.ml -o concmodel3x)
(cd harness && CARGO_TARGET_DIR=../.build/cargo cargo build --offline --bins 2>&1 | tail -2)
(cd harness && CARGO_TARGET_DIR=../.build/cargo cargo build --offline --profile nodebug --bin seqrun --bin asyncrun 2>&1 | tail -1)
(cd harness-noalloc && CARGO_TARGET_DIR=../.build/cargo-noalloc cargo build --offline 2>&1 | tail -1)
echo setup done
