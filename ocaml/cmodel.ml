
(** val negb : bool -> bool **)

let negb = function
| true -> false
| false -> true

type nat =
| O
| S of nat

(** val fst : ('a1 * 'a2) -> 'a1 **)

let fst = function
| (x, _) -> x

(** val snd : ('a1 * 'a2) -> 'a2 **)

let snd = function
| (_, y) -> y

(** val length : 'a1 list -> nat **)

let rec length = function
| [] -> O
| _ :: l' -> S (length l')

(** val app : 'a1 list -> 'a1 list -> 'a1 list **)

let rec app l m =
  match l with
  | [] -> m
  | a :: l1 -> a :: (app l1 m)

(** val add : nat -> nat -> nat **)

let rec add n m =
  match n with
  | O -> m
  | S p0 -> S (add p0 m)

(** val sub : nat -> nat -> nat **)

let rec sub n m =
  match n with
  | O -> n
  | S k -> (match m with
            | O -> n
            | S l -> sub k l)

(** val max : nat -> nat -> nat **)

let rec max n m =
  match n with
  | O -> m
  | S n' -> (match m with
             | O -> n
             | S m' -> S (max n' m'))

module Nat =
 struct
  (** val leb : nat -> nat -> bool **)

  let rec leb n m =
    match n with
    | O -> true
    | S n' -> (match m with
               | O -> false
               | S m' -> leb n' m')

  (** val ltb : nat -> nat -> bool **)

  let ltb n m =
    leb (S n) m

  (** val max : nat -> nat -> nat **)

  let rec max n m =
    match n with
    | O -> m
    | S n' -> (match m with
               | O -> n
               | S m' -> S (max n' m'))

  (** val min : nat -> nat -> nat **)

  let rec min n m =
    match n with
    | O -> O
    | S n' -> (match m with
               | O -> O
               | S m' -> S (min n' m'))
 end

(** val nth : nat -> 'a1 list -> 'a1 -> 'a1 **)

let rec nth n l default =
  match n with
  | O -> (match l with
          | [] -> default
          | x :: _ -> x)
  | S m -> (match l with
            | [] -> default
            | _ :: t -> nth m t default)

(** val last : 'a1 list -> 'a1 -> 'a1 **)

let rec last l d =
  match l with
  | [] -> d
  | a :: l0 -> (match l0 with
                | [] -> a
                | _ :: _ -> last l0 d)

(** val map : ('a1 -> 'a2) -> 'a1 list -> 'a2 list **)

let rec map f = function
| [] -> []
| a :: t -> (f a) :: (map f t)

(** val fold_left : ('a1 -> 'a2 -> 'a1) -> 'a2 list -> 'a1 -> 'a1 **)

let rec fold_left f l a0 =
  match l with
  | [] -> a0
  | b :: t -> fold_left f t (f a0 b)

(** val seq : nat -> nat -> nat list **)

let rec seq start = function
| O -> []
| S len0 -> start :: (seq (S start) len0)

(** val wadd : nat -> nat -> nat -> nat **)

let wadd len i n =
  if Nat.leb len (add i n) then sub (add i n) len else add i n

(** val dist : nat -> nat -> nat -> nat **)

let dist len a b =
  if Nat.leb a b then sub b a else add (sub len a) b

(** val pavail : nat -> nat -> nat -> nat **)

let pavail len p0 c0 =
  if Nat.ltb p0 c0
  then sub (sub c0 p0) (S O)
  else sub (add (sub len p0) c0) (S O)

(** val upd : nat -> 'a1 -> 'a1 list -> 'a1 list **)

let rec upd k x = function
| [] -> []
| h :: t -> (match k with
             | O -> x :: t
             | S k' -> h :: (upd k' x t))

type view = { vpi : nat; vci : nat; kp : nat; kc : nat; wP : nat; wC : nat }

(** val vjoin : view -> view -> view **)

let vjoin a b =
  { vpi = (max a.vpi b.vpi); vci = (max a.vci b.vci); kp = (max a.kp b.kp);
    kc = (max a.kc b.kc); wP = (max a.wP b.wP); wC = (max a.wC b.wC) }

type msg = { mval : nat; mabs : nat; mview : view }

type meta = { wpos : nat; wclk : nat; rpos : nat; rclk : nat }

(** val dmsg : msg **)

let dmsg =
  { mval = O; mabs = O; mview = { vpi = O; vci = O; kp = O; kc = O; wP = O;
    wC = O } }

(** val dmeta : meta **)

let dmeta =
  { wpos = O; wclk = O; rpos = O; rclk = O }

(** val pick : nat -> nat -> nat -> nat **)

let pick lo n j =
  Nat.min (Nat.max j lo) (sub n (S O))

(** val v0P : nat -> view **)

let v0P len =
  { vpi = O; vci = O; kp = (S O); kc = O; wP = len; wC = len }

(** val v0C : nat -> view **)

let v0C len =
  { vpi = O; vci = O; kp = O; kc = (S O); wP = len; wC = len }

(** val vbot : nat -> view **)

let vbot len =
  { vpi = O; vci = O; kp = O; kc = O; wP = len; wC = len }

type tid =
| TP
| TW
| TC

type view3 = { vpi3 : nat; vwi3 : nat; vci3 : nat; kp3 : nat; kw3 : nat;
               kc3 : nat; wP3 : nat; wW3 : nat; wC3 : nat }

(** val vjoin3 : view3 -> view3 -> view3 **)

let vjoin3 a b =
  { vpi3 = (max a.vpi3 b.vpi3); vwi3 = (max a.vwi3 b.vwi3); vci3 =
    (max a.vci3 b.vci3); kp3 = (max a.kp3 b.kp3); kw3 = (max a.kw3 b.kw3);
    kc3 = (max a.kc3 b.kc3); wP3 = (max a.wP3 b.wP3); wW3 =
    (max a.wW3 b.wW3); wC3 = (max a.wC3 b.wC3) }

type msg3 = { mval3 : nat; mabs3 : nat; mview3 : view3 }

type meta3 = { wt : tid; wpos3 : nat; wclk3 : nat; rpos3 : nat; rclk3 : nat }

(** val dmsg3 : msg3 **)

let dmsg3 =
  { mval3 = O; mabs3 = O; mview3 = { vpi3 = O; vwi3 = O; vci3 = O; kp3 = O;
    kw3 = O; kc3 = O; wP3 = O; wW3 = O; wC3 = O } }

(** val dmeta3 : meta3 **)

let dmeta3 =
  { wt = TP; wpos3 = O; wclk3 = O; rpos3 = O; rclk3 = O }

(** val wcov : tid -> meta3 -> view3 -> bool **)

let wcov me m v0 =
  match m.wt with
  | TP -> (match me with
           | TP -> true
           | _ -> Nat.leb m.wclk3 v0.kp3)
  | TW -> (match me with
           | TW -> true
           | _ -> Nat.leb m.wclk3 v0.kw3)
  | TC -> true

(** val vinit : nat -> nat -> nat -> nat -> view3 **)

let vinit len kp0 kw kc0 =
  { vpi3 = O; vwi3 = O; vci3 = O; kp3 = kp0; kw3 = kw; kc3 = kc0; wP3 = len;
    wW3 = len; wC3 = len }

type thr3n = { ix3 : nat; ca3 : nat; v3 : view3; pc3 : nat; pos3 : nat;
               cnt3 : nat; off3 : nat }

type cfg3n = { mpi3 : msg3 list; mwi3 : msg3 list; mci3 : msg3 list;
               metas3 : meta3 list; p3 : thr3n; w3 : thr3n; c3 : thr3n;
               race3 : bool }

(** val vzero3 : view3 **)

let vzero3 =
  { vpi3 = O; vwi3 = O; vci3 = O; kp3 = O; kw3 = O; kc3 = O; wP3 = O; wW3 =
    O; wC3 = O }

(** val stepP3_a : bool -> nat -> nat -> nat -> cfg3n -> cfg3n **)

let stepP3_a acqP len j n0 c0 =
  let t = c0.p3 in
  (match t.pc3 with
   | O ->
     let n = Nat.max (S O) n0 in
     if Nat.leb n t.ca3
     then { mpi3 = c0.mpi3; mwi3 = c0.mwi3; mci3 = c0.mci3; metas3 =
            c0.metas3; p3 = { ix3 = t.ix3; ca3 = t.ca3; v3 = t.v3; pc3 = (S
            (S O)); pos3 = t.pos3; cnt3 = n; off3 = O }; w3 = c0.w3; c3 =
            c0.c3; race3 = c0.race3 }
     else let i = pick t.v3.vci3 (length c0.mci3) j in
          let m = nth i c0.mci3 dmsg3 in
          let v0 = t.v3 in
          let v1 =
            vjoin3 { vpi3 = v0.vpi3; vwi3 = v0.vwi3; vci3 = i; kp3 = v0.kp3;
              kw3 = v0.kw3; kc3 = v0.kc3; wP3 = v0.wP3; wW3 = v0.wW3; wC3 =
              v0.wC3 } (if acqP then m.mview3 else vzero3)
          in
          let a = pavail len t.ix3 m.mval3 in
          { mpi3 = c0.mpi3; mwi3 = c0.mwi3; mci3 = c0.mci3; metas3 =
          c0.metas3; p3 = { ix3 = t.ix3; ca3 = a; v3 = v1; pc3 =
          (if Nat.leb n a then S (S O) else O); pos3 = t.pos3; cnt3 = n;
          off3 = O }; w3 = c0.w3; c3 = c0.c3; race3 = c0.race3 }
   | S n ->
     (match n with
      | O -> c0
      | S n1 ->
        (match n1 with
         | O ->
           let k = wadd len t.ix3 t.off3 in
           let mt = nth k c0.metas3 dmeta3 in
           let bad =
             (||) (negb (wcov TP mt t.v3)) (negb (Nat.leb mt.rclk3 t.v3.kc3))
           in
           { mpi3 = c0.mpi3; mwi3 = c0.mwi3; mci3 = c0.mci3; metas3 =
           (upd k { wt = TP; wpos3 = (add t.pos3 t.off3); wclk3 = t.v3.kp3;
             rpos3 = mt.rpos3; rclk3 = mt.rclk3 } c0.metas3); p3 = { ix3 =
           t.ix3; ca3 = t.ca3; v3 = t.v3; pc3 =
           (if Nat.leb t.cnt3 (add t.off3 (S O)) then S (S (S O)) else S (S O));
           pos3 = t.pos3; cnt3 = t.cnt3; off3 = (add t.off3 (S O)) }; w3 =
           c0.w3; c3 = c0.c3; race3 = ((||) c0.race3 bad) }
         | S n2 ->
           (match n2 with
            | O ->
              let ix' = wadd len t.ix3 t.cnt3 in
              let p' = add t.pos3 t.cnt3 in
              let v0 = t.v3 in
              let v1 = { vpi3 = (length c0.mpi3); vwi3 = v0.vwi3; vci3 =
                v0.vci3; kp3 = v0.kp3; kw3 = v0.kw3; kc3 = v0.kc3; wP3 = p';
                wW3 = v0.wW3; wC3 = v0.wC3 }
              in
              let m = { mval3 = ix'; mabs3 = p'; mview3 = v1 } in
              { mpi3 = (app c0.mpi3 (m :: [])); mwi3 = c0.mwi3; mci3 =
              c0.mci3; metas3 = c0.metas3; p3 = { ix3 = ix'; ca3 =
              (sub t.ca3 t.cnt3); v3 = { vpi3 = v1.vpi3; vwi3 = v1.vwi3;
              vci3 = v1.vci3; kp3 = (S v1.kp3); kw3 = v1.kw3; kc3 = v1.kc3;
              wP3 = v1.wP3; wW3 = v1.wW3; wC3 = v1.wC3 }; pc3 = O; pos3 = p';
              cnt3 = t.cnt3; off3 = O }; w3 = c0.w3; c3 = c0.c3; race3 =
              c0.race3 }
            | S _ -> c0))))

(** val stepW3_a : bool -> nat -> nat -> nat -> cfg3n -> cfg3n **)

let stepW3_a acqW len j n0 c0 =
  let t = c0.w3 in
  (match t.pc3 with
   | O ->
     let n = Nat.max (S O) n0 in
     if Nat.leb n t.ca3
     then { mpi3 = c0.mpi3; mwi3 = c0.mwi3; mci3 = c0.mci3; metas3 =
            c0.metas3; p3 = c0.p3; w3 = { ix3 = t.ix3; ca3 = t.ca3; v3 =
            t.v3; pc3 = (S (S O)); pos3 = t.pos3; cnt3 = n; off3 = O }; c3 =
            c0.c3; race3 = c0.race3 }
     else let i = pick t.v3.vpi3 (length c0.mpi3) j in
          let m = nth i c0.mpi3 dmsg3 in
          let v0 = t.v3 in
          let v1 =
            vjoin3 { vpi3 = i; vwi3 = v0.vwi3; vci3 = v0.vci3; kp3 = v0.kp3;
              kw3 = v0.kw3; kc3 = v0.kc3; wP3 = v0.wP3; wW3 = v0.wW3; wC3 =
              v0.wC3 } (if acqW then m.mview3 else vzero3)
          in
          let a = dist len t.ix3 m.mval3 in
          { mpi3 = c0.mpi3; mwi3 = c0.mwi3; mci3 = c0.mci3; metas3 =
          c0.metas3; p3 = c0.p3; w3 = { ix3 = t.ix3; ca3 = a; v3 = v1; pc3 =
          (if Nat.leb n a then S (S O) else O); pos3 = t.pos3; cnt3 = n;
          off3 = O }; c3 = c0.c3; race3 = c0.race3 }
   | S n ->
     (match n with
      | O -> c0
      | S n1 ->
        (match n1 with
         | O ->
           let k = wadd len t.ix3 t.off3 in
           let mt = nth k c0.metas3 dmeta3 in
           let bad =
             (||) (negb (wcov TW mt t.v3)) (negb (Nat.leb mt.rclk3 t.v3.kc3))
           in
           { mpi3 = c0.mpi3; mwi3 = c0.mwi3; mci3 = c0.mci3; metas3 =
           (upd k { wt = TW; wpos3 = (add t.pos3 t.off3); wclk3 = t.v3.kw3;
             rpos3 = mt.rpos3; rclk3 = mt.rclk3 } c0.metas3); p3 = c0.p3;
           w3 = { ix3 = t.ix3; ca3 = t.ca3; v3 = t.v3; pc3 =
           (if Nat.leb t.cnt3 (add t.off3 (S O)) then S (S (S O)) else S (S O));
           pos3 = t.pos3; cnt3 = t.cnt3; off3 = (add t.off3 (S O)) }; c3 =
           c0.c3; race3 = ((||) c0.race3 bad) }
         | S n2 ->
           (match n2 with
            | O ->
              let ix' = wadd len t.ix3 t.cnt3 in
              let p' = add t.pos3 t.cnt3 in
              let v0 = t.v3 in
              let v1 = { vpi3 = v0.vpi3; vwi3 = (length c0.mwi3); vci3 =
                v0.vci3; kp3 = v0.kp3; kw3 = v0.kw3; kc3 = v0.kc3; wP3 =
                v0.wP3; wW3 = p'; wC3 = v0.wC3 }
              in
              let m = { mval3 = ix'; mabs3 = p'; mview3 = v1 } in
              { mpi3 = c0.mpi3; mwi3 = (app c0.mwi3 (m :: [])); mci3 =
              c0.mci3; metas3 = c0.metas3; p3 = c0.p3; w3 = { ix3 = ix';
              ca3 = (sub t.ca3 t.cnt3); v3 = { vpi3 = v1.vpi3; vwi3 =
              v1.vwi3; vci3 = v1.vci3; kp3 = v1.kp3; kw3 = (S v1.kw3); kc3 =
              v1.kc3; wP3 = v1.wP3; wW3 = v1.wW3; wC3 = v1.wC3 }; pc3 = O;
              pos3 = p'; cnt3 = t.cnt3; off3 = O }; c3 = c0.c3; race3 =
              c0.race3 }
            | S _ -> c0))))

(** val stepC3_a : bool -> nat -> nat -> nat -> cfg3n -> cfg3n **)

let stepC3_a acqC len j n0 c0 =
  let t = c0.c3 in
  (match t.pc3 with
   | O ->
     let n = Nat.max (S O) n0 in
     if Nat.leb n t.ca3
     then { mpi3 = c0.mpi3; mwi3 = c0.mwi3; mci3 = c0.mci3; metas3 =
            c0.metas3; p3 = c0.p3; w3 = c0.w3; c3 = { ix3 = t.ix3; ca3 =
            t.ca3; v3 = t.v3; pc3 = (S (S O)); pos3 = t.pos3; cnt3 = n;
            off3 = O }; race3 = c0.race3 }
     else let i = pick t.v3.vwi3 (length c0.mwi3) j in
          let m = nth i c0.mwi3 dmsg3 in
          let v0 = t.v3 in
          let v1 =
            vjoin3 { vpi3 = v0.vpi3; vwi3 = i; vci3 = v0.vci3; kp3 = v0.kp3;
              kw3 = v0.kw3; kc3 = v0.kc3; wP3 = v0.wP3; wW3 = v0.wW3; wC3 =
              v0.wC3 } (if acqC then m.mview3 else vzero3)
          in
          let a = dist len t.ix3 m.mval3 in
          { mpi3 = c0.mpi3; mwi3 = c0.mwi3; mci3 = c0.mci3; metas3 =
          c0.metas3; p3 = c0.p3; w3 = c0.w3; c3 = { ix3 = t.ix3; ca3 = a;
          v3 = v1; pc3 = (if Nat.leb n a then S (S O) else O); pos3 = t.pos3;
          cnt3 = n; off3 = O }; race3 = c0.race3 }
   | S n ->
     (match n with
      | O -> c0
      | S n1 ->
        (match n1 with
         | O ->
           let k = wadd len t.ix3 t.off3 in
           let mt = nth k c0.metas3 dmeta3 in
           let bad = negb (wcov TC mt t.v3) in
           { mpi3 = c0.mpi3; mwi3 = c0.mwi3; mci3 = c0.mci3; metas3 =
           (upd k { wt = mt.wt; wpos3 = mt.wpos3; wclk3 = mt.wclk3; rpos3 =
             (add t.pos3 t.off3); rclk3 = t.v3.kc3 } c0.metas3); p3 = c0.p3;
           w3 = c0.w3; c3 = { ix3 = t.ix3; ca3 = t.ca3; v3 = t.v3; pc3 =
           (if Nat.leb t.cnt3 (add t.off3 (S O)) then S (S (S O)) else S (S O));
           pos3 = t.pos3; cnt3 = t.cnt3; off3 = (add t.off3 (S O)) }; race3 =
           ((||) c0.race3 bad) }
         | S n2 ->
           (match n2 with
            | O ->
              let ix' = wadd len t.ix3 t.cnt3 in
              let p' = add t.pos3 t.cnt3 in
              let v0 = t.v3 in
              let v1 = { vpi3 = v0.vpi3; vwi3 = v0.vwi3; vci3 =
                (length c0.mci3); kp3 = v0.kp3; kw3 = v0.kw3; kc3 = v0.kc3;
                wP3 = v0.wP3; wW3 = v0.wW3; wC3 = p' }
              in
              let m = { mval3 = ix'; mabs3 = p'; mview3 = v1 } in
              { mpi3 = c0.mpi3; mwi3 = c0.mwi3; mci3 =
              (app c0.mci3 (m :: [])); metas3 = c0.metas3; p3 = c0.p3; w3 =
              c0.w3; c3 = { ix3 = ix'; ca3 = (sub t.ca3 t.cnt3); v3 =
              { vpi3 = v1.vpi3; vwi3 = v1.vwi3; vci3 = v1.vci3; kp3 = v1.kp3;
              kw3 = v1.kw3; kc3 = (S v1.kc3); wP3 = v1.wP3; wW3 = v1.wW3;
              wC3 = v1.wC3 }; pc3 = O; pos3 = p'; cnt3 = t.cnt3; off3 = O };
              race3 = c0.race3 }
            | S _ -> c0))))

(** val step3_a :
    bool -> bool -> bool -> nat -> cfg3n -> ((tid * nat) * nat) -> cfg3n **)

let step3_a acqP acqW acqC len c0 = function
| (p0, n) ->
  let (t, j) = p0 in
  (match t with
   | TP -> stepP3_a acqP len j n c0
   | TW -> stepW3_a acqW len j n c0
   | TC -> stepC3_a acqC len j n c0)

(** val exec3_a :
    bool -> bool -> bool -> nat -> cfg3n -> ((tid * nat) * nat) list -> cfg3n **)

let exec3_a acqP acqW acqC len c0 script =
  fold_left (step3_a acqP acqW acqC len) script c0

(** val init3_n : nat -> cfg3n **)

let init3_n len =
  { mpi3 = ({ mval3 = O; mabs3 = len; mview3 = (vinit len O O O) } :: []);
    mwi3 = ({ mval3 = O; mabs3 = len; mview3 = (vinit len O O O) } :: []);
    mci3 = ({ mval3 = O; mabs3 = len; mview3 = (vinit len O O O) } :: []);
    metas3 =
    (map (fun k -> { wt = TC; wpos3 = k; wclk3 = O; rpos3 = k; rclk3 = O })
      (seq O len)); p3 = { ix3 = O; ca3 = O; v3 = (vinit len (S O) O O);
    pc3 = O; pos3 = len; cnt3 = O; off3 = O }; w3 = { ix3 = O; ca3 = O; v3 =
    (vinit len O (S O) O); pc3 = O; pos3 = len; cnt3 = O; off3 = O }; c3 =
    { ix3 = O; ca3 = O; v3 = (vinit len O O (S O)); pc3 = O; pos3 = len;
    cnt3 = O; off3 = O }; race3 = false }

type cmd =
| Op of nat * nat
| Reset of nat
| Detach
| Attach
| Sync

type thr_x = { ix : nat; ca : nat; v : view; pc : nat; pos : nat; cnt : 
               nat; off : nat; det : bool; nix : nat; npos : nat }

type cfg_x = { mpi : msg list; mci : msg list; metas : meta list; p : 
               thr_x; c : thr_x; race : bool }

(** val vzero : view **)

let vzero =
  { vpi = O; vci = O; kp = O; kc = O; wP = O; wC = O }

(** val publishedC : cfg_x -> nat **)

let publishedC c0 =
  (last c0.mci dmsg).mabs

(** val publishedP : cfg_x -> nat **)

let publishedP c0 =
  (last c0.mpi dmsg).mabs

(** val opP_a : bool -> nat -> nat -> nat -> cfg_x -> cfg_x **)

let opP_a acqP len j n0 c0 =
  let t = c0.p in
  (match t.pc with
   | O ->
     let n = Nat.max (S O) n0 in
     if Nat.leb n t.ca
     then { mpi = c0.mpi; mci = c0.mci; metas = c0.metas; p = { ix = t.ix;
            ca = t.ca; v = t.v; pc = (S (S O)); pos = t.pos; cnt = n; off =
            O; det = t.det; nix = t.nix; npos = t.npos }; c = c0.c; race =
            c0.race }
     else let i = pick t.v.vci (length c0.mci) j in
          let m = nth i c0.mci dmsg in
          let v0 = t.v in
          let v1 =
            vjoin { vpi = v0.vpi; vci = i; kp = v0.kp; kc = v0.kc; wP =
              v0.wP; wC = v0.wC } (if acqP then m.mview else vzero)
          in
          let a = pavail len t.ix m.mval in
          { mpi = c0.mpi; mci = c0.mci; metas = c0.metas; p = { ix = t.ix;
          ca = a; v = v1; pc = (if Nat.leb n a then S (S O) else O); pos =
          t.pos; cnt = n; off = O; det = t.det; nix = t.nix; npos = t.npos };
          c = c0.c; race = c0.race }
   | S n ->
     (match n with
      | O -> c0
      | S n1 ->
        (match n1 with
         | O ->
           let k = wadd len t.ix t.off in
           let mt = nth k c0.metas dmeta in
           let bad = negb (Nat.leb mt.rclk t.v.kc) in
           { mpi = c0.mpi; mci = c0.mci; metas =
           (upd k { wpos = (add t.pos t.off); wclk = t.v.kp; rpos = mt.rpos;
             rclk = mt.rclk } c0.metas); p = { ix = t.ix; ca = t.ca; v = t.v;
           pc =
           (if Nat.leb t.cnt (add t.off (S O)) then S (S (S O)) else S (S O));
           pos = t.pos; cnt = t.cnt; off = (add t.off (S O)); det = t.det;
           nix = t.nix; npos = t.npos }; c = c0.c; race = ((||) c0.race bad) }
         | S n2 ->
           (match n2 with
            | O ->
              let ix' = wadd len t.ix t.cnt in
              let p' = add t.pos t.cnt in
              let v0 = t.v in
              let v1 = { vpi = (length c0.mpi); vci = v0.vci; kp = v0.kp;
                kc = v0.kc; wP = p'; wC = v0.wC }
              in
              let m = { mval = ix'; mabs = p'; mview = v1 } in
              { mpi = (app c0.mpi (m :: [])); mci = c0.mci; metas = c0.metas;
              p = { ix = ix'; ca = (sub t.ca t.cnt); v = { vpi = v1.vpi;
              vci = v1.vci; kp = (S v1.kp); kc = v1.kc; wP = v1.wP; wC =
              v1.wC }; pc = O; pos = p'; cnt = t.cnt; off = O; det = t.det;
              nix = t.nix; npos = t.npos }; c = c0.c; race = c0.race }
            | S _ -> c0))))

(** val publishC : cfg_x -> nat -> nat -> nat -> bool -> cfg_x **)

let publishC c0 ix' p' ca' d =
  let t = c0.c in
  let v0 = t.v in
  let v1 = { vpi = v0.vpi; vci = (length c0.mci); kp = v0.kp; kc = v0.kc;
    wP = v0.wP; wC = p' }
  in
  let m = { mval = ix'; mabs = p'; mview = v1 } in
  { mpi = c0.mpi; mci = (app c0.mci (m :: [])); metas = c0.metas; p = c0.p;
  c = { ix = ix'; ca = ca'; v = { vpi = v1.vpi; vci = v1.vci; kp = v1.kp;
  kc = (S v1.kc); wP = v1.wP; wC = v1.wC }; pc = O; pos = p'; cnt = t.cnt;
  off = O; det = d; nix = t.nix; npos = t.npos }; race = c0.race }

(** val localC : cfg_x -> nat -> nat -> nat -> cfg_x **)

let localC c0 ix' p' ca' =
  let t = c0.c in
  { mpi = c0.mpi; mci = c0.mci; metas = c0.metas; p = c0.p; c = { ix = ix';
  ca = ca'; v = t.v; pc = O; pos = p'; cnt = t.cnt; off = O; det = t.det;
  nix = t.nix; npos = t.npos }; race = c0.race }

(** val finishC : cfg_x -> nat -> nat -> nat -> cfg_x **)

let finishC c0 ix' p' ca' =
  if c0.c.det then localC c0 ix' p' ca' else publishC c0 ix' p' ca' false

(** val opC_a : bool -> nat -> nat -> nat -> cfg_x -> cfg_x **)

let opC_a acqC len j n0 c0 =
  let t = c0.c in
  (match t.pc with
   | O ->
     let n = Nat.max (S O) n0 in
     if Nat.leb n t.ca
     then { mpi = c0.mpi; mci = c0.mci; metas = c0.metas; p = c0.p; c =
            { ix = t.ix; ca = t.ca; v = t.v; pc = (S (S O)); pos = t.pos;
            cnt = n; off = O; det = t.det; nix = t.nix; npos = t.npos };
            race = c0.race }
     else let i = pick t.v.vpi (length c0.mpi) j in
          let m = nth i c0.mpi dmsg in
          let v0 = t.v in
          let v1 =
            vjoin { vpi = i; vci = v0.vci; kp = v0.kp; kc = v0.kc; wP =
              v0.wP; wC = v0.wC } (if acqC then m.mview else vzero)
          in
          let a = dist len t.ix m.mval in
          { mpi = c0.mpi; mci = c0.mci; metas = c0.metas; p = c0.p; c =
          { ix = t.ix; ca = a; v = v1; pc =
          (if Nat.leb n a then S (S O) else O); pos = t.pos; cnt = n; off =
          O; det = t.det; nix = t.nix; npos = t.npos }; race = c0.race }
   | S n ->
     (match n with
      | O -> c0
      | S n1 ->
        (match n1 with
         | O ->
           let k = wadd len t.ix t.off in
           let mt = nth k c0.metas dmeta in
           let bad = negb (Nat.leb mt.wclk t.v.kp) in
           { mpi = c0.mpi; mci = c0.mci; metas =
           (upd k { wpos = mt.wpos; wclk = mt.wclk; rpos = (add t.pos t.off);
             rclk = t.v.kc } c0.metas); p = c0.p; c = { ix = t.ix; ca = t.ca;
           v = t.v; pc =
           (if Nat.leb t.cnt (add t.off (S O)) then S (S (S O)) else S (S O));
           pos = t.pos; cnt = t.cnt; off = (add t.off (S O)); det = t.det;
           nix = t.nix; npos = t.npos }; race = ((||) c0.race bad) }
         | S n2 ->
           (match n2 with
            | O ->
              finishC c0 (wadd len t.ix t.cnt) (add t.pos t.cnt)
                (sub t.ca t.cnt)
            | S n3 ->
              (match n3 with
               | O -> c0
               | S n4 ->
                 (match n4 with
                  | O -> finishC c0 t.nix t.npos O
                  | S _ -> c0))))))

(** val resetC_a : bool -> nat -> cfg_x -> cfg_x **)

let resetC_a acqC j c0 =
  let t = c0.c in
  let i = pick t.v.vpi (length c0.mpi) j in
  let m = nth i c0.mpi dmsg in
  let v0 = t.v in
  let v1 =
    vjoin { vpi = i; vci = v0.vci; kp = v0.kp; kc = v0.kc; wP = v0.wP; wC =
      v0.wC } (if acqC then m.mview else vzero)
  in
  { mpi = c0.mpi; mci = c0.mci; metas = c0.metas; p = c0.p; c = { ix = t.ix;
  ca = t.ca; v = v1; pc = (S (S (S (S (S O))))); pos = t.pos; cnt = t.cnt;
  off = t.off; det = t.det; nix = m.mval; npos = m.mabs }; race = c0.race }

(** val detachC : cfg_x -> cfg_x **)

let detachC c0 =
  let t = c0.c in
  { mpi = c0.mpi; mci = c0.mci; metas = c0.metas; p = c0.p; c = { ix = t.ix;
  ca = t.ca; v = t.v; pc = t.pc; pos = t.pos; cnt = t.cnt; off = t.off; det =
  true; nix = t.nix; npos = t.npos }; race = c0.race }

(** val stepP_a : bool -> nat -> cmd -> cfg_x -> cfg_x **)

let stepP_a acqP len k c0 =
  match k with
  | Op (j, n) -> opP_a acqP len j n c0
  | _ -> c0

(** val stepC_a : bool -> nat -> cmd -> cfg_x -> cfg_x **)

let stepC_a acqC len k c0 =
  let t = c0.c in
  (match k with
   | Op (j, n) -> opC_a acqC len j n c0
   | Reset j -> (match t.pc with
                 | O -> resetC_a acqC j c0
                 | S _ -> c0)
   | Detach -> (match t.pc with
                | O -> detachC c0
                | S _ -> c0)
   | Attach ->
     (match t.pc with
      | O -> publishC c0 t.ix t.pos t.ca false
      | S _ -> c0)
   | Sync ->
     (match t.pc with
      | O -> publishC c0 t.ix t.pos t.ca t.det
      | S _ -> c0))

(** val step_a : bool -> bool -> nat -> cfg_x -> (bool * cmd) -> cfg_x **)

let step_a acqP acqC len c0 s =
  if fst s then stepP_a acqP len (snd s) c0 else stepC_a acqC len (snd s) c0

(** val exec_a :
    bool -> bool -> nat -> cfg_x -> (bool * cmd) list -> cfg_x **)

let exec_a acqP acqC len c0 script =
  fold_left (step_a acqP acqC len) script c0

(** val init_x : nat -> cfg_x **)

let init_x len =
  { mpi = ({ mval = O; mabs = len; mview = (vbot len) } :: []); mci =
    ({ mval = O; mabs = len; mview = (vbot len) } :: []); metas =
    (map (fun k -> { wpos = k; wclk = O; rpos = k; rclk = O }) (seq O len));
    p = { ix = O; ca = O; v = (v0P len); pc = O; pos = len; cnt = O; off = O;
    det = false; nix = O; npos = O }; c = { ix = O; ca = O; v = (v0C len);
    pc = O; pos = len; cnt = O; off = O; det = false; nix = O; npos = O };
    race = false }
