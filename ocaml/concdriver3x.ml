(* concmodel3x: random executions of the three-stage release/acquire machine with worker / consumer commands
   (coq/Conc/RA3x.v, extracted into c3xmodel.ml by coq/Extract/ExtractConc3x.v), printed as replay cases for
   harness/src/bin/concrun3x.rs:

     concmodel3x gen <seed> <count> [<maxlen>]

   One case (threads P W C; index words P = prod_idx, W = work_idx, C = cons_idx), the line vocabulary of
   concdriver2.ml, extended:
     case <k> kind=3x len=<len>
     op  <T> <n> from=<v>       thread T starts an operation on n items (a machine step taken at pc 0); v is the value
                                of the first item of the window (absolute position of the thread minus len):
                                P pushes v, v+1, ..; W finds v, v+1, .. and edits them in place to v+1000000, ..
     op  C <n> from=<v> edited=<bits|->
                                the consumer's operations say which items of the window were edited by the worker:
                                one character per item, `1` = the worker accessed that position (the consumer must
                                get v+j+1000000), `0` = a worker reset jumped over it (the consumer must get v+j);
                                `-` when the operation is refused (no window)
     ev  <T> ld <word> <v>      T loads an index word (acquire) and reads v - possibly a stale value
     res <T> <0|1>              the operation is refused / granted
     ev  <T> st <word> <v>      T publishes its own index word with value v (release): the machine appended a message
     cmd <W|C> reset            [Reset j] taken at pc 0; followed by its load `ev W ld P <v>` / `ev C ld W <v>` and by
     jump <W|C> <v>             the value position the thread jumps to (absolute position loaded, minus len); the
                                store of the reset (`ev T st T <v>`, attached thread only) comes when the machine
                                executes the thread's next [Op] entry (pc 5)
     cmd <W|C> detach           [Detach] at pc 0, no access
     cmd <W|C> sync             [Sync] at pc 0, followed by `ev T st T <local index>`
     cmd <W|C> attach           [Attach] at pc 0, followed by `ev T st T <local index>`
     final prod_idx=<i> work_idx=<published i> cons_idx=<published i> work_local=<i> work_detached=<0|1>
           cons_local=<i> cons_detached=<0|1> consumed=<items> race=<0|1>
     end
   While a thread is detached its operations end without a store.  Lines appear in script order; the `ev` lines
   are the atomic accesses of the execution, in machine order.  Commands are only issued at pc 0 (elsewhere the
   machine ignores them), [Detach] only to an attached thread; [Sync] / [Attach] are (rarely) also issued to an
   attached thread, where the machine republishes the published index.

   Whether an item was edited is derived from the script: a position is edited when a worker step at pc 2 accessed
   it; positions between the worker's old and new position at a worker reset are never accessed.  The driver checks
   this bookkeeping against the machine's own record of the last writer of the slot at every consumer read.
   A distribution summary goes to stderr. *)

module M = C3xmodel

let rec nat_of_int i = if i <= 0 then M.O else M.S (nat_of_int (i - 1))
let rec int_of_nat = function M.O -> 0 | M.S n -> 1 + int_of_nat n

(* deterministic PRNG: the LCG of concdriver.ml *)
let state = ref 0
let seed s = state := (s * 3935559000370003845 + 2691343689449507681) lxor 0x2545F4914F6CDD1D
let rnd bound =
  state := !state * 2862933555777941757 + 3037000493;
  ((!state lsr 29) land 0x3FFFFFFF) mod bound
let range lo hi = lo + rnd (hi - lo + 1)

let last l = List.nth l (List.length l - 1)
let pavail len p c = if p < c then c - p - 1 else len - p + c - 1
let dist len a b = if a <= b then b - a else len - a + b
(* read choice: anywhere in 0..msgs+1, or (half of the time) one of the four newest messages *)
let choice msgs = if rnd 2 = 0 then range 0 (msgs + 1) else max 0 (msgs - 1 - rnd 4)
let die what = failwith ("concdriver3x: " ^ what)

(* ---- statistics (threads 0 = P, 1 = W, 2 = C) ---- *)
let st_cases = ref 0 and st_entries = ref 0 and st_events = ref 0 and st_race = ref 0
let st_ops = Array.make 3 0 and st_granted = Array.make 3 0
let st_cached = Array.make 3 0                            (* grants from the remembered availability, no load *)
let st_loads = Array.make 3 0 and st_stale = Array.make 3 0 and st_stalegrant = Array.make 3 0
let st_old = Array.make 3 0                               (* stale loads whose value differs from the newest message's *)
let st_stores = Array.make 3 0 and st_wraps = Array.make 3 0
let st_win = Array.make 9 0                               (* granted window sizes 1..7, 8+ *)
let st_resets = Array.make 3 0 and st_resets_det = Array.make 3 0 and st_resets_stale = Array.make 3 0
let st_resets_skip = Array.make 3 0 and st_resets_items = Array.make 3 0
let st_resets_race = Array.make 3 0                       (* resets whose load and store are separated by stores of the followed thread *)
let st_detach = Array.make 3 0 and st_attach = Array.make 3 0 and st_sync = Array.make 3 0
let st_sync_att = Array.make 3 0 and st_attach_att = Array.make 3 0
let st_local = Array.make 3 0 and st_blocked = Array.make 3 0
let st_items_edited = ref 0 and st_items_unedited = ref 0 and st_mixed = ref 0
(* per-case features *)
let features = [| "worker detached phase with local edits"; "worker reset"; "worker reset skipping items";
                  "unedited items consumed"; "window mixing edited and unedited items"; "consumer reset";
                  "consumer reset skipping items"; "consumer detached phase with local pops"; "stale load (older value)";
                  "grant on a stale load"; "reset load stale"; "reader blocked only by an unpublished detached index";
                  "worker AND consumer commands"; "ends with a detached thread"; "reset of a detached consumer" |]
let st_feat = Array.make (Array.length features) 0
let bump a i = a.(i) <- a.(i) + 1

type casestat = {
  edited : (int, unit) Hashtbl.t;                         (* absolute positions accessed by the worker *)
  feat : bool array;
  mutable consumed : int;
  pending_reset : int array;                              (* messages of the followed index at the load of the reset in progress *)
  mutable script : (M.tid * M.cmd) list;                  (* reversed *)
}

let tname = function M.TP -> "P" | M.TW -> "W" | M.TC -> "C"
let tnum = function M.TP -> 0 | M.TW -> 1 | M.TC -> 2
let thr (c : M.cfg3x) = function M.TP -> c.M.p3 | M.TW -> c.M.w3 | M.TC -> c.M.c3
let msgs (c : M.cfg3x) = function M.TP -> c.M.mpi3 | M.TW -> c.M.mwi3 | M.TC -> c.M.mci3
(* the thread whose index word a thread loads: P follows C, W follows P, C follows W *)
let follows = function M.TP -> M.TC | M.TW -> M.TP | M.TC -> M.TW
let reader = function M.TP -> M.TW | M.TW -> M.TC | M.TC -> M.TP
let seen (v : M.view3) = function M.TP -> v.M.vpi3 | M.TW -> v.M.vwi3 | M.TC -> v.M.vci3
let avail len t ix rd = if t = M.TP then pavail len ix rd else dist len ix rd

let note_load cs ti ~stale ~differs ~granted =
  incr st_events; bump st_loads ti;
  if stale then begin
    bump st_stale ti;
    if differs then (bump st_old ti; cs.feat.(8) <- true);
    if granted then (bump st_stalegrant ti; cs.feat.(9) <- true)
  end
let note_grant ti len ix n = bump st_granted ti; bump st_win (min n 8); if ix + n > len then bump st_wraps ti

let step out len cs (c : M.cfg3x) ((t, k) : M.tid * M.cmd) : M.cfg3x =
  incr st_entries;
  cs.script <- (t, k) :: cs.script;
  let th = thr c t in
  let c' = M.step3_a true true true (nat_of_int len) c (t, k) in
  let th' = thr c' t in
  let ti = tnum t in
  let pc = int_of_nat th.M.pc3 in
  let f = follows t in
  let stored = List.length (msgs c' t) - List.length (msgs c t) in
  List.iter (fun u -> if u <> t && (thr c' u <> thr c u || msgs c' u <> msgs c u) then die "a step changed another thread")
    [M.TP; M.TW; M.TC];
  (* the load of an operation or of a reset: the message read, whether it is stale *)
  let load j =
    let ms = msgs c f in
    let i = int_of_nat (M.pick (seen th.M.v3 f) (nat_of_int (List.length ms)) j) in
    let m = List.nth ms i in
    (m, i < List.length ms - 1, m.M.mval3 <> (last ms).M.mval3) in
  (* what the entry is expected to do; the store is printed below, from the machine's message list *)
  let expect_store =
    match k, pc with
    | M.Op (j, n), 0 ->
      let n = max 1 (int_of_nat n) in
      bump st_ops ti;
      let granted = int_of_nat th'.M.pc3 = 2 in
      let pos = int_of_nat th.M.pos3 in
      Printf.bprintf out "op %s %d from=%d" (tname t) n (pos - len);
      if t = M.TC then begin
        if granted then begin
          let bits = String.init n (fun i -> if Hashtbl.mem cs.edited (pos + i) then '1' else '0') in
          let e = String.fold_left (fun a ch -> if ch = '1' then a + 1 else a) 0 bits in
          st_items_edited := !st_items_edited + e; st_items_unedited := !st_items_unedited + n - e;
          if e < n then cs.feat.(3) <- true;
          if e > 0 && e < n then (incr st_mixed; cs.feat.(4) <- true);
          Printf.bprintf out " edited=%s" bits
        end else Printf.bprintf out " edited=-"
      end;
      Printf.bprintf out "\n";
      if n > int_of_nat th.M.ca3 then begin
        let (m, stale, differs) = load j in
        let rd = int_of_nat m.M.mval3 and ix = int_of_nat th.M.ix3 in
        if avail len t ix rd <> int_of_nat th'.M.ca3 then die "value read disagrees with the machine's availability";
        note_load cs ti ~stale ~differs ~granted;
        Printf.bprintf out "ev %s ld %s %d\n" (tname t) (tname f) rd;
        (* refused although the followed thread's LOCAL index would have allowed it: it is detached and has not published *)
        let ft = thr c f in
        if not granted && ft.M.det3 && avail len t ix (int_of_nat ft.M.ix3) >= n then (bump st_blocked ti; cs.feat.(11) <- true)
      end else bump st_cached ti;
      if granted then note_grant ti len (int_of_nat th.M.ix3) n;
      if granted && (int_of_nat th'.M.cnt3 <> n || int_of_nat th'.M.off3 <> 0) then die "granted window is not the request";
      Printf.bprintf out "res %s %d\n" (tname t) (if granted then 1 else 0);
      false
    | M.Op _, 2 ->
      let p = int_of_nat th.M.pos3 + int_of_nat th.M.off3 in
      let slot = M.wadd (nat_of_int len) th.M.ix3 th.M.off3 in
      if int_of_nat slot <> p mod len then die "slot of a position";
      (match t with
       | M.TW ->
         let mt = M.nth slot c.M.metas3 M.dmeta3 in
         if mt.M.wt <> M.TP || int_of_nat mt.M.wpos3 <> p then die "the worker edits an item that is not the producer's";
         if Hashtbl.mem cs.edited p then die "the worker edits a position twice";
         Hashtbl.replace cs.edited p ()
       | M.TC ->
         let mt = M.nth slot c.M.metas3 M.dmeta3 in
         let e = Hashtbl.mem cs.edited p in
         if int_of_nat mt.M.wpos3 <> p || mt.M.wt <> (if e then M.TW else M.TP) then
           die "edited-bookkeeping disagrees with the machine's last writer of the slot"
       | M.TP -> ());
      false
    | M.Op _, 3 ->
      if t = M.TC then cs.consumed <- cs.consumed + int_of_nat th.M.cnt3;
      if int_of_nat th'.M.pos3 <> int_of_nat th.M.pos3 + int_of_nat th.M.cnt3 then die "operation end: position";
      if t <> M.TP && th.M.det3 then (bump st_local ti; cs.feat.(if t = M.TW then 0 else 7) <- true);
      t = M.TP || not th.M.det3
    | M.Op _, 5 ->
      if t = M.TP then die "producer at pc 5";
      if th'.M.ix3 <> th.M.nix3 || th'.M.pos3 <> th.M.npos3 || int_of_nat th'.M.ca3 <> 0 then die "reset did not jump";
      if List.length (msgs c f) > cs.pending_reset.(ti) then bump st_resets_race ti;
      not th.M.det3
    | M.Op _, _ -> die "resting pc"
    | M.Reset j, 0 when t <> M.TP ->
      let (m, stale, differs) = load j in
      if int_of_nat th'.M.pc3 <> 5 || th'.M.nix3 <> m.M.mval3 || th'.M.npos3 <> m.M.mabs3 then die "reset load disagrees";
      let skip = int_of_nat m.M.mabs3 - int_of_nat th.M.pos3 in
      if skip < 0 then die "reset goes backwards";
      if skip >= len then die "reset jumps a whole ring";
      cs.pending_reset.(ti) <- List.length (msgs c f);
      bump st_resets ti; if th.M.det3 then bump st_resets_det ti;
      cs.feat.(if t = M.TW then 1 else 5) <- true;
      if t = M.TC && th.M.det3 then cs.feat.(14) <- true;
      if skip > 0 then (bump st_resets_skip ti; st_resets_items.(ti) <- st_resets_items.(ti) + skip; cs.feat.(if t = M.TW then 2 else 6) <- true);
      if stale then (bump st_resets_stale ti; cs.feat.(10) <- true);
      note_load cs ti ~stale ~differs ~granted:false;
      Printf.bprintf out "cmd %s reset\nev %s ld %s %d\njump %s %d\n" (tname t) (tname t) (tname f) (int_of_nat m.M.mval3)
        (tname t) (int_of_nat m.M.mabs3 - len);
      false
    | M.Detach, 0 when t <> M.TP ->
      if th.M.det3 then die "detach while detached is not generated";
      bump st_detach ti;
      Printf.bprintf out "cmd %s detach\n" (tname t); false
    | M.Attach, 0 when t <> M.TP ->
      if th.M.det3 then bump st_attach ti else bump st_attach_att ti;
      if th'.M.det3 then die "attach leaves the thread detached";
      Printf.bprintf out "cmd %s attach\n" (tname t); true
    | M.Sync, 0 when t <> M.TP ->
      if th.M.det3 then bump st_sync ti else bump st_sync_att ti;
      if th'.M.det3 <> th.M.det3 then die "sync changes the mode";
      Printf.bprintf out "cmd %s sync\n" (tname t); true
    | _ -> die "a command outside pc 0 / for the producer is not generated" in
  if stored <> (if expect_store then 1 else 0) then die "unexpected number of messages appended";
  if stored = 1 then begin
    let m = last (msgs c' t) in
    if m.M.mval3 <> th'.M.ix3 || m.M.mabs3 <> th'.M.pos3 then die "published value is not the local index";
    if int_of_nat m.M.mval3 <> int_of_nat m.M.mabs3 mod len then die "published index is not the position modulo len";
    incr st_events; bump st_stores ti;
    Printf.bprintf out "ev %s st %s %d\n" (tname t) (tname t) (int_of_nat m.M.mval3)
  end;
  c'

let gen_case out k maxlen =
  let len = range 2 maxlen in
  let steps = range 50 200 in
  let wt = [| range 1 3; range 1 3; range 1 3 |] in          (* thread weights *)
  let tids = [| M.TP; M.TW; M.TC |] in
  let pick_thread () =
    let x = rnd (wt.(0) + wt.(1) + wt.(2)) in
    if x < wt.(0) then M.TP else if x < wt.(0) + wt.(1) then M.TW else M.TC in
  (* command weights out of 40 for a worker / consumer at pc 0; 0 = the thread never resets / never detaches in this case *)
  let w () = match rnd 5 with 0 -> 0 | _ -> range 1 4 in
  let rs = [| 0; w (); w () |] and dt = [| 0; w (); w () |] in
  let odd = rnd 3 = 0 in                                      (* Sync / Attach while attached *)
  Printf.bprintf out "case %d kind=3x len=%d\n" k len;
  let cs = { edited = Hashtbl.create 64; feat = Array.make (Array.length features) false; consumed = 0;
             pending_reset = [| 0; 0; 0 |]; script = [] } in
  let c = ref (M.init3_x (nat_of_int len)) and prev = ref M.TP and refused = ref false in
  (* what the thread would get if it read the newest message of the index it follows *)
  let room t =
    let th = thr !c t in
    avail len t (int_of_nat th.M.ix3) (int_of_nat (last (msgs !c (follows t))).M.mval3) in
  let unpublished t = let th = thr !c t in th.M.det3 && int_of_nat th.M.pos3 > int_of_nat (last (msgs !c t)).M.mabs3 in
  let able t = int_of_nat (thr !c t).M.pc3 <> 0 || room t > 0 || unpublished t in
  for _ = 1 to steps do
    (* bursts (the followed index moves several times between two loads); after a refusal mostly the thread that has
       to move first (the followed one) or one that can move, sometimes any; half of the fresh choices go to a thread
       that can make progress *)
    let some_able t = match List.filter able [M.TP; M.TW; M.TC] with [] -> t | l -> List.nth l (rnd (List.length l)) in
    let t =
      if !refused then (match rnd 8 with 0 -> !prev | 1 -> tids.(rnd 3) | 2 | 3 | 4 -> follows !prev | _ -> some_able (follows !prev))
      else if rnd 3 > 0 then !prev
      else begin
        let t = pick_thread () in
        if able t || rnd 2 = 0 then t else some_able t
      end in
    prev := t;
    let th = thr !c t in
    let op () =
      (* requested count: the whole ring (never granted), anything, or (half of the time) something that fits *)
      let n = if rnd 12 = 0 then len else if rnd 2 = 0 && room t > 0 then range 1 (room t) else range 1 (len - 1) in
      M.Op (nat_of_int (choice (List.length (msgs !c (follows t)))), nat_of_int n) in
    let k =
      if t = M.TP || int_of_nat th.M.pc3 <> 0 then op ()
      else begin
        let ti = tnum t in
        let x = rnd 40 in
        (* a worker with items in front of it resets a little more often: those items reach the consumer unedited *)
        let r = if t = M.TW && rs.(ti) > 0 && room t > 0 then rs.(ti) + 2 else rs.(ti) in
        if x < r then M.Reset (nat_of_int (choice (List.length (msgs !c (follows t)))))
        else if th.M.det3 then begin
          (* a detached thread that holds up its reader publishes sooner *)
          let hold = unpublished t && room (reader t) = 0 in
          if x < r + 2 then M.Attach
          else if x < r + (if hold then 14 else 6) then M.Sync
          else op ()
        end
        else if x < r + dt.(ti) then M.Detach
        else if odd && x = 39 then (if rnd 2 = 0 then M.Sync else M.Attach)
        else op ()
      end in
    let c' = step out len cs !c (t, k) in
    refused := (match k with M.Op _ -> int_of_nat th.M.pc3 = 0 && int_of_nat (thr c' t).M.pc3 = 0 | _ -> false);
    c := c'
  done;
  (* every thread completes the operation (or reset) it is in; a detached thread attaches half of the time *)
  List.iter (fun t -> while int_of_nat (thr !c t).M.pc3 <> 0 do c := step out len cs !c (t, M.Op (M.O, M.S M.O)) done) [M.TP; M.TW; M.TC];
  List.iter (fun t -> if (thr !c t).M.det3 && rnd 2 = 0 then c := step out len cs !c (t, M.Attach)) [M.TW; M.TC];
  (* the whole script at once gives the same configuration *)
  if M.exec3_a true true true (nat_of_int len) (M.init3_x (nat_of_int len)) (List.rev cs.script) <> !c then die "exec3_a disagrees with the steps";
  let c = !c in
  if c.M.w3.M.det3 || c.M.c3.M.det3 then cs.feat.(13) <- true;
  if (cs.feat.(0) || cs.feat.(1)) && (cs.feat.(5) || cs.feat.(7)) then cs.feat.(12) <- true;
  Array.iteri (fun i b -> if b then bump st_feat i) cs.feat;
  if c.M.race3 then incr st_race;
  let pw = int_of_nat (M.publishedW3 c) and pc = int_of_nat (M.publishedC3 c) in
  if pw mod len <> int_of_nat (last c.M.mwi3).M.mval3 || pc mod len <> int_of_nat (last c.M.mci3).M.mval3 then die "published position";
  if int_of_nat (M.publishedP3 c) <> int_of_nat c.M.p3.M.pos3 then die "the producer always publishes";
  if not (pc <= int_of_nat c.M.c3.M.pos3 && int_of_nat c.M.c3.M.pos3 <= pw && pw <= int_of_nat c.M.w3.M.pos3
          && int_of_nat c.M.w3.M.pos3 <= int_of_nat c.M.p3.M.pos3 && int_of_nat c.M.p3.M.pos3 < pc + len) then die "stage order";
  let b x = if x then 1 else 0 in
  Printf.bprintf out "final prod_idx=%d work_idx=%d cons_idx=%d work_local=%d work_detached=%d cons_local=%d cons_detached=%d consumed=%d race=%d\nend\n"
    (int_of_nat c.M.p3.M.ix3) (int_of_nat (last c.M.mwi3).M.mval3) (int_of_nat (last c.M.mci3).M.mval3)
    (int_of_nat c.M.w3.M.ix3) (b c.M.w3.M.det3) (int_of_nat c.M.c3.M.ix3) (b c.M.c3.M.det3) cs.consumed (b c.M.race3)

let summary kind =
  let e = Printf.eprintf in
  e "concmodel3x %s: %d cases, %d script entries, %d events, %d cases with race flag\n" kind !st_cases !st_entries !st_events !st_race;
  List.iter (fun (nm, i) ->
      e "  %s: ops=%d granted=%d (from remembered availability, no load: %d; window wraps: %d) loads=%d stale=%d (value differs from the newest: %d) granted-on-stale=%d stores=%d\n"
        nm st_ops.(i) st_granted.(i) st_cached.(i) st_wraps.(i) st_loads.(i) st_stale.(i) st_old.(i) st_stalegrant.(i) st_stores.(i))
    ["P", 0; "W", 1; "C", 2];
  e "  granted window sizes 1..7,8+:";
  for i = 1 to 8 do e " %d" st_win.(i) done;
  e "\n";
  List.iter (fun (nm, i) ->
      e "  %s: resets=%d (detached: %d, stale load: %d, skipping >0 items: %d = %d items, stores of the followed thread between load and store: %d)\n"
        nm st_resets.(i) st_resets_det.(i) st_resets_stale.(i) st_resets_skip.(i) st_resets_items.(i) st_resets_race.(i);
      e "     detached phases=%d attach=%d sync=%d local ops=%d; while attached: sync=%d attach=%d; refusals of its reader only due to its unpublished local index=%d\n"
        st_detach.(i) st_attach.(i) st_sync.(i) st_local.(i) st_sync_att.(i) st_attach_att.(i) st_blocked.(tnum (reader (if i = 1 then M.TW else M.TC))))
    ["W", 1; "C", 2];
  e "  items granted to the consumer: edited=%d unedited=%d; windows mixing both=%d\n" !st_items_edited !st_items_unedited !st_mixed;
  e "  cases with:\n";
  Array.iteri (fun i nm -> e "    %-58s %d\n" nm st_feat.(i)) features

let () =
  match Array.to_list Sys.argv with
  | _ :: ("gen" as kind) :: s :: count :: rest ->
    let maxlen = match rest with m :: _ -> max 2 (int_of_string m) | [] -> 5 in
    seed (int_of_string s);
    let out = Buffer.create 65536 in
    for k = 0 to int_of_string count - 1 do
      gen_case out k maxlen;
      incr st_cases;
      print_string (Buffer.contents out); Buffer.clear out
    done;
    summary kind
  | _ -> prerr_endline "usage: concmodel3x gen <seed> <count> [<maxlen>]"; exit 2
