(* Driver for the extracted model: reads history files, prints one observation line per step.
   The Rust harness (harness/src/bin/seqrun.rs) prints the same lines for the real crate; a diff of the
   two outputs is the correspondence check. Only parsing and printing live here. *)
open Model

let rec nat_of_int i = if i <= 0 then O else S (nat_of_int (i - 1))
let rec int_of_nat = function O -> 0 | S n -> 1 + int_of_nat n

let rec pos_of_int i =
  if i = 1 then XH else if i land 1 = 0 then XO (pos_of_int (i lsr 1)) else XI (pos_of_int (i lsr 1))
let n_of_int i = if i = 0 then N0 else Npos (pos_of_int i)
let rec int_of_pos = function XH -> 1 | XO p -> 2 * int_of_pos p | XI p -> 2 * int_of_pos p + 1
let int_of_n = function N0 -> 0 | Npos p -> int_of_pos p

let stage_of = function
  | "P" -> P | "W" -> W | "C" -> C | s -> failwith ("stage " ^ s)

let ints s = if s = "-" then [] else List.map int_of_string (String.split_on_char ',' s)
let cells s = List.map n_of_int (ints s)

(* history-file operation names -> model operations (several API methods share one model function) *)
let parse_op (l : string) : op =
  let w = List.filter (fun x -> x <> "") (String.split_on_char ' ' l) in
  let nat s = nat_of_int (int_of_string s) and cell s = n_of_int (int_of_string s) in
  match w with
  | ["avail"; k] -> Avail (stage_of k)
  | ["adv"; k; n] ->
    (* `adv <k> =<n>` (directly after `avail <k>`): the harness advances by what the crate itself answered; <n> is the Model's answer *)
    let n = if String.length n > 0 && n.[0] = '=' then String.sub n 1 (String.length n - 1) else n in
    Advance (stage_of k, nat n)
  | ["get1"; k] -> GetOne (stage_of k)
  | ["nextitem"] -> GetOne P                       (* ProdIter::get_next_item_mut *)
  | ["peek"] -> GetOne C                           (* ConsIter::peek_ref *)
  | ["getn"; k; n] -> GetExact (stage_of k, nat n)
  | ["nextslices"; n] -> GetExact (P, nat n)       (* ProdIter::get_next_slices_mut *)
  | ["peekslice"; n] -> GetExact (C, nat n)        (* ConsIter::peek_slice *)
  | ["getavail"; k] -> GetAvail (stage_of k)
  | ["getmult"; k; r] -> GetMult (stage_of k, nat r)
  | ["poke"; k; off; v] -> Poke (stage_of k, nat off, cell v)
  | ["pokeinit"; k; off; v] -> PokeInit (stage_of k, nat off, cell v)
  | ["edit"; k; off; d] -> Edit (stage_of k, nat off, cell d)
  | ["push"; v] -> Push (cell v)
  | ["pushinit"; v] -> PushInit (cell v)
  | ["pushslice"; vs] -> PushSlice (cells vs)
  | ["pushsliceinit"; vs] -> PushSliceInit (cells vs)
  | ["pushclone"; vs] -> PushSliceClone (cells vs)
  | ["pushcloneinit"; vs] -> PushSliceCloneInit (cells vs)
  | ["nextinit"] -> NextItemInit
  | ["peekavail"] -> PeekAvail
  | ["pop"] -> Pop
  | ["popmove"] -> PopMove
  | ["copyitem"] -> CopyItem
  | ["cloneitem"] -> CloneItem
  | ["copyslice"; n] -> CopySlice (nat n)
  | ["cloneslice"; n] -> CloneSlice (nat n)
  | ["reset"; k] -> Reset (stage_of k)
  | ["detach"; k] -> Detach (stage_of k)
  | ["attach"; k] -> Attach (stage_of k)
  | ["sync"; k] -> Sync (stage_of k)
  | ["setindex"; k; i] -> SetIndex (stage_of k, nat i)
  | ["goback"; k; n] -> GoBack (stage_of k, nat n)
  | ["dreset"; k] -> DReset (stage_of k)
  | ["drop"; k] -> DropIter (stage_of k)
  | ["dropbuf"] -> DropBuf
  | ["resplit"; "2"] -> Resplit false
  | ["resplit"; "3"] -> Resplit true
  | _ -> failwith ("cannot parse op: " ^ l)

let vmem = ref false
let str_list l = "[" ^ String.concat "," (List.map (fun v -> string_of_int (int_of_n v)) l) ^ "]"

let str_out = function
  | OUnit -> "unit"
  | ONum n -> "num " ^ string_of_int (int_of_nat n)
  | ONone -> "none"
  | OOk -> "ok"
  | OErr v -> "err " ^ string_of_int (int_of_n v)
  | ORef (off, v) -> Printf.sprintf "ref %d %d" (int_of_nat off) (int_of_n v)
  | OVal v -> "val " ^ string_of_int (int_of_n v)
  | OSlices (off, h, t) ->
    (* vmem: one contiguous slice through the mirror instead of two *)
    if !vmem then Printf.sprintf "slices %d %s []" (int_of_nat off) (str_list (h @ t))
    else Printf.sprintf "slices %d %s %s" (int_of_nat off) (str_list h) (str_list t)
  | ODst vs -> "dst " ^ str_list vs
  | OPanic -> "panic"
  | OPending -> "pending"
  | OBad -> "bad"

let str_lev = function
  | LTake v -> Some ("take" ^ string_of_int (int_of_n v))
  | LGive v -> Some ("give" ^ string_of_int (int_of_n v))
  | LMake v -> Some ("make" ^ string_of_int (int_of_n v))
  | LDrop v -> Some ("drop" ^ string_of_int (int_of_n v))
  | LDup v -> Some ("dup" ^ string_of_int (int_of_n v))
  | LLost _ -> None                      (* a leak is not observable when it happens; see the final `live` line *)
  | LZeroDrop -> Some "zerodrop"
  | LZeroRead -> Some "zeroread"


(* ---------- atomic-event traces (suite S-ev): rendered exactly like harness/src/lib.rs::render_events ---------- *)
let ord_name = function Relaxed -> "rlx" | Acquire -> "acq" | Release -> "rel" | AcqRel -> "acqrel" | SeqCst -> "seqcst"
let loc_name = function LIdx P -> "P" | LIdx W -> "W" | LIdx C -> "C" | LAlive -> "A"
let str_aev = function
  | ELoad (l, o, v) -> Printf.sprintf "ld:%s:%s:%d" (loc_name l) (ord_name o) (int_of_nat v)
  | EStore (l, o, v) -> Printf.sprintf "st:%s:%s:%d" (loc_name l) (ord_name o) (int_of_nat v)
  | ERmwAnd (l, o, v) -> Printf.sprintf "and:%s:%s:%d" (loc_name l) (ord_name o) (int_of_nat v)
  | ERmwOr (l, o, v) -> Printf.sprintf "or:%s:%s:%d" (loc_name l) (ord_name o) (int_of_nat v)
  | EFence o -> "fence:" ^ ord_name o
  | EFree -> "free"
let str_trace m o = String.concat "," (List.map str_aev (trace strong_profile m o))
(* a local buffer has plain cells instead of atomics; the fences of BufRef::set_*_alive and the release remain *)
let str_trace_local m o =
  String.concat "," (List.map str_aev (List.filter (function EFence _ | EFree -> true | _ -> false) (trace strong_profile m o)))

let b2s b = if b then "1" else "0"

let obs (s : mstate) : string =
  if s.freed then "ix=-,-,- | pub=-,-,- | alive=--- | ca=-,-,- | freed=1"
  else begin
    let any = s.its.tP.here || s.its.tW.here || s.its.tC.here in
    let f it g = if it.here then string_of_int (int_of_nat (g it)) else "-" in
    let ixs = Printf.sprintf "%s,%s,%s" (f s.its.tP (fun i -> i.ix)) (f s.its.tW (fun i -> i.ix)) (f s.its.tC (fun i -> i.ix)) in
    let cas = Printf.sprintf "%s,%s,%s" (f s.its.tP (fun i -> i.ca)) (f s.its.tW (fun i -> i.ca)) (f s.its.tC (fun i -> i.ca)) in
    let pubs = if any then Printf.sprintf "%d,%d,%d" (int_of_nat s.pub.tP) (int_of_nat s.pub.tW) (int_of_nat s.pub.tC) else "-,-,-" in
    let al = if any then b2s s.flag.tP ^ b2s s.flag.tW ^ b2s s.flag.tC else "---" in
    Printf.sprintf "ix=%s | pub=%s | alive=%s | ca=%s | freed=0" ixs pubs al cas
  end

(* cfg kind=conc store=heap stages=3 item=plain init=1,2,3 *)
let parse_cfg (l : string) : config =
  let kv = List.filter_map (fun w -> match String.index_opt w '=' with
      | Some i -> Some (String.sub w 0 i, String.sub w (i + 1) (String.length w - i - 1))
      | None -> None) (String.split_on_char ' ' l) in
  let get k = List.assoc k kv in
  { c_init = cells (get "init"); c_worker = (get "stages" = "3");
    c_heap = (get "store" = "heap"); c_owned = (let i = get "item" in String.length i >= 5 && String.sub i 0 5 = "owned") }

let conc = ref false
let is_conc (l : string) = List.exists (fun w -> w = "kind=conc" || w = "kind=async") (String.split_on_char ' ' l)
let run_file (path : string) =
  let ic = open_in path in
  let cur : mstate option ref = ref None in
  let lost = ref [] in
  let finish () =
    (match !cur with
     | Some s ->
       let inslots = if s.freed then [] else List.filter (fun v -> v <> N0) s.slots in
       let live = List.sort compare (List.map int_of_n (if s.owned then inslots @ !lost else [])) in
       Printf.printf "live=[%s]\n" (String.concat "," (List.map string_of_int live));
       if !vmem then print_endline "maps=0"      (* both views are unmapped once the buffer is gone *)
     | None -> ());
    cur := None; lost := [] in
  (try
     while true do
       let l = String.trim (input_line ic) in
       if l = "" || l.[0] = '#' then (if l <> "" then (finish (); print_endline l))
       else if String.length l > 3 && String.sub l 0 3 = "cfg" then begin
         finish ();
         conc := is_conc l;
         vmem := List.mem "vmem=1" (String.split_on_char ' ' l);
         match init (parse_cfg l) with
         | None -> print_endline "init panic"
         | Some s -> cur := Some s; print_endline ("init ok | " ^ obs s ^ " | ev= | at=")
       end else
         match !cur with
         | None -> print_endline "skip"
         | Some s ->
           let op = parse_op l in
           let (s', (o, evs)) = step s op in
           List.iter (function LLost v -> lost := v :: !lost | _ -> ()) evs;
           let es = List.sort compare (List.filter_map str_lev evs) in
           Printf.printf "%s | %s | ev=%s | at=%s\n" (str_out o) (obs s') (String.concat "," es) (if !conc then str_trace s op else str_trace_local s op);
           cur := Some s'
     done
   with End_of_file -> ());
  finish ();
  close_in ic



(* ---------- the Spec as an oracle: same lines, computed from positions; `ca` is not part of it ---------- *)
let rec nat_mod a b = if b = 0 then 0 else a mod b
let sobs (a : pipe) : string =
  if a.sfreed then "ix=-,-,- | pub=-,-,- | alive=--- | freed=1"
  else begin
    let len = int_of_nat a.slen in
    let any = a.shere.tP || a.shere.tW || a.shere.tC in
    let f h p = if h then string_of_int (nat_mod (int_of_nat p) len) else "-" in
    let ixs = Printf.sprintf "%s,%s,%s" (f a.shere.tP a.lpos.tP) (f a.shere.tW a.lpos.tW) (f a.shere.tC a.lpos.tC) in
    let pubs = if any then Printf.sprintf "%d,%d,%d" (nat_mod (int_of_nat a.ppos.tP) len) (nat_mod (int_of_nat a.ppos.tW) len) (nat_mod (int_of_nat a.ppos.tC) len) else "-,-,-" in
    let al = if any then b2s a.sflag.tP ^ b2s a.sflag.tW ^ b2s a.sflag.tC else "---" in
    Printf.sprintf "ix=%s | pub=%s | alive=%s | freed=0" ixs pubs al
  end

(* prints, per step: "<ok?> <result> | <obs> | ev=..." ; ok? is '+' while the history respects the contract, '!' after *)
let spec_file (path : string) =
  let ic = open_in path in
  let cur : pipe option ref = ref None in
  let okf = ref true in
  (try
     while true do
       let l = String.trim (input_line ic) in
       if l = "" then ()
       else if l.[0] = '#' then print_endline l
       else if String.length l > 3 && String.sub l 0 3 = "cfg" then begin
         okf := true;
         vmem := List.mem "vmem=1" (String.split_on_char ' ' l);
         match a_init (parse_cfg l) with
         | None -> cur := None; print_endline "+ init panic"
         | Some a -> cur := Some a; print_endline ("+ init ok | " ^ sobs a ^ " | ev=")
       end else
         match !cur with
         | None -> print_endline "+ skip"
         | Some a ->
           let o = parse_op l in
           if not (ok_op a o) then okf := false;
           let (a', (r, evs)) = sstep a o in
           let es = List.sort compare (List.filter_map str_lev evs) in
           Printf.printf "%s %s | %s | ev=%s\n" (if !okf then "+" else "!") (str_out r) (sobs a') (String.concat "," es);
           cur := Some a'
     done
   with End_of_file -> ());
  close_in ic


(* ---------- async histories: `hold <op>`, `repoll K`, `dropfut K`, `task n`, futures polled once, direct methods ---------- *)
let parse_aop (s : astate) (l : string) : aop =
  let w = List.filter (fun x -> x <> "") (String.split_on_char ' ' l) in
  match w with
  | "hold" :: rest -> AHold (parse_op (String.concat " " rest))
  | ["repoll"; k] -> ARepoll (stage_of k)
  | ["dropfut"; k] -> ADropFut (stage_of k)
  | ["task"; n] -> ASetTask (nat_of_int (int_of_string n))
  | ["rewrap"; k] -> ARewrap (stage_of k)
  | _ -> let o = parse_op l in (match future_of o with Some _ -> APoll o | None -> ADirect o)

let aobs (s : astate) : string =
  let m = s.base in
  let o = obs m in
  let f k = if m.freed || not (it_of k m).here then "-" else (match tget k s.wk with Some t -> string_of_int (int_of_nat t) | None -> "-") in
  Printf.sprintf "%s | wk=%s,%s,%s | wakes=%d" o (f P) (f W) (f C) (int_of_nat s.wakes)

let arun_file (path : string) =
  let ic = open_in path in
  let cur : astate option ref = ref None in
  let lost = ref [] in
  let finish () =
    (match !cur with
     | Some s -> let m = s.base in
       let inslots = if m.freed then [] else List.filter (fun v -> v <> N0) m.slots in
       let live = List.sort compare (List.map int_of_n (if m.owned then inslots @ !lost else [])) in
       Printf.printf "live=[%s]\n" (String.concat "," (List.map string_of_int live));
       if !vmem then print_endline "maps=0"      (* both views are unmapped once the buffer is gone *)
     | None -> ());
    cur := None; lost := [] in
  (try
     while true do
       let l = String.trim (input_line ic) in
       if l = "" || l.[0] = '#' then (if l <> "" then (finish (); print_endline l))
       else if String.length l > 3 && String.sub l 0 3 = "cfg" then begin
         finish ();
         vmem := List.mem "vmem=1" (String.split_on_char ' ' l);
         match init (parse_cfg l) with
         | None -> print_endline "init panic"
         | Some m -> let s = a_init_state m in cur := Some s; print_endline ("init ok | " ^ aobs s ^ " | ev= | at=")
       end else
         match !cur with
         | None -> print_endline "skip"
         | Some s ->
           (* program order of one poll: attempt, registration (Waker clones), second attempt *)
           let regs_of (s : astate) k = (match tget k s.wk with Some t when t <> s.task -> ["reg"; "reg"] | _ -> ["reg"]) in
           let poll_trace (s : astate) k f =
             let (m1, (x1, _)) = step s.base f in
             if refused x1 then
               String.concat "," (List.filter (fun x -> x <> "") ([str_trace s.base f] @ regs_of s k @ [str_trace m1 f]))
             else str_trace s.base f in
           let at_of (s : astate) aop o = (match aop with
               | ADirect d -> if o = OBad then "" else str_trace s.base d
               | APoll f | AHold f -> if o = OBad then "" else (match future_of f with Some k -> poll_trace s k f | None -> "")
               | ARepoll k -> (match tget k s.held with Some f -> poll_trace s k f | None -> "")
               | _ -> "") in
           let is_inj = String.length l > 4 && String.sub l 0 4 = "inj " in
           let (s', o, evs, at, res) =
             if is_inj then begin
               (* `inj <poll> | <step of another stage>`: the other stage acts inside the polling task's Waker::clone (Async.astep_inj) *)
               let body = String.sub l 4 (String.length l - 4) in
               let bar = String.index body '|' in
               let aop = parse_aop s (String.trim (String.sub body 0 bar)) in
               let d = parse_aop s (String.trim (String.sub body (bar + 1) (String.length body - bar - 1))) in
               let ((s', (o, evs)), xi) = astep_inj s aop d in
               let fk = (match aop with
                   | APoll f | AHold f -> (match future_of f with Some k -> Some (k, f) | None -> None)
                   | ARepoll k -> (match tget k s.held with Some f -> Some (k, f) | None -> None)
                   | _ -> None) in
               let at = (match fk, xi with
                   | Some (k, f), Some x ->
                     let (m1, _) = step s.base f in
                     let s1 = register k (set_base m1 s) in
                     let (si, _) = astep s1 d in
                     let regs = regs_of s k in
                     String.concat "," (List.filter (fun x -> x <> "") ([str_trace s.base f; List.hd regs; at_of s1 d x] @ List.tl regs @ [str_trace si.base f]))
                   | Some (k, f), None -> if o = OBad then "" else str_trace s.base f
                   | None, _ -> "") in
               (s', o, evs, at, str_out o ^ " inj:" ^ (match xi with Some x -> str_out x | None -> "-"))
             end else begin
               let aop = parse_aop s l in
               let (s', (o, evs)) = astep s aop in
               (s', o, evs, at_of s aop o, str_out o)
             end in
           List.iter (function LLost v -> lost := v :: !lost | _ -> ()) evs;
           let es = List.sort compare (List.filter_map str_lev evs) in
           (* oracle for C15: which kept futures would complete if polled now *)
           let sat k = (match tget k s'.held with
               | Some _ -> (match astep s' (ARepoll k) with (_, (OPending, _)) -> "0" | _ -> "1")
               | None -> "-") in
           Printf.printf "%s | %s | ev=%s | at=%s ## sat=%s%s%s\n" res (aobs s') (String.concat "," es) at (sat P) (sat W) (sat C);
           cur := Some s'
     done
   with End_of_file -> ());
  finish ();
  close_in ic

(* ------------------------------------------------------------------ generators ------------- *)
let rng = ref 1
let seed_rng s = rng := (s * 2654435761 + 12345) land 0xFFFFFFFFFFFF
let rnd n = (* uniform in 0..n-1, 48-bit LCG, high bits *)
  rng := (!rng * 0x5DEECE66D + 0xB) land 0xFFFFFFFFFFFF;
  if n <= 0 then 0 else (!rng lsr 17) mod n
let pick l = List.nth l (rnd (List.length l))
let chance pct = rnd 100 < pct

let sname = function P -> "P" | W -> "W" | C -> "C"
let csv l = if l = [] then "-" else String.concat "," (List.map string_of_int l)

(* an operation as text plus the same operation for the model; aliases exercise distinct API methods *)
let avail_i k s = int_of_nat (fresh k s)
let len_i s = int_of_nat s.mlen
let ix_i k s = int_of_nat (it_of k s).ix
let pub_i k s = int_of_nat (tget k s.pub)
let dist_i len a b = if a <= b then b - a else len - a + b

(* size of the window a detached iterator may move in, and its current offset inside it *)
let window k s =
  let len = len_i s in
  let total = match k with
    | P -> (let p = pub_i P s and c = pub_i C s in if p < c then c - p - 1 else len - p + c - 1)
    | _ -> dist_i len (pub_i k s) (int_of_nat (succ_idx k s)) in
  (total, dist_i len (pub_i k s) (ix_i k s))

let stages s = List.filter (fun k -> usable k s) [P; W; C]

type genst = { mutable nextv : int }
let last_avail : (stage * int) option ref = ref None

let fresh_vals g n = let l = List.init n (fun i -> g.nextv + i) in g.nextv <- g.nextv + n; l

(* one random, mostly contract-respecting operation (as text) for state s *)
let rec gen_op (g : genst) (s : mstate) : string =
  match !last_avail with
  | Some (k, a) when usable k s && not s.freed && avail_i k s = a && chance 45 ->
    (* the usual `let n = it.available(); it.advance(n)`: the implementation advances by what IT answered *)
    last_avail := None; Printf.sprintf "adv %s =%d" (sname k) a
  | _ ->
    let t = gen_op_plain g s in
    (match String.split_on_char ' ' t with
     | ["avail"; k] when not s.freed && usable (stage_of k) s -> last_avail := Some (stage_of k, avail_i (stage_of k) s)
     | _ -> last_avail := None);
    t
and gen_op_plain (g : genst) (s : mstate) : string =
  let len = len_i s in
  let ks = stages s in
  if s.freed then "avail P"
  else if ks = [] then (if s.heap then "avail P" else pick ["resplit 2"; "resplit 3"; "resplit 3"; "dropbuf"])
  else begin
    let k = pick ks in
    let a = avail_i k s in
    let isdet = (it_of k s).det in
    let small () = if chance 70 then rnd (a + 1) else rnd (len + 2) in
    let owned = s.owned in
    let slot_zero i = (List.nth s.slots i = N0) in
    if isdet then begin
      let (total, off) = window k s in
      match rnd 12 with
      | 0 -> "avail " ^ sname k
      | 1 | 2 -> Printf.sprintf "adv %s %d" (sname k) (if chance 92 then rnd (a + 1) else rnd (len + 1))
      | 3 -> Printf.sprintf "goback %s %d" (sname k) (if chance 92 then rnd (off + 1) else rnd (len + 1))
      | 4 -> let o = if chance 92 then rnd (total + 1) else rnd len in
        Printf.sprintf "setindex %s %d" (sname k) ((pub_i k s + o) mod len)
      | 5 -> if k = P && chance 90 then "sync P" else "dreset " ^ sname k
      | 6 -> "sync " ^ sname k
      | 7 | 8 -> "attach " ^ sname k
      | 9 -> "get1 " ^ sname k
      | 10 -> Printf.sprintf "getn %s %d" (sname k) (small ())
      | _ -> pick ["getavail " ^ sname k; Printf.sprintf "getmult %s %d" (sname k) (rnd 4)]
    end else begin
      let common () =
        match rnd 10 with
        | 0 | 1 -> "avail " ^ sname k
        | 2 -> Printf.sprintf "adv %s %d" (sname k) (if chance 92 then rnd (a + 1) else rnd (len + 1))
        | 3 -> "get1 " ^ sname k
        | 4 -> Printf.sprintf "getn %s %d" (sname k) (small ())
        | 5 -> "getavail " ^ sname k
        | 6 -> Printf.sprintf "getmult %s %d" (sname k) (rnd 4)
        | 7 -> "detach " ^ sname k
        | 8 -> if a > 0 || chance 10 then
            (let off = if a > 0 then rnd a else rnd len in
             let v = List.hd (fresh_vals g 1) in
             if owned then
               (let i = (ix_i k s + off) mod len in
                if slot_zero i = chance 90 then Printf.sprintf "pokeinit %s %d %d" (sname k) off v
                else Printf.sprintf "poke %s %d %d" (sname k) off v)
             else pick [Printf.sprintf "poke %s %d %d" (sname k) off v; Printf.sprintf "edit %s %d %d" (sname k) off (1000 * (1 + rnd 9))])
          else "avail " ^ sname k
        | _ -> if chance 15 then "drop " ^ sname k else "avail " ^ sname k in
      match k with
      | P ->
        (match rnd 14 with
         | 0 | 1 | 2 | 3 ->
           let v = List.hd (fresh_vals g 1) in
           if owned then (if slot_zero (ix_i P s) = chance 92 then Printf.sprintf "pushinit %d" v else Printf.sprintf "push %d" v)
           else pick [Printf.sprintf "push %d" v; Printf.sprintf "push %d" v; Printf.sprintf "pushinit %d" v]
         | 4 | 5 | 6 ->
           (* owned items: never a slice LONGER THAN THE RING - in a state that an earlier contract-breaking `unsafe` call has corrupted such a
              request may be accepted, the stores then visit a slot twice and what the second visit finds depends on the order of the
              crate's per-slot loop, which the Model (all old values, then all new ones) does not claim to describe; within the contract
              a request of `len` items is refused just like a longer one *)
           let n = if owned then min len (small ()) else small () in
           let vs = fresh_vals g n in
           if owned then
             (let anyzero = List.exists (fun j -> slot_zero ((ix_i P s + j) mod len)) (List.init (min n len) (fun j -> j)) in
              if anyzero = chance 92 then "pushcloneinit " ^ csv vs else "pushclone " ^ csv vs)
           else pick ["pushslice " ^ csv vs; "pushslice " ^ csv vs; "pushsliceinit " ^ csv vs; "pushclone " ^ csv vs; "pushcloneinit " ^ csv vs]
         | 7 -> pick ["nextitem"; "nextinit"]
         | 8 -> Printf.sprintf "nextslices %d" (small ())
         | _ -> common ())
      | W ->
        (match rnd 10 with
         | 0 -> "reset W"
         | _ -> common ())
      | C ->
        (match rnd 16 with
         | 0 | 1 -> if owned then pick ["popmove"; "popmove"; "popmove"; "pop"] else pick ["pop"; "popmove"]
         | 2 -> if owned then "cloneitem" else pick ["copyitem"; "cloneitem"]
         | 3 | 4 -> if owned then Printf.sprintf "cloneslice %d" (small ()) else Printf.sprintf "%s %d" (pick ["copyslice"; "cloneslice"]) (small ())
         | 5 -> "peek"
         | 6 -> Printf.sprintf "peekslice %d" (small ())
         | 7 -> "peekavail"
         | 8 -> if chance 50 then "reset C" else "avail C"
         | _ -> common ())
    end
  end

let init_state_of cfg = match init cfg with None -> None | Some m -> Some (a_init_state m)
let lens = [1; 2; 2; 3; 3; 3; 4; 4; 5; 5; 7; 8; 13; 16; 31; 64]

let force_owned = ref false
let gen_cfg_line (g : genst) ~owned_ok : string * config =
  let owned = owned_ok && (!force_owned || chance 35) in
  let kind = pick ["conc"; "local"] and store = pick ["heap"; "stack"] and st = pick [2; 3; 3] in
  let len =
    if owned then (if store = "stack" then pick [1; 2; 3; 3; 4; 5] else pick [1; 2; 3; 3; 4; 5; 8])
    else if store = "stack" then pick [1; 2; 2; 3; 3; 3; 4; 4; 5; 5; 7; 8; 13; 16] else pick lens in
  let ctor, init =
    if owned then
      (match rnd 3 with
       | 0 -> "zeroed", List.init len (fun _ -> 0)
       | 1 -> "from", fresh_vals g len
       | _ -> "from", List.init len (fun _ -> if chance 50 then 0 else List.hd (fresh_vals g 1)))
    else
      (match rnd 3 with
       | 0 -> "zeroed", List.init len (fun _ -> 0)
       | 1 -> "default", List.init len (fun _ -> 0)
       | _ -> "from", fresh_vals g len) in
  let line = Printf.sprintf "cfg kind=%s store=%s stages=%d item=%s ctor=%s init=%s" kind store st
      (if owned then pick ["owned"; "owned24"; "owned4"] else "plain") ctor (csv init) in
  (line, { c_init = List.map n_of_int init; c_worker = (st = 3); c_heap = (store = "heap"); c_owned = owned })

(* model rand <seed> <count> <min_ops> <max_ops> : histories on stdout.
   variants=true: every history is emitted four times, for {conc,local} x {heap,stack} (C13), without drop/resplit operations *)
let gen_rand ?(variants = false) seed count lo hi =
  seed_rng seed;
  for h = 1 to count do
    let g = { nextv = 100 } in
    let (line, cfg) = gen_cfg_line g ~owned_ok:true in
    let (line, cfg) =
      if variants then begin
        let words = String.split_on_char ' ' line in
        let words = List.map (fun w -> if String.length w > 6 && String.sub w 0 6 = "store=" then "store=stack" else w) words in
        let len = List.length cfg.c_init in
        let maxlen = if cfg.c_owned then 5 else 16 in
        let ok = List.mem len [1; 2; 3; 4; 5; 7; 8; 13; 16] && len <= maxlen in
        if ok then (String.concat " " words, { cfg with c_heap = false })
        else begin
          let init = List.filteri (fun i _ -> i < (if cfg.c_owned then 4 else 8)) cfg.c_init in
          let words = List.map (fun w -> if String.length w > 5 && String.sub w 0 5 = "init=" then "init=" ^ csv (List.map int_of_n init) else w) words in
          (String.concat " " words, { cfg with c_heap = false; c_init = init })
        end
      end else (line, cfg) in
    let ops = ref [] in
    (match init cfg with
     | None -> ()
     | Some s0 ->
       let s = ref s0 in
       let n = lo + rnd (hi - lo + 1) in
       (try
          for _ = 1 to n do
            if !s.freed then raise Exit;
            let t = gen_op g !s in
            let w = List.hd (String.split_on_char ' ' t) in
            if not (variants && (w = "drop" || w = "dropbuf" || w = "resplit")) then begin
              ops := t :: !ops;
              let (s', _) = step !s (parse_op t) in
              s := s'
            end
          done
        with Exit -> ()));
    let ops = List.rev !ops in
    if variants then
      List.iter (fun (k, st) ->
          let words = List.map (fun w ->
              if String.length w > 5 && String.sub w 0 5 = "kind=" then "kind=" ^ k
              else if String.length w > 6 && String.sub w 0 6 = "store=" then "store=" ^ st else w) (String.split_on_char ' ' line) in
          Printf.printf "# randv seed=%d n=%d variant=%s/%s\n%s\n" seed h k st (String.concat " " words);
          List.iter print_endline ops) [("conc", "heap"); ("local", "heap"); ("conc", "stack"); ("local", "stack")]
    else begin
      Printf.printf "# rand seed=%d n=%d\n%s\n" seed h line;
      List.iter print_endline ops
    end
  done


(* model life <seed> <count> : lifetime histories (S-ctor): sessions of a few operations, every iterator dropped in a
   random order (also while detached), stack buffers split again (with / without worker) or dropped, all variants,
   constructors from / default / zeroed / from a Vec with spare capacity *)
let shuffle l =
  let a = Array.of_list l in
  for i = Array.length a - 1 downto 1 do
    let j = rnd (i + 1) in let t = a.(i) in a.(i) <- a.(j); a.(j) <- t
  done; Array.to_list a

let gen_life seed count =
  seed_rng seed;
  for h = 1 to count do
    let g = { nextv = 100 } in
    let (line, cfg) = gen_cfg_line g ~owned_ok:true in
    let line = if (not cfg.c_owned) && cfg.c_heap && chance 30 then
        String.concat " " (List.map (fun w -> if String.length w > 5 && String.sub w 0 5 = "ctor=" && w = "ctor=from" then "ctor=fromcap" else w) (String.split_on_char ' ' line))
      else line in
    Printf.printf "# life seed=%d n=%d\n%s\n" seed h line;
    match init cfg with
    | None -> ()
    | Some s0 ->
      let s = ref s0 in
      let emit t = print_endline t; let (s', _) = step !s (parse_op t) in s := s' in
      let sessions = if cfg.c_heap then 1 else 1 + rnd 3 in
      (try
         for sess = 1 to sessions do
           let n = rnd 14 in
           for _ = 1 to n do
             let t = gen_op g !s in
             let w = List.hd (String.split_on_char ' ' t) in
             if w <> "drop" && w <> "dropbuf" && w <> "resplit" then emit t
           done;
           (* drop what exists, in a random order, with an observation in between *)
           let order = shuffle (stages !s) in
           List.iteri (fun i k ->
               emit ("drop " ^ sname k);
               if i < List.length order - 1 && chance 50 then
                 (match stages !s with [] -> () | ks -> emit ("avail " ^ sname (pick ks)));
               (* the remaining iterators go on working after a peer (possibly a detached one with unpublished progress) is gone *)
               if i < List.length order - 1 && chance 60 then
                 for _ = 1 to 1 + rnd 3 do
                   if not !s.freed then begin
                     let t = gen_op g !s in
                     let w = List.hd (String.split_on_char ' ' t) in
                     if w <> "drop" && w <> "dropbuf" && w <> "resplit" then emit t
                   end
                 done) order;
           if !s.freed then raise Exit;
           if not cfg.c_heap then begin
             if sess = sessions then (if chance 50 then emit "dropbuf")
             else begin
               emit (pick ["resplit 2"; "resplit 3"]);
               List.iter (fun k -> emit ("avail " ^ sname k)) (stages !s);
               if chance 70 then emit (pick ["pop"; "peek"; "getavail C"; "get1 W"; Printf.sprintf "pushinit %d" (List.hd (fresh_vals g 1)); "getn P 1"])
             end
           end
         done
       with Exit -> ())
  done


(* the random part of an async history, from state s0 (shared by arand and varand) *)
let arand_body (g : genst) (owned : bool) (s0 : astate) (n : int) (cap : int) =
      let s = ref s0 in
      (try
         for _ = 1 to n do
           let m = !s.base in
           if m.freed then raise Exit;
           let ks = stages m in
           if ks = [] then raise Exit;
           let k = pick ks in
           let heldk = (match tget k !s.held with Some _ -> true | None -> false) in
           let isdet = (it_of k m).det in
           let a = avail_i k m in
           let futop_for k =
             let a = avail_i k m in
             let small () = let v = (if chance 70 then rnd (a + 1) else rnd (len_i m + 2)) in if v > cap && chance 90 then rnd (cap + 1) else v in
             match k with
             | P -> (match rnd 8 with
                 | 0 | 1 | 2 -> Printf.sprintf "push %d" (List.hd (fresh_vals g 1))
                 | 3 | 4 -> let vs = fresh_vals g (if owned then min (len_i m) (small ()) else small ()) in if owned then "pushclone " ^ csv vs else pick ["pushslice " ^ csv vs; "pushclone " ^ csv vs]
                 | 5 -> pick ["nextitem"; "nextinit"; "get1 P"]
                 | 6 -> Printf.sprintf "nextslices %d" (small ())
                 | _ -> pick ["getavail P"; Printf.sprintf "getn P %d" (small ()); Printf.sprintf "getmult P %d" (rnd 4)])
             | W -> pick ["get1 W"; Printf.sprintf "getn W %d" (small ()); "getavail W"; Printf.sprintf "getmult W %d" (rnd 4)]
             | C -> (match rnd 9 with
                 | 0 | 1 -> if owned then "popmove" else pick ["pop"; "popmove"]
                 | 2 -> if owned then "cloneitem" else pick ["copyitem"; "cloneitem"]
                 | 3 -> if owned then Printf.sprintf "cloneslice %d" (small ()) else Printf.sprintf "%s %d" (pick ["copyslice"; "cloneslice"]) (small ())
                 | 4 -> "peek" | 5 -> Printf.sprintf "peekslice %d" (small ()) | 6 -> "peekavail"
                 | _ -> pick ["get1 C"; Printf.sprintf "getn C %d" (small ()); "getavail C"]) in
           let futop () = futop_for k in
           let t =
             if heldk then pick ["repoll " ^ sname k; "repoll " ^ sname k; "dropfut " ^ sname k; Printf.sprintf "task %d" (rnd 3)]
             else if isdet then
               (let (total, off) = window k m in
                match rnd 6 with
                | 0 | 1 -> Printf.sprintf "adv %s %d" (sname k) (rnd (a + 1))
                | 2 -> Printf.sprintf "goback %s %d" (sname k) (rnd (off + 1))
                | 3 -> "sync " ^ sname k
                | 4 when chance 10 -> "drop " ^ sname k      (* a detached async iterator dropped without attach *)
                | _ -> "attach " ^ sname k)
             else match rnd 14 with
               | 13 -> if chance 20 then "drop " ^ sname k else "avail " ^ sname k     (* an async iterator dropped in the middle of the session *)
               | 12 -> "rewrap " ^ sname k       (* into_sync, then from_sync: the same iterator in a fresh wrapper *)
               | 0 -> "avail " ^ sname k
               | 1 -> Printf.sprintf "adv %s %d" (sname k) (rnd (a + 1))
               | 2 -> if k = P then "avail P" else "reset " ^ sname k
               | 3 -> "detach " ^ sname k
               | 4 -> Printf.sprintf "task %d" (rnd 3)
               | 5 | 6 | 7 -> "hold " ^ futop ()
               | 8 -> if a > 0 && not owned then Printf.sprintf "edit %s %d %d" (sname k) (rnd a) (1000 * (1 + rnd 9)) else "avail " ^ sname k
               | _ -> futop () in
           (* a poll (one-shot, kept, or a re-poll) during whose waker registration ANOTHER stage acts: the only way to reach the
              "second attempt succeeds" branch of MRBFuture::poll; candidates that make the refused operation possible are preferred *)
           let is_poll = (match parse_aop !s t with APoll _ | AHold _ | ARepoll _ -> true | _ -> false) in
           let others = List.filter (fun k' -> k' <> k && (match tget k' !s.held with None -> true | Some _ -> false)) ks in
           let t =
             if is_poll && others <> [] && chance 30 then begin
               let cand () =
                 let k' = pick others in
                 if (it_of k' m).det then pick [Printf.sprintf "adv %s %d" (sname k') (rnd (avail_i k' m + 1)); "sync " ^ sname k'; "attach " ^ sname k']
                 else if chance 75 then futop_for k'
                 else pick ["avail " ^ sname k'; Printf.sprintf "adv %s %d" (sname k') (rnd (avail_i k' m + 1)); (if k' = P then "avail P" else "reset " ^ sname k')] in
               let cands = List.init 6 (fun _ -> cand ()) in
               let enabling d = (match astep_inj !s (parse_aop !s t) (parse_aop !s d) with
                   | ((_, (o, _)), Some _) -> o <> OPending && o <> OBad
                   | _ -> false) in
               let d = (match List.filter enabling cands with d :: _ when chance 80 -> d | _ -> List.hd cands) in
               Printf.sprintf "inj %s | %s" t d
             end else t in
           print_endline t;
           let s' =
             if String.length t > 4 && String.sub t 0 4 = "inj " then begin
               let body = String.sub t 4 (String.length t - 4) in
               let bar = String.index body '|' in
               let ((s', _), _) = astep_inj !s (parse_aop !s (String.trim (String.sub body 0 bar)))
                                    (parse_aop !s (String.trim (String.sub body (bar + 1) (String.length body - bar - 1)))) in s'
             end else fst (astep !s (parse_aop !s t)) in
           s := s'
         done
       with Exit -> ())

(* model arand <seed> <count> <min> <max> : async histories (ConcurrentHeapRB through split_async / split_mut_async) *)
let gen_arand seed count lo hi =
  seed_rng seed;
  for h = 1 to count do
    let g = { nextv = 100 } in
    let owned = chance 25 in
    let len = pick [1; 2; 2; 3; 3; 4; 5; 8] in
    let st = pick [2; 3; 3] in
    let init = if owned then fresh_vals g len else (if chance 50 then List.init len (fun _ -> 0) else fresh_vals g len) in
    Printf.printf "# arand seed=%d n=%d\ncfg kind=async store=heap stages=%d item=%s ctor=from init=%s\n" seed h st (if owned then "owned" else "plain") (csv init);
    let cfg = { c_init = List.map n_of_int init; c_worker = (st = 3); c_heap = true; c_owned = owned } in
    match init_state_of cfg with
    | None -> ()
    | Some s0 -> arand_body g owned s0 (lo + rnd (hi - lo + 1)) max_int
  done

(* model varand <seed> <count> <min> <max> : async histories for the vmem + async build: heap buffers of 1-2 pages (4096 items per
   page unit), every iterator first moved next to the physical end through the async wrappers' own `advance`, then the arand operations
   around the seam (the futures of slice operations hand out ONE mirrored slice) *)
let gen_varand seed count lo hi =
  seed_rng seed;
  for h = 1 to count do
    let g = { nextv = 100 } in
    let pages = (match h with 3 -> 3 | 4 -> 2 | _ -> pick [1; 1; 2; 3]) in
    let len = 4096 * pages in
    let st = pick [2; 3; 3] in
    let ctor = pick ["from"; "zeroed"] in
    let init = if ctor = "from" then List.init len (fun i -> 1 + (i mod 250)) else List.init len (fun _ -> 0) in
    Printf.printf "# varand seed=%d n=%d\ncfg kind=async store=heap stages=%d item=plain ctor=%s vmem=1 init=%s\n" seed h st ctor (csv init);
    let cfg = { c_init = List.map n_of_int init; c_worker = (st = 3); c_heap = true; c_owned = false } in
    match init_state_of cfg with
    | None -> ()
    | Some s0 ->
      let s = ref s0 in
      let emit t = print_endline t; s := fst (astep !s (parse_aop !s t)) in
      let boundary = (match h with 3 -> 4096 * (1 + rnd 2) | 4 -> 4096 | _ -> if pages > 1 && chance 40 then 4096 * (1 + rnd (pages - 1)) else len) in
      let near = boundary - 1 - rnd 12 in
      emit (Printf.sprintf "adv P %d" near);
      if st = 3 then emit (Printf.sprintf "adv W %d" near);
      emit (Printf.sprintf "adv C %d" near);
      arand_body g false !s (lo + rnd (hi - lo + 1)) 14
  done


(* model vrand <seed> <count> <min> <max> : histories for the vmem build: heap buffers of 1-3 pages (4096 items per page
   unit), every iterator first moved next to the physical end, then random operations around the seam *)
let gen_vrand seed count lo hi =
  seed_rng seed;
  for h = 1 to count do
    let g = { nextv = 100 } in
    (* the first histories of every run cover the constructor x item-kind combinations; the rest is random *)
    let forced = match h with 1 -> Some (true, "fromcap") | 2 -> Some (true, "from") | 3 -> Some (false, "fromcap") | 4 -> Some (true, "zeroed")
                            | 5 -> Some (false, "default") | 6 -> Some (false, "from") | _ -> None in
    let owned = (match forced with Some (o, _) -> let _ = chance 30 in o | None -> chance 30) in
    let pages = pick [1; 1; 2; 3] in
    (* histories 7-9 of every run: 3 and 2 pages, iterators placed next to an INTERNAL page boundary (index arithmetic at 4096, 8192) *)
    let pages = (match h with 7 | 8 -> 3 | 9 -> 2 | _ -> pages) in
    let len = 4096 * pages in
    let kind = pick ["conc"; "local"] and st = pick [2; 3; 3] in
    (* histories 10-15 of every run: a LOCAL three-stage buffer whose iterators are dropped in each of the six orders *)
    let (kind, st) = if h >= 10 && h <= 15 then ("local", 3) else (kind, st) in
    let item = if owned then pick ["owned"; "owned24"; "owned4"] else "plain" in
    (* owned items: also buffers built from a Vec of live items, with exact and with spare capacity (the vmem constructor copies the
       items into the mapping and must hand each of them over exactly once) *)
    let ctor = if owned then pick ["zeroed"; "zeroed"; "from"; "fromcap"] else pick ["zeroed"; "default"; "from"; "fromcap"] in
    let ctor = (match forced with Some (_, c) -> c | None -> ctor) in
    let init = if ctor = "from" || ctor = "fromcap" then (if owned then fresh_vals g len else List.init len (fun i -> 1 + (i mod 250))) else List.init len (fun _ -> 0) in
    Printf.printf "# vrand seed=%d n=%d\ncfg kind=%s store=heap stages=%d item=%s ctor=%s vmem=1 init=%s\n" seed h kind st item ctor (csv init);
    let cfg = { c_init = List.map n_of_int init; c_worker = (st = 3); c_heap = true; c_owned = owned } in
    match init_state_of cfg with
    | None -> ()
    | Some s0 ->
      let s = ref s0.base in
      let emit t = print_endline t; let (s', _) = step !s (parse_op t) in s := s' in
      (* go next to the seam: leave 1..12 slots before the physical end - or, on a buffer of several pages, before an internal page boundary *)
      let boundary = (match h with 7 -> 4096 | 8 -> 8192 | 9 -> 4096 | _ -> if pages > 1 && chance 40 then 4096 * (1 + rnd (pages - 1)) else len) in
      let near = boundary - 1 - rnd 12 in
      if owned then begin
        (* owned items: fill by slices of clones so that what is published is occupied (K3), then consume *)
        let rec fill k = if k > 0 then (let n = min k 900 in emit ("pushcloneinit " ^ csv (fresh_vals g n)); if st = 3 then emit (Printf.sprintf "adv W %d" n);
                                        emit (Printf.sprintf "cloneslice %d" 0); let rec eat j = if j > 0 then (let m = min j 300 in emit (Printf.sprintf "cloneslice %d" m); eat (j - m)) in eat n; fill (k - n)) in
        fill (min near 1800)
      end else begin
        emit (Printf.sprintf "adv P %d" near);
        if st = 3 then emit (Printf.sprintf "adv W %d" near);
        emit (Printf.sprintf "adv C %d" near)
      end;
      let n = lo + rnd (hi - lo + 1) in
      (try
         for _ = 1 to n do
           if !s.freed then raise Exit;
           let t = gen_op g !s in
           let w = List.hd (String.split_on_char ' ' t) in
           if w <> "resplit" && w <> "dropbuf" && w <> "getmult" then emit t
         done
       with Exit -> ());
      (* the session ends with the iterators that are left dropped in a random order: the release of the mapping (items destroyed once,
         both views unmapped) must not depend on who leaves last *)
      if not !s.freed then begin
        let perms = [| [P; W; C]; [P; C; W]; [W; P; C]; [W; C; P]; [C; P; W]; [C; W; P] |] in
        let left = ref (if h >= 10 && h <= 15 then List.filter (fun k -> List.mem k (stages !s)) perms.(h - 10) else stages !s) in
        while !left <> [] do
          let k = if h >= 10 && h <= 15 then List.hd !left else pick !left in
          left := List.filter (fun x -> x <> k) !left;
          if not !s.freed && usable k !s then emit ("drop " ^ sname k)
        done
      end
  done

(* ---------- exhaustive transition coverage (G-exh) over the index / cache / detached layer ---------- *)
let key (s : mstate) : string = obs s ^ (if s.hasW then "W" else "-")
  ^ String.concat "" (List.map (fun k -> if (it_of k s).det then "d" else "a") [P; W; C])

(* operations explored from a state; values are placeholders (renumbered when a history is printed).
   [true] = contract-respecting (explored further), [false] = leaf (executed once, not expanded). *)
let exh_ops (s : mstate) : (string * bool) list =
  let len = len_i s in
  let r = ref [] in
  let add ?(ok = true) t = r := (t, ok) :: !r in
  if s.freed then []
  else begin
    let ks = stages s in
    if ks = [] && not s.heap then (add "resplit 2"; add "resplit 3"; add ~ok:false "dropbuf");
    List.iter (fun k ->
        let n = sname k in
        let a = avail_i k s in
        let isdet = (it_of k s).det in
        add ("avail " ^ n);
        for c = 0 to len do add ~ok:(c <= a) (Printf.sprintf "adv %s %d" n c) done;
        add ("get1 " ^ n);
        for c = 0 to len + 1 do add (Printf.sprintf "getn %s %d" n c) done;
        add ("getavail " ^ n);
        for c = 0 to 3 do add (Printf.sprintf "getmult %s %d" n c) done;
        add ~ok:false ("drop " ^ n);
        if isdet then begin
          let (total, off) = window k s in
          add ("attach " ^ n); add ("sync " ^ n);
          for c = 0 to len do add ~ok:(c <= off) (Printf.sprintf "goback %s %d" n c) done;
          for i = 0 to len - 1 do
            add ~ok:(dist_i len (pub_i k s) i <= total) (Printf.sprintf "setindex %s %d" n i) done;
          add ~ok:(k <> P) ("dreset " ^ n)
        end else begin
          add ("detach " ^ n);
          (match k with
           | P ->
             add "push 0"; add "pushinit 0"; add "nextitem"; add "nextinit";
             for c = 0 to len + 1 do
               let vs = csv (List.init c (fun _ -> 0)) in
               add ("pushslice " ^ vs); if c = 2 then (add ("pushsliceinit " ^ vs); add ("pushclone " ^ vs); add ("pushcloneinit " ^ vs));
               add (Printf.sprintf "nextslices %d" c) done
           | W -> add "reset W"
           | C ->
             add "pop"; add "popmove"; add "copyitem"; add "cloneitem"; add "peek"; add "peekavail"; add "reset C";
             for c = 0 to len + 1 do
               add (Printf.sprintf "copyslice %d" c); add (Printf.sprintf "peekslice %d" c);
               if c = 2 then add (Printf.sprintf "cloneslice %d" c) done);
          if a > 0 then (add (Printf.sprintf "poke %s %d 0" n (a - 1)); add (Printf.sprintf "edit %s 0 1000" n))
        end) ks;
    List.rev !r
  end

(* replace placeholder values by fresh distinct ones *)
let renumber (g : genst) (t : string) : string =
  match String.split_on_char ' ' t with
  | [("push" | "pushinit") as o; _] -> Printf.sprintf "%s %d" o (List.hd (fresh_vals g 1))
  | [("pushslice" | "pushsliceinit" | "pushclone" | "pushcloneinit") as o; vs] ->
    Printf.sprintf "%s %s" o (csv (fresh_vals g (List.length (ints vs))))
  | ["poke"; k; off; _] -> Printf.sprintf "poke %s %s %d" k off (List.hd (fresh_vals g 1))
  | _ -> t

(* model bfs <maxlen> <limit> : for every reachable (state, op) one history = shortest path ++ [op] *)
let gen_bfs maxlen limit =
  let total_states = ref 0 and total_tr = ref 0 in
  for len = 1 to maxlen do
    List.iter (fun st3 ->
        List.iter (fun heap ->
            let cfg = { c_init = List.init len (fun i -> n_of_int (i + 1)); c_worker = st3; c_heap = heap; c_owned = false } in
            let cfgline kind = Printf.sprintf "cfg kind=%s store=%s stages=%d item=plain ctor=from init=%s" kind
                (if heap then "heap" else "stack") (if st3 then 3 else 2) (csv (List.init len (fun i -> i + 1))) in
            match init cfg with
            | None -> ()
            | Some s0 ->
              let seen = Hashtbl.create 100000 in
              let q = Queue.create () in
              Hashtbl.add seen (key s0) ();
              Queue.add (s0, []) q;
              let emitted = ref 0 in
              while not (Queue.is_empty q) && !emitted < limit do
                let (s, path) = Queue.pop q in
                incr total_states;
                List.iter (fun (t, ok) ->
                    incr total_tr; incr emitted;
                    let g = { nextv = 100 } in
                    Printf.printf "# bfs len=%d stages=%d heap=%b t=%d\n%s\n" len (if st3 then 3 else 2) heap !total_tr
                      (cfgline (if !total_tr land 1 = 0 then "conc" else "local"));
                    List.iter (fun x -> print_endline (renumber g x)) (List.rev (t :: path));
                    if ok then begin
                      let (s', _) = step s (parse_op t) in
                      let k = key s' in
                      if not (Hashtbl.mem seen k) then (Hashtbl.add seen k (); Queue.add (s', t :: path) q)
                    end) (exh_ops s)
              done) [true; false]) [false; true]
  done;
  Printf.eprintf "bfs: states=%d transitions=%d\n" !total_states !total_tr

let () =
  match Array.to_list Sys.argv with
  | _ :: "seq" :: files -> List.iter run_file files
  | _ :: "aseq" :: files -> List.iter arun_file files
  | [_; "arand"; seed; count; lo; hi] -> gen_arand (int_of_string seed) (int_of_string count) (int_of_string lo) (int_of_string hi)
  | [_; "varand"; seed; count; lo; hi] -> gen_varand (int_of_string seed) (int_of_string count) (int_of_string lo) (int_of_string hi)
  | _ :: "spec" :: files -> List.iter spec_file files
  | [_; "rand"; seed; count; lo; hi] -> gen_rand (int_of_string seed) (int_of_string count) (int_of_string lo) (int_of_string hi)
  | [_; "rando"; seed; count; lo; hi] -> force_owned := true; gen_rand (int_of_string seed) (int_of_string count) (int_of_string lo) (int_of_string hi)
  | [_; "lifeo"; seed; count] -> force_owned := true; gen_life (int_of_string seed) (int_of_string count)
  | [_; "randv"; seed; count; lo; hi] -> gen_rand ~variants:true (int_of_string seed) (int_of_string count) (int_of_string lo) (int_of_string hi)
  | [_; "vrand"; seed; count; lo; hi] -> gen_vrand (int_of_string seed) (int_of_string count) (int_of_string lo) (int_of_string hi)
  | [_; "life"; seed; count] -> gen_life (int_of_string seed) (int_of_string count)
  | [_; "bfs"; maxlen; limit] -> gen_bfs (int_of_string maxlen) (int_of_string limit)
  | _ -> prerr_endline "usage: model seq <history-file>... | rand <seed> <count> <min> <max> | bfs <maxlen> <limit>"; exit 2
