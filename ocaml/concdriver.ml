(* concmodel: random executions of the multi-slot release/acquire machine (coq/Conc/RAn.v, extracted into
   model.ml), printed as replay cases for harness/src/bin/concrun.rs.

     concmodel gen <seed> <count> [<maxlen>]

   One case:
     case <k> len=<len>
     op  <P|C> <n>              the thread starts an operation requesting n items (a machine step taken at pc 0)
     ev  <P|C> ld <P|C> <v>     the thread loads the prod_idx (P) / cons_idx (C) word and reads v (possibly stale)
     res <P|C> <0|1>            the operation is refused / granted
     ev  <P|C> st <P|C> <v>     the thread publishes its own index word with value v (a machine step taken at pc 3)
     final prod_idx=<i> cons_idx=<i> consumed=<items copied by completed consumer operations> race=<0|1>
     end
   Lines appear in script order; the `ev` lines are the atomic accesses of the execution, in machine order.
   The producer pushes the values 0,1,2,... (absolute position minus len). *)

module M = Model

let rec nat_of_int i = if i <= 0 then M.O else M.S (nat_of_int (i - 1))
let rec int_of_nat = function M.O -> 0 | M.S n -> 1 + int_of_nat n

(* deterministic PRNG: LCG on wrapping 63-bit native ints (multiplier from L'Ecuyer's tables), upper bits used *)
let state = ref 0
let seed s = state := (s * 3935559000370003845 + 2691343689449507681) lxor 0x2545F4914F6CDD1D
let rnd bound =
  state := !state * 2862933555777941757 + 3037000493;
  ((!state lsr 29) land 0x3FFFFFFF) mod bound
let range lo hi = lo + rnd (hi - lo + 1)

let name b = if b then "P" else "C"
let thr (c : M.cfg_n) b = if b then c.M.p else c.M.c
let last l = List.nth l (List.length l - 1)

(* one machine step, printing what the real thread is expected to do *)
let step out len (c : M.cfg_n) ((b, j), n) : M.cfg_n =
  let t = thr c b in
  let c' = M.step_a true true (nat_of_int len) c ((b, nat_of_int j), nat_of_int n) in
  let t' = thr c' b in
  (match int_of_nat t.M.pc with
   | 0 ->
     let n = max 1 n in
     Printf.bprintf out "op %s %d\n" (name b) n;
     if n > int_of_nat t.M.ca0 then begin
       (* the load of the other thread's index word: same message choice as RAn.stepP_a / stepC_a *)
       let (lo, ms) = if b then (t.M.v.M.vci, c.M.mci) else (t.M.v.M.vpi, c.M.mpi) in
       let i = int_of_nat (M.pick lo (nat_of_int (List.length ms)) (nat_of_int j)) in
       let rd = int_of_nat (List.nth ms i).M.mval in
       (* self-check: the availability the machine computed is the one this value gives *)
       let ix = int_of_nat t.M.ix0 in
       let a = if b then (if ix < rd then rd - ix - 1 else len - ix + rd - 1)
                    else (if ix <= rd then rd - ix else len - ix + rd) in
       if a <> int_of_nat t'.M.ca0 then failwith "concdriver: value read disagrees with the machine's availability";
       Printf.bprintf out "ev %s ld %s %d\n" (name b) (name (not b)) rd
     end;
     Printf.bprintf out "res %s %d\n" (name b) (if int_of_nat t'.M.pc = 2 then 1 else 0)
   | 3 ->
     let m = last (if b then c'.M.mpi else c'.M.mci) in
     if m.M.mval <> t'.M.ix0 then failwith "concdriver: published value is not the new index";
     Printf.bprintf out "ev %s st %s %d\n" (name b) (name b) (int_of_nat m.M.mval)
   | _ -> ());
  c'

let gen_case out k maxlen =
  let len = range 2 maxlen in
  let steps = range 30 120 in
  let bias = range 1 3 in                                  (* P is chosen with probability bias/4 *)
  Printf.bprintf out "case %d len=%d\n" k len;
  let c = ref (M.init_n (nat_of_int len)) and prev = ref true and refused = ref false in
  for _ = 1 to steps do
    (* bursts (the other index moves several times between two loads); after a refusal mostly the other thread *)
    let b = if !refused then (if rnd 4 = 0 then !prev else not !prev) else if rnd 3 > 0 then !prev else rnd 4 < bias in
    prev := b;
    let n = if rnd 10 = 0 then len else range 1 (len - 1) in
    let msgs = List.length (if b then !c.M.mci else !c.M.mpi) in
    (* read choice: anywhere in 0..msgs+1, or (half of the time) one of the four newest messages *)
    let j = if rnd 2 = 0 then range 0 (msgs + 1) else max 0 (msgs - 1 - rnd 4) in
    let c' = step out len !c ((b, j), n) in
    refused := int_of_nat (thr !c b).M.pc = 0 && int_of_nat (thr c' b).M.pc = 0;
    c := c'
  done;
  (* let both threads complete the operation they are in, so that the case ends with both at pc 0 *)
  List.iter (fun b -> while int_of_nat (thr !c b).M.pc <> 0 do c := step out len !c ((b, 0), 1) done) [true; false];
  Printf.bprintf out "final prod_idx=%d cons_idx=%d consumed=%d race=%d\nend\n"
    (int_of_nat !c.M.p.M.ix0) (int_of_nat !c.M.c.M.ix0) (int_of_nat !c.M.c.M.pos - len) (if !c.M.race then 1 else 0)

let () =
  match Array.to_list Sys.argv with
  | _ :: "gen" :: s :: count :: rest ->
    let maxlen = match rest with m :: _ -> max 2 (int_of_string m) | [] -> 5 in
    seed (int_of_string s);
    let out = Buffer.create 65536 in
    for k = 0 to int_of_string count - 1 do
      gen_case out k maxlen;
      print_string (Buffer.contents out); Buffer.clear out
    done
  | _ -> prerr_endline "usage: concmodel gen <seed> <count> [<maxlen>]"; exit 2
