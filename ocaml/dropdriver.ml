(* dropmodel: the schedules of the drop-protocol machine (coq/Conc/Drop.v, extracted into dmodel.ml by
   coq/Extract/ExtractDrop.v), printed as replay cases for harness/src/bin/droprun.rs:

     dropmodel all  <2|3> [fine] [<variant> ...]                 EVERY maximal schedule (DFS over the machine, nothing deduplicated)
     dropmodel rand <seed> <count> <2|3> [fine] [<variant> ...]  <count> random maximal schedules (uniform choice among the enabled units)

   Machine: [dstep true true present] (acquire-release RMW), present = P,C (2: `split`) or P,W,C (3: `split_mut`).
   A thread = a dropped iterator; its machine steps are pc 0 (last access), pc 1 (fetch_and), pc 2 (free; only the
   thread whose RMW made the word zero).  A maximal schedule = an interleaving of the enabled steps until every
   present thread is at pc 3.  The liveness word [b3] is written as the byte of the crate:
   P = 1 (PROD_ALIVE), W = 2 (WORK_ALIVE), C = 4 (CONS_ALIVE); the and-mask of thread T is 255 - bit(T).

   One case (threads P W C; A = the liveness word):
     case <k> stages=<2|3> variant=<plain|detached|async|adetached>
     last <T> sees <w>                machine step pc 0 of T: its last access; w = the word at that moment (what
                                      is_prod_alive / is_work_alive / is_cons_alive of T's iterator must answer)
     pre  <T> fence SeqCst            NOT a machine step: the fence the real drop path executes before the RMW
     ev   <T> and A <mask> reads <v>  machine step pc 1 of T: fetch_and(mask, AcqRel) on A; v = the word before it
                                      in modification order = the value the RMW must read
     post <T> fence SeqCst            NOT a machine step: the fence after the RMW
     free <T>                         machine step pc 2 of T: the buffer is freed (BufFree event)
     final frees=<n> word=<w>         machine state at the end (always frees=1 word=0; [good] is asserted)
     end
   Every line is one scheduling unit of the replay: the thread is released from the hook it waits at and runs to its
   next hook.  Without `fine` the units of one machine step stay together (pre, ev, post consecutive): the schedules
   are exactly the maximal schedules of the machine (6 for 2 stages, 90 for 3).  With `fine` the two fences are
   scheduling units of their own (pre after last, post after ev, free after the thread's own post): every
   interleaving of the hook points of the real drop path, each of them projecting onto a machine schedule (the
   last / ev / free lines), which is executed on the machine all the same.
   Variants: same schedules, the iterators are dropped as such (plain), wrapped in Detached (detached), as async
   iterators from split_async / split_mut_async (async), or as AsyncDetached (adetached).
   A summary goes to stderr. *)

module M = Dmodel

let rec int_of_nat = function M.O -> 0 | M.S n -> 1 + int_of_nat n

(* deterministic PRNG: the LCG of concdriver.ml *)
let state = ref 0
let seed s = state := (s * 3935559000370003845 + 2691343689449507681) lxor 0x2545F4914F6CDD1D
let rnd bound =
  state := !state * 2862933555777941757 + 3037000493;
  ((!state lsr 29) land 0x3FFFFFFF) mod bound

let tname = function M.TP -> "P" | M.TW -> "W" | M.TC -> "C"
let tnum = function M.TP -> 0 | M.TW -> 1 | M.TC -> 2
let bit = function M.TP -> 1 | M.TW -> 2 | M.TC -> 4
let enc (b : M.b3) = (if b.M.bP then 1 else 0) + (if b.M.bW then 2 else 0) + (if b.M.bC then 4 else 0)
let present stages : M.b3 = { M.bP = true; bW = (stages = 3); bC = true }
let threads stages = if stages = 3 then [M.TP; M.TW; M.TC] else [M.TP; M.TC]

type line = Last of M.th * int | Pre of M.th | And of M.th * int * int | Post of M.th | Free of M.th

let show = function
  | Last (t, w) -> Printf.sprintf "last %s sees %d" (tname t) w
  | Pre t -> Printf.sprintf "pre %s fence SeqCst" (tname t)
  | And (t, m, v) -> Printf.sprintf "ev %s and A %d reads %d" (tname t) m v
  | Post t -> Printf.sprintf "post %s fence SeqCst" (tname t)
  | Free t -> Printf.sprintf "free %s" (tname t)

(* the scheduling units a thread offers next.  [sub]: position of the thread among the hook points of the real
   drop path: 0 before its last access, 1 before the first fence, 2 before the RMW, 3 before the second fence,
   4 after it (before the free, if it is the one to free).  Returns the lines of the unit, the new configuration
   (machine steps are taken by the extracted [dstep]) and the new position. *)
let unit_of fine pres (c : M.dcfg) (sub : int array) t : (line list * M.dcfg * int) option =
  let i = tnum t in
  let pc = int_of_nat (M.thr_of t c).M.dpc in
  let step () = M.dstep true true pres c t in
  match sub.(i) with
  | 0 -> assert (pc = 0); Some ([Last (t, enc c.M.word)], step (), 1)
  | 1 ->
    assert (pc = 1);
    if fine then Some ([Pre t], c, 2)
    else Some ([Pre t; And (t, 255 - bit t, enc c.M.word); Post t], step (), 4)
  | 2 -> assert (pc = 1); Some ([And (t, 255 - bit t, enc c.M.word)], step (), 3)
  | 3 -> Some ([Post t], c, 4)
  | 4 -> if pc = 2 then Some ([Free t], step (), 5) else (assert (pc = 3); None)
  | _ -> assert (pc = 3); None

(* ---- statistics ---- *)
let st_cases = ref 0 and st_sched = ref 0 and st_lines = ref 0
let st_freeby = Array.make 3 0
let st_reads = Array.make 8 0 and st_sees = Array.make 8 0
let st_maxpost = ref 0                                    (* most `post` lines after the free in one schedule *)

let kcase = ref 0

(* machine steps of a schedule: the projection onto last / ev / free *)
let script lines = List.filter_map (function Last (t, _) | And (t, _, _) | Free t -> Some t | _ -> None) lines

let emit stages variants pres (c : M.dcfg) lines =
  let lines = List.rev lines in
  (* the schedule, executed at once by the extracted [dexec], ends in the configuration the DFS arrived at,
     every present thread is finished and the state is [good] (the theorem drop2_good / drop3_good, observed) *)
  let c' = M.dexec true true pres (script lines) in
  if not (M.dcfg_beq c c') then failwith "dropmodel: dexec disagrees with the stepwise execution";
  if not (M.all_done pres c && M.good pres c) then failwith "dropmodel: a maximal schedule that is not good";
  if int_of_nat c.M.frees <> 1 || enc c.M.word <> 0 || c.M.uaf then failwith "dropmodel: frees/word/uaf";
  incr st_sched;
  let after_free = ref (-1) in
  List.iter (function
    | Free t -> st_freeby.(tnum t) <- st_freeby.(tnum t) + 1; after_free := 0
    | Post _ -> if !after_free >= 0 then incr after_free
    | And (_, _, v) -> st_reads.(v) <- st_reads.(v) + 1
    | Last (_, w) -> st_sees.(w) <- st_sees.(w) + 1
    | Pre _ -> ()) lines;
  if !after_free > !st_maxpost then st_maxpost := !after_free;
  List.iter (fun v ->
    Printf.printf "case %d stages=%d variant=%s\n" !kcase stages v;
    List.iter (fun l -> print_string (show l); print_char '\n'; incr st_lines) lines;
    Printf.printf "final frees=%d word=%d\nend\n" (int_of_nat c.M.frees) (enc c.M.word);
    incr kcase; incr st_cases) variants

let rec dfs fine stages variants pres c sub lines =
  let any = ref false in
  List.iter (fun t ->
    match unit_of fine pres c sub t with
    | None -> ()
    | Some (ls, c', s') ->
      any := true;
      let sub' = Array.copy sub in
      sub'.(tnum t) <- s';
      dfs fine stages variants pres c' sub' (List.rev_append ls lines)) (threads stages);
  if not !any then emit stages variants pres c lines

let random_one fine stages variants pres =
  let rec go c sub lines =
    let en = List.filter_map (fun t -> match unit_of fine pres c sub t with None -> None | Some u -> Some (t, u)) (threads stages) in
    match en with
    | [] -> emit stages variants pres c lines
    | _ ->
      let (t, (ls, c', s')) = List.nth en (rnd (List.length en)) in
      sub.(tnum t) <- s';
      go c' sub (List.rev_append ls lines) in
  go (M.dinit pres) (Array.make 3 0) []

let all_variants = ["plain"; "detached"; "async"; "adetached"]

let usage () =
  prerr_endline "usage: dropmodel all <2|3> [fine] [<variant> ...]\n       dropmodel rand <seed> <count> <2|3> [fine] [<variant> ...]\n       variants: plain detached async adetached (default: all four)";
  exit 2

let tail_args rest =
  let fine, rest = match rest with "fine" :: r -> true, r | r -> false, r in
  List.iter (fun v -> if not (List.mem v all_variants) then usage ()) rest;
  fine, (if rest = [] then all_variants else rest)

let stages_of s = match s with "2" -> 2 | "3" -> 3 | _ -> usage ()

let () =
  let fine, stages = match List.tl (Array.to_list Sys.argv) with
    | "all" :: st :: rest ->
      let stages = stages_of st in
      let fine, variants = tail_args rest in
      let pres = present stages in
      (* one DFS per variant: the case numbers of a variant are contiguous *)
      List.iter (fun v -> dfs fine stages [v] pres (M.dinit pres) (Array.make 3 0) []) variants;
      fine, stages
    | "rand" :: sd :: cnt :: st :: rest ->
      let stages = stages_of st in
      let fine, variants = tail_args rest in
      let pres = present stages in
      (match int_of_string_opt sd, int_of_string_opt cnt with
       | Some sd, Some cnt -> seed sd; for _ = 1 to cnt do random_one fine stages variants pres done
       | _ -> usage ());
      fine, stages
    | _ -> usage () in
  Printf.eprintf "dropmodel: stages=%d granularity=%s: %d cases (%d schedules printed, %d lines)\n" stages
    (if fine then "hook points" else "machine steps") !st_cases !st_sched !st_lines;
  Printf.eprintf "  freed by P/W/C: %d/%d/%d;  values read by the RMW (word=count):" st_freeby.(0) st_freeby.(1) st_freeby.(2);
  Array.iteri (fun v n -> if n > 0 then Printf.eprintf " %d=%d" v n) st_reads;
  Printf.eprintf ";  words seen at the last access:";
  Array.iteri (fun v n -> if n > 0 then Printf.eprintf " %d=%d" v n) st_sees;
  Printf.eprintf ";  most fences after the free: %d\n" !st_maxpost
