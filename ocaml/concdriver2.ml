(* concmodel2: random executions of the two other release/acquire machines, extracted into cmodel.ml by
   coq/Extract/ExtractConc.v, printed as replay cases for harness/src/bin/concrun2.rs:

     concmodel2 gen3 <seed> <count> [<maxlen>]    coq/Conc/RA3n.v : producer / worker / consumer, multi-slot windows
     concmodel2 genx <seed> <count> [<maxlen>]    coq/Conc/RAx.v  : producer / consumer + Reset / Detach / Attach / Sync

   One case (threads P W C; index words P = prod_idx, W = work_idx, C = cons_idx):
     case <k> kind=<3|x> len=<len>
     op  <T> <n> from=<v>       thread T starts an operation on n items (a machine step taken at pc 0); v is the
                                value of the first item of the window (absolute position of the thread minus len):
                                P pushes v, v+1, ..; W finds them and edits them to v+1000000, ..; C copies
                                v, v+1, .. (kind x) resp. v+1000000, .. (kind 3)
     ev  <T> ld <word> <v>      T loads an index word (acquire) and reads v - possibly a stale value
     res <T> <0|1>              the operation is refused / granted
     ev  <T> st <word> <v>      T publishes its own index word with value v (release): the machine appended a message
     cmd C reset                kind x: [Reset j] taken at pc 0; followed by its load `ev C ld P <v>` and by
     jump C <v>                 the value position the consumer jumps to (absolute position loaded, minus len);
                                the store of the reset (`ev C st C <v>`, attached consumer only) comes when the
                                machine executes the consumer's next [Op] entry (pc 5)
     cmd C detach               [Detach] at pc 0, no access
     cmd C sync                 [Sync] at pc 0, followed by `ev C st C <local index>`
     cmd C attach               [Attach] at pc 0, followed by `ev C st C <local index>`
     final prod_idx=<i> [work_idx=<i>] cons_idx=<published i> [cons_local=<i> detached=<0|1>] consumed=<items> race=<0|1>
     end
   While the consumer is detached its operations end without a store.  Lines appear in script order; the `ev`
   lines are the atomic accesses of the execution, in machine order.  Commands are only issued at pc 0 (elsewhere
   the machine ignores them).  A distribution summary goes to stderr. *)

module M = Cmodel

let rec nat_of_int i = if i <= 0 then M.O else M.S (nat_of_int (i - 1))
let rec int_of_nat = function M.O -> 0 | M.S n -> 1 + int_of_nat n

(* deterministic PRNG: the LCG of concdriver.ml *)
let state = ref 0
let seed s = state := (s * 3935559000370003845 + 2691343689449507681) lxor 0x2545F4914F6CDD1D
let rnd bound =
  state := !state * 2862933555777941757 + 3037000493;
  ((!state lsr 29) land 0x3FFFFFFF) mod bound
let range lo hi = lo + rnd (hi - lo + 1)

let last l = List.nth l (List.length l - 1)
let pavail len p c = if p < c then c - p - 1 else len - p + c - 1
let dist len a b = if a <= b then b - a else len - a + b
(* read choice: anywhere in 0..msgs+1, or (half of the time) one of the four newest messages *)
let choice msgs = if rnd 2 = 0 then range 0 (msgs + 1) else max 0 (msgs - 1 - rnd 4)

(* ---- statistics ---- *)
let st_cases = ref 0 and st_entries = ref 0 and st_events = ref 0
let st_ops = Array.make 3 0 and st_granted = Array.make 3 0
let st_cached = Array.make 3 0                            (* grants from the remembered availability, no load *)
let st_loads = Array.make 3 0 and st_stale = Array.make 3 0 and st_stalegrant = Array.make 3 0
let st_old = Array.make 3 0                               (* stale loads whose value differs from the newest message's *)
let st_stores = Array.make 3 0 and st_wraps = Array.make 3 0
let st_win = Array.make 9 0                               (* granted window sizes 1..7, 8+ *)
let st_resets = ref 0 and st_resets_det = ref 0 and st_resets_stale = ref 0 and st_resets_skip = ref 0
let st_resets_race = ref 0                                (* resets whose load and store are separated by P events *)
let st_detach = ref 0 and st_attach = ref 0 and st_sync = ref 0 and st_sync_att = ref 0 and st_attach_att = ref 0
let st_local = ref 0 and st_blocked = ref 0
let st_c_reset = ref 0 and st_c_det = ref 0 and st_c_both = ref 0 and st_c_enddet = ref 0 and st_race = ref 0
let bump a i = a.(i) <- a.(i) + 1

let note_load ti ~stale ~differs ~granted =
  incr st_events; bump st_loads ti;
  if stale then (bump st_stale ti; if differs then bump st_old ti; if granted then bump st_stalegrant ti)
let note_grant ti len ix n = bump st_granted ti; bump st_win (min n 8); if ix + n > len then bump st_wraps ti

(* ---------------------------------------------------------------------------------------------------- *)
(* RA3n                                                                                                   *)
let tname = function M.TP -> "P" | M.TW -> "W" | M.TC -> "C"
let tnum = function M.TP -> 0 | M.TW -> 1 | M.TC -> 2
let thr3 (c : M.cfg3n) = function M.TP -> c.M.p3 | M.TW -> c.M.w3 | M.TC -> c.M.c3
let msgs3 (c : M.cfg3n) = function M.TP -> c.M.mpi3 | M.TW -> c.M.mwi3 | M.TC -> c.M.mci3
(* the thread whose index word a thread loads: P follows C, W follows P, C follows W *)
let follows = function M.TP -> M.TC | M.TW -> M.TP | M.TC -> M.TW
let seen3 (v : M.view3) = function M.TP -> v.M.vpi3 | M.TW -> v.M.vwi3 | M.TC -> v.M.vci3

let step3 out len (c : M.cfg3n) ((t, j), n) : M.cfg3n =
  incr st_entries;
  let th = thr3 c t in
  let c' = M.step3_a true true true (nat_of_int len) c ((t, nat_of_int j), nat_of_int n) in
  let th' = thr3 c' t in
  let ti = tnum t in
  (match int_of_nat th.M.pc3 with
   | 0 ->
     let n = max 1 n in
     bump st_ops ti;
     Printf.bprintf out "op %s %d from=%d\n" (tname t) n (int_of_nat th.M.pos3 - len);
     let granted = int_of_nat th'.M.pc3 = 2 in
     if n > int_of_nat th.M.ca3 then begin
       let f = follows t in
       let ms = msgs3 c f in
       let i = int_of_nat (M.pick (seen3 th.M.v3 f) (nat_of_int (List.length ms)) (nat_of_int j)) in
       let rd = int_of_nat (List.nth ms i).M.mval3 in
       let ix = int_of_nat th.M.ix3 in
       let a = if t = M.TP then pavail len ix rd else dist len ix rd in
       if a <> int_of_nat th'.M.ca3 then failwith "concdriver2: value read disagrees with the machine's availability";
       note_load ti ~stale:(i < List.length ms - 1) ~differs:(rd <> int_of_nat (last ms).M.mval3) ~granted;
       Printf.bprintf out "ev %s ld %s %d\n" (tname t) (tname f) rd
     end else bump st_cached ti;
     if granted then note_grant ti len (int_of_nat th.M.ix3) n;
     Printf.bprintf out "res %s %d\n" (tname t) (if granted then 1 else 0)
   | 3 ->
     let m = last (msgs3 c' t) in
     if List.length (msgs3 c' t) <> List.length (msgs3 c t) + 1 || m.M.mval3 <> th'.M.ix3 then
       failwith "concdriver2: published value is not the new index";
     incr st_events; bump st_stores ti;
     Printf.bprintf out "ev %s st %s %d\n" (tname t) (tname t) (int_of_nat m.M.mval3)
   | _ -> ());
  c'

let gen_case3 out k maxlen =
  let len = range 2 maxlen in
  let steps = range 40 170 in
  let wt = [| range 1 3; range 1 3; range 1 3 |] in          (* thread weights *)
  let tids = [| M.TP; M.TW; M.TC |] in
  let pick_thread () =
    let x = rnd (wt.(0) + wt.(1) + wt.(2)) in
    if x < wt.(0) then M.TP else if x < wt.(0) + wt.(1) then M.TW else M.TC in
  Printf.bprintf out "case %d kind=3 len=%d\n" k len;
  let c = ref (M.init3_n (nat_of_int len)) and prev = ref M.TP and refused = ref false in
  (* what the thread would get if it read the newest message of the index it follows *)
  let room t =
    let th = thr3 !c t in
    let rd = int_of_nat (last (msgs3 !c (follows t))).M.mval3 and ix = int_of_nat th.M.ix3 in
    if t = M.TP then pavail len ix rd else dist len ix rd in
  let able t = int_of_nat (thr3 !c t).M.pc3 <> 0 || room t > 0 in
  for _ = 1 to steps do
    (* bursts (the followed index moves several times between two loads); after a refusal mostly the thread
       that has to move first (the followed one) or one that can move, sometimes any; half of the fresh choices go to a thread
       that can make progress *)
    let some_able t = match List.filter able [M.TP; M.TW; M.TC] with [] -> t | l -> List.nth l (rnd (List.length l)) in
    let t =
      if !refused then (match rnd 8 with 0 -> !prev | 1 -> tids.(rnd 3) | 2 | 3 | 4 -> follows !prev | _ -> some_able (follows !prev))
      else if rnd 3 > 0 then !prev
      else begin
        let t = pick_thread () in
        if able t || rnd 2 = 0 then t else some_able t
      end in
    prev := t;
    (* requested count: the whole ring (never granted), anything, or (half of the time) something that fits *)
    let n = if rnd 12 = 0 then len else if rnd 2 = 0 && room t > 0 then range 1 (room t) else range 1 (len - 1) in
    let j = choice (List.length (msgs3 !c (follows t))) in
    let c' = step3 out len !c ((t, j), n) in
    refused := int_of_nat (thr3 !c t).M.pc3 = 0 && int_of_nat (thr3 c' t).M.pc3 = 0;
    c := c'
  done;
  (* every thread completes the operation it is in: the case ends with all three at pc 0 *)
  List.iter (fun t -> while int_of_nat (thr3 !c t).M.pc3 <> 0 do c := step3 out len !c ((t, 0), 1) done) [M.TP; M.TW; M.TC];
  if !c.M.race3 then incr st_race;
  Printf.bprintf out "final prod_idx=%d work_idx=%d cons_idx=%d consumed=%d race=%d\nend\n"
    (int_of_nat !c.M.p3.M.ix3) (int_of_nat !c.M.w3.M.ix3) (int_of_nat !c.M.c3.M.ix3)
    (int_of_nat !c.M.c3.M.pos3 - len) (if !c.M.race3 then 1 else 0)

(* ---------------------------------------------------------------------------------------------------- *)
(* RAx                                                                                                    *)
let name b = if b then "P" else "C"
let num b = if b then 0 else 2
let thrx (c : M.cfg_x) b = if b then c.M.p else c.M.c

type casestat = { mutable resets : int; mutable dets : int; mutable consumed : int; mutable pending_reset : int }

let stepx out len cs (c : M.cfg_x) ((b, k) : bool * M.cmd) : M.cfg_x =
  incr st_entries;
  let t = thrx c b in
  let c' = M.step_a true true (nat_of_int len) c (b, k) in
  let t' = thrx c' b in
  let ti = num b in
  let pc = int_of_nat t.M.pc in
  let own (x : M.cfg_x) = if b then x.M.mpi else x.M.mci in
  let stored = List.length (own c') - List.length (own c) in
  (* what the entry is expected to do; the store is printed below, from the machine's message list *)
  let expect_store =
    match k, pc with
    | M.Op (j, n), 0 ->
      let n = max 1 (int_of_nat n) in
      bump st_ops ti;
      Printf.bprintf out "op %s %d from=%d\n" (name b) n (int_of_nat t.M.pos - len);
      let granted = int_of_nat t'.M.pc = 2 in
      if n > int_of_nat t.M.ca then begin
        let (lo, ms) = if b then (t.M.v.M.vci, c.M.mci) else (t.M.v.M.vpi, c.M.mpi) in
        let i = int_of_nat (M.pick lo (nat_of_int (List.length ms)) j) in
        let rd = int_of_nat (List.nth ms i).M.mval in
        let ix = int_of_nat t.M.ix in
        let a = if b then pavail len ix rd else dist len ix rd in
        if a <> int_of_nat t'.M.ca then failwith "concdriver2: value read disagrees with the machine's availability";
        note_load ti ~stale:(i < List.length ms - 1) ~differs:(rd <> int_of_nat (last ms).M.mval) ~granted;
        Printf.bprintf out "ev %s ld %s %d\n" (name b) (name (not b)) rd;
        if b && not granted && c.M.c.M.det && pavail len ix (int_of_nat c.M.c.M.ix) >= n then incr st_blocked
      end else bump st_cached ti;
      if granted then note_grant ti len (int_of_nat t.M.ix) n;
      Printf.bprintf out "res %s %d\n" (name b) (if granted then 1 else 0);
      false
    | M.Op _, 3 ->
      if not b then begin
        cs.consumed <- cs.consumed + int_of_nat t.M.cnt;
        if t.M.det then incr st_local
      end;
      b || not t.M.det
    | M.Op _, 5 ->
      if b then failwith "concdriver2: producer at pc 5";
      if t'.M.ix <> t.M.nix || t'.M.pos <> t.M.npos || int_of_nat t'.M.ca <> 0 then failwith "concdriver2: reset did not jump";
      if List.length c.M.mpi > cs.pending_reset then incr st_resets_race;
      not t.M.det
    | M.Op _, _ -> false
    | M.Reset j, 0 when not b ->
      let ms = c.M.mpi in
      let i = int_of_nat (M.pick t.M.v.M.vpi (nat_of_int (List.length ms)) j) in
      let m = List.nth ms i in
      if int_of_nat t'.M.pc <> 5 || t'.M.nix <> m.M.mval || t'.M.npos <> m.M.mabs then failwith "concdriver2: reset load disagrees";
      if int_of_nat m.M.mabs < int_of_nat t.M.pos then failwith "concdriver2: reset goes backwards";
      cs.resets <- cs.resets + 1; cs.pending_reset <- List.length ms;
      incr st_resets; if t.M.det then incr st_resets_det;
      if int_of_nat m.M.mabs > int_of_nat t.M.pos then incr st_resets_skip;
      let stale = i < List.length ms - 1 in
      if stale then incr st_resets_stale;
      note_load ti ~stale ~differs:(m.M.mval <> (last ms).M.mval) ~granted:false;
      Printf.bprintf out "cmd C reset\nev C ld P %d\njump C %d\n" (int_of_nat m.M.mval) (int_of_nat m.M.mabs - len);
      false
    | M.Detach, 0 when not b ->
      if not t.M.det then (cs.dets <- cs.dets + 1; incr st_detach);
      Printf.bprintf out "cmd C detach\n"; false
    | M.Attach, 0 when not b ->
      if t.M.det then incr st_attach else incr st_attach_att;
      Printf.bprintf out "cmd C attach\n"; true
    | M.Sync, 0 when not b ->
      if t.M.det then incr st_sync else incr st_sync_att;
      Printf.bprintf out "cmd C sync\n"; true
    | _ -> if c' != c && c' <> c then failwith "concdriver2: a command outside pc 0 changed the configuration"; false in
  if stored <> (if expect_store then 1 else 0) then failwith "concdriver2: unexpected number of messages appended";
  if stored = 1 then begin
    let m = last (own c') in
    if m.M.mval <> t'.M.ix || m.M.mabs <> t'.M.pos then failwith "concdriver2: published value is not the local index";
    incr st_events; bump st_stores ti;
    Printf.bprintf out "ev %s st %s %d\n" (name b) (name b) (int_of_nat m.M.mval)
  end;
  c'

let gen_casex out k maxlen =
  let len = range 2 maxlen in
  let steps = range 40 170 in
  let bias = range 1 3 in                                  (* P is chosen with probability bias/4 *)
  (* command weights out of 40 for a consumer at pc 0; 0 = the case has no reset / never detaches *)
  let rs = (match rnd 4 with 0 -> 0 | _ -> range 1 4) and dt = (match rnd 4 with 0 -> 0 | _ -> range 1 4) in
  let odd = rnd 3 = 0 in                                    (* Sync / Attach while attached *)
  Printf.bprintf out "case %d kind=x len=%d\n" k len;
  let cs = { resets = 0; dets = 0; consumed = 0; pending_reset = 0 } in
  let c = ref (M.init_x (nat_of_int len)) and prev = ref true and refused = ref false in
  for _ = 1 to steps do
    let b = if !refused then (if rnd 4 = 0 then !prev else not !prev) else if rnd 3 > 0 then !prev else rnd 4 < bias in
    prev := b;
    let t = thrx !c b in
    let room =
      let rd = int_of_nat (last (if b then !c.M.mci else !c.M.mpi)).M.mval and ix = int_of_nat t.M.ix in
      if b then pavail len ix rd else dist len ix rd in
    let op () =
      let n = if rnd 10 = 0 then len else if rnd 2 = 0 && room > 0 then range 1 room else range 1 (len - 1) in
      M.Op (nat_of_int (choice (List.length (if b then !c.M.mci else !c.M.mpi))), nat_of_int n) in
    let k =
      if b || int_of_nat t.M.pc <> 0 then op ()
      else begin
        let x = rnd 40 in
        if x < rs then M.Reset (nat_of_int (choice (List.length !c.M.mpi)))
        else if t.M.det then (if dt > 0 && x < rs + 2 then M.Attach else if x < rs + 6 then M.Sync else op ())
        else if x < rs + dt then M.Detach
        else if odd && x = 39 then (if rnd 2 = 0 then M.Sync else M.Attach)
        else op ()
      end in
    let c' = stepx out len cs !c (b, k) in
    refused := (match k with M.Op _ -> int_of_nat t.M.pc = 0 && int_of_nat (thrx c' b).M.pc = 0 | _ -> false);
    c := c'
  done;
  (* both threads complete the operation (or reset) they are in; a detached consumer attaches half of the time *)
  List.iter (fun b -> while int_of_nat (thrx !c b).M.pc <> 0 do c := stepx out len cs !c (b, M.Op (M.O, M.S M.O)) done) [true; false];
  if !c.M.c.M.det && rnd 2 = 0 then c := stepx out len cs !c (false, M.Attach);
  if cs.resets > 0 then incr st_c_reset;
  if cs.dets > 0 then incr st_c_det;
  if cs.resets > 0 && cs.dets > 0 then incr st_c_both;
  if !c.M.c.M.det then incr st_c_enddet;
  if !c.M.race then incr st_race;
  Printf.bprintf out "final prod_idx=%d cons_idx=%d cons_local=%d detached=%d consumed=%d race=%d\nend\n"
    (int_of_nat !c.M.p.M.ix) (int_of_nat (last !c.M.mci).M.mval) (int_of_nat !c.M.c.M.ix)
    (if !c.M.c.M.det then 1 else 0) cs.consumed (if !c.M.race then 1 else 0)

(* ---------------------------------------------------------------------------------------------------- *)
let summary kind =
  let e = Printf.eprintf in
  e "concmodel2 %s: %d cases, %d script entries, %d events, %d cases with race flag\n" kind !st_cases !st_entries !st_events !st_race;
  List.iter (fun (nm, i) ->
      if st_ops.(i) > 0 then
        e "  %s: ops=%d granted=%d (from remembered availability, no load: %d; window wraps: %d) loads=%d stale=%d (value differs from the newest: %d) granted-on-stale=%d stores=%d\n"
          nm st_ops.(i) st_granted.(i) st_cached.(i) st_wraps.(i) st_loads.(i) st_stale.(i) st_old.(i) st_stalegrant.(i) st_stores.(i))
    ["P", 0; "W", 1; "C", 2];
  e "  granted window sizes 1..7,8+:";
  for i = 1 to 8 do e " %d" st_win.(i) done;
  e "\n";
  if kind = "genx" then begin
    e "  resets=%d (detached: %d, stale load: %d, skipping >0 items: %d, producer stores between load and store: %d)\n"
      !st_resets !st_resets_det !st_resets_stale !st_resets_skip !st_resets_race;
    e "  detached phases=%d attach=%d sync=%d local consumer ops=%d producer refusals only due to an unpublished detached index=%d\n"
      !st_detach !st_attach !st_sync !st_local !st_blocked;
    e "  while attached: sync=%d attach=%d\n" !st_sync_att !st_attach_att;
    e "  cases with reset=%d, with detached phase=%d, with both=%d, ending detached=%d\n" !st_c_reset !st_c_det !st_c_both !st_c_enddet
  end

let () =
  match Array.to_list Sys.argv with
  | _ :: (("gen3" | "genx") as kind) :: s :: count :: rest ->
    let maxlen = match rest with m :: _ -> max 2 (int_of_string m) | [] -> 5 in
    seed (int_of_string s);
    let out = Buffer.create 65536 in
    for k = 0 to int_of_string count - 1 do
      (if kind = "gen3" then gen_case3 else gen_casex) out k maxlen;
      incr st_cases;
      print_string (Buffer.contents out); Buffer.clear out
    done;
    summary kind
  | _ -> prerr_endline "usage: concmodel2 gen3|genx <seed> <count> [<maxlen>]"; exit 2
