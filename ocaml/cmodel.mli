
val negb : bool -> bool

type nat =
| O
| S of nat

val fst : ('a1 * 'a2) -> 'a1

val snd : ('a1 * 'a2) -> 'a2

val length : 'a1 list -> nat

val app : 'a1 list -> 'a1 list -> 'a1 list

val add : nat -> nat -> nat

val sub : nat -> nat -> nat

val max : nat -> nat -> nat

module Nat :
 sig
  val leb : nat -> nat -> bool

  val ltb : nat -> nat -> bool

  val max : nat -> nat -> nat

  val min : nat -> nat -> nat
 end

val nth : nat -> 'a1 list -> 'a1 -> 'a1

val last : 'a1 list -> 'a1 -> 'a1

val map : ('a1 -> 'a2) -> 'a1 list -> 'a2 list

val fold_left : ('a1 -> 'a2 -> 'a1) -> 'a2 list -> 'a1 -> 'a1

val seq : nat -> nat -> nat list

val wadd : nat -> nat -> nat -> nat

val dist : nat -> nat -> nat -> nat

val pavail : nat -> nat -> nat -> nat

val upd : nat -> 'a1 -> 'a1 list -> 'a1 list

type view = { vpi : nat; vci : nat; kp : nat; kc : nat; wP : nat; wC : nat }

val vjoin : view -> view -> view

type msg = { mval : nat; mabs : nat; mview : view }

type meta = { wpos : nat; wclk : nat; rpos : nat; rclk : nat }

val dmsg : msg

val dmeta : meta

val pick : nat -> nat -> nat -> nat

val v0P : nat -> view

val v0C : nat -> view

val vbot : nat -> view

type tid =
| TP
| TW
| TC

type view3 = { vpi3 : nat; vwi3 : nat; vci3 : nat; kp3 : nat; kw3 : nat;
               kc3 : nat; wP3 : nat; wW3 : nat; wC3 : nat }

val vjoin3 : view3 -> view3 -> view3

type msg3 = { mval3 : nat; mabs3 : nat; mview3 : view3 }

type meta3 = { wt : tid; wpos3 : nat; wclk3 : nat; rpos3 : nat; rclk3 : nat }

val dmsg3 : msg3

val dmeta3 : meta3

val wcov : tid -> meta3 -> view3 -> bool

val vinit : nat -> nat -> nat -> nat -> view3

type thr3n = { ix3 : nat; ca3 : nat; v3 : view3; pc3 : nat; pos3 : nat;
               cnt3 : nat; off3 : nat }

type cfg3n = { mpi3 : msg3 list; mwi3 : msg3 list; mci3 : msg3 list;
               metas3 : meta3 list; p3 : thr3n; w3 : thr3n; c3 : thr3n;
               race3 : bool }

val vzero3 : view3

val stepP3_a : bool -> nat -> nat -> nat -> cfg3n -> cfg3n

val stepW3_a : bool -> nat -> nat -> nat -> cfg3n -> cfg3n

val stepC3_a : bool -> nat -> nat -> nat -> cfg3n -> cfg3n

val step3_a :
  bool -> bool -> bool -> nat -> cfg3n -> ((tid * nat) * nat) -> cfg3n

val exec3_a :
  bool -> bool -> bool -> nat -> cfg3n -> ((tid * nat) * nat) list -> cfg3n

val init3_n : nat -> cfg3n

type cmd =
| Op of nat * nat
| Reset of nat
| Detach
| Attach
| Sync

type thr_x = { ix : nat; ca : nat; v : view; pc : nat; pos : nat; cnt : 
               nat; off : nat; det : bool; nix : nat; npos : nat }

type cfg_x = { mpi : msg list; mci : msg list; metas : meta list; p : 
               thr_x; c : thr_x; race : bool }

val vzero : view

val publishedC : cfg_x -> nat

val publishedP : cfg_x -> nat

val opP_a : bool -> nat -> nat -> nat -> cfg_x -> cfg_x

val publishC : cfg_x -> nat -> nat -> nat -> bool -> cfg_x

val localC : cfg_x -> nat -> nat -> nat -> cfg_x

val finishC : cfg_x -> nat -> nat -> nat -> cfg_x

val opC_a : bool -> nat -> nat -> nat -> cfg_x -> cfg_x

val resetC_a : bool -> nat -> cfg_x -> cfg_x

val detachC : cfg_x -> cfg_x

val stepP_a : bool -> nat -> cmd -> cfg_x -> cfg_x

val stepC_a : bool -> nat -> cmd -> cfg_x -> cfg_x

val step_a : bool -> bool -> nat -> cfg_x -> (bool * cmd) -> cfg_x

val exec_a : bool -> bool -> nat -> cfg_x -> (bool * cmd) list -> cfg_x

val init_x : nat -> cfg_x
