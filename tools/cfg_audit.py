#!/usr/bin/env python3
"""Which parts of the source are compiled under which feature condition?  Every `#[cfg(..)]` / `#![cfg(..)]` / `#[cfg_attr(..)]` of
/repo/src, per file, as a multiset - compared with the pinned list `tools/known_cfgs.json` (taken from the tree the checks were
written for).  The checks build the crate with `verif-hooks` (= alloc + async), with `vmem` (C17) and without `alloc` (the split
probe): code that is NEWLY put under a feature condition which none of the builds of a check satisfies - such as
`cfg(not(feature = "async"))`, or `cfg(feature = "vmem")` for every check but C17 - would be verified by nothing: a broken tie.
  cfg_audit.py            -> prints the differences (none: `cfg audit: clean`), exit 0 / 1
  cfg_audit.py --pin      -> rewrites known_cfgs.json from the current tree"""
import os, re, sys, json, collections
REPO = os.environ.get('VERIF_REPO', '/repo')
HERE = os.path.dirname(os.path.abspath(__file__))
KNOWN = os.path.join(HERE, 'known_cfgs.json')

def strip_comments(s):
    s = re.sub(r'//[^\n]*', '', s)
    return re.sub(r'/\*.*?\*/', '', s, flags=re.S)

def scan():
    out = {}
    for root, _, files in os.walk(os.path.join(REPO, 'src')):
        for f in sorted(files):
            if not f.endswith('.rs'): continue
            p = os.path.join(root, f); rel = os.path.relpath(p, REPO)
            if rel == 'src/verif_hooks.rs': continue
            txt = strip_comments(open(p).read())
            conds = collections.Counter()
            for m in re.finditer(r'#!?\[\s*(cfg|cfg_attr)\s*\(', txt):
                i = m.end(); d = 1; j = i
                while d and j < len(txt):
                    if txt[j] == '(': d += 1
                    elif txt[j] == ')': d -= 1
                    j += 1
                c = re.sub(r'\s+', '', txt[i:j - 1])
                if m.group(1) == 'cfg_attr':
                    c = 'cfg_attr:' + c.split(',', 1)[0] if not c.startswith(('any(', 'all(', 'not(')) else 'cfg_attr:' + c[:c.find(')') + 1]
                if 'verif-hooks' in c or c in ('test', 'cfg_attr:doc'): continue
                conds[c] += 1
            for m in re.finditer(r'\bcfg!\s*\(', txt):
                i = m.end(); d = 1; j = i
                while d and j < len(txt):
                    if txt[j] == '(': d += 1
                    elif txt[j] == ')': d -= 1
                    j += 1
                conds['cfg!:' + re.sub(r'\s+', '', txt[i:j - 1])] += 1
            if conds: out[rel] = dict(sorted(conds.items()))
    return out

BUILDS = {'A': {'alloc', 'async', 'verif-hooks'}, 'B': {'alloc', 'async', 'verif-hooks', 'vmem', 'libc'}, 'C': {'async'}}

_HOST = None
def host_atom(atom):
    """a non-feature cfg atom (`unix`, `debug_assertions`, `target_pointer_width="64"`, ..) in the builds of the checks: debug builds for this
    host, as `rustc --print cfg` lists them; `doc` and `test` are never set"""
    global _HOST
    if _HOST is None:
        try:
            import subprocess
            out = subprocess.run(['rustc', '--print', 'cfg'], capture_output=True, text=True, timeout=60).stdout
            _HOST = set(re.sub(r'\s+', '', l) for l in out.split('\n') if l.strip())
        except Exception: _HOST = set()
        if not _HOST: _HOST = {'debug_assertions', 'unix'}
    if atom in ('doc', 'test', 'miri', 'loom'): return False
    return atom in _HOST

def holds(cond, feats):
    """value of a cfg condition (whitespace-free text) under a feature set; None = cannot tell"""
    cond = cond.split(':', 1)[1] if cond.startswith(('cfg!:', 'cfg_attr:')) else cond
    def parse(i):
        for kw, f in (('any(', any), ('all(', all)):
            if cond.startswith(kw, i):
                i += len(kw); vals = []
                while cond[i] != ')':
                    v, i = parse(i); vals.append(v)
                    if cond[i] == ',': i += 1
                if any(v is None for v in vals):
                    known = [v for v in vals if v is not None]
                    if f is any and any(known): return True, i + 1
                    if f is all and not all(known): return False, i + 1
                    return None, i + 1
                return f(vals), i + 1
        if cond.startswith('not(', i):
            v, i = parse(i + 4); return (None if v is None else not v), i + 1
        m = re.match(r'feature="([^"]+)"', cond[i:])
        if m: return (m.group(1) in feats), i + m.end()
        m = re.match(r'[A-Za-z_][A-Za-z_0-9]*(="[^"]*")?', cond[i:])
        if m:
            atom = m.group(0)
            return host_atom(atom), i + m.end()
        raise ValueError(cond[i:])
    try: return parse(0)[0]
    except Exception: return None

def main():
    cur = scan()
    if '--pin' in sys.argv:
        json.dump(cur, open(KNOWN, 'w'), indent=1, sort_keys=True); print(f'pinned {sum(sum(v.values()) for v in cur.values())} cfg conditions in {len(cur)} files'); return 0
    known = json.load(open(KNOWN))
    builds = 'A'
    for a in sys.argv[1:]:
        if a.startswith('--builds='): builds = a.split('=', 1)[1]
    diffs = []
    for f in sorted(set(cur) | set(known)):
        a, b = known.get(f, {}), cur.get(f, {})
        for c in sorted(set(a) | set(b)):
            # only NEW code under a condition matters, and only if no build of this check compiles it
            if b.get(c, 0) > a.get(c, 0) and not any(holds(c, BUILDS[x]) is True for x in builds.split(',')):
                diffs.append(f'{f}: `cfg({c})` occurs {b.get(c, 0)} time(s), {a.get(c, 0)} in the tree the checks were written for; '
                             f'none of the builds of this check ({builds}: ' + ' / '.join('+'.join(sorted(BUILDS[x])) for x in builds.split(',')) + ') compiles that code')
    if diffs:
        print('cfg audit: the feature conditions of the source changed (code may be compiled in or out of the builds the checks use):')
        for d in diffs: print('  ' + d)
        return 1
    print('cfg audit: clean'); return 0

if __name__ == '__main__':
    sys.exit(main())
