#!/bin/bash
# usage: confirm_seeded.sh <Cxx> <i> : confirms /tmp/mut/<Cxx>-out/<i> in a scratch worktree and files it under /verif/seeded/<Cxx>-<i>
# (compiles, passes the pinned suite with the patch, demo passes without and fails with the patch)
# optional: <round> (2 -> reads /tmp/mut/<Cxx>-out2/<i>, files as <Cxx>-<i+2>)
id=$1; i=$2; rnd=${3:-1}
if [ "$rnd" = 1 ]; then src=/tmp/mut/$id-out/$i; n=$i; else src=/tmp/mut/$id-out$rnd/$i; n=$((i + 2 * (rnd - 1))); fi
wt=/tmp/mutv/$id-$n; out=/verif/seeded/$id-$n
export CARGO_NET_OFFLINE=true
mkdir -p /tmp/mutv; rm -rf $wt
git -C /repo worktree add --detach $wt HEAD -q || exit 1
cd $wt
cp $src/demo.rs tests/demo_mut.rs
feat=""; found=0
for f in ${FEAT:-"" "async" "verif-hooks" "vmem" "vmem,async"}; do
  if [ "$id" = "C17" ] && [[ "$f" != vmem* ]]; then continue; fi
  o=$(cargo test --offline ${f:+--features $f} --test demo_mut 2>&1)
  if echo "$o" | grep -q "^test result: ok\. [1-9]"; then feat=$f; found=1; break; fi
done
demo_clean=$found
git apply $src/patch.diff || { echo "patch does not apply"; }
suite_ok=1
for f in "" "async"; do
  o=$(cargo test --offline ${f:+--features $f} --lib --tests 2>&1 | grep -v demo_mut)
  # the demo itself is part of --tests; ignore it by checking the pinned targets only
  for t in "--lib" "--test stack" "--test tests" "--test uninit_buf"; do
    r=$(cargo test --offline ${f:+--features $f} $t 2>&1 | grep "^test result" | head -1)
    case "$r" in "test result: ok."*) ;; *) suite_ok=0; echo "suite fails: features=[$f] $t: $r";; esac
  done
done
if [ "$id" = "C17" ]; then
  for f in "vmem" "vmem,async"; do for t in "--lib" "--test tests" "--test uninit_buf"; do
    r=$(cargo test --offline --features $f $t 2>&1 | grep "^test result" | head -1)
    case "$r" in "test result: ok."*) ;; *) suite_ok=0; echo "suite fails: features=[$f] $t: $r";; esac
  done; done
fi
o=$(timeout 600 cargo test --offline ${feat:+--features $feat} --test demo_mut 2>&1)
if echo "$o" | grep -q "^test result: ok\."; then demo_patched_fails=0; else demo_patched_fails=1; fi
mkdir -p $out
cp $src/patch.diff $out/patch.diff; cp $src/demo.rs $out/demo.rs; cp $src/notes.md $out/notes.md
cat > $out/meta.json <<EOM
{"property": "$id", "source": "independent sub-agent given only the property text", "demo_features": "$feat",
 "confirmed": {"demo_passes_without_patch": $demo_clean, "pinned_suite_passes_with_patch": $suite_ok, "demo_fails_with_patch": $demo_patched_fails},
 "ran": ["cargo test --offline [--features $feat] --test demo_mut (clean: pass)", "git apply patch.diff", "cargo test --offline [--features async] --lib --test stack --test tests --test uninit_buf (pass)", "cargo test --offline [--features $feat] --test demo_mut (patched: fail)"]}
EOM
cd /; git -C /repo worktree remove --force $wt
echo "$id-$n clean=$demo_clean suite=$suite_ok fails=$demo_patched_fails feat=[$feat]"
