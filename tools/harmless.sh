#!/bin/bash
cd /verif
for i in 1 2 3 4 5 6 7 8 9 10 11 12; do
  git -C /repo diff --quiet || { echo "/repo dirty"; exit 2; }
  git -C /repo apply /verif/seeded/harmless/$i/patch.diff || { echo "$i patch-failed"; continue; }
  for p in C05 C03 C16 C17 C07 C10 C14 C12; do
    r=$(./check $p --tier quick 2>&1 | grep -E "OK \(|VIOLATION" | cut -c1-200 | tr '\n' ' ')
    echo "H$i $p: $r"
  done
  git -C /repo checkout -- .
done
python3 /verif/tools/extract_facts.py >/dev/null
echo finished
