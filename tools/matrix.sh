#!/bin/bash
# runs every seeded change against the quick check of the property it was written for; writes seeded/RESULTS.tsv
cd /verif
out=seeded/RESULTS.tsv
echo -e "seeded\tproperty\tverdict\tdetail" > $out
for d in seeded/C*-*/; do
  n=$(basename $d); p=${n%-*}
  cd /repo && git diff --quiet || { echo "/repo dirty"; exit 2; }
  git -C /repo apply /verif/$d/patch.diff || { echo -e "$n\t$p\tpatch-failed\t" >> /verif/$out; continue; }
  cd /verif
  res=$(./check $p --tier quick 2>&1 | cut -c1-400)
  git -C /repo checkout -- .
  if echo "$res" | grep -q "VIOLATION"; then
    if echo "$res" | grep -q "no-failing-input-found"; then v="caught (no-failing-input-found)"; else v="caught (failing input)"; fi
  else v="MISSED"; fi
  det=$(echo "$res" | grep -v "KNOWN-FINDING" | head -1 | cut -c1-220)
  echo -e "$n\t$p\t$v\t$det" >> $out
  rm -f /verif/replays/$p-*.txt
done
cd /verif && ./check C01 >/dev/null 2>&1   # rebuild the harness against the unchanged tree
echo done
