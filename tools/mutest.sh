#!/bin/bash
# usage: mutest.sh <seeded-dir-name> <prop>... : applies the seeded patch to /repo, runs the quick checks, restores /repo
d=/verif/seeded/$1; shift
cd /repo && git diff --quiet || { echo "/repo is dirty"; exit 2; }
git -C /repo apply $d/patch.diff || exit 2
for p in "$@"; do
  out=$(cd /verif && ./check $p --tier quick 2>&1 | grep -E "VIOLATION|OK \(|KNOWN" | tr '\n' ' ')
  echo "$(basename $d) -> $p: $out"
done
git -C /repo checkout -- .
python3 /verif/tools/extract_facts.py >/dev/null 2>&1   # gen/*.v back to the restored source
