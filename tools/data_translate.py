#!/usr/bin/env python3
"""Translates the bodies of the DATA-TOUCHING functions of the crate (next*, next_chunk*, _push, _push_slice, _extract_*, their public
wrappers and the closures they pass around) from the Rust source into the monad of coq/Model/DataM.v  ->  coq/gen/DataFns.v.
Proofs/DataTie.v then proves, for all inputs, that each translated function does exactly what the Model's function does.
Fail-closed: anything outside the recognised subset sets data_clean := false (and the tie proofs no longer go through)."""
import re, os

class TErr(Exception): pass

def strip_comments(s):
    s = re.sub(r'//[^\n]*', '', s)
    s = re.sub(r'/\*.*?\*/', '', s, flags=re.S)
    return s

TOK = re.compile(r"\s*(?:(\d+)|('[a-z_]+\b(?!'))|([A-Za-z_][A-Za-z_0-9]*)|(\"[^\"]*\")|(::|->|=>|\.\.|\|\||&&|==|<=|>=|!=|[-+*/%<>=!(){}\[\];,.:&|#?]))")
def lex(src):
    out = []; pos = 0; src = src.strip()
    while pos < len(src):
        m = TOK.match(src, pos)
        if not m: raise TErr('lex: ' + src[pos:pos + 30])
        pos = m.end()
        if m.group(1): out.append(('num', m.group(1)))
        elif m.group(2): out.append(('life', m.group(2)))
        elif m.group(3): out.append(('id', m.group(3)))
        elif m.group(4): out.append(('str', m.group(4)))
        else: out.append(('p', m.group(5)))
    return out

# ------------------------------------------------------------------ locating functions
def find_fn(src, name, vmem=False):
    """source text of `fn name` (signature + body); the copy under #[cfg(feature = "vmem")] is skipped unless vmem"""
    for m in re.finditer(r'\bfn\s+' + re.escape(name) + r'\b', src):
        pre = src[max(0, m.start() - 300):m.start()]
        # attributes directly attached to this fn
        am = re.search(r'((?:\s*#\[[^\]]*\]\s*)*)(?:pub(?:\([a-z]+\))?\s+)?(?:unsafe\s+)?$', pre)
        attrs = am.group(1) if am else ''
        tag = 'vmem' if re.search(r'#\[cfg\(feature\s*=\s*"vmem"\)\]', attrs) else ('novmem' if re.search(r'#\[cfg\(not\(feature\s*=\s*"vmem"\)\)\]', attrs) else 'both')
        if tag == ('novmem' if vmem else 'vmem'): continue
        i = src.index('{', m.end()); d = 0; j = i
        # the signature may contain `{` only in the body
        while True:
            if src[j] == '{': d += 1
            elif src[j] == '}':
                d -= 1
                if d == 0: break
            j += 1
        return src[m.start():j + 1]
    raise TErr(f'fn {name} not found')

# ------------------------------------------------------------------ parser
class P:
    def __init__(s, toks): s.t = toks; s.i = 0
    def peek(s, k=0): return s.t[s.i + k] if s.i + k < len(s.t) else (None, None)
    def pv(s, k=0): return s.peek(k)[1]
    def at(s, v, k=0): return s.peek(k)[1] == v and s.peek(k)[0] in ('p', 'id')
    def eat(s, v=None):
        t = s.peek()
        if t[0] is None: raise TErr('unexpected end')
        if v is not None and t[1] != v: raise TErr(f'expected {v!r} got {t[1]!r} near {[x[1] for x in s.t[max(0, s.i - 8):s.i + 5]]}')
        s.i += 1; return t[1]

    # ---- types (only classified)
    def skip_generics(s, collect=False):
        """skips <...>; with collect: the one-letter type parameter names are remembered as item types of this function"""
        names = []
        if s.at('<'):
            d = 0; prev = None
            while True:
                k, v = s.peek(); s.eat()
                if v == '<': d += 1
                elif v == '>':
                    d -= 1
                    if d == 0: break
                if d == 1 and k == 'id' and prev in ('<', ',') and v != 'const': names.append(v)
                prev = v
        if collect: s.item_tys = set(getattr(s, 'item_tys', ())) | {n for n in names if len(n) == 1}
        return names
    def ty(s):
        """returns a kind: nat | val | loc | slice | unit | fn(args,ret) | opt(k) | other"""
        if s.at('&') or s.at('&&'):
            n = 2 if s.at('&&') else 1
            s.eat()
            if s.peek()[0] == 'life': s.eat()
            if s.at('mut'): s.eat()
            if s.at('&'):
                s.eat()
                if s.peek()[0] == 'life': s.eat()
                if s.at('mut'): s.eat()
            if s.at('['):
                s.eat(); s.ty(); s.eat(']'); return 'slice'
            inner = s.ty()
            return 'loc' if inner == 'val' else ('slice' if inner == 'slice' else 'other')
        if s.at('*'):
            s.eat(); s.eat()  # mut / const
            s.ty(); return 'loc'
        if s.at('('):
            s.eat()
            if s.at(')'): s.eat(); return 'unit'
            ks = [s.ty()]
            while s.at(','): s.eat(); ks.append(s.ty())
            s.eat(')'); return ('tuple', ks)
        if s.at('['):
            s.eat(); s.ty(); s.eat(']'); return 'slice'
        if s.at('fn'):
            s.eat(); s.eat('('); args = []
            while not s.at(')'):
                args.append(s.ty())
                if s.at(','): s.eat()
            s.eat(')'); ret = 'unit'
            if s.at('->'): s.eat(); ret = s.ty()
            return ('fn', args, ret)
        name = s.eat()
        while s.at('::'): s.eat(); name = s.eat()
        if s.at('<'):
            if name == 'Option':
                s.eat('<'); k = s.ty(); s.eat('>'); return ('opt', k)
            if name == 'Result':
                s.eat('<'); a = s.ty(); s.eat(','); b = s.ty(); s.eat('>'); return ('res', a, b)
            s.skip_generics()
            if name in ('WorkableSlice', 'NonWorkableSlice'): return 'slice' if getattr(s, 'vmem', False) else ('tuple', ['slice', 'slice'])
        if name == 'usize': return 'nat'
        if name == 'bool': return 'bool'
        if name == 'T' or name in getattr(s, 'item_tys', ()): return 'val'
        return 'other'

    def fn_item(s):
        """fn name<generics>(params) [-> ty] [where ..] { block }"""
        s.eat('fn'); name = s.eat(); s.skip_generics(collect=True); s.eat('(')
        params = []
        while not s.at(')'):
            if s.at('&'):
                s.eat()
                if s.peek()[0] == 'life': s.eat()
                if s.at('mut'): s.eat()
                s.eat('self')
            elif s.at('mut') and s.at('self', 1):
                s.eat(); s.eat()
                if s.at(':'): s.eat(); s.ty()
            elif s.at('self'):
                s.eat()
                if s.at(':'): s.eat(); s.ty()
            else:
                if s.at('mut'): s.eat()
                pn = s.eat(); s.eat(':'); params.append((pn, s.ty()))
            if s.at(','): s.eat()
        s.eat(')'); ret = 'unit'
        if s.at('->'): s.eat(); ret = s.ty()
        if s.at('where'):
            while not s.at('{'): s.eat()
        s.eat('{'); body = s.block(); s.eat('}')
        return ('fn', name, params, ret, body)

    def skip_attrs(s):
        while s.at('#'):
            s.eat(); s.eat('['); d = 1
            while d:
                v = s.eat()
                if v == '[': d += 1
                elif v == ']': d -= 1

    def pat(s):
        if s.at('Some') and s.at('(', 1):
            s.eat(); s.eat('('); p = s.pat(); s.eat(')'); return ('psome', p)
        if (s.at('Ok') or s.at('Err')) and s.at('(', 1):
            c = s.eat(); s.eat('('); p = s.pat(); s.eat(')'); return ('pok' if c == 'Ok' else 'perr', p)
        if s.at('None'): s.eat(); return ('pnone',)
        if s.at('_'): s.eat(); return ('pwild',)
        if s.peek()[0] == 'num': return ('pnum', s.eat())
        if s.at('true') or s.at('false'): return ('pbool', s.eat())
        if s.at('('):
            s.eat(); ps = []
            while not s.at(')'):
                ps.append(s.pat())
                if s.at(','): s.eat()
            s.eat(')'); return ('ptuple', ps)
        if s.at('mut'): s.eat()
        return ('pvar', s.eat())

    def block(s):
        stmts = []
        while not s.at('}') and s.peek()[0] is not None:
            s.skip_attrs()
            if s.at('pub'): s.eat()
            if s.at('fn'):
                stmts.append(s.fn_item()); continue
            if s.at('let'):
                s.eat(); p = s.pat()
                if s.at(':'): s.eat(); s.ty()
                s.eat('='); e = s.expr()
                if s.at('else'):
                    s.eat(); s.eat('{'); eb = s.block(); s.eat('}'); s.eat(';'); stmts.append(('letelse', p, e, eb)); continue
                s.eat(';'); stmts.append(('let', p, e)); continue
            if s.at('return'):
                s.eat(); e = ('unit',) if s.at(';') else s.expr()
                if s.at(';'): s.eat()
                stmts.append(('return', e)); continue
            if s.at('while'):
                s.eat(); c = s.expr(); s.eat('{'); b = s.block(); s.eat('}')
                stmts.append(('while', c, b)); continue
            if s.at('loop'):
                s.eat(); s.eat('{'); b = s.block(); s.eat('}')
                stmts.append(('loop', b)); continue
            if s.at('break'):
                s.eat(); e = ('unit',) if (s.at(';') or s.at('}')) else s.expr()
                if s.at(';'): s.eat()
                stmts.append(('break', e)); continue
            if s.at('for'):
                s.eat(); p = s.pat(); s.eat('in'); it = s.expr_nostruct(); s.eat('{'); b = s.block(); s.eat('}')
                stmts.append(('for', p, it, b)); continue
            e = s.expr()
            if s.at('='):
                s.eat(); rhs = s.expr(); s.eat(';'); stmts.append(('assign', e, rhs)); continue
            if s.at(';'):
                s.eat(); stmts.append(('expr', e)); continue
            if s.at('}'): stmts.append(('tail', e)); continue
            if e[0] in ('if', 'iflet', 'match', 'unsafe'):      # block-like expression used as a statement
                stmts.append(('expr', e)); continue
            raise TErr(f'statement: unexpected {s.pv()!r}')
        return stmts

    def expr_nostruct(s): return s.expr()
    def expr(s):
        l = s.cmp()
        while s.at('||'):
            s.eat(); r = s.cmp(); l = ('or', l, r)
        return l
    def cmp(s):
        l = s.add()
        if s.pv() in ('<', '<=', '>', '>=', '==', '!=') and s.peek()[0] == 'p':
            op = s.eat(); r = s.add(); return ('cmp', op, l, r)
        return l
    def add(s):
        l = s.mul()
        while s.at('+') or s.at('-'):
            op = s.eat(); r = s.mul(); l = ('add' if op == '+' else 'sub', l, r)
        return l
    def mul(s):
        l = s.cast()
        while s.at('%'):
            s.eat(); r = s.cast(); l = ('rem', l, r)
        return l
    def cast(s):
        e = s.unary()
        while s.at('as'):
            s.eat(); s.ty()
        return e
    def unary(s):
        if s.at('*'): s.eat(); return ('deref', s.unary())
        if s.at('!'): s.eat(); return ('not', s.unary())
        if s.at('&') or s.at('&&'):
            s.eat()
            if s.at('mut'): s.eat()
            return ('ref', s.unary())
        if s.at('..'):
            s.eat(); return ('rangeto', s.unary())
        e = s.post()
        if s.at('..'):
            s.eat(); return ('rangefrom', e)
        return e
    def args(s):
        s.eat('('); a = []
        while not s.at(')'):
            a.append(s.expr())
            if s.at(','): s.eat()
        s.eat(')'); return a
    def post(s):
        e = s.atom()
        while True:
            if s.at('.'):
                s.eat(); name = s.eat()
                if s.at('::'): s.eat(); s.skip_generics()
                if s.at('('): e = ('mcall', e, name, s.args())
                else: e = ('field', e, name)
            elif s.at('['):
                s.eat(); i = s.expr(); s.eat(']'); e = ('index', e, i)
            elif s.at('('):
                e = ('call', e, s.args())
            elif s.at('?'):
                s.eat(); e = ('try', e)
            else: return e
    def atom(s):
        k, v = s.peek()
        if k == 'num': s.eat(); return ('num', v)
        if v == '(':
            s.eat()
            if s.at(')'): s.eat(); return ('unit',)
            e = s.expr()
            if s.at(','):
                es = [e]
                while s.at(','):
                    s.eat()
                    if s.at(')'): break
                    es.append(s.expr())
                s.eat(')'); return ('tuple', es)
            s.eat(')'); return ('paren', e)
        if v == '[':
            s.eat(); s.eat(']'); return ('emptyarr',)
        if v == '|' or v == '||':
            params = []
            if v == '||': s.eat()
            else:
                s.eat()
                while not s.at('|'):
                    params.append(s.pat())
                    if s.at(':'): s.eat(); s.ty()
                    if s.at(','): s.eat()
                s.eat('|')
            if s.at('{'):
                s.eat(); b = s.block(); s.eat('}'); return ('closure', b, params)
            return ('closure', [('tail', s.expr())], params)
        if v == 'unsafe':
            s.eat(); s.eat('{'); b = s.block(); s.eat('}'); return ('unsafe', b)
        if v in ('break', 'return') and k == 'id':
            s.eat(); e = ('unit',) if (s.at(';') or s.at('}') or s.at(',')) else s.expr()
            return ('brk' if v == 'break' else 'ret', e)
        if v == 'if':
            s.eat()
            if s.at('let'):
                s.eat(); ctor = s.eat(); s.eat('('); p = s.pat(); s.eat(')'); s.eat('='); e = s.expr()
                s.eat('{'); a = s.block(); s.eat('}'); b = []
                if s.at('else'): s.eat(); s.eat('{'); b = s.block(); s.eat('}')
                if ctor != 'Some': raise TErr('if let ' + ctor)
                return ('iflet', p, e, a, b)
            c = s.expr(); s.eat('{'); a = s.block(); s.eat('}'); b = None
            if s.at('else'):
                s.eat()
                if s.at('if'): b = [('tail', s.atom())]
                else: s.eat('{'); b = s.block(); s.eat('}')
            return ('if', c, a, b)
        if v == 'match':
            s.eat(); c = s.expr(); s.eat('{'); arms = []
            while not s.at('}'):
                p = s.pat(); s.eat('=>')
                if s.at('{'): s.eat(); body = s.block(); s.eat('}')
                else: body = [('tail', s.expr())]
                arms.append((p, body))
                if s.at(','): s.eat()
            s.eat('}'); return ('match', c, arms)
        if k == 'id':
            s.eat(); path = [v]
            while s.at('::'):
                s.eat()
                if s.at('<'): s.skip_generics()
                else: path.append(s.eat())
            return ('path', path)
        raise TErr(f'expression: unexpected {v!r}')

# ------------------------------------------------------------------ code generation
KIND2COQ = {'nat': 'nat', 'val': 'cell', 'loc': 'loc', 'slice': 'sl', 'unit': 'unit', 'bool': 'bool'}
def coq_ty(k):
    if isinstance(k, tuple):
        if k[0] == 'fn': return '(' + ' -> '.join([coq_ty(a) for a in k[1]] + [f'DM {coq_ty(k[2])}']) + ')'
        if k[0] == 'tuple': return '(' + ' * '.join(coq_ty(a) for a in k[1]) + ')'
        if k[0] == 'opt': return f'(option {coq_ty(k[1])})'
        if k[0] == 'res': return f'(result {coq_ty(k[1])} {coq_ty(k[2])})'
    if k in KIND2COQ: return KIND2COQ[k]
    raise TErr(f'type kind {k}')

RESERVED = {'len', 'ret', 'fix', 'end', 'at', 'in', 'as', 'return', 'fun', 'match', 'with', 'if', 'then', 'else', 'let', 'rd', 'st',
            'write', 'sub', 'upd', 'slot', 'check', 'push', 'pop', 'advance', 'run', 'lift', 'emit', 'assign'}
def cv(name): return name + '_' if name in RESERVED else name

class Gen:
    """CPS code generation: expr(e, k) builds the monadic term; k receives a PURE Coq term and its kind"""
    def __init__(s, known, selfname):
        s.n = 0; s.known = known; s.env = {}; s.selfname = selfname; s.uses_fuel = False; s.vmem = False
    def fresh(s, p='v'): s.n += 1; return f'{p}{s.n}'
    def bind(s, rhs, kind, k):
        v = s.fresh(); return f'{v} <~ {rhs} ;; ' + k(v, kind)

    def is_self(s, e): return e[0] == 'path' and e[1] == ['self']
    def strip(s, e):
        while e[0] == 'paren': e = e[1]
        return e
    def is_buffer(s, e):
        """self.buffer()  /  self.buffer"""
        e = s.strip(e)
        return (e[0] == 'mcall' and e[2] == 'buffer' and s.is_self(e[1])) or (e[0] == 'field' and e[2] == 'buffer' and s.is_self(e[1]))
    def is_cells(s, e):
        """self.buffer().inner() / inner_mut()"""
        e = s.strip(e)
        return e[0] == 'mcall' and e[2] in ('inner', 'inner_mut') and not e[3] and s.is_buffer(e[1])

    def exprs(s, es, k, acc=None):
        acc = acc or []
        if not es: return k(acc)
        return s.expr(es[0], lambda a, ka: s.exprs(es[1:], k, acc + [(a, ka)]))

    def args_with_kinds(s, args, pks, k, acc=None):
        """arguments of a call to a translated function: a closure literal gets its parameter kinds from the callee's signature"""
        acc = acc or []
        if not args: return k(acc)
        a = s.strip(args[0]); pk = pks[len(acc)] if len(acc) < len(pks) else '?'
        if a[0] == 'closure' and isinstance(pk, tuple) and pk[0] == 'fn':
            params = a[2] if len(a) > 2 else []
            if len(params) != len(pk[1]) or any(q[0] != 'pvar' for q in params): raise TErr('closure parameters')
            saved = dict(s.env)
            s.env = {kk: v for kk, v in s.env.items() if isinstance(v, tuple) and v[0] == 'fn'}
            for q, kk in zip(params, pk[1]): s.env[q[1]] = kk
            body = s.block(a[1]); s.env = saved
            ps = ' '.join(f'({cv(q[1])} : {coq_ty(kk)})' for q, kk in zip(params, pk[1]))
            return s.args_with_kinds(args[1:], pks, k, acc + [(f'(fun {ps} => {body})', pk)])
        return s.expr(args[0], lambda x, kx: s.args_with_kinds(args[1:], pks, k, acc + [(x, kx)]))

    def block_value(s, stmts):
        """a block used as an expression: a complete monadic term"""
        saved = dict(s.env); r = s.block(stmts); s.env = saved; return r

    def expr(s, e, k):
        t = e[0]
        if t == 'paren': return s.expr(e[1], k)
        if t == 'num': return k(e[1], 'nat')
        if t == 'unit': return k('tt', 'unit')
        if t == 'emptyarr': return k('empty_sl', 'slice')
        if t == 'ref':
            return s.expr(e[1], k)                                  # a borrow denotes the same place / slice
        if t == 'path':
            p = e[1]
            if p == ['None']: return k('None', ('opt', '?'))
            if len(p) == 1:
                if p[0] in s.env: return k(cv(p[0]), s.env[p[0]])
                if p[0] in ('true', 'false'): return k(p[0], 'bool')
                raise TErr(f'unbound variable {p[0]}')
            raise TErr('path ' + '::'.join(p))
        if t == 'tuple':
            return s.exprs(e[1], lambda xs: k('(' + ', '.join(x[0] for x in xs) + ')', ('tuple', [x[1] for x in xs])))
        if t == 'deref':
            return s.expr(e[1], lambda a, ka: s.bind(f'rd E {a}', 'val', k) if ka == 'loc' else (k(a, ka) if ka == 'nat' else s.err(f'deref of {ka}')))
        if t == 'add': return s.expr(e[1], lambda a, _: s.expr(e[2], lambda b, __: s.bind(f'lift (uadd {a} {b})', 'nat', k)))
        if t == 'rem': return s.expr(e[1], lambda a, _: s.expr(e[2], lambda b, __: s.bind(f'umod {a} {b}', 'nat', k)))
        if t == 'cmp':
            op = {'<': 'Nat.ltb', '<=': 'Nat.leb', '>=': 'geb', '>': 'gtb', '==': 'Nat.eqb'}.get(e[1])
            if op is None: raise TErr('comparison ' + e[1])
            return s.expr(e[2], lambda a, _: s.expr(e[3], lambda b, __: k(f'({op} {a} {b})', 'bool')))
        if t == 'not': return s.expr(e[1], lambda a, _: k(f'(negb {a})', 'bool'))
        if t == 'unsafe':
            return s.bind('(' + s.block_value(e[1]) + ')', '?', k)
        if t == 'if':
            def withc(c, _):
                a = s.block_value(e[2]); b = s.block_value(e[3]) if e[3] is not None else 'dret tt'
                return s.bind(f'(if {c} then ({a}) else ({b}))', '?', k)
            return s.expr(e[1], withc)
        if t == 'iflet':
            def witho(o, ko):
                saved = dict(s.env)
                pk = ko[1] if isinstance(ko, tuple) and ko[0] == 'opt' else '?'
                pat = s.bind_pat(e[1], pk)
                a = s.block(e[3]); s.env = saved
                b = s.block_value(e[4])
                return s.bind(f'(match {o} with Some {pat} => ({a}) | None => ({b}) end)', '?', k)
            return s.expr(e[2], witho)
        if t == 'match':
            def withc(c, kc):
                arms = e[2]
                pats = [a[0] for a in arms]
                kinds = [p[0] for p in pats]
                if len(arms) == 2 and sorted(kinds) == ['pbool', 'pbool'] and {p[1] for p in pats} == {'true', 'false'}:
                    d = {p[1]: b for p, b in arms}
                    return s.bind(f'(if {c} then ({s.block_value(d["true"])}) else ({s.block_value(d["false"])}))', '?', k)
                if len(arms) == 2 and pats[0] == ('pnum', '0') and kinds[1] in ('pvar', 'pwild'):
                    z = s.block_value(arms[0][1])
                    saved = dict(s.env)
                    if kinds[1] == 'pvar': s.env[pats[1][1]] = 'nat'
                    nz = s.block(arms[1][1]); s.env = saved
                    bind = f'let {cv(pats[1][1])} := {c} in ' if kinds[1] == 'pvar' else ''
                    return s.bind(f'(match {c} with 0 => ({z}) | S _ => ({bind}{nz}) end)', '?', k)
                if len(arms) == 2 and sorted(kinds) in (['pnone', 'psome'], ['psome', 'pwild']):
                    sm = next(a for a in arms if a[0][0] == 'psome'); nn = next(a for a in arms if a[0][0] != 'psome')
                    saved = dict(s.env)
                    pk = kc[1] if isinstance(kc, tuple) and kc[0] == 'opt' else '?'
                    pat = s.bind_pat(sm[0][1], pk)
                    a1 = s.block(sm[1]); s.env = saved
                    b1 = s.block_value(nn[1])
                    return s.bind(f'(match {c} with Some {pat} => ({a1}) | None => ({b1}) end)', '?', k)
                raise TErr('match arms ' + str(pats))
            return s.expr(e[1], withc)
        if t == 'index':
            if not s.is_cells(e[1]): raise TErr('index into something that is not the cell array')
            return s.expr(e[2], lambda i, _: s.bind(f'cell_at {i}', 'loc', k))
        if t == 'call':
            f = e[1]
            if f[0] == 'path':
                p = f[1]
                if p in (['Some'], ['Ok'], ['Err']):
                    return s.expr(e[2][0], lambda a, ka: k(f'({p[0]} {a})', ('opt', ka) if p == ['Some'] else '?'))
                if p[-1] == 'transmute' and len(e[2]) == 1: return s.expr(e[2][0], k)
                if p[-1] in ('from_raw_parts', 'from_raw_parts_mut') and len(e[2]) == 2:
                    return s.expr(e[2][0], lambda a, _: s.expr(e[2][1], lambda n, __: s.bind(('raw_parts_v' if s.vmem else 'raw_parts') + f' {a} {n}', 'slice', k)))
                if p[-1] == 'check_zeroed' and len(e[2]) == 1:
                    return s.expr(e[2][0], lambda a, _: s.bind(f'check_zeroed E {a}', 'bool', k))
                if p == ['copy_from_slice_unchecked'] and len(e[2]) == 2:
                    return s.expr(e[2][0], lambda a, _: s.expr(e[2][1], lambda b, __: s.bind(f'copy_from_slice_unchecked E {a} {b}', 'unit', k)))
                if len(p) == 1 and p[0] in s.env and isinstance(s.env[p[0]], tuple) and s.env[p[0]][0] == 'fn':
                    fk = s.env[p[0]]
                    return s.exprs(e[2], lambda xs: s.bind(f'{cv(p[0])} ' + ' '.join(x[0] for x in xs), fk[2], k))
            raise TErr(f'call of {f}')
        if t == 'field':
            if s.is_self(e[1]):
                if e[2] == 'index': return s.bind('lift get_index', 'nat', k)
                if e[2] == 'cached_avail': return s.bind('lift get_cached', 'nat', k)
            raise TErr('field ' + e[2])
        if t == 'mcall':
            recv, name, args = s.strip(e[1]), e[2], e[3]
            # ---- the iterator itself
            if s.is_self(recv):
                if name in ('_index', 'index') and not args: return s.bind('lift get_index', 'nat', k)
                if name == 'cached_avail' and not args: return s.bind('lift get_cached', 'nat', k)
                if name == '_available' and not args: return s.bind('lift (dn_avail E)', 'nat', k)
                if name == 'buf_len' and not args: return s.bind('lift (buf_len (dn_E E))', 'nat', k)
                if name == 'check' and len(args) == 1:
                    return s.expr(args[0], lambda a, _: s.bind(f'lift (g_check (dn_E E) (dn_avail E) {a})', 'bool', k))
                if name == '_advance' and len(args) == 1:
                    return s.expr(args[0], lambda a, _: s.bind(f'lift (g_advance (dn_E E) {a})', 'unit', k))
                if name == 'advance_local' and len(args) == 1:
                    return s.expr(args[0], lambda a, _: s.bind(f'lift (g_advance_local (dn_E E) {a})', 'unit', k))
                if name in s.known:
                    kn, pks = s.known[name]
                    return s.args_with_kinds(args, pks, lambda xs: s.bind(f'd_{name} E ' + ' '.join(x[0] for x in xs), kn, k))
                raise TErr(f'self.{name}: not among the translated functions')
            if s.is_buffer(recv) and name == 'inner_len' and not args: return s.bind('lift (buf_len (dn_E E))', 'nat', k)
            if s.is_cells(recv) and name in ('as_ptr', 'as_mut_ptr') and not args: return s.bind('buf_ptr', 'loc', k)
            # ---- numbers
            if name in ('unchecked_add', 'unchecked_sub', 'saturating_sub') and len(args) == 1:
                op = {'unchecked_add': 'uadd', 'unchecked_sub': 'usub', 'saturating_sub': 'ssub'}[name]
                return s.expr(recv, lambda a, _: s.expr(args[0], lambda b, __: s.bind(f'lift ({op} {a} {b})', 'nat', k)))
            # ---- bool.then(|| ..)
            if name == 'then' and len(args) == 1 and args[0][0] == 'closure':
                return s.expr(recv, lambda c, _: s.bind(f'then_ {c} ({s.block_value(args[0][1])})', ('opt', '?'), k))
            if name == 'ok_or': raise TErr('ok_or')
            # ---- option.map(|pat| body)
            if name == 'map' and len(args) == 1 and s.strip(args[0])[0] == 'closure' and len(s.strip(args[0])) > 2 and len(s.strip(args[0])[2]) == 1:
                cl = s.strip(args[0])
                def witho(o, ko):
                    saved = dict(s.env)
                    pk = ko[1] if isinstance(ko, tuple) and ko[0] == 'opt' else '?'
                    pat = s.bind_pat(cl[2][0], pk)
                    body = s.block(cl[1]); s.env = saved
                    r = s.fresh()
                    return s.bind(f'(match {o} with Some {pat} => ({r} <~ ({body}) ;; dret (Some {r})) | None => dret None end)', ('opt', '?'), k)
                return s.expr(recv, witho)
            # ---- everything else: evaluate the receiver, dispatch on its kind
            def withr(r, kr):
                if kr == 'loc':
                    if name == 'take_inner' and not args: return s.bind(f'take_inner E {r}', 'val', k)
                    if name == 'inner_duplicate' and not args: return s.bind(f'inner_duplicate E {r}', 'val', k)
                    if name in ('inner_ref', 'inner_ref_mut', 'as_mut_ptr') and not args: return s.bind(f'inner_ref {r}', 'loc', k)
                    if name == 'add' and len(args) == 1: return s.expr(args[0], lambda i, _: s.bind(f'ptr_add {r} {i}', 'loc', k))
                    if name == 'clone' and not args:
                        return s.bind(f'rd E {r}', 'val', lambda v, _: s.bind(f'clone_ E {v}', 'clone', k))
                    if name == 'clone_from' and len(args) == 1:
                        return s.expr(args[0], lambda y, ky: s.bind(f'rd E {y}', 'val', lambda v, _: s.bind(f'clone_ E {v}', 'clone',
                                      lambda c, __: s.bind(f'assign E {r} {c}', 'unit', k))))
                    if name == 'write' and len(args) == 1:
                        return s.expr(args[0], lambda v, kv: s.bind((f'write_move E {r} {v}' if kv == 'val' and s.is_moved(args[0]) else f'write_ E {r} {v}'), 'unit', k))
                if kr == 'slice':
                    if name == 'len' and not args: return k(f'(s_len {r})', 'nat')
                    if name in ('get_unchecked', 'get_unchecked_mut') and len(args) == 1:
                        a = s.strip(args[0])
                        if a[0] == 'rangeto': return s.expr(a[1], lambda m, _: s.bind(f'sl_prefix {r} {m}', 'slice', k))
                        if a[0] == 'rangefrom': return s.expr(a[1], lambda m, _: s.bind(f'sl_suffix {r} {m}', 'slice', k))
                    if name in ('split_at_unchecked', 'split_at_mut_unchecked') and len(args) == 1:
                        return s.expr(args[0], lambda m, _: s.bind(f'sl_prefix {r} {m}', 'slice', lambda a, __: s.bind(f'sl_suffix {r} {m}', 'slice',
                                      lambda b, ___: k(f'({a}, {b})', ('tuple', ['slice', 'slice'])))))
                    if name == 'clone_from_slice' and len(args) == 1:
                        return s.expr(args[0], lambda b, _: s.bind(f'clone_from_slice E {r} {b}', 'unit', k))
                raise TErr(f'method {name} on a value of kind {kr}')
            return s.expr(recv, withr)
        if t == 'try':
            def witho(o, ko):
                v = s.fresh(); ik = ko[1] if isinstance(ko, tuple) and ko[0] == 'opt' else '?'
                return f'(match {o} with Some {v} => ({k(v, ik)}) | None => dret None end)'
            return s.expr(e[1], witho)
        if t == 'closure': raise TErr('closure outside .then() / .map() / an argument position')
        raise TErr('expression ' + t)

    def err(s, m): raise TErr(m)
    def is_moved(s, e):
        """a by-value variable of the item type (ownership passes on)"""
        e = s.strip(e)
        return e[0] == 'path' and len(e[1]) == 1 and s.env.get(e[1][0]) == 'val'

    def bind_pat(s, p, kind):
        if p[0] == 'pwild': return '_'
        if p[0] == 'pvar':
            s.env[p[1]] = kind; return cv(p[1])
        ks = kind[1] if isinstance(kind, tuple) and kind[0] == 'tuple' and len(kind[1]) == len(p[1]) else ['?'] * len(p[1])
        return '(' + ', '.join(s.bind_pat(q, kk) for q, kk in zip(p[1], ks)) + ')'

    def lam(s, fn):
        """a nested fn item as a Coq lambda"""
        _, name, params, ret, body = fn
        saved = dict(s.env)
        s.env = {k: v for k, v in s.env.items() if isinstance(v, tuple) and v[0] == 'fn'}     # an fn item captures nothing but other items
        for pn, pk in params: s.env[pn] = pk
        b = s.block(body); s.env = saved
        ps = ' '.join(f'({cv(pn)} : {coq_ty(pk)})' for pn, pk in params)
        return f'(fun {ps} => {b})', ('fn', [pk for _, pk in params], ret)

    def block(s, stmts):
        if not stmts: return 'dret tt'
        st, rest = stmts[0], stmts[1:]
        t = st[0]
        if t == 'fn':
            l, fk = s.lam(st); s.env[st[1]] = fk
            return f'let {cv(st[1])} := {l} in ' + s.block(rest)
        if t == 'let':
            def withv(a, ka):
                pat = s.bind_pat(st[1], ka)
                if st[1][0] == 'pvar': return f'let {pat} := {a} in ' + s.block(rest)
                return f"let '{pat} := {a} in " + s.block(rest)
            return s.expr(st[2], withv)
        if t == 'letelse':
            if st[1][0] != 'psome': raise TErr('let-else pattern')
            def witho(o, ko):
                eb = s.block_value(st[3])
                pk = ko[1] if isinstance(ko, tuple) and ko[0] == 'opt' else '?'
                pat = s.bind_pat(st[1][1], pk)
                return f'(match {o} with Some {pat} => ({s.block(rest)}) | None => ({eb}) end)'
            return s.expr(st[2], witho)
        if t == 'return':
            if rest: raise TErr('statements after return')
            return s.expr(st[1], lambda a, _: f'dret {a}')
        if t == 'assign':
            lhs, rhs = s.strip(st[1]), st[2]
            if lhs[0] == 'deref':
                def withp(p, kp):
                    if kp != 'loc': raise TErr('assignment through a non-pointer')
                    def withv(v, kv):
                        op = 'assign_move' if (kv == 'val' and s.is_moved(rhs)) else 'assign'
                        return f'{op} E {p} {v} ;;~ ' + s.block(rest)
                    return s.expr(rhs, withv)
                return s.expr(lhs[1], withp)
            raise TErr('assignment target')
        if t == 'for':
            p, it, body = st[1], s.strip(st[2]), st[3]
            # a.iter_mut().zip(b)
            if it[0] == 'mcall' and it[2] == 'zip' and len(it[3]) == 1 and it[1][0] == 'mcall' and it[1][2] in ('iter_mut', 'iter') and p[0] == 'ptuple' and len(p[1]) == 2:
                def witha(a, ka):
                    def withb(b, kb):
                        if ka != 'slice' or kb != 'slice': raise TErr('zip over non-slices')
                        saved = dict(s.env)
                        x, y = p[1][0][1], p[1][1][1]; s.env[x] = 'loc'; s.env[y] = 'loc'
                        bd = s.block(body); s.env = saved
                        return f'for_zip {a} {b} (fun {cv(x)} {cv(y)} => {bd}) ;;~ ' + s.block(rest)
                    return s.expr(it[3][0], withb)
                return s.expr(it[1][1], witha)
            raise TErr('for loop of an unknown shape')
        if t == 'while':
            s.uses_fuel = True
            saved = dict(s.env); c = s.expr(st[1], lambda a, _: f'dret {a}'); s.env = saved
            b = s.block_value(st[2])
            # [while_] answers whether the loop ended within [fuel] rounds; a loop that is still spinning never reaches what follows it
            v = s.fresh()
            r = s.fresh(); return f'{v} <~ while_ fuel ({c}) ({b}) ;; if {v} then ({r} <~ ({s.block(rest)}) ;; dret (Some {r})) else spinning'
        if t == 'expr':
            return s.expr(st[1], lambda a, _: s.block(rest))
        if t == 'tail':
            if rest: raise TErr('tail expression followed by statements')
            return s.expr(st[1], lambda a, _: f'dret {a}')
        raise TErr('statement ' + t)

# (Coq name = d_<fn>, file, fn, self-method table entry: result kind)
FUNS = [
    ('iterators/iterator_trait.rs', 'advance'), ('iterators/iterator_trait.rs', 'available'), ('iterators/iterator_trait.rs', 'wait_for'),
    ('iterators/iterator_trait.rs', 'next'), ('iterators/iterator_trait.rs', 'next_duplicate'),
    ('iterators/iterator_trait.rs', 'next_ref'), ('iterators/iterator_trait.rs', 'next_ref_mut'),
    ('iterators/iterator_trait.rs', 'next_ref_mut_init'),
    ('iterators/iterator_trait.rs', 'next_chunk'), ('iterators/iterator_trait.rs', 'next_chunk_mut'),
    ('iterators/iterator_trait.rs', 'get_workable'), ('iterators/iterator_trait.rs', 'get_workable_slice_exact'),
    ('iterators/iterator_trait.rs', 'get_workable_slice_avail'), ('iterators/iterator_trait.rs', 'get_workable_slice_multiple_of'),
    ('iterators/sync_iterators/prod_iter.rs', '_push'), ('iterators/sync_iterators/prod_iter.rs', 'push'),
    ('iterators/sync_iterators/prod_iter.rs', 'push_init'),
    ('iterators/sync_iterators/prod_iter.rs', '_push_slice'), ('iterators/sync_iterators/prod_iter.rs', 'push_slice'),
    ('iterators/sync_iterators/prod_iter.rs', 'push_slice_init'), ('iterators/sync_iterators/prod_iter.rs', 'push_slice_clone'),
    ('iterators/sync_iterators/prod_iter.rs', 'push_slice_clone_init'),
    ('iterators/sync_iterators/prod_iter.rs', 'get_next_item_mut'), ('iterators/sync_iterators/prod_iter.rs', 'get_next_item_mut_init'),
    ('iterators/sync_iterators/prod_iter.rs', 'get_next_slices_mut'),
    ('iterators/sync_iterators/cons_iter.rs', 'peek_ref'), ('iterators/sync_iterators/cons_iter.rs', 'peek_slice'),
    ('iterators/sync_iterators/cons_iter.rs', 'peek_available'),
    ('iterators/sync_iterators/cons_iter.rs', 'pop_move'), ('iterators/sync_iterators/cons_iter.rs', 'pop'),
    ('iterators/sync_iterators/cons_iter.rs', '_extract_item'), ('iterators/sync_iterators/cons_iter.rs', 'copy_item'),
    ('iterators/sync_iterators/cons_iter.rs', 'clone_item'),
    ('iterators/sync_iterators/cons_iter.rs', '_extract_slice'), ('iterators/sync_iterators/cons_iter.rs', 'copy_slice'),
    ('iterators/sync_iterators/cons_iter.rs', 'clone_slice'),
]

def translate(repo, vmem=False):
    out = []; problems = []; known = {}
    srcs = {}
    for f, fn in FUNS:
        path = os.path.join(repo, 'src', f)
        try:
            if f not in srcs: srcs[f] = strip_comments(open(path).read())
            txt = find_fn(srcs[f], fn, vmem)
            pp = P(lex(txt)); pp.vmem = vmem
            item = pp.fn_item()
            _, name, params, ret, body = item
            g = Gen(known, name); g.vmem = vmem
            for pn, pk in params: g.env[pn] = pk
            code = g.block(body)
            ps = ' '.join(f'({cv(pn)} : {coq_ty(pk)})' for pn, pk in params)
            fuel = '(fuel : nat) ' if g.uses_fuel else ''
            out.append(f'(* {f} :: {fn} *)\nDefinition d_{fn} (E : denv) {fuel}{ps} : DM _ :=\n  {code}.\n')
            known[fn] = (ret, [pk for _, pk in params])
        except (TErr, ValueError, IndexError, KeyError) as ex:
            problems.append(f'{f}::{fn}: outside the translatable subset: {ex}')
            out.append(f'(* d_{fn}: OUTSIDE SUBSET: {ex} *)\n')
    return out, problems

PASS_THROUGH = {  # wrapper file -> the methods that must only pass the call on to the wrapped iterator
    'iterators/sync_iterators/detached.rs': ['available', 'wait_for', 'index', 'buf_len', 'get_workable', 'get_workable_slice_exact',
                                              'get_workable_slice_avail', 'get_workable_slice_multiple_of'],
    'iterators/async_iterators/mod.rs': ['index', 'available', 'advance'],
}
def delegations(repo):
    """for the Detached wrapper and the AsyncIterator trait: which of the listed methods only pass the call on - either a
    `delegate!(MRBIterator ..., fn name(..))` line or a hand-written body `self.inner[_mut]().name(args)` / `self.inner.name(args)`"""
    res = []
    for f, names in PASS_THROUGH.items():
        try: txt = strip_comments(open(os.path.join(repo, 'src', f)).read())
        except OSError: continue
        for n in names:
            ok = re.search(r'delegate!\(\s*MRBIterator[^,]*,\s*(?:pub\s+)?(?:unsafe\s+)?fn\s+' + n + r'\b', txt) is not None
            if not ok:
                m = re.search(r'\bfn\s+' + n + r'\s*(?:<[^>]*>)?\s*\(([^)]*)\)[^{;]*\{\s*(?:unsafe\s*\{\s*)?self\s*\.\s*inner(?:_mut)?\s*(?:\(\s*\))?\s*\.\s*' + n + r'\s*\(([^)]*)\)\s*;?\s*\}?\s*\}', txt)
                if m:
                    params = [q.split(':')[0].strip() for q in m.group(1).split(',') if ':' in q]
                    args = [a.strip() for a in m.group(2).split(',') if a.strip()]
                    ok = params == args
            res.append((f, n, ok))
    return res

WIRING = [('P', 'iterators/sync_iterators/prod_iter.rs'), ('W', 'iterators/sync_iterators/work_iter.rs'), ('C', 'iterators/sync_iterators/cons_iter.rs')]
IDX = {'prod_index': 'P', 'work_index': 'W', 'cons_index': 'C'}
SETIDX = {'set_prod_index': 'P', 'set_work_index': 'W', 'set_cons_index': 'C'}
def wiring(repo):
    """which published index each iterator follows (`succ_index`) and which one it publishes to (`set_atomic_index`)"""
    defs = []; problems = []
    succ = {}; pubs = {}
    for k, f in WIRING:
        try:
            txt = strip_comments(open(os.path.join(repo, 'src', f)).read())
            item = P(lex(find_fn(txt, 'succ_index'))).fn_item()
            def idx_of(e):
                e = e[1] if e[0] == 'paren' else e
                if e[0] == 'mcall' and e[2] in IDX and not e[3] and (e[1][0] in ('field', 'mcall')) and e[1][2] == 'buffer': return IDX[e[2]]
                raise TErr('succ_index: not a published index')
            def walk(stmts):
                if len(stmts) != 1 or stmts[0][0] not in ('tail', 'return'): raise TErr('succ_index: body is not a single expression')
                e = stmts[0][1]
                while e[0] in ('paren', 'unsafe'): e = e[1] if e[0] == 'paren' else e[1][0][1]
                if e[0] == 'if':
                    c = e[1]
                    if c != ('path', ['W']): raise TErr('succ_index: condition other than the const parameter W')
                    return f'(if hasW then {walk(e[2])} else {walk(e[3])})'
                return idx_of(e)
            succ[k] = walk(item[4])
            item = P(lex(find_fn(txt, 'set_atomic_index'))).fn_item()
            b = item[4]
            if len(b) != 1 or b[0][0] not in ('expr', 'tail'): raise TErr('set_atomic_index: body is not a single call')
            e = b[0][1]
            if not (e[0] == 'mcall' and e[2] in SETIDX and len(e[3]) == 1 and e[3][0] == ('path', [item[2][0][0]])): raise TErr('set_atomic_index: not a store of the argument to one published index')
            pubs[k] = SETIDX[e[2]]
        except (TErr, ValueError, IndexError, KeyError) as ex:
            problems.append(f'{f}: wiring outside the translatable subset: {ex}')
    if len(succ) == 3 and len(pubs) == 3:
        defs.append('(* succ_index / set_atomic_index of ProdIter, WorkIter, ConsIter<W> *)')
        defs.append('Definition g_succ (k : stage) (hasW : bool) : stage :=\n  match k with P => ' + succ['P'] + ' | W => ' + succ['W'] + ' | C => ' + succ['C'] + ' end.')
        defs.append('Definition g_pub (k : stage) : stage :=\n  match k with P => ' + pubs['P'] + ' | W => ' + pubs['W'] + ' | C => ' + pubs['C'] + ' end.')
    else:
        defs.append('Definition g_succ (k : stage) (hasW : bool) : stage := k.\nDefinition g_pub (k : stage) : stage := P.')
    return defs, problems

# ------------------------------------------------------------------ MRBFuture::poll: symbolic execution of the loop
def poll_shape(repo):
    """runs the body of `MRBFuture::poll` on abstract values for every sequence of attempt outcomes: which events (attempt of the stored
    operation on the borrowed iterator, registration of the polling task's waker) happen in which order, and how the poll ends"""
    try:
        txt = strip_comments(open(os.path.join(repo, 'src', 'iterators/async_iterators/mod.rs')).read())
        item = P(lex(find_fn(txt, 'poll'))).fn_item()
        body = item[4]
    except (TErr, ValueError, IndexError, KeyError, OSError) as ex:
        return [], [f'iterators/async_iterators/mod.rs::poll: outside the analysable subset: {ex}']
    class Brk(Exception):
        def __init__(s, v): s.v = v
    def mentions(e, names):
        if isinstance(e, tuple): return any(mentions(x, names) for x in e)
        if isinstance(e, list): return any(mentions(x, names) for x in e)
        return e in names
    def run(Rval, oracle):
        ev = []; env = {}; oi = [0]
        def opnames():
            # the struct fields holding the stored operation, and every local they were moved into (`let x = self.f_r.take()`)
            return ('f_r', 'f_m') + tuple(k for k, v in env.items() if v == ('op',))
        def is_attempt_call(e):
            # <stored fn>(self.iter, ..): a call whose callee mentions the stored operation and whose first argument is self.iter
            return e[0] == 'call' and mentions(e[1], opnames()) and e[2] and mentions(e[2][0], ('iter',))
        def val(e):
            e0 = e
            while e[0] == 'paren': e = e[1]
            if e[0] == 'path' and e[1] in (['true'], ['false']): return e[1][0] == 'true'
            if e[0] == 'path' and len(e[1]) == 1 and e[1][0] in env: return env[e[1][0]]
            if e[0] == 'path' and e[1] == ['R']: return Rval
            if e[0] == 'not':
                v = val(e[1])
                return (not v) if isinstance(v, bool) else None
            if is_attempt_call(e):
                if oi[0] >= len(oracle): raise TErr('poll: more attempts than the analysis allows')
                ok = oracle[oi[0]]; oi[0] += 1; ev.append('PAttempt'); return ('attempt', ok)
            if e[0] == 'mcall' and e[2] == 'ok_or': return val(e[1])
            if e[0] == 'mcall' and e[2] == 'take' and e[1][0] == 'field' and e[1][2] in ('f_r', 'f_m'): return ('op',)
            if e[0] == 'mcall' and e[2] == 'register_waker':
                ev.append('PRegister'); return None
            if e[0] == 'if':
                c = val(e[1])
                if not isinstance(c, bool): raise TErr('poll: condition that is neither R nor a tracked flag')
                return blk(e[2] if c else (e[3] or []))
            if e[0] == 'match':
                c = val(e[1])
                if not (isinstance(c, tuple) and c[0] == 'attempt'): raise TErr('poll: match on something that is not an attempt result')
                for pat, b in e[2]:
                    if (pat[0] in ('pok', 'psome')) == c[1]: return blk(b)
                raise TErr('poll: match without a matching arm')
            if e[0] == 'unsafe': return blk(e[1])
            if e[0] in ('brk', 'ret'):
                name = 'PReady' if mentions(e[1], ('Ready',)) else ('PPending' if mentions(e[1], ('Pending',)) else None)
                if name is None: raise TErr('poll: break / return with an unknown value')
                raise Brk(name)
            # anything else must not hide an attempt or a registration
            if mentions(e, ('register_waker',)) or (mentions(e, opnames()) and mentions(e, ('iter',)) and e[0] not in ('mcall', 'path', 'field')):
                raise TErr('poll: attempt / registration in an unexpected position')
            return None
        def blk(stmts):
            r = None
            for st in stmts:
                t = st[0]
                if t == 'let':
                    v = val(st[2])
                    if st[1][0] == 'pvar': env[st[1][1]] = v
                    r = None
                elif t == 'assign':
                    tgt = st[1]
                    if tgt[0] == 'path' and len(tgt[1]) == 1:
                        env[tgt[1][0]] = val(st[2])
                    r = None
                elif t in ('expr', 'tail'):
                    r = val(st[1])
                elif t == 'break':
                    e = st[1]
                    name = 'PReady' if mentions(e, ('Ready',)) else ('PPending' if mentions(e, ('Pending',)) else None)
                    if name is None: raise TErr('poll: break with an unknown value')
                    raise Brk(name)
                elif t == 'loop':
                    for _ in range(6):
                        blk(st[1])
                    raise TErr('poll: the loop does not end within 6 rounds')
                elif t == 'return':
                    e = st[1]
                    name = 'PReady' if mentions(e, ('Ready',)) else ('PPending' if mentions(e, ('Pending',)) else None)
                    if name is None: raise TErr('poll: return with an unknown value')
                    raise Brk(name)
                elif t == 'fn': pass
                else: raise TErr('poll: statement ' + t)
            return r
        try:
            blk(body)
        except Brk as b:
            return ev, b.v
        raise TErr('poll: the body ends without a result')
    shapes = []; problems = []
    try:
        for oracle in ([True], [False, True], [False, False]):
            a = run(True, oracle); b = run(False, oracle)
            if a != b: raise TErr(f'poll: the by-reference and by-value forms differ on outcomes {oracle}: {a} vs {b}')
            shapes.append((oracle, a[0], a[1]))
    except (TErr, ValueError, IndexError, KeyError) as ex:
        problems.append(f'iterators/async_iterators/mod.rs::poll: {ex}')
    return shapes, problems

# ------------------------------------------------------------------ the async methods: which synchronous method each future attempts
ASYNC_FILES = ['iterators/async_iterators/mod.rs', 'iterators/async_iterators/prod_iter.rs', 'iterators/async_iterators/cons_iter.rs',
               'iterators/async_iterators/work_iter.rs']
def async_table(repo):
    """every `pub fn NAME(..) -> MRBFuture<..>`: its inner `fn f(s, payload)` must be exactly `s.inner_mut().NAME(<the payload, dereferenced>)`
    (optionally inside `unsafe {}`), and the future it builds must hold `self`, the method's own argument as payload and `f` in the slot
    (by reference / by value) its last type parameter announces"""
    rows = []; problems = []
    for f in ASYNC_FILES:
        try: txt = strip_comments(open(os.path.join(repo, 'src', f)).read())
        except OSError: continue
        for m in re.finditer(r'pub\s+(?:unsafe\s+)?fn\s+(\w+)\s*(?:<[^>]*>)?\s*\(([^)]*)\)\s*->\s*MRBFuture\s*<([^{]*?)>\s*(?:where[^{]*)?\{', txt):
            name, params, targs = m.group(1), m.group(2), m.group(3)
            i = m.end() - 1; d = 0; j = i
            while True:
                if txt[j] == '{': d += 1
                elif txt[j] == '}':
                    d -= 1
                    if d == 0: break
                j += 1
            body = txt[i + 1:j]
            ok = True; why = ''
            try:
                arg = [q.split(':')[0].strip() for q in params.split(',') if ':' in q]           # the method's own argument (at most one)
                byref = targs.strip().rstrip(',').split(',')[-1].strip() == 'true'
                fm = re.search(r'\bfn\s+(\w+)\b', body)
                if not fm: raise TErr('no inner fn')
                item = P(lex(find_fn(body, fm.group(1)))).fn_item()
                fparams = [pn for pn, _ in item[2]]
                b = item[4]
                # plain `let name = <expr>;` aliases in front of the call are substituted
                sub = {}
                def subst(x):
                    if isinstance(x, tuple):
                        if x[0] == 'path' and len(x[1]) == 1 and x[1][0] in sub: return sub[x[1][0]]
                        return tuple(subst(y) for y in x)
                    if isinstance(x, list): return [subst(y) for y in x]
                    return x
                def strip_blocks(bb):
                    while True:
                        while bb and bb[0][0] == 'let' and bb[0][1][0] == 'pvar' and len(bb) > 1:
                            sub[bb[0][1][1]] = subst(bb[0][2]); bb = bb[1:]
                        if len(bb) != 1 or bb[0][0] != 'tail': raise TErr('inner fn is not a single expression')
                        e1 = bb[0][1]
                        while e1[0] == 'paren': e1 = e1[1]
                        if e1[0] == 'unsafe': bb = e1[1]; continue
                        return subst(e1)
                e = strip_blocks(b)
                if not (e[0] == 'mcall' and e[2] == name): raise TErr(f'attempts `{e[2] if e[0] == "mcall" else e[0]}` instead of `{name}`')
                r = e[1]
                if not (r[0] == 'mcall' and r[2] == 'inner_mut' and not r[3] and r[1] == ('path', [fparams[0]])): raise TErr('not called on s.inner_mut()')
                pay = fparams[1] if len(fparams) > 1 else None
                for a in e[3]:
                    while a[0] in ('paren', 'deref', 'ref'): a = a[1]
                    if a != ('path', [pay]): raise TErr('passes something else than its payload')
                if len(e[3]) != len(arg): raise TErr('payload / argument mismatch')
                lit = re.search(r'MRBFuture\s*\{([^}]*)\}', body)
                if not lit: raise TErr('no MRBFuture literal')
                fields = {k.strip(): v.strip() for k, v in (x.split(':', 1) for x in lit.group(1).split(',') if ':' in x)}
                want_p = 'Some(' + (arg[0] if arg else '()') + ')'
                if fields.get('iter') != 'self' or fields.get('p', '').replace(' ', '') != want_p.replace(' ', ''): raise TErr('future does not hold self and the argument')
                slot, other = ('f_r', 'f_m') if byref else ('f_m', 'f_r')
                if fields.get(slot) != f'Some({fm.group(1)})' or fields.get(other) != 'None': raise TErr('operation stored in the wrong slot')
            except (TErr, ValueError, IndexError, KeyError) as ex:
                ok = False; why = str(ex)
            rows.append((f, name, ok))
            if not ok: problems.append(f'{f}::{name}: {why}')
    if len(rows) < 19: problems.append(f'only {len(rows)} async methods found')
    return rows, problems

# ------------------------------------------------------------------ the drop path -> gen/LifeFns.v (monad of Model/LifeM.v)
STAGE = {'prod': 'P', 'work': 'W', 'cons': 'C'}
class LGen:
    """translation of the handful of functions on the drop path; anything unexpected raises TErr"""
    def __init__(s, variant): s.variant = variant; s.n = 0; s.env = {}
    def fresh(s): s.n += 1; return f'v{s.n}'
    def strip(s, e):
        while e[0] in ('paren',): e = e[1]
        return e
    def is_self(s, e): return e == ('path', ['self'])
    def expr(s, e, k):
        e = s.strip(e); t = e[0]
        if t == 'path':
            p = e[1]
            if p in (['true'], ['false']): return k(p[0])
            if len(p) == 1 and p[0] in s.env: return k(s.env[p[0]])
            raise TErr('unbound ' + '::'.join(p))
        if t == 'unsafe': return f'({s.block(e[1])})' if False else s.block_then(e[1], k)
        if t == 'not': return s.expr(e[1], lambda a: k(f'(negb {a})'))
        if t == 'or': return s.expr(e[1], lambda a: s.expr(e[2], lambda b: k(f'({a} || {b})')))
        if t == 'field' and s.is_self(e[1]) and e[2] == 'needs_drop':
            v = s.fresh(); return f'{v} <- needs_drop E ;;; ' + k(v)
        if t == 'deref':
            # *self.<st>_alive.get()
            x = s.strip(e[1])
            if x[0] == 'mcall' and x[2] == 'get' and x[1][0] == 'field' and s.is_self(x[1][1]) and x[1][2].endswith('_alive'):
                v = s.fresh(); return f'{v} <- get_flag {STAGE[x[1][2][:-6]]} ;;; ' + k(v)
            raise TErr('deref')
        if t == 'cmp' and e[1] == '==':
            # <rmw result> & !flag == 0   /  (x & !flag) == 0 : handled textually by the caller
            raise TErr('comparison')
        if t == 'mcall':
            recv, name, args = s.strip(e[1]), e[2], e[3]
            if name in ('prod_alive', 'work_alive', 'cons_alive') and s.is_self(recv) and not args:
                v = s.fresh(); return f'{v} <- get_flag {STAGE[name[:4]]} ;;; ' + k(v)
            if name in ('set_prod_alive', 'set_work_alive', 'set_cons_alive') and len(args) == 1:
                # BufRef / iterator level: delegates to the next level down
                return s.expr(args[0], lambda a: (lambda v: f'{v} <- {s.callee(recv, name)} {a} ;;; ' + k(v))(s.fresh()))
            if name == 'drop' and s.is_self(recv) and not args: return 'l_bufref_drop E ;;;; ' + k('tt')
            if name in ('as_ptr', 'as_ref') : return s.expr(recv, k)
            raise TErr('method ' + name)
        if t == 'call':
            f = e[1]
            if f[0] == 'path' and f[1][-1] == 'fence': return 'fence_ ;;;; ' + k('tt')
            if f[0] == 'path' and f[1][-1] == 'from_raw': return 'free_ ;;;; ' + k('tt')
            if f[0] == 'path' and f[1][-1] == 'event': return k('tt')            # verification hook event: no effect
            raise TErr('call ' + str(f))
        if t == 'if':
            def withc(c):
                a = s.block(e[2]); b = s.block(e[3]) if e[3] is not None else 'lret tt'
                v = s.fresh(); return f'{v} <- (if {c} then ({a}) else ({b})) ;;; ' + k(v)
            return s.expr(e[1], withc)
        if t == 'field' and s.is_self(e[1]) and e[2] in ('inner', 'buffer'): return k('tt')
        raise TErr('expression ' + t)
    def callee(s, recv, name):
        # self.buffer.set_X_alive -> BufRef level;  self.inner.as_ref().set_X_alive -> variant level
        r = s.strip(recv)
        while r[0] == 'mcall' and r[2] in ('as_ref', 'as_mut'): r = s.strip(r[1])
        if r[0] == 'field' and r[2] == 'buffer': return f'l_bufref_{name} V E'
        if r[0] == 'field' and r[2] == 'inner': return f'(match V with true => lc_{name} | false => ll_{name} end)'
        raise TErr('receiver of ' + name)
    def block_then(s, stmts, k):
        # a block used as an expression whose value continues
        if not stmts: return k('tt')
        return s.stmts(stmts, k)
    def stmts(s, stmts, k):
        st, rest = stmts[0], stmts[1:]
        t = st[0]
        if t == 'let':
            if st[1][0] == 'pwild' or (st[1][0] == 'pvar' and st[1][1] == '_'): return s.expr(st[2], lambda a: s.stmts(rest, k) if rest else k('tt'))
            def withv(a):
                s.env[st[1][1]] = a
                return s.stmts(rest, k) if rest else k('tt')
            return s.expr(st[2], withv)
        if t == 'assign':
            lhs = s.strip(st[1])
            if lhs[0] == 'deref':
                x = s.strip(lhs[1])
                if x[0] == 'mcall' and x[2] == 'get' and x[1][0] == 'field' and x[1][2].endswith('_alive'):
                    return s.expr(st[2], lambda a: f'put_flag {STAGE[x[1][2][:-6]]} {a} ;;;; ' + (s.stmts(rest, k) if rest else k('tt')))
            raise TErr('assignment')
        if t in ('expr', 'tail'):
            if rest: return s.expr(st[1], lambda a: s.stmts(rest, k))
            return s.expr(st[1], k)
        raise TErr('statement ' + t)
    def block(s, stmts):
        if not stmts: return 'lret tt'
        return s.stmts(stmts, lambda a: f'lret {a}')

def life_fns(repo):
    out = []; problems = []
    def fn_of(rel, name, after=None):
        txt = strip_comments(open(os.path.join(repo, 'src', rel)).read())
        if after is not None: txt = txt[txt.index(after):]
        return P(lex(find_fn(txt, name))).fn_item()
    try:
        # Local variant: set_X_alive(&self, alive) -> bool
        for st in ('prod', 'work', 'cons'):
            it = fn_of('ring_buffer/variants/local_rb.rs', f'set_{st}_alive', 'IterManager for')
            g = LGen('local'); g.env[it[2][0][0]] = 'alive'
            body = it[4]
            # a private helper `fn h(&self) -> bool { !(a || b || c) }` is inlined
            out.append(f'Definition ll_set_{st}_alive (alive : bool) : LM bool :=\n  {g.block(inline_helpers(repo, "ring_buffer/variants/local_rb.rs", body))}.')
        # Concurrent variant: set_X_alive -> set_alive(MASK, alive): one RMW, the answer computed from the value it read
        ctxt = strip_comments(open(os.path.join(repo, 'src', 'ring_buffer/variants/concurrent_rb.rs')).read())
        sa = re.sub(r'\s+', '', find_fn(ctxt, 'set_alive'))
        one_rmw = sa.count('fetch_and(') == 1 and sa.count('fetch_or(') == 1 and '.load(' not in sa
        decided = re.search(r'\(?(?:self\.alive\.fetch_and\(!flag,[\w:]+\)|(\w+))&!flag\)?==0', sa) is not None
        sets_false = re.search(r'fetch_or\(flag,[\w:]+\);false', sa) is not None
        if not (one_rmw and decided and sets_false): raise TErr('concurrent_rb.rs::set_alive: not `if alive { fetch_or; false } else { fetch_and(!flag) & !flag == 0 }`')
        for st in ('prod', 'work', 'cons'):
            b = re.sub(r'\s+', '', find_fn(ctxt[ctxt.index('IterManager for'):], f'set_{st}_alive'))
            if not re.search(r'\{self\.set_alive\(' + st.upper() + r'_ALIVE,alive\)\}$', b): raise TErr(f'concurrent_rb.rs::set_{st}_alive: not set_alive({st.upper()}_ALIVE, alive)')
            out.append(f'Definition lc_set_{st}_alive (alive : bool) : LM bool :=\n  old <- rmw_flag {STAGE[st]} alive ;;; lret (if alive then false else none_set (tset {STAGE[st]} false old)).')
        # BufRef::drop and BufRef::set_X_alive
        it = fn_of('ring_buffer/wrappers/buf_ref.rs', 'drop')
        out.append('Definition l_bufref_drop (E : lenv) : LM unit :=\n  ' + LGen('bufref').block(it[4]) + '.')
        for st in ('prod', 'work', 'cons'):
            it = fn_of('ring_buffer/wrappers/buf_ref.rs', f'set_{st}_alive')
            g = LGen('bufref'); g.env[it[2][0][0]] = 'alive'
            out.append(f'Definition l_bufref_set_{st}_alive (V : bool) (E : lenv) (alive : bool) : LM unit :=\n  ' + g.block(inline_helpers(repo, "ring_buffer/wrappers/buf_ref.rs", it[4])) + '.')
        # Drop for the three iterators
        for st, f in (('prod', 'prod_iter.rs'), ('work', 'work_iter.rs'), ('cons', 'cons_iter.rs')):
            txt = strip_comments(open(os.path.join(repo, 'src', 'iterators/sync_iterators', f)).read())
            i = txt.index('Drop for')
            it = P(lex(find_fn(txt[i:], 'drop'))).fn_item()
            g = LGen('iter')
            out.append(f'Definition l_drop_{st} (V : bool) (E : lenv) : LM unit :=\n  ' + g.block(it[4]) + '.')
    except (TErr, ValueError, IndexError, KeyError, OSError) as ex:
        problems.append(f'drop path outside the translatable subset: {ex}')
    return out, problems

def inline_helpers(repo, rel, stmts):
    """`self.h()` / `self.h(x)` where `fn h` of the same file has a one-expression or one-`if` body: replaced by that body (one level)"""
    txt = strip_comments(open(os.path.join(repo, 'src', rel)).read())
    def sub(e, mapping=None):
        if isinstance(e, tuple):
            if e[0] == 'mcall' and e[1] == ('path', ['self']) and e[2] not in ('prod_alive', 'work_alive', 'cons_alive', 'drop', 'set_prod_alive', 'set_work_alive', 'set_cons_alive'):
                try:
                    it = P(lex(find_fn(txt, e[2]))).fn_item()
                    if len(it[4]) == 1 and it[4][0][0] in ('tail', 'expr'):
                        body = it[4][0][1]
                        params = [pn for pn, _ in it[2]]
                        def rep(x):
                            if isinstance(x, tuple):
                                if x[0] == 'path' and len(x[1]) == 1 and x[1][0] in params: return e[3][params.index(x[1][0])]
                                return tuple(rep(y) for y in x)
                            if isinstance(x, list): return [rep(y) for y in x]
                            return x
                        return rep(body)
                except TErr: pass
            return tuple(sub(x) for x in e)
        if isinstance(e, list): return [sub(x) for x in e]
        return e
    return sub(stmts)

# ------------------------------------------------------------------ unsafe_sync_cell.rs -> gen/CellFns.v (monad of Model/CellM.v)
CELL_FNS = ['check_zeroed', 'as_mut_ptr', 'new', 'new_zeroed', 'from', 'default', 'inner_ref', 'inner_ref_mut', 'inner_duplicate', 'take_inner', 'clone', 'drop']
CELL_RET = {'check_zeroed': 'bool', 'as_mut_ptr': 'cptr', 'new': '(list N)', 'new_zeroed': '(list N)', 'from': '(list N)', 'default': '(list N)',
            'inner_ref': 'cell', 'inner_ref_mut': 'cell', 'inner_duplicate': 'cell', 'take_inner': 'cell', 'clone': '(list N)', 'drop': 'unit'}
CELL_KIND = {'check_zeroed': 'bool', 'as_mut_ptr': 'ptr', 'new': 'mu', 'new_zeroed': 'mu', 'from': 'mu', 'default': 'mu', 'inner_ref': 'val',
             'inner_ref_mut': 'val', 'inner_duplicate': 'val', 'take_inner': 'val', 'clone': 'mu', 'drop': 'unit'}
class CGen:
    """translation of the functions of unsafe_sync_cell.rs; every value carries its kind:
       self (the cell), uc (its UnsafeCell), place (the MaybeUninit<T> inside *self), mu (a MaybeUninit<T> / a cell BY VALUE: bytes),
       ptr, bytes (a byte slice), val (a T or a reference to one), bool, nat, unit"""
    def __init__(s): s.n = 0; s.env = {}
    def fresh(s): s.n += 1; return f'v{s.n}'
    def strip(s, e):
        while e[0] == 'paren': e = e[1]
        return e
    def bind(s, rhs, kind, k):
        v = s.fresh(); return f'{v} <-- {rhs} ;; ' + k((v, kind))
    def need(s, a, kind, what):
        if a[1] != kind: raise TErr(f'{what}: a {kind} expected, got a {a[1]}')
        return a[0]
    def pure_byte_test(s, e, x):
        """the closure of `.all(..)` over one byte"""
        e = s.strip(e)
        isx = lambda a: s.strip(a) in (('deref', ('path', [x])), ('path', [x]))
        isnum = lambda a: s.strip(a)[0] == 'num'
        if e[0] == 'cmp' and e[1] in ('==', '!='):
            if isx(e[2]) and isnum(e[3]): t = f'(N.eqb {x} {s.strip(e[3])[1]})'
            elif isx(e[3]) and isnum(e[2]): t = f'(N.eqb {s.strip(e[2])[1]} {x})'
            else: raise TErr('byte test')
            return t if e[1] == '==' else f'(negb {t})'
        if e[0] == 'not': return f'(negb {s.pure_byte_test(e[1], x)})'
        raise TErr('byte test ' + e[0])
    def expr(s, e, k):
        e = s.strip(e); t = e[0]
        if t == 'path':
            p = e[1]
            if p == ['self']: return k(('self', 'self'))
            if len(p) == 1 and p[0] in s.env: return k(s.env[p[0]])
            if p in (['true'], ['false']): return k((p[0], 'bool'))
            raise TErr('unbound ' + '::'.join(p))
        if t == 'num': return k((e[1], 'nat'))
        if t == 'unit': return k(('tt', 'unit'))
        if t == 'unsafe': return s.stmts(e[1], k) if e[1] else k(('tt', 'unit'))
        if t == 'not': return s.expr(e[1], lambda a: k((f'(negb {s.need(a, "bool", "!")})', 'bool')))
        if t == 'field':
            return s.expr(e[1], lambda a: k(('uc', 'uc')) if (a[1] == 'self' and e[2] == '0') else (_ for _ in ()).throw(TErr('field ' + e[2])))
        if t in ('deref', 'ref'):
            def onx(a):
                if a[1] in ('place', 'bytes'): return k(a)              # *ptr-to-place / &mut place / *slice-ptr
                raise TErr(f'{t} of a {a[1]}')
            return s.expr(e[1], onx)
        if t == 'mcall':
            name, args = e[2], e[3]
            def onrecv(r):
                rk = r[1]
                if rk == 'uc' and name in ('get', 'get_mut') and not args: return k(('place', 'place'))
                if rk == 'place' and not args:
                    if name in ('as_mut_ptr', 'as_ptr'): return s.bind('mu_ptr', 'ptr', k)
                    if name == 'assume_init_drop': return s.bind('mu_drop R', 'unit', k)
                    if name == 'assume_init_read': return s.bind('mu_read R', 'val', k)
                    if name in ('assume_init_ref', 'assume_init_mut'): return s.bind('mu_ref R', 'val', k)
                if rk == 'mu' and name == 'assume_init' and not args: return s.bind(f'mu_into R {r[0]}', 'val', k)
                if rk == 'self' and name in CELL_FNS and name not in ('new', 'new_zeroed', 'from', 'default', 'check_zeroed', 'drop', 'clone') and not args:
                    return s.bind(f'g_{name} R', CELL_KIND[name], k)
                if rk == 'val' and name == 'clone' and not args: return s.bind(f'clone_val R {r[0]}', 'val', k)
                if rk == 'bytes' and name == 'iter' and not args: return k(r)
                if rk == 'bytes' and name in ('all', 'any') and len(args) == 1 and args[0][0] == 'closure' and len(args[0][2]) == 1 and args[0][2][0][0] == 'pvar':
                    x = args[0][2][0][1]; body = args[0][1]
                    if len(body) != 1 or body[0][0] != 'tail': raise TErr('closure of all()')
                    return s.bind(f'{name}_ (fun {cv(x)} => {s.pure_byte_test(body[0][1], cv(x))}) {r[0]}', 'bool', k)
                raise TErr(f'method {name} on a {rk}')
            return s.expr(e[1], onrecv)
        if t == 'call':
            f = e[1]
            if f[0] != 'path': raise TErr('call')
            p = f[1]; last = p[-1]; args = e[2]
            def withargs(i, acc):
                if i == len(args): return fin(acc)
                return s.expr(args[i], lambda a: withargs(i + 1, acc + [a]))
            def fin(a):
                own = len(p) == 2 and p[0] in ('Self', 'UnsafeSyncCell')
                if own and last == 'check_zeroed' and len(a) == 1: return s.bind(f'g_check_zeroed R {s.need(a[0], "ptr", "check_zeroed")}', 'bool', k)
                if own and last in ('new', 'from') and len(a) == 1: return s.bind(f'g_{last} R {s.need(a[0], "val", last)}', 'mu', k)
                if own and last in ('new_zeroed', 'default') and not a: return s.bind(f'g_{last} R', 'mu', k)
                if p == ['Self'] and len(a) == 1: return k((s.need(a[0], 'mu', 'Self(..)'), 'mu'))
                if p[-2:] == ['UnsafeCell', 'new'] and len(a) == 1: return k((s.need(a[0], 'mu', 'UnsafeCell::new'), 'mu'))
                if p[-2:] == ['MaybeUninit', 'zeroed'] and not a: return s.bind('mu_zeroed R', 'mu', k)
                if p[-2:] == ['MaybeUninit', 'new'] and len(a) == 1: return s.bind(f'mu_new R {s.need(a[0], "val", "MaybeUninit::new")}', 'mu', k)
                if last == 'default' and p[0] in ('Default', 'T') and not a: return s.bind('default_val R', 'val', k)
                if last == 'replace' and len(a) == 2 and a[0][1] == 'place': return s.bind(f'mu_replace {s.need(a[1], "mu", "mem::replace")}', 'mu', k)
                if last == 'slice_from_raw_parts' and len(a) == 2: return s.bind(f'bytes_at {s.need(a[0], "ptr", "slice_from_raw_parts")} {s.need(a[1], "nat", "slice_from_raw_parts")}', 'bytes', k)
                if last == 'size_of' and not a: return k(('(size_of R)', 'nat'))
                raise TErr('call ' + '::'.join(p))
            return withargs(0, [])
        if t == 'if':
            def withc(c):
                cc = s.need(c, 'bool', 'if')
                kinds = []
                def arm(b):
                    if not b: kinds.append('unit'); return 'cret tt'
                    return s.stmts(b, lambda a: (kinds.append(a[1]), f'cret {a[0]}')[1])
                a = arm(e[2]); b = arm(e[3] if e[3] is not None else [])
                if kinds[0] != kinds[1]: raise TErr('if: arms of different kinds')
                return s.bind(f'(if {cc} then ({a}) else ({b}))', kinds[0], k)
            return s.expr(e[1], withc)
        raise TErr('expression ' + t)
    def stmts(s, stmts, k):
        st, rest = stmts[0], stmts[1:]
        t = st[0]
        if t == 'let' and st[1][0] == 'pvar':
            def withv(a):
                s.env[st[1][1]] = a
                return s.stmts(rest, k) if rest else k(('tt', 'unit'))
            return s.expr(st[2], withv)
        if t in ('expr', 'tail'):
            if rest: return s.expr(st[1], lambda a: s.stmts(rest, k))
            return s.expr(st[1], (lambda a: k(('tt', 'unit'))) if t == 'expr' else k)
        raise TErr('statement ' + t)

def cell_fns(repo):
    out = []; problems = []
    try:
        txt = strip_comments(open(os.path.join(repo, 'src', 'ring_buffer/wrappers/unsafe_sync_cell.rs')).read())
        names = re.findall(r'\bfn\s+(\w+)', txt)
        if sorted(names) != sorted(CELL_FNS):
            problems.append('unsafe_sync_cell.rs: functions ' + ', '.join(sorted(set(names) ^ set(CELL_FNS))) + ' are outside the translated set')
        flat = re.sub(r'\s+', '', txt)
        if '#[repr(transparent)]pubstructUnsafeSyncCell<T>(UnsafeCell<MaybeUninit<T>>);' not in flat:
            problems.append('unsafe_sync_cell.rs: UnsafeSyncCell<T> is not a #[repr(transparent)] wrapper of UnsafeCell<MaybeUninit<T>>')
        for n in CELL_FNS:
            it = P(lex(find_fn(txt, n))).fn_item()
            g = CGen(); ps = []
            for pn, pk in it[2]:
                kind = {'loc': 'ptr', 'val': 'val'}.get(pk if isinstance(pk, str) else 'other')
                if kind is None: raise TErr(f'{n}: parameter {pn}')
                g.env[pn] = (cv(pn), kind); ps.append(f'({cv(pn)} : {"cptr" if kind == "ptr" else "cell"})')
            want = CELL_KIND[n]
            def fin(a, n=n, want=want):
                if a[1] != want: raise TErr(f'{n}: answers a {a[1]}, expected a {want}')
                return f'cret {a[0]}'
            body = g.stmts(it[4], fin) if it[4] else fin(('tt', 'unit'))
            out.append(f'Definition g_{n} (R : repr) {" ".join(ps)}{" " if ps else ""}: CM {CELL_RET[n]} :=\n  {body}.')
    except (TErr, ValueError, IndexError, KeyError, OSError) as ex:
        problems.append(f'unsafe_sync_cell.rs outside the translatable subset: {ex}')
    return out, problems

def emit_gen(outdir, name, text):
    """write gen/<name> only when its content changes (keeps make from recompiling the closure on every run), atomically"""
    path = os.path.join(outdir, name)
    if os.path.exists(path) and open(path).read() == text: return
    tmp = path + '.tmp%d' % os.getpid()
    open(tmp, 'w').write(text); os.replace(tmp, path)

def main(repo, outdir):
    defs, problems = translate(repo)
    lines = ['(* GENERATED by tools/data_translate.py from /repo/src on every run - do not edit *)',
             'From Coq Require Import List Arith NArith Bool String.', 'Import ListNotations.',
             'Require Import MRB.Model.Types MRB.Model.Seq MRB.Model.KernelM MRB.Model.DataM MRB.gen.Kernels.',
             'Open Scope dm_scope.', ''] + defs
    wd, wp = wiring(repo)
    defs = defs + wd; problems = problems + wp
    lines = lines[:6] + defs
    dl = delegations(repo)
    lines.append('(* wrapper methods that must only pass the call on to the wrapped iterator (a delegate! line or an equivalent hand-written body): (file, method, does it?) *)')
    lines.append('Definition pass_through : list (string * string * bool) := [' +
                 '; '.join(f'("{f}"%string, "{n}"%string, {"true" if ok else "false"})' for f, n, ok in dl) + '].')
    lines.append(f'Definition data_clean : bool := {"true" if not problems else "false"}.')
    for p in problems: lines.append(f'(* PROBLEM: {p} *)')
    os.makedirs(outdir, exist_ok=True)
    emit_gen(outdir, 'DataFns.v', '\n'.join(lines) + '\n')
    lf, lfp = life_fns(repo)
    ll = ['(* GENERATED by tools/data_translate.py from /repo/src on every run - do not edit *)',
          'From Coq Require Import List Bool.', 'Import ListNotations.', 'Require Import MRB.Model.Types MRB.Model.LifeM.', 'Open Scope lm_scope.', ''] + lf + [
          f'Definition life_clean : bool := {"true" if not lfp else "false"}.'] + [f'(* PROBLEM: {x} *)' for x in lfp]
    emit_gen(outdir, 'LifeFns.v', '\n'.join(ll) + '\n')
    problems = problems + lfp
    cf, cfp = cell_fns(repo)
    if cfp: cf = []
    cl = ['(* GENERATED by tools/data_translate.py from /repo/src/ring_buffer/wrappers/unsafe_sync_cell.rs on every run - do not edit *)',
          'From Coq Require Import List NArith Bool.', 'Import ListNotations.', 'Require Import MRB.Model.Types MRB.Model.CellM.', 'Open Scope cm_scope.', ''] + cf + [
          f'Definition cell_clean : bool := {"true" if not cfp else "false"}.'] + [f'(* PROBLEM: {x} *)' for x in cfp]
    emit_gen(outdir, 'CellFns.v', '\n'.join(cl) + '\n')
    problems = problems + cfp
    sh, shp = poll_shape(repo)
    at, atp = async_table(repo)
    b = lambda x: 'true' if x else 'false'
    pl = ['(* GENERATED by tools/data_translate.py from /repo/src on every run - do not edit *)',
          'From Coq Require Import List Bool.', 'Import ListNotations.', 'Require Import MRB.Model.PollShape.', '',
          '(* MRBFuture::poll executed on abstract values: (outcomes of the attempts, events in order, how the poll ends) *)',
          'Definition poll_shape : list (list bool * list pev * pend) := [' +
          '; '.join('([' + '; '.join(b(o) for o in orc) + '], [' + '; '.join(evs) + '], ' + end + ')' for orc, evs, end in sh) + '].',
          f'Definition poll_clean : bool := {b(not shp)}.'] + [f'(* PROBLEM: {x} *)' for x in shp] + [
          '(* every async method: the future attempts exactly the synchronous method of the same name on the wrapped iterator, with its own payload: (file, method, does it?) *)',
          'Require Import String. Open Scope string_scope.',
          'Definition async_methods : list (string * string * bool) := [' + '; '.join(f'("{f}", "{n}", {b(ok)})' for f, n, ok in at) + '].',
          f'Definition async_clean : bool := {b(not atp)}.'] + [f'(* PROBLEM: {x} *)' for x in atp]
    emit_gen(outdir, 'PollGen.v', '\n'.join(pl) + '\n')
    problems = problems + shp + atp
    # the same functions as compiled with --features vmem (next_chunk*, _push_slice, _extract_slice have their own bodies there)
    vdefs, vproblems = translate(repo, vmem=True)
    vlines = ['(* GENERATED by tools/data_translate.py from /repo/src on every run (the bodies compiled with feature vmem) - do not edit *)',
              'From Coq Require Import List Arith NArith Bool String.', 'Import ListNotations.',
              'Require Import MRB.Model.Types MRB.Model.Seq MRB.Model.KernelM MRB.Model.DataM MRB.gen.Kernels.',
              'Open Scope dm_scope.', ''] + vdefs
    vlines.append(f'Definition data_clean : bool := {"true" if not vproblems else "false"}.')
    for p in vproblems: vlines.append(f'(* PROBLEM: {p} *)')
    emit_gen(outdir, 'DataFnsV.v', '\n'.join(vlines) + '\n')
    return problems + ['vmem: ' + p for p in vproblems]

if __name__ == '__main__':
    import sys
    repo = os.environ.get('VERIF_REPO', '/repo')
    probs = main(repo, os.path.join(os.path.dirname(os.path.dirname(os.path.abspath(__file__))), 'coq', 'gen'))
    for p in probs: print('PROBLEM:', p)
    print('DataFns.v written;', 'clean' if not probs else f'{len(probs)} problem(s)')
