#!/bin/bash
# usage: tools_dbg.sh file line  -> show goals before that line (1-based; lines [1..line-1] kept)
f=$1; n=$2
head -n $((n-1)) $f > /tmp/dbg.v
echo ' all: idtac "REMAINING". Show. Abort.' >> /tmp/dbg.v
cd /verif/coq && coqc -Q . MRB /tmp/dbg.v 2>&1 | grep -A400 "^REMAINING" | grep -v "^REMAINING" | head -${3:-60}
