#!/usr/bin/env python3
"""Fact extractors: regenerate coq/gen/*.v from /repo/src on every run (fail-closed: an unrecognised
shape makes the generated file say so, which breaks the closing lemma that depends on it).

  gen/SendClauses.v   one clause per `unsafe impl ... Send/Sync for ...` header
"""
import os, re, sys, glob

REPO = os.environ.get('VERIF_REPO', '/repo')
OUT = os.path.join(os.path.dirname(os.path.dirname(os.path.abspath(__file__))), 'coq', 'gen')

def strip_comments(s):
    s = re.sub(r'//[^\n]*', '', s)
    s = re.sub(r'/\*.*?\*/', '', s, flags=re.S)
    return s

def split_top(s, sep=','):
    out, depth, cur = [], 0, ''
    for ch in s:
        if ch in '<([': depth += 1
        elif ch in '>)]': depth -= 1
        if ch == sep and depth == 0:
            out.append(cur.strip()); cur = ''
        else: cur += ch
    if cur.strip(): out.append(cur.strip())
    return out

ITER_TYPES = {'ProdIter': 'TProd', 'WorkIter': 'TWork', 'ConsIter': 'TCons',
              'AsyncProdIter': 'TAProd', 'AsyncWorkIter': 'TAWork', 'AsyncConsIter': 'TACons',
              'Detached': 'TDet', 'AsyncDetached': 'TADet'}
KNOWN_BOUNDS = {'ConcurrentRB', 'MutRB', 'Send', 'Sync', 'MRBIterator', 'AsyncIterator', 'Sized', '?Sized', 'Storage', 'IterManager'}

def extract_send_clauses():
    clauses = []; problems = []; other = []
    for path in sorted(glob.glob(os.path.join(REPO, 'src', '**', '*.rs'), recursive=True)):
        if path.endswith('verif_hooks.rs'): continue
        txt = strip_comments(open(path).read())
        for m in re.finditer(r'unsafe\s+impl\s*(<(?:[^<>]|<(?:[^<>]|<[^<>]*>)*>)*>)?\s*(!?)\s*(Send|Sync)\s+for\s+([A-Za-z_][A-Za-z0-9_]*)\s*(<(?:[^<>{}]|<(?:[^<>]|<[^<>]*>)*>)*>)?\s*(where[^{]*)?\{', txt):
            gen, neg, trait, ty, args, where = m.group(1) or '', m.group(2), m.group(3), m.group(4), m.group(5) or '', m.group(6) or ''
            rel = os.path.relpath(path, REPO)
            if ty not in ITER_TYPES:
                other.append((rel, trait, ty))
                if ty in ('BufRef',) or ty.endswith('MutRingBuf') or ty.endswith('Storage'):
                    problems.append(f'{rel}: explicit {trait} impl for {ty}')
                continue
            if neg: problems.append(f'{rel}: negative impl'); continue
            bounds = {}
            items = {}      # param -> item param (from MutRB<Item = T> / MRBIterator<Item = T>)
            params = split_top(gen[1:-1]) if gen else []
            preds = []
            for p in params:
                if p.startswith("'") or p.startswith('const '): continue
                if ':' in p:
                    name, b = p.split(':', 1); preds.append((name.strip(), b))
                else: bounds.setdefault(p.strip(), set())
            if where.strip():
                for p in split_top(where.strip()[len('where'):]):
                    if ':' in p:
                        name, b = p.split(':', 1); preds.append((name.strip(), b))
            for name, b in preds:
                for one in split_top(b, '+'):
                    one = one.strip()
                    if not one or one.startswith("'"): continue
                    base = re.match(r'\??[A-Za-z_][A-Za-z0-9_:]*', one).group(0).split('::')[-1]
                    if base not in KNOWN_BOUNDS: problems.append(f'{rel}: unrecognised bound `{one}` in impl {trait} for {ty}')
                    bounds.setdefault(name, set()).add(base)
                    im = re.search(r'Item\s*=\s*([A-Za-z_][A-Za-z0-9_]*)', one)
                    if im: items[name] = im.group(1)
            targs = [a for a in split_top(args[1:-1]) if not a.startswith("'")] if args else []
            # which generic is the buffer / the inner iterator
            conc = any('ConcurrentRB' in bounds.get(a, ()) for a in targs)
            item_params = set(items.values()) | {f'{a}::Item' for a in targs}
            item_send = any('Send' in bounds.get(t, ()) for t in item_params)
            item_sync = any('Sync' in bounds.get(t, ()) for t in item_params)
            inner_send = False
            if ty in ('Detached', 'AsyncDetached') and targs:
                inner_send = 'Send' in bounds.get(targs[0], ())
                if 'Sync' in bounds.get(targs[0], ()): problems.append(f'{rel}: inner iterator bounded by Sync in impl for {ty}')
            else:
                for a in targs:
                    if 'Send' in bounds.get(a, ()) or 'Sync' in bounds.get(a, ()):
                        problems.append(f'{rel}: buffer parameter bounded by Send/Sync in impl {trait} for {ty} (not modelled)')
            clauses.append((ITER_TYPES[ty], trait, conc, item_send, item_sync, inner_send, rel))
    # structural facts behind "never Sync / not auto-Send": every iterator holds a BufRef, BufRef holds a NonNull
    def struct_body(name):
        for path in glob.glob(os.path.join(REPO, 'src', '**', '*.rs'), recursive=True):
            txt = strip_comments(open(path).read())
            m = re.search(r'pub\s+struct\s+' + name + r'\b[^{;]*\{([^}]*)\}', txt)
            if m: return m.group(1)
        return None
    structure_ok = True
    b = struct_body('BufRef')
    if b is None or 'NonNull<' not in b: structure_ok = False; problems.append('BufRef has no NonNull field')
    for it in ('ProdIter', 'WorkIter', 'ConsIter'):
        b = struct_body(it)
        if b is None or 'BufRef<' not in b: structure_ok = False; problems.append(f'{it} has no BufRef field')
    for it, inner in (('AsyncProdIter', 'ProdIter'), ('AsyncWorkIter', 'WorkIter'), ('AsyncConsIter', 'ConsIter')):
        b = struct_body(it)
        if b is None or inner + '<' not in b: structure_ok = False; problems.append(f'{it} does not wrap {inner}')
    for it in ('Detached', 'AsyncDetached'):
        b = struct_body(it)
        if b is None or not re.search(r'inner\s*:\s*I\b', b): structure_ok = False; problems.append(f'{it} does not hold its iterator by value')
    return clauses, problems, structure_ok

def b(x): return 'true' if x else 'false'

def write_send(clauses, problems, structure_ok):
    os.makedirs(OUT, exist_ok=True)
    lines = ['(* GENERATED by tools/extract_facts.py from /repo/src on every run - do not edit *)',
             'From Coq Require Import List Bool String.', 'Import ListNotations.', 'Require Import MRB.Model.SendSync.', '',
             'Definition clauses : list clause := [']
    body = []
    for (ty, trait, conc, isend, isync, inner, rel) in clauses:
        body.append(f'  mkClause {ty} {"TrSend" if trait == "Send" else "TrSync"} {b(conc)} {b(isend)} {b(isync)} {b(inner)} (* {rel} *)')
    lines.append(';\n'.join(body))
    lines.append('].')
    lines.append('')
    lines.append(f'(* every iterator holds a BufRef (NonNull) directly or through the iterator it wraps; no explicit impl for BufRef / buffers *)')
    lines.append(f'Definition structure_ok : bool := {b(structure_ok)}.')
    lines.append(f'Definition extractor_clean : bool := {b(not problems)}.')
    for p in problems: lines.append(f'(* PROBLEM: {p} *)')
    open(os.path.join(OUT, 'SendClauses.v'), 'w').write('\n'.join(lines) + '\n')

def main():
    c, p, s = extract_send_clauses()
    write_send(c, p, s)
    for x in p: print('extract_facts: PROBLEM:', x)
    print(f'extract_facts: {len(c)} Send/Sync clauses')

if __name__ == '__main__':
    main()
