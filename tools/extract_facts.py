#!/usr/bin/env python3
"""Fact extractors: regenerate coq/gen/*.v from /repo/src on every run (fail-closed: an unrecognised
shape makes the generated file say so, which breaks the closing lemma that depends on it).

  gen/SendClauses.v   one clause per `unsafe impl ... Send/Sync for ...` header
"""
import os, re, sys, glob

REPO = os.environ.get('VERIF_REPO', '/repo')
OUT = os.path.join(os.path.dirname(os.path.dirname(os.path.abspath(__file__))), 'coq', 'gen')

def strip_comments(s):
    s = re.sub(r'//[^\n]*', '', s)
    s = re.sub(r'/\*.*?\*/', '', s, flags=re.S)
    return s

def split_top(s, sep=','):
    out, depth, cur = [], 0, ''
    for ch in s:
        if ch in '<([': depth += 1
        elif ch in '>)]': depth -= 1
        if ch == sep and depth == 0:
            out.append(cur.strip()); cur = ''
        else: cur += ch
    if cur.strip(): out.append(cur.strip())
    return out

ITER_TYPES = {'ProdIter': 'TProd', 'WorkIter': 'TWork', 'ConsIter': 'TCons',
              'AsyncProdIter': 'TAProd', 'AsyncWorkIter': 'TAWork', 'AsyncConsIter': 'TACons',
              'Detached': 'TDet', 'AsyncDetached': 'TADet', 'MRBFuture': 'TFut'}
# explicit Send / Sync impls for other types that are known and harmless: the cell is Sync only over Sync items
OTHER_OK = {('UnsafeSyncCell', 'Sync')}
KNOWN_BOUNDS = {'ConcurrentRB', 'MutRB', 'Send', 'Sync', 'MRBIterator', 'AsyncIterator', 'Sized', '?Sized', 'Storage', 'IterManager'}

def extract_send_clauses():
    clauses = []; problems = []; other = []
    for path in sorted(glob.glob(os.path.join(REPO, 'src', '**', '*.rs'), recursive=True)):
        if path.endswith('verif_hooks.rs'): continue
        txt = strip_comments(open(path).read())
        for m in re.finditer(r'unsafe\s+impl\s*(<(?:[^<>]|<(?:[^<>]|<[^<>]*>)*>)*>)?\s*(!?)\s*(Send|Sync)\s+for\s+([A-Za-z_][A-Za-z0-9_]*)\s*(<(?:[^<>{}]|<(?:[^<>]|<[^<>]*>)*>)*>)?\s*(where[^{]*)?\{', txt):
            gen, neg, trait, ty, args, where = m.group(1) or '', m.group(2), m.group(3), m.group(4), m.group(5) or '', m.group(6) or ''
            rel = os.path.relpath(path, REPO)
            if ty not in ITER_TYPES:
                other.append((rel, trait, ty))
                if (ty, trait) not in OTHER_OK or 'T: Sync' not in re.sub(r'\s+', ' ', gen):
                    problems.append(f'{rel}: explicit {trait} impl for {ty} (a type outside the clause model)')
                continue
            if neg: problems.append(f'{rel}: negative impl'); continue
            bounds = {}
            items = {}      # param -> item param (from MutRB<Item = T> / MRBIterator<Item = T>)
            params = split_top(gen[1:-1]) if gen else []
            preds = []
            for p in params:
                if p.startswith("'") or p.startswith('const '): continue
                mb = re.match(r'^(.*?[^:]):(?!:)(.*)$', p, re.S)
                if mb: preds.append((mb.group(1).strip(), mb.group(2)))
                else: bounds.setdefault(p.strip(), set())
            if where.strip():
                for p in split_top(where.strip()[len('where'):]):
                    mb = re.match(r'^(.*?[^:]):(?!:)(.*)$', p, re.S)
                    if mb: preds.append((mb.group(1).strip(), mb.group(2)))
            for name, _b in preds:
                # a bound on anything but a plain type parameter (an associated type `I::I`, a concrete type) is outside the clause model
                if not re.fullmatch(r'[A-Za-z_][A-Za-z0-9_]*', name): problems.append(f'{rel}: bound on `{name}` (not a type parameter) in impl {trait} for {ty}')
            for name, b in preds:
                for one in split_top(b, '+'):
                    one = one.strip()
                    if not one or one.startswith("'"): continue
                    mo = re.match(r'\??[A-Za-z_][A-Za-z0-9_:]*', one)
                    if not mo: problems.append(f'{rel}: unparsable bound `{one}` in impl {trait} for {ty}'); continue
                    base = mo.group(0).split('::')[-1]
                    if base not in KNOWN_BOUNDS: problems.append(f'{rel}: unrecognised bound `{one}` in impl {trait} for {ty}')
                    bounds.setdefault(name, set()).add(base)
                    im = re.search(r'Item\s*=\s*([A-Za-z_][A-Za-z0-9_]*)', one)
                    if im: items[name] = im.group(1)
            targs = [a for a in split_top(args[1:-1]) if not a.startswith("'")] if args else []
            # which generic is the buffer / the inner iterator
            conc = any('ConcurrentRB' in bounds.get(a, ()) for a in targs)
            item_params = set(items.values()) | {f'{a}::Item' for a in targs}
            item_send = any('Send' in bounds.get(t, ()) for t in item_params)
            item_sync = any('Sync' in bounds.get(t, ()) for t in item_params)
            inner_send = False
            if ty == 'MRBFuture':
                # the future of an async operation borrows its iterator `I` mutably: whatever the header says about the buffer or the
                # item (through I::B, I::I ...), what matters is whether it demands `I: Send`
                allb = set().union(*bounds.values()) if bounds else set()
                conc = 'ConcurrentRB' in allb
                item_send = False; item_sync = False
                inner_send = bool(targs) and 'Send' in bounds.get(targs[0], ())
            elif ty in ('Detached', 'AsyncDetached') and targs:
                inner_send = 'Send' in bounds.get(targs[0], ())
                if 'Sync' in bounds.get(targs[0], ()): problems.append(f'{rel}: inner iterator bounded by Sync in impl for {ty}')
            else:
                for a in targs:
                    if 'Send' in bounds.get(a, ()) or 'Sync' in bounds.get(a, ()):
                        problems.append(f'{rel}: buffer parameter bounded by Send/Sync in impl {trait} for {ty} (not modelled)')
            clauses.append((ITER_TYPES[ty], trait, conc, item_send, item_sync, inner_send, rel))
    # structural facts behind "never Sync / not auto-Send": every iterator holds a BufRef, BufRef holds a NonNull
    def struct_body(name):
        for path in glob.glob(os.path.join(REPO, 'src', '**', '*.rs'), recursive=True):
            txt = strip_comments(open(path).read())
            m = re.search(r'pub\s+struct\s+' + name + r'\b[^{;]*\{([^}]*)\}', txt)
            if m: return m.group(1)
        return None
    structure_ok = True
    b = struct_body('BufRef')
    if b is None or 'NonNull<' not in b: structure_ok = False; problems.append('BufRef has no NonNull field')
    for it in ('ProdIter', 'WorkIter', 'ConsIter'):
        b = struct_body(it)
        if b is None or 'BufRef<' not in b: structure_ok = False; problems.append(f'{it} has no BufRef field')
    for it, inner in (('AsyncProdIter', 'ProdIter'), ('AsyncWorkIter', 'WorkIter'), ('AsyncConsIter', 'ConsIter')):
        b = struct_body(it)
        if b is None or inner + '<' not in b: structure_ok = False; problems.append(f'{it} does not wrap {inner}')
    for it in ('Detached', 'AsyncDetached'):
        b = struct_body(it)
        if b is None or not re.search(r'inner\s*:\s*I\b', b): structure_ok = False; problems.append(f'{it} does not hold its iterator by value')
    return clauses, problems, structure_ok

ORDS = {'Relaxed': 0, 'Acquire': 1, 'Release': 1, 'AcqRel': 2, 'SeqCst': 3}

def extract_profile():
    """orderings of every atomic access class in concurrent_rb.rs, fence placement in buf_ref.rs"""
    problems = []
    txt = strip_comments(open(os.path.join(REPO, 'src/ring_buffer/variants/concurrent_rb.rs')).read())
    def weakest(cands, need):
        # need: 'acq' or 'rel' or 'both': pick the candidate that is weakest with respect to the need
        if not cands: problems.append(f'no access found for a class ({need})'); return 'Relaxed'
        def ok(o): return {'acq': o in ('Acquire', 'AcqRel', 'SeqCst'), 'rel': o in ('Release', 'AcqRel', 'SeqCst'), 'both': o in ('AcqRel', 'SeqCst')}[need]
        bad = [o for o in cands if not ok(o)]
        return bad[0] if bad else cands[0]
    idx_loads = re.findall(r'self\.(?:prod|work|cons)_idx\.load\(\s*(?:Ordering::)?(\w+)\s*\)', txt)
    idx_stores = re.findall(r'self\.(?:prod|work|cons)_idx\.store\(\s*\w+\s*,\s*(?:Ordering::)?(\w+)\s*\)', txt)
    alive_loads = re.findall(r'self\.alive\.load\(\s*(?:Ordering::)?(\w+)\s*\)', txt)
    alive_rmws = re.findall(r'self\.alive\.fetch_(?:and|or)\([^,]+,\s*(?:Ordering::)?(\w+)\s*\)', txt)
    # every atomic access of the file must be one of the recognised shapes
    total = len(re.findall(r'\.(?:load|store|fetch_\w+|swap|compare_exchange\w*)\(', txt))
    if total != len(idx_loads) + len(idx_stores) + len(alive_loads) + len(alive_rmws):
        problems.append(f'concurrent_rb.rs: {total} atomic accesses, only {len(idx_loads) + len(idx_stores) + len(alive_loads) + len(alive_rmws)} recognised')
    for o in idx_loads + idx_stores + alive_loads + alive_rmws:
        if o not in ORDS: problems.append(f'unknown ordering {o}')
    if len(idx_loads) != 3 or len(idx_stores) != 3: problems.append(f'expected 3 index loads and 3 index stores, found {len(idx_loads)}/{len(idx_stores)}')
    # the liveness decision must be taken from the value returned by the RMW itself
    m = re.search(r'fn\s+set_alive[^{]*\{(.*?)\n    \}', txt, re.S)
    def _rmw_decides(body):
        if '.load(' in body: return False
        b = re.sub(r'\s+', '', body)
        if re.search(r'\(?self\.alive\.fetch_and\([^)]*\)&!flag\)?==0', b): return True
        lm = re.search(r'let(\w+)=self\.alive\.fetch_and\([^)]*\);', b)      # the value read by the RMW, named
        return bool(lm and re.search(r'\(?' + lm.group(1) + r'&!flag\)?==0', b) and b.count('fetch_and(') == 1)
    rmw_decides = bool(m and _rmw_decides(m.group(1)))
    if not rmw_decides: problems.append('set_alive: "was I the last" is not decided from the value returned by fetch_and alone')
    br = strip_comments(open(os.path.join(REPO, 'src/ring_buffer/wrappers/buf_ref.rs')).read())
    fb = fa = True
    for nm in ('prod', 'work', 'cons'):
        m = re.search(r'fn\s+set_' + nm + r'_alive[^{]*\{(.*?)\n    \}', br, re.S)
        if not m: problems.append(f'buf_ref.rs: set_{nm}_alive not found'); fb = fa = False; continue
        body = m.group(1)
        i_set = body.find(f'.set_{nm}_alive(')
        fences = [x.start() for x in re.finditer(r'fence\(\s*SeqCst\s*\)', body)]
        if i_set < 0: problems.append(f'buf_ref.rs: set_{nm}_alive does not call the buffer'); continue
        if not any(f < i_set for f in fences): fb = False
        if not any(f > i_set for f in fences): fa = False
        if re.search(r'\.(?:prod|work|cons)_alive\(\)', body): problems.append(f'buf_ref.rs: set_{nm}_alive reads liveness flags separately')
        direct = re.search(r'if\s+last\s*\{\s*self\.drop\(\)', body)
        via = None
        hm = re.search(r'self\.(\w+)\(\s*last\s*\)', body)
        if not direct and hm:
            # one level of private helper: fn h(&mut self, x: bool) { if x { self.drop(); } }
            fm = re.search(r'fn\s+' + hm.group(1) + r'\s*\(\s*&mut\s+self\s*,\s*(\w+)\s*:\s*bool\s*\)\s*\{\s*if\s+(\w+)\s*\{\s*self\.drop\(\)\s*;?\s*\}\s*\}', br)
            via = fm and fm.group(1) == fm.group(2)
        if not direct and not via: problems.append(f'buf_ref.rs: set_{nm}_alive: unexpected release condition')
    prof = (weakest(idx_loads, 'acq'), weakest(idx_stores, 'rel'), weakest(alive_rmws, 'both'), weakest(alive_loads, 'acq'), fb, fa)
    return prof, rmw_decides, problems

def emit(name, text):
    """write gen/<name> only when its content changes (keeps make from recompiling the closure on every run)"""
    os.makedirs(OUT, exist_ok=True)
    path = os.path.join(OUT, name)
    if os.path.exists(path) and open(path).read() == text: return
    tmp = path + '.tmp%d' % os.getpid()
    open(tmp, 'w').write(text); os.replace(tmp, path)

def write_profile(prof, rmw_decides, problems):
    os.makedirs(OUT, exist_ok=True)
    lines = ['(* GENERATED by tools/extract_facts.py from /repo/src on every run - do not edit *)',
             'Require Import MRB.Model.Trace.', '',
             f'Definition observed : profile := mkProfile {prof[0]} {prof[1]} {prof[2]} {prof[3]} {b(prof[4])} {b(prof[5])}.',
             f'(* the last iterator is decided from the value returned by the fetch_and itself *)',
             f'Definition rmw_decides : bool := {b(rmw_decides)}.',
             f'Definition extractor_clean : bool := {b(not problems)}.']
    for p in problems: lines.append(f'(* PROBLEM: {p} *)')
    emit('Profile.v', '\n'.join(lines) + '\n')

def extract_structure():
    """loop constructs per function, functions that call Waker::wake"""
    loops = []; wakers = []
    for path in sorted(glob.glob(os.path.join(REPO, 'src', '**', '*.rs'), recursive=True)):
        if path.endswith('verif_hooks.rs'): continue
        rel = os.path.relpath(path, os.path.join(REPO, 'src'))
        txt = strip_comments(open(path).read())
        txt = re.sub(r'"(?:[^"\\]|\\.)*"', '""', txt)
        # function spans
        fns = [(m.start(), m.group(1)) for m in re.finditer(r'\bfn\s+([A-Za-z_][A-Za-z0-9_]*)', txt)]
        def fn_at(pos):
            name = '?'
            for st, n in fns:
                if st <= pos: name = n
            return name
        for m in re.finditer(r'\b(loop|while|for)\b', txt):
            kw = m.group(1)
            if kw == 'for':
                # `for` in `impl .. for ..` / `for<'a>` is not a loop: a loop is `for <pat> in`
                if not re.match(r'for\s+[^;{}]*?\bin\b', txt[m.start():m.start() + 200]): continue
                before = txt[max(0, m.start() - 80):m.start()]
                if re.search(r'\bimpl\b[^;{}]*$', before): continue
            loops.append((rel, fn_at(m.start()), kw))
        for m in re.finditer(r'\.wake(?:_by_ref)?\s*\(', txt):
            wakers.append((rel, fn_at(m.start())))
    return loops, wakers

def write_structure(loops, wakers):
    lines = ['(* GENERATED by tools/extract_facts.py from /repo/src on every run - do not edit *)',
             'From Coq Require Import List String.', 'Import ListNotations.', 'Open Scope string_scope.', '',
             '(* every loop construct in the crate: (file, function, keyword) *)',
             'Definition loops : list (string * string * string) := [']
    lines.append(';\n'.join(f'  ("{f}", "{fn}", "{kw}")' for f, fn, kw in loops))
    lines.append('].')
    lines.append('(* functions that call Waker::wake / wake_by_ref *)')
    lines.append('Definition wake_callers : list (string * string) := [' + '; '.join(f'("{f}", "{fn}")' for f, fn in wakers) + '].')
    emit('Structure.v', '\n'.join(lines) + '\n')

def args_of(txt, start):
    """argument list of the call whose '(' is at txt[start]"""
    depth = 0
    for i in range(start, len(txt)):
        if txt[i] == '(': depth += 1
        elif txt[i] == ')':
            depth -= 1
            if depth == 0: return split_top(txt[start + 1:i]), i
    return [], start

def extract_vmem():
    """the system calls of vmem_helper::new in program order, and the release sequence of a vmem HeapStorage"""
    problems = []; calls = []
    txt = strip_comments(open(os.path.join(REPO, 'src/ring_buffer/storage/heap/vmem_helper.rs')).read())
    m = re.search(r'pub\(crate\)\s+fn\s+new\b.*?\n\}', txt, re.S)
    if not m: return [], None, ['vmem_helper::new not found']
    body = m.group(0)
    has_fd = False
    # walk the body: shm_fd / shm_open / memfd_create, mmap calls (possibly inside `for view in [a, b]`), memcpy / copy_nonoverlapping, close
    pos = 0
    events = []
    for mm in re.finditer(r'(shm_fd\s*\(|libc::shm_open\s*\(|libc::memfd_create\s*\(|libc::mmap\s*\(|libc::memcpy\s*\(|copy_nonoverlapping\s*\(|libc::close\s*\(|for\s+(\w+)\s+in\s+\[([^\]]*)\])', body):
        events.append(mm)
    loop_var = None; loop_vals = []; loop_end = -1
    # local names do not matter: `let` bindings of plain expressions (arithmetic, casts, .byte_add/.add) are substituted, and the
    # variable bound to the reserving mmap (null address) is called `buffer`
    lets = {}; base_var = None
    for lm in re.finditer(r'\blet\s+(?:mut\s+)?(\w+)\s*(?::[^=;]+)?=\s*(.*?);', body, re.S):
        nm, rhs = lm.group(1), ' '.join(lm.group(2).split())
        if rhs.startswith('libc::mmap'):
            a0, _ = args_of(rhs, rhs.index('('))
            if a0 and a0[0].replace(' ', '') in ('ptr::null_mut()', 'core::ptr::null_mut()') and base_var is None: base_var = nm
            continue
        if re.search(r'\w\s*\(', re.sub(r'\.(?:byte_add|add)\s*\(', '.OP[', rhs)): continue      # a call: not a plain expression
        lets[nm] = rhs
    def resolve(e):
        def sub(m):
            n = m.group(0)
            if n in lets and n != base_var:
                r = lets[n]
                return '(' + r + ')' if ' ' in r else r
            return n
        for _ in range(6):
            e2 = re.sub(r'\b[A-Za-z_]\w*\b', sub, e)
            if e2 == e: break
            e = e2
        if base_var: e = re.sub(r'\b' + base_var + r'\b', 'buffer', e)
        e = re.sub(r'\s+as\s+\*mut\s+UnsafeSyncCell<T>', '', e).strip()
        e = re.sub(r'(?<![\w>])\(\s*(\w+)\s*\)', r'\1', e)
        while e.startswith('(') and e.endswith(')') and e.count('(') == e.count(')') and '(' not in e[1:-1].split(')')[0]:
            e = e[1:-1].strip()
        return e
    def half_of(expr):
        e = expr.replace(' ', '')
        if e in ('buffer', 'ptr::null_mut()', 'core::ptr::null_mut()'): return 'Lo'
        if re.fullmatch(r'buffer\.byte_add\(size\)|buffer\.add\(size\)', e): return 'Hi'
        return None
    for mm in events:
        tok = mm.group(1)
        if tok.startswith('for'):
            loop_var = mm.group(2); loop_vals = split_top(mm.group(3))
            # extent of the loop body
            ob = body.index('{', mm.end()); depth = 0
            for i in range(ob, len(body)):
                if body[i] == '{': depth += 1
                elif body[i] == '}':
                    depth -= 1
                    if depth == 0: loop_end = i; break
            continue
        in_loop = mm.start() < loop_end
        if tok.startswith(('shm_fd', 'libc::shm_open', 'libc::memfd_create')):
            calls.append('VShmCreate'); has_fd = True
        elif tok.startswith('libc::close'):
            calls.append('VClose')
        elif tok.startswith('libc::mmap'):
            a, _ = args_of(body, mm.end() - 1)
            if len(a) != 6: problems.append('mmap with %d arguments' % len(a)); continue
            addr, ln, prot, flags, fd, off = [x.strip() for x in a]
            ln = resolve(ln)
            addrs = [resolve(addr)]
            if in_loop and addr == loop_var: addrs = [resolve(v.strip()) for v in loop_vals]
            for ad in addrs:
                if ad.replace(' ', '') in ('ptr::null_mut()', 'core::ptr::null_mut()'):
                    f = re.match(r'(\d+)\s*\*\s*size', ln.replace('aslibc::size_t', '').replace(' as libc::size_t', '').strip())
                    halves = int(f.group(1)) if f else (1 if ln.strip().startswith('size') else 0)
                    if 'MAP_ANONYMOUS' not in flags: problems.append('reservation is not anonymous')
                    calls.append(f'(VReserve {halves})')
                else:
                    h = half_of(ad)
                    if h is None: problems.append(f'mmap at unrecognised address `{ad}`'); continue
                    fixed = 'MAP_FIXED' in flags
                    if not ln.strip().startswith('size'): problems.append(f'view of unexpected length `{ln}`')
                    if 'MAP_SHARED' in flags and 'MAP_ANONYMOUS' not in flags and fd.strip() not in ('-1',):
                        o = off.strip()
                        calls.append(f'(VMapShared {h} {b(fixed)} {0 if o in ("0", "0 as libc::off_t") else 7})')
                    else:
                        calls.append(f'(VMapAnon {h} {b(fixed)})')
        elif tok.startswith('libc::memcpy') or tok.startswith('copy_nonoverlapping'):
            a, _ = args_of(body, mm.end() - 1)
            if len(a) != 3: problems.append('copy with %d arguments' % len(a)); continue
            x, y, n = [resolve(z.strip()) for z in a]
            dst, src = (x, y) if tok.startswith('libc::memcpy') else (y, x)
            to_map = re.match(r'\(?\s*r\b', dst) is not None or dst.startswith('buffer')
            from_val = 'value' in src
            full = n.replace(' ', '') in ('size', 'size_of_val(value)', 'sizeaslibc::size_t')
            if to_map and from_val: calls.append(f'(VCopyIn {b(full)})')
            elif 'value' in dst: calls.append('VCopyOut')
            else: problems.append(f'copy with unrecognised operands `{dst}` <- `{src}`')
    # release: heap/mod.rs
    hm = strip_comments(open(os.path.join(REPO, 'src/ring_buffer/storage/heap/mod.rs')).read())
    dm = re.search(r'impl\s*<T>\s*Drop\s+for\s+HeapStorage<T>\s*\{(.*?)\n\}', hm, re.S)
    drops_first = False; halves = 0
    if dm:
        d = dm.group(1)
        i_drop = d.find('drop_in_place'); i_un = d.find('libc::munmap')
        drops_first = 0 <= i_drop < i_un
        if i_un >= 0:
            a, _ = args_of(d, d.index('(', i_un))
            ln = a[1].replace(' ', '') if len(a) == 2 else ''
            if re.fullmatch(r'2\*self\.len\*size_of::<T>\(\)', ln): halves = 2
            elif re.fullmatch(r'self\.len\*size_of::<(T|UnsafeSyncCell<T>)>\(\)', ln): halves = 1
            else: problems.append(f'munmap of unrecognised length `{ln}`')
    else: problems.append('Drop for HeapStorage not found')
    nm = re.search(r'#\[cfg\(feature = "vmem"\)\]\s*fn\s+new\b(.*?)\n    \}', hm, re.S)
    # the source box gives up its items (ManuallyDrop) only AFTER the mapping was built: a construction that is rejected (panic in
    # vmem_helper::new) must still destroy the items through the box
    forgotten = bool(nm and 'ManuallyDrop' in nm.group(1) and 0 <= nm.group(1).find('vmem_helper::new') < nm.group(1).find('ManuallyDrop'))
    # every system call / copy of vmem_helper::new is unconditional: only the fn body, `unsafe { }` and `for view in [..]` may enclose it
    for mm in events:
        if mm.group(1).startswith('for'): continue
        depth_hdrs = []; last = 0
        for i, ch in enumerate(body[:mm.start()]):
            if ch == '{': depth_hdrs.append(body[last:i].strip()); last = i + 1
            elif ch == '}':
                if depth_hdrs: depth_hdrs.pop()
                last = i + 1
            elif ch == ';': last = i + 1
        for h in depth_hdrs[1:]:
            if not (h in ('', 'unsafe') or h.endswith('= unsafe') or re.match(r'for\s+\w+\s+in\s+\[', h)):
                problems.append(f'`{mm.group(1).strip("( ")}` of vmem_helper::new is conditional (inside `{h[:40]}`)'); break
    return calls, (drops_first, halves, forgotten), problems

def rust_expr_to_coq(e, names):
    """tiny recursive-descent translation of an integer expression: identifiers in `names`, literals, + - * /, parentheses,
    method call .div_ceil(x); raises SyntaxError on anything else"""
    toks = re.findall(r'\d+|[A-Za-z_]\w*|\.|[-+*/()]', e)
    if ''.join(toks) != re.sub(r'\s+', '', e): raise SyntaxError(f'unrecognised tokens in `{e}`')
    pos = [0]
    def peek(): return toks[pos[0]] if pos[0] < len(toks) else None
    def take():
        t = peek(); pos[0] += 1; return t
    def atom():
        t = take()
        if t is None: raise SyntaxError('unexpected end')
        if t == '(':
            v = expr()
            if take() != ')': raise SyntaxError('missing )')
        elif t.isdigit(): v = t
        elif t in names: v = names[t]
        else: raise SyntaxError(f'unknown identifier `{t}`')
        while peek() == '.':
            take(); m = take()
            if m != 'div_ceil' or take() != '(': raise SyntaxError(f'unsupported method `{m}`')
            a = expr()
            if take() != ')': raise SyntaxError('missing )')
            v = f'(div_ceil {v} {a})'
        return v
    def term():
        v = atom()
        while peek() in ('*', '/'):
            o = take(); w = atom(); v = f'({v} {o} {w})'
        return v
    def expr():
        v = term()
        while peek() in ('+', '-'):
            o = take(); w = term(); v = f'({v} {o} {w})'
        return v
    v = expr()
    if peek() is not None: raise SyntaxError(f'trailing tokens in `{e}`')
    return v

def extract_page_round(problems):
    """body of vmem_helper::get_page_size_mul -> Coq function of (page, min)"""
    try:
        src = strip_comments(open(os.path.join(REPO, 'src', 'ring_buffer/storage/heap/vmem_helper.rs')).read())
        m = re.search(r'pub fn get_page_size_mul\(min_size: usize\) -> usize \{(.*?)\n\}', src, re.S)
        if not m: raise SyntaxError('get_page_size_mul not found')
        stmts = [x.strip() for x in m.group(1).strip().split(';') if x.strip()]
        names = {'min_size': 'm'}
        for st in stmts[:-1]:
            lm = re.fullmatch(r'let (\w+) = page_size\(\)', st)
            if lm: names[lm.group(1)] = 'page'; continue
            lm = re.fullmatch(r'let (\w+) = (.+)', st, re.S)
            if not lm: raise SyntaxError(f'unrecognised statement `{st}`')
            names[lm.group(1)] = rust_expr_to_coq(lm.group(2), names)       # a let-bound sub-expression
        return rust_expr_to_coq(stmts[-1], names)
    except (SyntaxError, OSError) as e:
        problems.append(f'page rounding: {e}')
        return '0'

def write_vmem(calls, rel, problems):
    page_round = extract_page_round(problems)
    lines = ['(* GENERATED by tools/extract_facts.py from /repo/src on every run - do not edit *)',
             'From Coq Require Import List.', 'Import ListNotations.', 'Require Import MRB.Model.Vmem.', '',
             'Definition calls : list vcall := [' + '; '.join(calls) + '].']
    rel = rel or (False, 0, False)
    lines.append(f'Definition release : vrelease := mkVR {b(rel[0])} {rel[1]} {b(rel[2])}.')
    lines.append('(* vmem_helper::get_page_size_mul, translated *)')
    lines.append(f'Definition page_round (page m : nat) : nat := {page_round}.')
    lines.append(f'Definition extractor_clean : bool := {b(not problems)}.')
    for p in problems: lines.append(f'(* PROBLEM: {p} *)')
    emit('VmemCalls.v', '\n'.join(lines) + '\n')

# ------------------------------------------------------------------ arithmetic kernels -> Gallina (gen/Kernels.v)
def fn_src(path, name, nth=0):
    s = strip_comments(open(path).read())
    ms = [m for m in re.finditer(r'\bfn\s+' + re.escape(name) + r'\b', s)]
    if nth >= len(ms): raise SyntaxError(f'{name} not found in {path}')
    m = ms[nth]; i = s.index('{', m.end()); sig = s[m.end():i]; d = 0; j = i
    while True:
        if s[j] == '{': d += 1
        elif s[j] == '}':
            d -= 1
            if d == 0: break
        j += 1
    params = [q.group(1) for q in re.finditer(r'(\w+)\s*:\s*usize', sig)]
    return params, s[i + 1:j]

KTOK = re.compile(r'\s*(?:(\d+)|([A-Za-z_][A-Za-z_0-9]*)|(=>|<=|>=|==|\|\||&&|[-+*/%<>=!(){};,.:&|]))')
def klex(src):
    out = []; pos = 0; src = src.strip()
    while pos < len(src):
        m = KTOK.match(src, pos)
        if not m: raise SyntaxError('lex: ' + src[pos:pos + 30])
        pos = m.end(); out.append(m.group(1) or m.group(2) or m.group(3))
    return out

class KP:
    def __init__(s, toks): s.t = toks; s.i = 0
    def peek(s, k=0): return s.t[s.i + k] if s.i + k < len(s.t) else None
    def eat(s, x=None):
        t = s.peek()
        if x is not None and t != x: raise SyntaxError(f'expected {x!r} got {t!r}: {s.t[max(0, s.i - 6):s.i + 6]}')
        s.i += 1; return t
    def block(s, end='}'):
        stmts = []
        while s.peek() != end and s.peek() is not None:
            if s.peek() == 'let':
                s.eat()
                if s.peek() == 'mut': s.eat()
                if s.peek() == '(':
                    # `let (a, b) = (e1, e2);` = `let a = e1; let b = e2;` as long as no e_i mentions one of the names
                    s.eat(); names = []
                    while s.peek() != ')':
                        if s.peek() == 'mut': s.eat()
                        names.append(s.eat())
                        if s.peek() == ',': s.eat()
                    s.eat(')'); s.eat('='); e = s.expr(); s.eat(';')
                    def mentions(x):
                        if isinstance(x, tuple):
                            if len(x) == 2 and x[0] == 'var': return x[1] in names
                            return any(mentions(y) for y in x)
                        if isinstance(x, list): return any(mentions(y) for y in x)
                        return False
                    if e[0] != 'tuple' or len(e[1]) != len(names) or mentions(e[1]): raise SyntaxError('tuple let')
                    for n, x in zip(names, e[1]): stmts.append(('let', n, x))
                else:
                    name = s.eat(); s.eat('='); e = s.expr(); s.eat(';'); stmts.append(('let', name, e))
            elif s.peek() == 'unsafe' and s.peek(1) == '{':
                s.eat(); s.eat('{'); inner = s.block('}'); s.eat('}')
                if s.peek() == ';': s.eat()
                stmts.append(('block', inner))
            elif s.peek() == 'if':
                e = s.expr()
                if s.peek() == ';': s.eat(); stmts.append(('expr', e))
                elif s.peek() == end or s.peek() is None: stmts.append(('ret', e))     # tail expression: the block's value
                else: stmts.append(('expr', e))
            else:
                e = s.expr()
                if s.peek() == '=':
                    s.eat(); rhs = s.expr(); s.eat(';'); stmts.append(('assign', e, rhs))
                elif s.peek() == ';': s.eat(); stmts.append(('expr', e))
                else: stmts.append(('ret', e))
        return stmts
    def expr(s):
        l = s.cmp()
        while s.peek() == '||':
            s.eat(); r = s.cmp(); l = ('or', l, r)
        return l
    def cmp(s):
        l = s.add()
        if s.peek() in ('<', '<=', '>', '>=', '=='):
            op = s.eat(); r = s.add(); return ('cmp', op, l, r)
        return l
    def add(s):
        l = s.post()
        while s.peek() == '+':
            s.eat(); r = s.post(); l = ('add', l, r)
        return l
    def post(s):
        e = s.atom()
        while s.peek() == '.':
            s.eat(); name = s.eat()
            if s.peek() == '(':
                s.eat(); args = []
                while s.peek() != ')':
                    args.append(s.expr())
                    if s.peek() == ',': s.eat()
                s.eat(')'); e = ('mcall', e, name, args)
            else: e = ('field', e, name)
        return e
    def atom(s):
        t = s.eat()
        if t == '(':
            e = s.expr()
            if s.peek() == ',':
                es = [e]
                while s.peek() == ',':
                    s.eat()
                    if s.peek() == ')': break
                    es.append(s.expr())
                s.eat(')'); return ('tuple', es)
            s.eat(')'); return e
        if t == 'match':
            c = s.expr(); s.eat('{'); arms = {}
            for _ in range(2):
                k = s.eat(); s.eat('=>'); arms[k] = s.expr()
                if s.peek() == ',': s.eat()
            s.eat('}')
            if set(arms) != {'true', 'false'}: raise SyntaxError('match arms ' + str(list(arms)))
            return ('ite', c, arms['true'], arms['false'])
        if t == 'if':
            c = s.expr(); s.eat('{'); a = s.block('}'); s.eat('}'); bb = []
            if s.peek() == 'else': s.eat(); s.eat('{'); bb = s.block('}'); s.eat('}')
            return ('ifb', c, a, bb)
        if t is None: raise SyntaxError('unexpected end')
        if t.isdigit(): return ('num', t)
        return ('var', t)

class KGen:
    """code generation into the monad of Model/KernelM.v"""
    TRANSPARENT = {'buffer', 'inner', 'inner_mut'}
    def __init__(s): s.n = 0; s.sync_name = 'g_sync_index'
    def fresh(s): s.n += 1; return f'v{s.n}'
    def bindv(s, rhs, k):
        v = s.fresh(); return f'{v} <- {rhs} ;; ' + k(v)
    def expr(s, e, k):
        kind = e[0]
        if kind == 'num': return k(e[1])
        if kind == 'var':
            if e[1] == 'self': return k('tt')
            return k(e[1])
        if kind == 'field':
            f = e[2]
            if f == 'index': return s.bindv('get_index', k)
            if f == 'cached_avail': return s.bindv('get_cached', k)
            if f in s.TRANSPARENT: return s.expr(e[1], k)
            raise SyntaxError('field ' + f)
        if kind == 'add': return s.expr(e[1], lambda a: s.expr(e[2], lambda bb: s.bindv(f'uadd {a} {bb}', k)))
        if kind == 'mcall':
            recv, name, args = e[1], e[2], e[3]
            if name in ('unchecked_add', 'unchecked_sub', 'saturating_sub'):
                op = {'unchecked_add': 'uadd', 'unchecked_sub': 'usub', 'saturating_sub': 'ssub'}[name]
                return s.expr(recv, lambda a: s.expr(args[0], lambda bb: s.bindv(f'{op} {a} {bb}', k)))
            if name in s.TRANSPARENT and not args: return s.expr(recv, k)
            if name in ('_index', 'index') and not args: return s.bindv('get_index', k)
            if name == 'cached_avail' and not args: return s.bindv('get_cached', k)
            if name == 'succ_index' and not args: return s.bindv('succ_index E', k)
            if name in ('buf_len', 'inner_len') and not args: return s.bindv('buf_len E', k)
            if name == '_available' and not args: return s.bindv('avail', k)
            if name == 'set_local_index': return s.expr(args[0], lambda a: f'set_index {a} ;;; ' + k('tt'))
            if name == 'set_cached_avail': return s.expr(args[0], lambda a: f'set_cached {a} ;;; ' + k('tt'))
            if name == 'set_atomic_index': return s.expr(args[0], lambda a: f'publish {a} ;;; ' + k('tt'))
            if name == 'advance_local': return s.expr(args[0], lambda a: f'g_advance_local E {a} ;;; ' + k('tt'))
            if name == 'sync_index' and not args: return f'{s.sync_name} E ;;; ' + k('tt')
            raise SyntaxError('method ' + name)
        if kind == 'cmp':
            op = {'<': 'Nat.ltb', '<=': 'Nat.leb', '>=': 'geb', '>': 'gtb', '==': 'Nat.eqb'}[e[1]]
            return s.expr(e[2], lambda a: s.expr(e[3], lambda bb: k(f'({op} {a} {bb})')))
        if kind == 'or':
            return s.expr(e[1], lambda a: s.bindv(f'orelse {a} ({s.expr(e[2], lambda x: "ret " + x)})', k))
        if kind == 'ite':
            return s.expr(e[1], lambda c: s.bindv(f'(if {c} then ({s.expr(e[2], lambda x: "ret " + x)}) else ({s.expr(e[3], lambda x: "ret " + x)}))', k))
        if kind == 'ifb':
            return s.expr(e[1], lambda c: s.bindv(f'(if {c} then ({s.block(e[2])}) else ({s.block(e[3])}))', k))
        raise SyntaxError('expr ' + kind)
    def block(s, stmts):
        if not stmts: return 'ret tt'
        st, rest = stmts[0], stmts[1:]
        if st[0] == 'let': return s.expr(st[2], lambda a: f'let {st[1]} := {a} in ' + s.block(rest))
        if st[0] == 'block': return s.block(st[1] + rest)
        if st[0] == 'assign':
            tgt = st[1]
            if tgt[0] != 'field' or tgt[2] not in ('index', 'cached_avail'): raise SyntaxError('assignment target')
            setter = {'index': 'set_index', 'cached_avail': 'set_cached'}[tgt[2]]
            return s.expr(st[2], lambda a: f'{setter} {a} ;;; ' + s.block(rest))
        if st[0] == 'expr':
            if not rest: return s.expr(st[1], lambda a: 'ret tt')
            return s.expr(st[1], lambda a: s.block(rest))
        if st[0] == 'ret': return s.expr(st[1], lambda a: f'ret {a}')
        raise SyntaxError(st[0])

KERNELS = [  # (Coq name, file, fn, nth, extra Coq parameters, result type)
    ('g_advance_local', 'iterators/iterator_trait.rs', 'advance_local', 0, '', 'unit'),
    ('g_advance', 'iterators/iterator_trait.rs', '_advance', 0, '', 'unit'),
    ('g_check', 'iterators/iterator_trait.rs', 'check', 0, '(avail : M nat)', 'bool'),
    ('g_prod_available', 'iterators/sync_iterators/prod_iter.rs', '_available', 0, '', 'nat'),
    ('g_work_available', 'iterators/sync_iterators/work_iter.rs', '_available', 0, '', 'nat'),
    ('g_cons_available', 'iterators/sync_iterators/cons_iter.rs', '_available', 0, '', 'nat'),
    ('g_cons_reset', 'iterators/sync_iterators/cons_iter.rs', 'reset_index', 0, '', 'unit'),
    ('g_work_reset', 'iterators/sync_iterators/work_iter.rs', 'reset_index', 0, '', 'unit'),
    ('g_set_index', 'iterators/sync_iterators/detached.rs', 'set_index', 0, '', 'unit'),
    ('g_dreset', 'iterators/sync_iterators/detached.rs', 'reset_index', 0, '', 'unit'),
    ('g_dadvance', 'iterators/sync_iterators/detached.rs', 'advance', 0, '', 'unit'),
    ('g_go_back', 'iterators/sync_iterators/detached.rs', 'go_back', 0, '', 'unit'),
    ('g_sync_index', 'iterators/sync_iterators/detached.rs', 'sync_index', 0, '', 'unit'),
    ('g_go_back_async', 'iterators/async_iterators/detached.rs', 'go_back', 0, '', 'unit'),
    ('g_sync_index_async', 'iterators/async_iterators/detached.rs', 'sync_index', 0, '', 'unit'),
    ('g_dadvance_async', 'iterators/async_iterators/detached.rs', 'advance', 0, '', 'unit'),
    ('g_attach', 'iterators/sync_iterators/detached.rs', 'attach', 0, '', 'unit'),
    ('g_attach_async', 'iterators/async_iterators/detached.rs', 'attach', 0, '', 'unit'),
]

def extract_kernels():
    out = []; problems = []
    for name, f, fn, nth, extra, ty in KERNELS:
        try:
            params, body = fn_src(os.path.join(REPO, 'src', f), fn, nth)
            kg = KGen()
            if name.endswith('_async'): kg.sync_name = 'g_sync_index_async'
            code = kg.block(KP(klex(body)).block(None))
            ps = ' '.join(f'({q} : nat)' for q in params)
            out.append(f'(* {f} :: {fn} *)\nDefinition {name} (E : env) {extra} {ps} : M {ty} :=\n  {code}.\n')
        except (SyntaxError, ValueError, IndexError) as ex:
            problems.append(f'{f}::{fn}: outside the translatable subset: {ex}')
            out.append(f'(* {name}: OUTSIDE SUBSET: {ex} *)\nDefinition {name} (E : env) {extra} : M {ty} := fun _ _ => None.\n')
    # next_chunk: the split condition and the two lengths (the slices themselves are pointer arithmetic)
    try:
        txt = strip_comments(open(os.path.join(REPO, 'src/iterators/iterator_trait.rs')).read())
        chunks = []
        for m in re.finditer(r'#\[cfg\(not\(feature = "vmem"\)\)\]\s*#\[inline\]\s*fn\s+(next_chunk(?:_mut)?)\b(.*?)\n    \}', txt, re.S):
            bodyc = m.group(2)
            # `if <cond> { A } else { B }` after `let ptr`: the branch with two slices is the wrapping one (either order accepted)
            rest = bodyc[bodyc.index('let ptr'):]
            im = re.search(r'\bif\s+(.*?)\s*\{', rest)
            cond = im.group(1)
            def block(txt, i):
                d = 0
                for j in range(i, len(txt)):
                    if txt[j] == '{': d += 1
                    elif txt[j] == '}':
                        d -= 1
                        if d == 0: return txt[i + 1:j], j
                raise SyntaxError('unbalanced braces')
            then_b, j = block(rest, im.end() - 1)
            em = re.match(r'\s*else\s*\{', rest[j + 1:])
            if not em: raise SyntaxError(f'{m.group(1)}: if without else')
            else_b, _ = block(rest, j + 1 + em.end() - 1)
            def slices(blk):
                r = []
                for fm in re.finditer(r'from_raw_parts(?:_mut)?\s*\(', blk):
                    a, _ = args_of(blk, fm.end() - 1)
                    if len(a) == 2: r.append((a[0].strip(), a[1].strip()))
                return r
            # plain `let name = <expression>;` bindings of the body (other than `len` / `ptr`) are substituted into the condition and the slices
            lets = {}
            for lm in re.finditer(r'\blet\s+(?:mut\s+)?(\w+)\s*=\s*([^;{}]+);', bodyc):
                if lm.group(1) not in ('len', 'ptr'): lets[lm.group(1)] = lm.group(2).strip()
            def subst(x):
                for _ in range(3):
                    for nm, ex in lets.items(): x = re.sub(r'\b' + nm + r'\b', '(' + ex + ')', x)
                return x
            cond = subst(cond)
            ts, es = slices(then_b), slices(else_b)
            ts = [(subst(a), subst(b)) for a, b in ts]; es = [(subst(a), subst(b)) for a, b in es]
            if len(ts) == 2 and len(es) == 1: wrap, nowrap, neg = ts, es, False
            elif len(ts) == 1 and len(es) == 2: wrap, nowrap, neg = es, ts, True
            else: raise SyntaxError(f'{m.group(1)}: expected a 2-slice and a 1-slice branch, found {len(ts)} / {len(es)}')
            lens = [wrap[0], wrap[1], nowrap[0]]
            g = KGen()
            cc = g.expr(KP(klex(cond)).expr(), lambda x: 'ret ' + (f'(negb {x})' if neg else x))
            hl = g.expr(KP(klex(lens[0][1])).expr(), lambda x: 'ret ' + x)
            tl = g.expr(KP(klex(lens[1][1])).expr(), lambda x: 'ret ' + x)
            nl = g.expr(KP(klex(lens[2][1])).expr(), lambda x: 'ret ' + x)
            chunks.append((m.group(1), cc, hl, tl, nl, [x[0] for x in lens]))
        if len(chunks) != 2: raise SyntaxError(f'expected next_chunk and next_chunk_mut, found {len(chunks)}')
        for nm, cc, hl, tl, nl, ptrs in chunks:
            norm = lambda x: re.sub(r'\s', '', x).replace('((self._index()))', '(self._index())')
            ok_ptrs = norm(ptrs[0]) == 'ptr.add(self._index())' and norm(ptrs[1]) == 'ptr' and norm(ptrs[2]) == 'ptr.add(self._index())'
            if not ok_ptrs: problems.append(f'{nm}: unexpected slice base pointers {ptrs}')
            out.append(f'(* iterators/iterator_trait.rs :: {nm}: wrap condition, head / tail lengths when wrapping, head length otherwise *)\n'
                       f'Definition g_{nm}_cond (E : env) (count : nat) : M bool :=\n  let len := e_len E in {cc}.\n'
                       f'Definition g_{nm}_head (E : env) (count : nat) : M nat :=\n  let len := e_len E in {hl}.\n'
                       f'Definition g_{nm}_tail (E : env) (count : nat) : M nat :=\n  let len := e_len E in {tl}.\n'
                       f'Definition g_{nm}_nowrap (E : env) (count : nat) : M nat :=\n  let len := e_len E in {nl}.\n')
    except (SyntaxError, ValueError, AttributeError) as ex:
        problems.append(f'next_chunk: {ex}')
    return out, problems

def write_kernels(defs, problems):
    lines = ['(* GENERATED by tools/extract_facts.py from /repo/src on every run - do not edit *)',
             'From Coq Require Import List Arith Bool.', 'Require Import MRB.Model.KernelM.', ''] + defs
    lines.append(f'Definition extractor_clean : bool := {b(not problems)}.')
    for p in problems: lines.append(f'(* PROBLEM: {p} *)')
    emit('Kernels.v', '\n'.join(lines) + '\n')

def b(x): return 'true' if x else 'false'

def write_send(clauses, problems, structure_ok):
    os.makedirs(OUT, exist_ok=True)
    lines = ['(* GENERATED by tools/extract_facts.py from /repo/src on every run - do not edit *)',
             'From Coq Require Import List Bool String.', 'Import ListNotations.', 'Require Import MRB.Model.SendSync.', '',
             'Definition clauses : list clause := [']
    body = []
    for (ty, trait, conc, isend, isync, inner, rel) in clauses:
        body.append(f'  mkClause {ty} {"TrSend" if trait == "Send" else "TrSync"} {b(conc)} {b(isend)} {b(isync)} {b(inner)} (* {rel} *)')
    lines.append(';\n'.join(body))
    lines.append('].')
    lines.append('')
    lines.append(f'(* every iterator holds a BufRef (NonNull) directly or through the iterator it wraps; no explicit impl for BufRef / buffers *)')
    lines.append(f'Definition structure_ok : bool := {b(structure_ok)}.')
    lines.append(f'Definition extractor_clean : bool := {b(not problems)}.')
    for p in problems: lines.append(f'(* PROBLEM: {p} *)')
    emit('SendClauses.v', '\n'.join(lines) + '\n')

def extract_splits():
    """every split function of the crate: receiver (by value / &mut self), which published indices it resets, which liveness bits it
    sets, which iterators it creates"""
    out = []; problems = []
    for rel in ('ring_buffer/storage/mod.rs', 'ring_buffer/variants/concurrent_rb.rs', 'ring_buffer/variants/local_rb.rs'):
        path = os.path.join(REPO, 'src', rel)
        if not os.path.exists(path): continue
        txt = strip_comments(open(path).read())
        for m in re.finditer(r'\bfn\s+(split\w*)\s*(?:<[^>]*>)?\s*\(\s*(&mut self|self)\s*\)', txt):
            i = txt.find('{', m.end())
            semi = txt.find(';', m.end())
            if i < 0 or (0 <= semi < i): continue            # a declaration in a trait
            d = 0; j = i
            while j < len(txt):
                if txt[j] == '{': d += 1
                elif txt[j] == '}':
                    d -= 1
                    if d == 0: break
                j += 1
            body = txt[i:j]
            # one level of private helper taking the buffer: `helper(&*self)` / `helper(self)` / `self.helper()` / `Self::helper(self)` whose body
            # consists of setter calls on its parameter: those calls count as if written in place
            for hm in re.finditer(r'(?:Self::)?\b(\w+)\(\s*(?:&\s*\*?\s*)?self\s*\)|self\.(\w+)\(\s*\)', body):
                hname = hm.group(1) or hm.group(2)
                if hname in ('new', 'from_ref', 'clone') or hname.startswith('set_') or hname.endswith('_index') or hname.endswith('_alive'): continue
                fm = re.search(r'\bfn\s+' + hname + r'\b[^{;]*\(\s*(?:&\s*(?:mut\s+)?self|(\w+)\s*:[^)]*)\)[^{;]*\{([^{}]*)\}', txt)
                if fm:
                    pv = fm.group(1) or 'self'
                    hb = fm.group(2)
                    calls = re.findall(r'\b' + pv + r'\.(set_\w+\([^)]*\))', hb)
                    if calls and len(calls) == len([x for x in hb.split(';') if x.strip()]):
                        body = body.replace(hm.group(0), '; '.join('self.' + c for c in calls))
            def tri(pat): return tuple(bool(re.search(pat % k, body)) for k in ('prod', 'work', 'cons'))
            reset = tri(r'self\.set_%s_index\(\s*0\s*\)')
            alive = tri(r'self\.set_%s_alive\(\s*true\s*\)')
            iters = tuple(bool(re.search(k + r'Iter::new\(', body)) for k in ('Prod', 'Work', 'Cons'))
            other = re.findall(r'self\.set_\w+\([^)]*\)', body)
            known = sum(reset) + sum(alive)
            if len(other) != known: problems.append(f'{rel}::{m.group(1)}: unrecognised setter call among {other}')
            # the enclosing impl header: is the receiver type restricted to heap storage (a buffer that can only be split once, by value)?
            hdrs = [h for h in re.finditer(r'\bimpl\b[^{;]*\{', txt[:m.start()])]
            hdr = hdrs[-1].group(0) if hdrs else ''
            self_ty = hdr.split(' for ')[-1] if ' for ' in hdr else hdr
            heap_only = 'HeapStorage' in self_ty
            # the handle the iterators share: BufRef::new(self) boxes the buffer and owns the box, BufRef::from_ref(self) borrows it
            boxed = bool(re.search(r'BufRef::new\(\s*self\s*\)', body)); borrowed = bool(re.search(r'BufRef::from_ref\(\s*self\s*\)', body))
            if boxed == borrowed: problems.append(f'{rel}::{m.group(1)}: the iterators\' handle is neither BufRef::new(self) nor BufRef::from_ref(self)')
            if boxed != (m.group(2) == 'self'): problems.append(f'{rel}::{m.group(1)}: a by-value split must box the buffer (BufRef::new), a by-reference split must borrow it (BufRef::from_ref)')
            out.append((f'{rel}::{m.group(1)}', m.group(2) == '&mut self', reset, alive, iters, heap_only))
    if len(out) < 4: problems.append(f'only {len(out)} split functions found')
    # BufRef: `new` owns the box (needs_drop: true), `from_ref` does not (false), `clone` copies the bit
    try:
        br = strip_comments(open(os.path.join(REPO, 'src', 'ring_buffer/wrappers/buf_ref.rs')).read())
        def lit(fn):
            fm = re.search(r'fn\s+' + fn + r'\b[^{]*\{(.*?)\n    \}', br, re.S)
            return re.sub(r'\s+', '', fm.group(1)) if fm else ''
        if 'needs_drop:true' not in lit('new'): problems.append('buf_ref.rs::new: the handle of a boxed buffer does not own the box (needs_drop: true)')
        if 'needs_drop:false' not in lit('from_ref'): problems.append('buf_ref.rs::from_ref: the handle of a borrowed buffer owns it (needs_drop: false expected)')
        if 'needs_drop:self.needs_drop' not in lit('clone'): problems.append('buf_ref.rs::clone: the clone does not copy needs_drop')
    except OSError: problems.append('buf_ref.rs missing')
    return out, problems

def write_splits(splits, problems):
    t = lambda x: 'mkTri ' + ' '.join(b(y) for y in x)
    lines = ['(* GENERATED by tools/extract_facts.py from /repo/src on every run - do not edit *)',
             'From Coq Require Import List String.', 'Import ListNotations.', 'Require Import MRB.Model.Types MRB.Model.Splits.', 'Open Scope string_scope.', '',
             'Definition splits : list split_fn := [']
    lines.append(';\n'.join(f'  mkSplit "{n}" {b(br)} ({t(r)}) ({t(a)}) ({t(i)}) {b(ho)}' for n, br, r, a, i, ho in splits))
    lines.append('].')
    lines.append(f'Definition extractor_clean : bool := {b(not problems)}.')
    for p in problems: lines.append(f'(* PROBLEM: {p} *)')
    emit('SplitFns.v', '\n'.join(lines) + '\n')

def extract_accessors():
    """the `IterManager` accessors of both variants: each index getter / setter touches exactly its own field, once, unconditionally;
    the liveness getters read their own flag; the liveness setters write their own flag and answer `no flag is set any more`"""
    rows = []; problems = []
    def body_of(txt, name):
        m = re.search(r'\bfn\s+' + name + r'\s*\(([^)]*)\)[^{;]*\{', txt)
        if not m: return None, None
        i = m.end() - 1; d = 0; j = i
        while j < len(txt):
            if txt[j] == '{': d += 1
            elif txt[j] == '}':
                d -= 1
                if d == 0: break
            j += 1
        b = re.sub(r'\s+', '', txt[i + 1:j])
        b = re.sub(r'^unsafe\{(.*)\}$', r'\1', b)
        return m.group(1), b.rstrip(';')
    for variant, rel in (('local', 'ring_buffer/variants/local_rb.rs'), ('conc', 'ring_buffer/variants/concurrent_rb.rs')):
        path = os.path.join(REPO, 'src', rel)
        try: txt = strip_comments(open(path).read())
        except OSError: problems.append(f'{rel}: missing'); continue
        i0 = txt.find('IterManager for')
        if i0 < 0: problems.append(f'{rel}: no IterManager impl'); continue
        t = txt[i0:]
        for st in ('prod', 'work', 'cons'):
            for acc, templates in (
                (f'{st}_index', [rf'\*self\.{st}_idx\.get\(\)', rf'self\.{st}_idx\.load\((?:Ordering::)?\w+\)']),
                (f'set_{st}_index', [rf'\*self\.{st}_idx\.get\(\)=index', rf'self\.{st}_idx\.store\(index,(?:Ordering::)?\w+\)']),
                (f'{st}_alive', [rf'\*self\.{st}_alive\.get\(\)', rf'self\.alive\.load\((?:Ordering::)?\w+\)&{st.upper()}_ALIVE!=0']),
                (f'set_{st}_alive', [rf'(?:unsafe\{{)?\*self\.{st}_alive\.get\(\)=alive;?\}}?!\(self\.prod_alive\(\)\|\|self\.work_alive\(\)\|\|self\.cons_alive\(\)\)',
                                     rf'self\.set_alive\({st.upper()}_ALIVE,alive\)'])):
                params, b = body_of(t, acc)
                if b is not None:
                    # one level of private helper for the `no flag is set any more` answer: fn h(&self) -> bool { !(a() || b() || c()) }
                    for hm in re.finditer(r'self\.(\w+)\(\)', b):
                        hp, hb = body_of(txt, hm.group(1))
                        if hb == '!(self.prod_alive()||self.work_alive()||self.cons_alive())' and hm.group(1) not in ('prod_alive', 'work_alive', 'cons_alive'):
                            b = b.replace(hm.group(0), hb)
                ok = b is not None and any(re.fullmatch(tp, b) for tp in templates)
                rows.append((variant, acc, ok))
                if not ok: problems.append(f'{rel}::{acc}: body `{b}` is not a plain access of its own field')
    return rows, problems

def write_accessors(rows, problems):
    lines = ['(* GENERATED by tools/extract_facts.py from /repo/src on every run - do not edit *)',
             'From Coq Require Import List String Bool.', 'Import ListNotations.', 'Open Scope string_scope.', '',
             '(* IterManager accessors of the Local and the Concurrent variant: (variant, accessor, is it a plain, unconditional access of its own field?) *)',
             'Definition accessors : list (string * string * bool) := [']
    lines.append(';\n'.join(f'  ("{v}", "{a}", {b(ok)})' for v, a, ok in rows))
    lines.append('].')
    lines.append(f'Definition extractor_clean : bool := {b(not problems)}.')
    for p in problems: lines.append(f'(* PROBLEM: {p} *)')
    emit('Accessors.v', '\n'.join(lines) + '\n')

def extract_ctors():
    """heap constructors (non-vmem): the length of a `default(capacity)` / `new_zeroed(capacity)` buffer as a function of the requested
    capacity; `_from` of both variants: length taken from the storage, zero length refused, published indices 0, no liveness flag set"""
    problems = []; range_max = 'capacity'; dl = nz = 'capacity'
    try:
        src = strip_comments(open(os.path.join(REPO, 'src', 'ring_buffer/storage/heap/rb.rs')).read())
        m = re.search(r'fn\s+get_range_max\s*\(\s*(\w+)\s*:\s*usize\s*\)\s*->\s*usize\s*\{(.*?)\n\}', src, re.S)
        if not m: raise SyntaxError('get_range_max not found')
        arg, body = m.group(1), m.group(2)
        nv = re.search(r'#\[cfg\(not\(feature\s*=\s*"vmem"\)\)\]\s*(?:return\s+)?([^;{}]+?)\s*;?\s*$', body.strip(), re.S)
        if not nv: raise SyntaxError(f'get_range_max: no plain non-vmem result in `{" ".join(body.split())}`')
        range_max = rust_expr_to_coq(nv.group(1), {arg: 'capacity'})
        m = re.search(r'fn\s+new_zeroed\s*\(\s*(\w+)\s*:\s*usize\s*\)(.*?)\n            \}', src, re.S)
        if not m: raise SyntaxError('new_zeroed not found')
        r = re.search(r'\(\s*0\s*\.\.\s*get_range_max\(\s*' + m.group(1) + r'\s*\)\s*\)\s*\.map\(\s*\|_\|\s*UnsafeSyncCell::new_zeroed\(\)\s*\)\s*\.collect', m.group(2))
        if not r: raise SyntaxError('new_zeroed: not `(0..get_range_max(capacity)).map(|_| UnsafeSyncCell::new_zeroed()).collect()`')
        m = re.search(r'fn\s+default\s*\(\s*(\w+)\s*:\s*usize\s*\)(.*?)\n            \}', src, re.S)
        if not m: raise SyntaxError('default not found')
        r = re.search(r'vec!\[\s*T::default\(\)\s*;\s*get_range_max\(\s*' + m.group(1) + r'\s*\)\s*\]', m.group(2))
        if not r: raise SyntaxError('default: not `vec![T::default(); get_range_max(capacity)]`')
        dl = nz = range_max
    except (SyntaxError, OSError) as ex:
        problems.append(f'ring_buffer/storage/heap/rb.rs: {ex}')
    froms = []
    for variant, rel in (('local', 'ring_buffer/variants/local_rb.rs'), ('conc', 'ring_buffer/variants/concurrent_rb.rs')):
        try:
            src = strip_comments(open(os.path.join(REPO, 'src', rel)).read())
            m = re.search(r'fn\s+_from\s*\(\s*(\w+)\s*:\s*S\s*\)[^{]*\{(.*?)\n    \}', src, re.S)
            if not m: raise SyntaxError('_from not found')
            v, bd = m.group(1), re.sub(r'\s+', '', m.group(2))
            ok = (f'assert!({v}.len()>0);' in bd and f'inner_len:NonZeroUsize::new({v}.len()).unwrap()' in bd and f'inner:{v}.into()' in bd
                  and all(re.search(rf'{k}_idx:(?:CachePadded::new\()?0\.into\(\)', bd) for k in ('prod', 'work', 'cons'))
                  and (all(f'{k}_alive:false.into()' in bd for k in ('prod', 'work', 'cons')) or 'alive:AtomicU8::new(0)' in bd))
            froms.append((variant, ok))
            if not ok: problems.append(f'{rel}::_from: not the plain constructor (length of the storage, zero refused, indices 0, no flag set)')
        except (SyntaxError, OSError) as ex:
            problems.append(f'{rel}: {ex}'); froms.append((variant, False))
    lines = ['(* GENERATED by tools/extract_facts.py from /repo/src on every run - do not edit *)',
             'From Coq Require Import List String Bool Arith.', 'Import ListNotations.', 'Open Scope string_scope.', '',
             '(* heap constructors without vmem: length of the buffer as a function of the requested capacity *)',
             f'Definition default_len (capacity : nat) : nat := {dl}.',
             f'Definition new_zeroed_len (capacity : nat) : nat := {nz}.',
             '(* _from of both variants: is it the plain constructor? *)',
             'Definition from_ok : list (string * bool) := [' + '; '.join(f'("{v}", {b(ok)})' for v, ok in froms) + '].',
             f'Definition extractor_clean : bool := {b(not problems)}.'] + [f'(* PROBLEM: {x} *)' for x in problems]
    emit('Ctors.v', '\n'.join(lines) + '\n')
    return problems

def main():
    for x in extract_ctors(): print('extract_facts: PROBLEM:', x)
    ar, ap = extract_accessors()
    write_accessors(ar, ap)
    for x in ap: print('extract_facts: PROBLEM:', x)
    print(f'extract_facts: {len(ar)} accessors')
    sp, spp = extract_splits()
    write_splits(sp, spp)
    for x in spp: print('extract_facts: PROBLEM:', x)
    print(f'extract_facts: {len(sp)} split functions')
    try: c, p, s = extract_send_clauses()
    except Exception as ex: c, p, s = [], [f'the Send / Sync extractor failed on this source: {type(ex).__name__}: {ex}'], False
    write_send(c, p, s)
    for x in p: print('extract_facts: PROBLEM:', x)
    print(f'extract_facts: {len(c)} Send/Sync clauses')
    prof, rd, pp = extract_profile()
    write_profile(prof, rd, pp)
    for x in pp: print('extract_facts: PROBLEM:', x)
    print('extract_facts: profile', prof)
    vc, vr, vp = extract_vmem()
    write_vmem(vc, vr, vp)
    for x in vp: print('extract_facts: PROBLEM:', x)
    print('extract_facts: vmem calls', vc, vr)
    kd, kp = extract_kernels()
    write_kernels(kd, kp)
    for x in kp: print('extract_facts: PROBLEM:', x)
    print(f'extract_facts: {len(kd)} kernel definitions')
    loops, wakers = extract_structure()
    write_structure(loops, wakers)
    print(f'extract_facts: {len(loops)} loops, {len(wakers)} wake calls')
    import data_translate
    dp = data_translate.main(REPO, OUT)
    for x in dp: print('extract_facts: PROBLEM:', x)
    print(f'extract_facts: data-level functions translated ({len(data_translate.FUNS)} functions, {len(dp)} problems)')

if __name__ == '__main__':
    main()
