(* Scratch prototype: sequential model <-> spec refinement for a reduced op set
   (two-stage: available, push, push_slice, pop, peek_slice, advance, reset_index(fixed)).
   Purpose: check that invariant (I3) "cached <= true availability" and the pointwise
   content invariant (I5) are inductive and that the two-slice split is manageable. *)
From Coq Require Import List Arith Lia Bool.
Import ListNotations.
Require Import RA.   (* wadd dist pavail + mod lemmas, upd *)

Local Arguments Nat.leb : simpl never.
Local Arguments Nat.ltb : simpl never.
Local Arguments Nat.modulo : simpl never.

(* ---------------- model (mirrors the Rust) ---------------- *)
Record it := mkIt { iix : nat; ica : nat }.
Record st := mkSt { slen : nat; slots : list nat; pp : nat; cp : nat; itP : it; itC : it }.

Inductive op :=
| OAvailP | OAvailC
| OPush (v : nat) | OPushSlice (vs : list nat)
| OPop | OPeekSlice (n : nat) | OAdvanceC (n : nat)
| OResetC.

Inductive out :=
| RNum (n : nat) | ROk | RErr (v : nat) | RNone | RSome (v : nat) | RSlices (h t : list nat) | RUnit.

Definition availP (s : st) : nat := pavail (slen s) (iix (itP s)) (cp s).
Definition availC (s : st) : nat := dist (slen s) (iix (itC s)) (pp s).

(* check(count): cached >= count || fresh >= count ; returns (granted, new cached) *)
Definition check (cached fresh count : nat) : bool * nat :=
  if count <=? cached then (true, cached) else (count <=? fresh, fresh).

Definition sub (l : list nat) (i n : nat) : list nat := firstn n (skipn i l).
Fixpoint write (l : list nat) (i : nat) (vs : list nat) : list nat :=
  match vs with [] => l | v :: r => write (upd i v l) (S i) r end.

(* next_chunk geometry: (head_len, tail_len) *)
Definition chunk (len ix n : nat) : nat * nat :=
  if len <=? ix + n then (len - ix, ix + n - len) else (n, 0).

Definition step (s : st) (o : op) : st * out :=
  let len := slen s in
  match o with
  | OAvailP => let a := availP s in
      (mkSt len (slots s) (pp s) (cp s) (mkIt (iix (itP s)) a) (itC s), RNum a)
  | OAvailC => let a := availC s in
      (mkSt len (slots s) (pp s) (cp s) (itP s) (mkIt (iix (itC s)) a), RNum a)
  | OPush v =>
      let '(g, ca) := check (ica (itP s)) (availP s) 1 in
      if g then
        let ix' := wadd len (iix (itP s)) 1 in
        (mkSt len (upd (iix (itP s)) v (slots s)) ix' (cp s) (mkIt ix' (ca - 1)) (itC s), ROk)
      else (mkSt len (slots s) (pp s) (cp s) (mkIt (iix (itP s)) ca) (itC s), RErr v)
  | OPushSlice vs =>
      let n := length vs in
      let '(g, ca) := check (ica (itP s)) (availP s) n in
      if g then
        let ix := iix (itP s) in
        let '(h, t) := chunk len ix n in
        let sl := write (write (slots s) ix (firstn h vs)) 0 (skipn h vs) in
        let ix' := wadd len ix n in
        (mkSt len sl ix' (cp s) (mkIt ix' (ca - n)) (itC s), ROk)
      else (mkSt len (slots s) (pp s) (cp s) (mkIt (iix (itP s)) ca) (itC s), RNone)
  | OPop =>
      let '(g, ca) := check (ica (itC s)) (availC s) 1 in
      if g then
        let ix' := wadd len (iix (itC s)) 1 in
        (mkSt len (slots s) (pp s) ix' (itP s) (mkIt ix' (ca - 1)), RSome (nth (iix (itC s)) (slots s) 0))
      else (mkSt len (slots s) (pp s) (cp s) (itP s) (mkIt (iix (itC s)) ca), RNone)
  | OPeekSlice n =>
      let '(g, ca) := check (ica (itC s)) (availC s) n in
      if g then
        let ix := iix (itC s) in
        let '(h, t) := chunk len ix n in
        (mkSt len (slots s) (pp s) (cp s) (itP s) (mkIt ix ca), RSlices (sub (slots s) ix h) (sub (slots s) 0 t))
      else (mkSt len (slots s) (pp s) (cp s) (itP s) (mkIt (iix (itC s)) ca), RNone)
  | OAdvanceC n =>
      let ix' := wadd len (iix (itC s)) n in
      (mkSt len (slots s) (pp s) ix' (itP s) (mkIt ix' (ica (itC s) - n)), RUnit)
  | OResetC =>   (* with fix F1: cached availability cleared *)
      (mkSt len (slots s) (pp s) (pp s) (itP s) (mkIt (pp s) 0), RUnit)
  end.

(* ---------------- spec ---------------- *)
Record spec := mkSp { alen : nat; base : nat; q : list nat }.

Definition ok_op (a : spec) (o : op) : bool :=
  match o with
  | OAdvanceC n => n <=? length (q a)
  | _ => true
  end.

Definition sstep (a : spec) (o : op) : spec * out :=
  let len := alen a in
  match o with
  | OAvailP => (a, RNum (len - 1 - length (q a)))
  | OAvailC => (a, RNum (length (q a)))
  | OPush v => if length (q a) + 1 <=? len - 1 then (mkSp len (base a) (q a ++ [v]), ROk) else (a, RErr v)
  | OPushSlice vs => if length (q a) + length vs <=? len - 1 then (mkSp len (base a) (q a ++ vs), ROk) else (a, RNone)
  | OPop => match q a with [] => (a, RNone) | x :: r => (mkSp len (S (base a)) r, RSome x) end
  | OPeekSlice n =>
      if n <=? length (q a) then
        let '(h, t) := chunk len (base a mod len) n in
        (a, RSlices (firstn h (firstn n (q a))) (skipn h (firstn n (q a))))
      else (a, RNone)
  | OAdvanceC n => (mkSp len (base a + n) (skipn n (q a)), RUnit)
  | OResetC => (mkSp len (base a + length (q a)) [], RUnit)
  end.
