// Throw-away ledger test (C08/C09): owned items with unique ids and a canary; every construction and
// destruction is logged; occupancy of each slot is tracked so that plain pushes only hit occupied slots.
use mutringbuf::{ConcurrentHeapRB, HeapSplit, LocalHeapRB, LocalStackRB, StackSplit, MRBIterator};
use std::cell::RefCell;
use std::collections::HashMap;
thread_local! { static LEDGER: RefCell<(u64, HashMap<u64, i32>, Vec<String>)> = RefCell::new((1, HashMap::new(), vec![])); }
const CANARY: u64 = 0xC0FFEE_D00D_F00D;
struct It { id: u64, canary: u64, payload: u64 }
fn mk() -> It { LEDGER.with(|l| { let mut l = l.borrow_mut(); let id = l.0; l.0 += 1; l.1.insert(id, 1); It { id, canary: CANARY, payload: 0 } }) }
impl Clone for It { fn clone(&self) -> It { assert_eq!(self.canary, CANARY, "clone of garbage"); let mut n = mk(); n.payload = self.payload; n } }
impl Drop for It { fn drop(&mut self) { LEDGER.with(|l| { let mut l = l.borrow_mut();
    if self.canary != CANARY || self.id == 0 { l.2.push(format!("destructor on non-value id={} canary={:x}", self.id, self.canary)); return; }
    *l.1.get_mut(&self.id).unwrap() -= 1; }) } }
struct Rng(u64);
impl Rng { fn next(&mut self) -> u64 { self.0 ^= self.0 << 13; self.0 ^= self.0 >> 7; self.0 ^= self.0 << 17; self.0 }
           fn below(&mut self, n: usize) -> usize { if n == 0 { 0 } else { (self.next() % n as u64) as usize } } }

macro_rules! body { ($prod:ident, $cons:ident, $len:expr, $zeroed:expr, $r:ident, $log:ident) => {{
    let len = $len; let mut occ = vec![!$zeroed; len]; let mut pi = 0usize; let mut ci = 0usize; let mut n = 0usize;
    for _ in 0..80 {
        let free = len - 1 - n;
        match $r.below(10) {
            0 => { let plain = occ[pi]; let v = mk(); let id = v.id; $log.push(format!("push{} {id}", if plain {""} else {"_init"}));
                   let res = if plain && $r.below(2) == 0 { $prod.push(v) } else { $prod.push_init(v) };
                   match res { Ok(()) => { assert!(free >= 1, "push accepted when full"); occ[pi] = true; pi = (pi + 1) % len; n += 1; }
                               Err(back) => { assert!(free == 0, "push refused with space"); assert_eq!(back.id, id, "refused push returned another value"); } } }
            1 => { let k = $r.below(len + 1); let src: Vec<It> = (0..k).map(|_| mk()).collect(); $log.push(format!("push_slice_clone(_init) {k}"));
                   let all_occ = (0..k).all(|j| occ[(pi + j) % len]);
                   let res = if all_occ && $r.below(2) == 0 { $prod.push_slice_clone(&src) } else { $prod.push_slice_clone_init(&src) };
                   assert_eq!(res.is_some(), k <= free, "push_slice_clone result");
                   if res.is_some() { for j in 0..k { occ[(pi + j) % len] = true; } pi = (pi + k) % len; n += k; } }
            2 => { $log.push("pop_move".into()); let g = unsafe { $cons.pop_move() }; assert_eq!(g.is_some(), n > 0, "pop_move");
                   if let Some(v) = g { assert_eq!(v.canary, CANARY, "pop_move returned garbage"); occ[ci] = false; ci = (ci + 1) % len; n -= 1; } }
            3 => { $log.push("clone_item".into()); let mut dst = mk(); let g = $cons.clone_item(&mut dst); assert_eq!(g.is_some(), n > 0, "clone_item");
                   if g.is_some() { ci = (ci + 1) % len; n -= 1; } }
            4 => { let k = $r.below(len + 1); $log.push(format!("clone_slice {k}")); let mut dst: Vec<It> = (0..k).map(|_| mk()).collect();
                   let g = $cons.clone_slice(&mut dst); assert_eq!(g.is_some(), k <= n, "clone_slice"); if g.is_some() { ci = (ci + k) % len; n -= k; } }
            5 => { $log.push("peek+advance".into()); if let Some(v) = $cons.peek_ref() { assert_eq!(v.canary, CANARY); unsafe { $cons.advance(1) }; ci = (ci + 1) % len; n -= 1; } else { assert_eq!(n, 0); } }
            6 => { $log.push("C.reset".into()); $cons.reset_index(); ci = pi; n = 0; }
            7 => { $log.push("get_next_item_mut_init+write".into()); if let Some(ptr) = $prod.get_next_item_mut_init() { assert!(free >= 1);
                   unsafe { if occ[pi] { *ptr = mk(); } else { ptr.write(mk()); } $prod.advance(1); } occ[pi] = true; pi = (pi + 1) % len; n += 1; } else { assert_eq!(free, 0); } }
            _ => { assert_eq!($prod.available(), free); assert_eq!($cons.available(), n); }
        }
    }
}}}

fn one(seed: u64, len: usize, variant: usize) -> Result<(), String> {
    LEDGER.with(|l| { let mut l = l.borrow_mut(); l.0 = 1; l.1.clear(); l.2.clear(); });
    let mut r = Rng(seed | 1); let mut log: Vec<String> = vec![];
    let zeroed = r.below(2) == 0;
    let res = std::panic::catch_unwind(std::panic::AssertUnwindSafe(|| {
        match variant {
            0 => { let buf = if zeroed { unsafe { LocalHeapRB::<It>::new_zeroed(len) } } else { LocalHeapRB::from((0..len).map(|_| mk()).collect::<Vec<_>>()) };
                   let (mut p, mut c) = buf.split(); body!(p, c, len, zeroed, r, log); if r.below(2) == 0 { drop(p); drop(c); } else { drop(c); drop(p); } }
            1 => { let buf = if zeroed { unsafe { ConcurrentHeapRB::<It>::new_zeroed(len) } } else { ConcurrentHeapRB::from((0..len).map(|_| mk()).collect::<Vec<_>>()) };
                   let (mut p, mut c) = buf.split(); body!(p, c, len, zeroed, r, log); drop(p); drop(c); }
            _ => { assert_eq!(len, 4); let mut buf = if zeroed { unsafe { LocalStackRB::<It, 4>::new_zeroed() } } else { LocalStackRB::from([mk(), mk(), mk(), mk()]) };
                   { let (mut p, mut c) = buf.split(); body!(p, c, 4, zeroed, r, log); } drop(buf); }
        } }));
    if let Err(e) = res { return Err(format!("panic {:?}; history: {}", e.downcast_ref::<String>().cloned().or(e.downcast_ref::<&str>().map(|s| s.to_string())), log.join("; "))); }
    LEDGER.with(|l| { let l = l.borrow(); if !l.2.is_empty() { return Err(format!("{}; history: {}", l.2.join(", "), log.join("; "))); }
        for (id, c) in &l.1 { if *c != 0 { return Err(format!("id {id} balance {c} (1 = leaked, <0 = dropped twice); zeroed={zeroed}; history: {}", log.join("; "))); } } Ok(()) })
}
fn main() {
    std::panic::set_hook(Box::new(|_| {}));
    let n: u64 = std::env::args().nth(1).map(|s| s.parse().unwrap()).unwrap_or(5000);
    let mut bad = 0; let mut runs = 0;
    for seed in 1..=n { for (len, variant) in [(1usize, 0usize), (2, 0), (3, 0), (5, 0), (2, 1), (3, 1), (4, 2)] { runs += 1;
        if let Err(e) = one(seed * 104729 + (len * 10 + variant) as u64, len, variant) { bad += 1; if bad <= 4 { println!("FAIL len={len} variant={variant} seed={seed}: {e}"); } } } }
    println!("runs={runs} failures={bad}");
}
