From Coq Require Import List Arith Lia Bool.
Import ListNotations.
Require Import RA Seq.

Local Arguments Nat.leb : simpl never.
Local Arguments Nat.ltb : simpl never.
Local Arguments Nat.modulo : simpl never.

Definition R (s : st) (a : spec) : Prop :=
  let len := alen a in
  slen s = len /\ 0 < len /\ length (slots s) = len /\
  cp s = base a mod len /\ iix (itC s) = cp s /\
  pp s = (base a + length (q a)) mod len /\ iix (itP s) = pp s /\
  length (q a) <= len - 1 /\
  ica (itC s) <= length (q a) /\ ica (itP s) <= len - 1 - length (q a) /\
  (forall j, j < length (q a) -> nth ((base a + j) mod len) (slots s) 0 = nth j (q a) 0).

(* ---- arithmetic helpers ---- *)
Lemma mod_inj len b j1 j2 : 0 < len -> j1 < len -> j2 < len ->
  (b + j1) mod len = (b + j2) mod len -> j1 = j2.
Proof.
  intros Hl H1 H2 E.
  assert (b + j1 <= b + j2) by (apply (congr_le len); auto; lia).
  assert (b + j2 <= b + j1) by (apply (congr_le len); auto; lia).
  lia.
Qed.

Ltac splits := repeat match goal with |- _ /\ _ => split end.

Lemma check_spec cached fresh count g ca :
  cached <= fresh -> check cached fresh count = (g, ca) ->
  g = (count <=? fresh) /\ ca <= fresh /\ (g = true -> count <= ca).
Proof.
  unfold check. intros Hc. destruct (count <=? cached) eqn:E.
  - apply Nat.leb_le in E. intros H; inversion H; subst. splits; auto.
    symmetry; apply Nat.leb_le; lia.
  - intros H; inversion H; subst. splits; auto. intros G; apply Nat.leb_le in G; auto.
Qed.

(* ---- list helpers ---- *)
Lemma nth_write l i vs k : i + length vs <= length l ->
  nth k (write l i vs) 0 = if (i <=? k) && (k <? i + length vs) then nth (k - i) vs 0 else nth k l 0.
Proof.
  revert l i. induction vs as [|v r IH]; intros l i Hlen; simpl in *.
  - destruct (i <=? k) eqn:E1; simpl; auto. destruct (k <? i + 0) eqn:E2; auto.
    apply Nat.leb_le in E1; apply Nat.ltb_lt in E2; lia.
  - rewrite IH by (rewrite upd_length; lia).
    destruct (Nat.eq_dec k i) as [->|Hne].
    + replace (S i <=? i) with false by (symmetry; apply Nat.leb_gt; lia). simpl.
      replace (i <=? i) with true by (symmetry; apply Nat.leb_le; lia).
      replace (i <? i + S (length r)) with true by (symmetry; apply Nat.ltb_lt; lia). simpl.
      rewrite Nat.sub_diag. apply nth_upd_eq; lia.
    + rewrite nth_upd_neq by auto.
      destruct (i <=? k) eqn:E1; [apply Nat.leb_le in E1 | apply Nat.leb_gt in E1].
      * replace (S i <=? k) with true by (symmetry; apply Nat.leb_le; lia).
        replace (k <? i + S (length r)) with (k <? S i + length r) by (f_equal; lia).
        destruct (k <? S i + length r) eqn:E2; simpl; auto.
        replace (k - i) with (S (k - S i)) by lia. reflexivity.
      * replace (S i <=? k) with false by (symmetry; apply Nat.leb_gt; lia). reflexivity.
Qed.

Lemma write_length l i vs : length (write l i vs) = length l.
Proof. revert l i; induction vs; intros; simpl; auto. rewrite IHvs, upd_length; auto. Qed.

Lemma nth_firstn_lt {A} (l : list A) n j d : j < n -> nth j (firstn n l) d = nth j l d.
Proof. revert n j; induction l; intros [|n] [|j] H; simpl; auto; try lia. apply IHl; lia. Qed.
Lemma nth_skipn_add {A} (l : list A) i j d : nth j (skipn i l) d = nth (i + j) l d.
Proof. revert i; induction l; intros [|i]; simpl; auto. destruct j; auto. Qed.

Lemma nth_sub l i n j : j < n -> i + n <= length l -> nth j (sub l i n) 0 = nth (i + j) l 0.
Proof.
  intros Hj Hl. unfold sub. rewrite nth_firstn_lt by auto. apply nth_skipn_add.
Qed.
Lemma sub_length l i n : i + n <= length l -> length (sub l i n) = n.
Proof. intros. unfold sub. rewrite firstn_length, skipn_length. lia. Qed.

(* ---- facts derived from R ---- *)
Lemma R_availC s a : R s a -> availC s = length (q a).
Proof.
  intros (H1&H2&H3&H4&H5&H6&H7&H8&H9&H10&H11). unfold availC.
  rewrite H1, H5, H4, H6. rewrite dist_mod; lia.
Qed.
Lemma R_availP s a : R s a -> availP s = alen a - 1 - length (q a).
Proof.
  intros (H1&H2&H3&H4&H5&H6&H7&H8&H9&H10&H11). unfold availP.
  rewrite H1, H7, H6, H4. rewrite pavail_mod; lia.
Qed.

Lemma wadd_base len b j n : 0 < len -> n <= len -> wadd len ((b + j) mod len) n = (b + (j + n)) mod len.
Proof. intros. rewrite wadd_mod by auto. f_equal; lia. Qed.

(* position of (b+j) in terms of the ring index of b *)
Lemma pos_split len b j : 0 < len -> j <= len ->
  (b + j) mod len = if len <=? b mod len + j then b mod len + j - len else b mod len + j.
Proof. intros. rewrite <- wadd_mod by auto. reflexivity. Qed.

Theorem step_refines s a o :
  R s a -> ok_op a o = true ->
  let '(s', x) := step s o in let '(a', y) := sstep a o in x = y /\ R s' a'.
Proof.
  intros HR Hok. pose proof (R_availC s a HR) as HaC. pose proof (R_availP s a HR) as HaP.
  pose proof HR as (H1&H2&H3&H4&H5&H6&H7&H8&H9&H10&H11).
  destruct o; simpl in *.
  - (* availP *) rewrite HaP. split; auto. unfold R; simpl; splits; auto; lia.
  - (* availC *) rewrite HaC. split; auto. unfold R; simpl; splits; auto; lia.
  - (* push *)
    destruct (check (ica (itP s)) (availP s) 1) as [g ca] eqn:Ec.
    apply check_spec in Ec; [|lia]. destruct Ec as (Eg&Eca&Egc). rewrite HaP in *.
    destruct g; symmetry in Eg.
    + apply Nat.leb_le in Eg.
      replace (length (q a) + 1 <=? alen a - 1) with true by (symmetry; apply Nat.leb_le; lia).
      split; auto. specialize (Egc eq_refl).
      unfold R; simpl. rewrite app_length; simpl. rewrite H1, upd_length.
      splits; auto; try lia.
      * rewrite H7, H6. rewrite wadd_mod by lia. f_equal; lia.
      * intros j Hj. rewrite H7, H6.
        destruct (Nat.eq_dec j (length (q a))) as [->|Hne].
        -- rewrite nth_upd_eq by (rewrite H3; apply Nat.mod_upper_bound; lia).
           rewrite app_nth2 by lia. rewrite Nat.sub_diag; reflexivity.
        -- rewrite nth_upd_neq.
           ++ rewrite app_nth1 by lia. apply H11; lia.
           ++ intros E. apply mod_inj in E; lia.
    + apply Nat.leb_gt in Eg.
      replace (length (q a) + 1 <=? alen a - 1) with false by (symmetry; apply Nat.leb_gt; lia).
      split; auto. unfold R; simpl; splits; auto; lia.
  - (* push_slice *)
    destruct (check (ica (itP s)) (availP s) (length vs)) as [g ca] eqn:Ec.
    apply check_spec in Ec; [|lia]. destruct Ec as (Eg&Eca&Egc). rewrite HaP in *.
    destruct g; symmetry in Eg.
    + apply Nat.leb_le in Eg. specialize (Egc eq_refl).
      replace (length (q a) + length vs <=? alen a - 1) with true by (symmetry; apply Nat.leb_le; lia).
      destruct (chunk (slen s) (iix (itP s)) (length vs)) as [h t] eqn:Ech.
      split; auto.
      set (ix := iix (itP s)) in *.
      assert (Hix : ix < alen a) by (rewrite H7, H6; apply Nat.mod_upper_bound; lia).
      assert (Hht : h + t = length vs /\ ix + h <= alen a /\ t <= ix /\ (t > 0 -> ix + h = alen a)).
      { unfold chunk in Ech. rewrite H1 in Ech.
        destruct (alen a <=? ix + length vs) eqn:E; inversion Ech; subst;
        [apply Nat.leb_le in E | apply Nat.leb_gt in E]; lia. }
      destruct Hht as (Hsum&Hh&Ht&Hwrap).
      unfold R; simpl. rewrite app_length, H1, !write_length.
      splits; auto; try lia.

      * rewrite H7, H6. rewrite wadd_mod by lia. f_equal; lia.
      * intros j Hj.
        assert (Hl1 : ix + length (firstn h vs) <= length (slots s)) by (rewrite firstn_length; lia).
        assert (Hl2 : 0 + length (skipn h vs) <= length (write (slots s) ix (firstn h vs)))
          by (rewrite write_length, skipn_length; lia).
        rewrite nth_write by auto. rewrite nth_write by auto.
        rewrite firstn_length, skipn_length.
        replace (Nat.min h (length vs)) with h by lia.
        pose proof (pos_split (alen a) (base a) j H2 ltac:(lia)) as Hp.
        pose proof (pos_split (alen a) (base a) (length (q a)) H2 ltac:(lia)) as Hq.
        rewrite H6 in H7.
        set (k := (base a + j) mod alen a) in *.
        set (bm := base a mod alen a) in *.
        assert (Hbm : bm < alen a) by (apply Nat.mod_upper_bound; lia).
        destruct (Nat.lt_ge_cases j (length (q a))) as [Hold|Hnew].
        -- (* old element: untouched by both writes *)
           rewrite app_nth1 by lia.
           assert (Hk : k <> ix /\ (k < ix \/ ix + h <= k) /\ (t <= k)).
           { rewrite H7, Hp, Hq.
             destruct (alen a <=? bm + j) eqn:E1; destruct (alen a <=? bm + length (q a)) eqn:E2;
             try apply Nat.leb_le in E1; try apply Nat.leb_gt in E1;
             try apply Nat.leb_le in E2; try apply Nat.leb_gt in E2; rewrite H7, Hq in Hh, Ht, Hwrap;
             try rewrite E2 in *; lia. }
           destruct Hk as (Hk1&Hk2&Hk3).
           replace ((0 <=? k) && (k <? 0 + (length vs - h))) with false.
           2:{ symmetry. apply andb_false_iff. right. apply Nat.ltb_ge. lia. }
           replace ((ix <=? k) && (k <? ix + h)) with false.
           2:{ symmetry. apply andb_false_iff. destruct Hk2; [left; apply Nat.leb_gt; lia | right; apply Nat.ltb_ge; lia]. }
           unfold k. apply H11; auto.
        -- (* new element j = |q| + d *)
           rewrite app_nth2 by lia.
           set (d := j - length (q a)).
           assert (Hd : d < length vs) by (unfold d; lia).
           assert (Hkd : k = if alen a <=? ix + d then ix + d - alen a else ix + d).
           { unfold k. replace (base a + j) with ((base a + length (q a)) + d) by (unfold d; lia).
             rewrite pos_split by lia. rewrite <- H7. reflexivity. }
           destruct (alen a <=? ix + d) eqn:E; [apply Nat.leb_le in E | apply Nat.leb_gt in E].
           ++ (* wrapped: lands in the tail write *)
              assert (d >= h) by lia.
              replace ((0 <=? k) && (k <? 0 + (length vs - h))) with true.
              2:{ symmetry. apply andb_true_iff. split; [apply Nat.leb_le; lia | apply Nat.ltb_lt; lia]. }
              rewrite nth_skipn_add. f_equal. lia.
           ++ assert (d < h) by lia.
              replace ((0 <=? k) && (k <? 0 + (length vs - h))) with false.
              2:{ symmetry. apply andb_false_iff. right. apply Nat.ltb_ge. lia. }
              replace ((ix <=? k) && (k <? ix + h)) with true.
              2:{ symmetry. apply andb_true_iff. split; [apply Nat.leb_le; lia | apply Nat.ltb_lt; lia]. }
              rewrite nth_firstn_lt by lia. f_equal. lia.
    + apply Nat.leb_gt in Eg.
      replace (length (q a) + length vs <=? alen a - 1) with false by (symmetry; apply Nat.leb_gt; lia).
      split; auto. unfold R; simpl; splits; auto; lia.
  - (* pop *)
    destruct (check (ica (itC s)) (availC s) 1) as [g ca] eqn:Ec.
    apply check_spec in Ec; [|lia]. destruct Ec as (Eg&Eca&Egc). rewrite HaC in *.
    destruct g; symmetry in Eg.
    + apply Nat.leb_le in Eg. specialize (Egc eq_refl).
      destruct (q a) as [|x r] eqn:Eq; simpl in *; [lia|].
      split.
      * f_equal. rewrite H5, H4. specialize (H11 0 ltac:(lia)). rewrite Nat.add_0_r in H11. exact H11.
      * unfold R; simpl. rewrite H1. splits; auto; try lia.
        -- rewrite H5, H4. rewrite wadd_mod by lia. f_equal; lia.
        -- rewrite H6. f_equal; lia.
        -- intros j Hj. specialize (H11 (S j) ltac:(lia)). simpl in H11.
           rewrite <- H11. f_equal. f_equal. lia.
    + apply Nat.leb_gt in Eg. destruct (q a) eqn:Eq; simpl in *; [|lia].
      split; auto. unfold R; simpl; rewrite Eq; simpl; splits; auto; lia.
  - (* peek_slice *)
    destruct (check (ica (itC s)) (availC s) n) as [g ca] eqn:Ec.
    apply check_spec in Ec; [|lia]. destruct Ec as (Eg&Eca&Egc). rewrite HaC in *.
    destruct g; symmetry in Eg.
    + rewrite Eg. apply Nat.leb_le in Eg. specialize (Egc eq_refl).
      rewrite H1, H5, H4.
      destruct (chunk (alen a) (base a mod alen a) n) as [h t] eqn:Ech.
      set (bm := base a mod alen a) in *.
      assert (Hbm : bm < alen a) by (apply Nat.mod_upper_bound; lia).
      assert (Hht : h + t = n /\ bm + h <= alen a /\ t <= bm /\ (t > 0 -> bm + h = alen a)).
      { unfold chunk in Ech. destruct (alen a <=? bm + n) eqn:E; inversion Ech; subst;
        [apply Nat.leb_le in E | apply Nat.leb_gt in E]; lia. }
      destruct Hht as (Hsum&Hh&Ht&Hwrap).
      split.
      * f_equal.
        -- apply (nth_ext _ _ 0 0).
           ++ rewrite sub_length by lia. rewrite !firstn_length. lia.
           ++ intros j Hj. rewrite sub_length in Hj by lia.
              rewrite nth_sub by lia. rewrite !nth_firstn_lt by lia.
              rewrite <- H11 by lia. f_equal. rewrite pos_split by lia. fold bm.
              replace (alen a <=? bm + j) with false by (symmetry; apply Nat.leb_gt; lia). reflexivity.
        -- apply (nth_ext _ _ 0 0).
           ++ rewrite sub_length by lia. rewrite skipn_length, firstn_length. lia.
           ++ intros j Hj. rewrite sub_length in Hj by lia.
              rewrite nth_sub by lia. rewrite nth_skipn_add. rewrite nth_firstn_lt by lia.
              rewrite <- H11 by lia. f_equal. rewrite pos_split by lia. fold bm.
              replace (alen a <=? bm + (h + j)) with true by (symmetry; apply Nat.leb_le; lia). lia.
      * unfold R; simpl; splits; auto; lia.
    + rewrite Eg. split; auto. unfold R; simpl; splits; auto; lia.
  - (* advance C *)
    apply Nat.leb_le in Hok. split; auto.
    unfold R; simpl. rewrite skipn_length, H1. splits; auto; try lia.
    + rewrite H5, H4. apply wadd_mod; lia.
    + rewrite H6. f_equal; lia.
    + intros j Hj. rewrite nth_skipn_add. rewrite <- H11 by lia. f_equal. f_equal. lia.
  - (* reset C (with the fix) *)
    split; auto. unfold R; simpl. splits; auto; try lia.
    rewrite H6. f_equal; lia.
Qed.
Print Assumptions step_refines.
