// Throw-away vmem differential test (with the F7 prototype repair): single contiguous slices across the seam.
use mutringbuf::{ConcurrentHeapRB, HeapSplit, LocalHeapRB, MRBIterator};
use std::collections::VecDeque;
struct Rng(u64);
impl Rng { fn next(&mut self) -> u64 { self.0 ^= self.0 << 13; self.0 ^= self.0 >> 7; self.0 ^= self.0 << 17; self.0 }
           fn below(&mut self, n: usize) -> usize { if n == 0 { 0 } else { (self.next() % n as u64) as usize } } }
macro_rules! go { ($T:ty, $mk:expr, $seed:expr) => {{
    let mut r = Rng($seed | 1);
    let len = mutringbuf::vmem_helper::get_page_size_mul(1 + r.below(3) * 4096);
    let init: Vec<$T> = (0..len).map(|i| $mk(1_000_000 + i)).collect();
    let buf = LocalHeapRB::from(init.clone());
    assert_eq!(len % 4096, 0);
    let (mut p, mut w, mut c) = buf.split_mut();
    assert_eq!(p.buf_len(), len);
    // initial contents preserved (C17): look at them through the producer's window
    { let s = p.get_workable_slice_exact(len - 1).unwrap(); assert_eq!(&s[..], &init[..len - 1], "initial contents"); }
    let (mut qc, mut qw): (VecDeque<$T>, VecDeque<$T>) = (VecDeque::new(), VecDeque::new());
    let mut next = 1usize;
    for _ in 0..400 {
        let free = len - 1 - qc.len() - qw.len();
        match r.below(7) {
            0 => { let n = r.below(len / 2); let vs: Vec<$T> = (0..n).map(|i| $mk(next + i)).collect();
                   let ok = p.push_slice(&vs).is_some(); assert_eq!(ok, n <= free, "push_slice"); if ok { next += n; qw.extend(vs); } }
            1 => { let n = r.below(len / 2); let k = r.below(n + 1);
                   match w.get_workable_slice_exact(n) { Some(s) => { assert!(n <= qw.len()); let exp: Vec<$T> = qw.iter().take(n).cloned().collect(); assert_eq!(&s[..], &exp[..], "work slice");
                        unsafe { w.advance(k) }; for _ in 0..k { let t = qw.pop_front().unwrap(); qc.push_back(t); } }
                        None => assert!(n > qw.len()) } }
            2 => { let n = r.below(len / 2); let k = r.below(n + 1);
                   match c.peek_slice(n) { Some(s) => { assert!(n <= qc.len()); let exp: Vec<$T> = qc.iter().take(n).cloned().collect(); assert_eq!(&s[..], &exp[..], "peek slice");
                        unsafe { c.advance(k) }; for _ in 0..k { qc.pop_front(); } } None => assert!(n > qc.len()) } }
            3 => { let n = r.below(len / 2); let mut dst = vec![$mk(0); n]; let ok = c.copy_slice(&mut dst).is_some(); assert_eq!(ok, n <= qc.len());
                   if ok { let exp: Vec<$T> = qc.drain(..n).collect(); assert_eq!(dst, exp, "copy_slice"); } }
            4 => { let g = c.pop(); assert_eq!(g, qc.pop_front(), "pop"); }
            5 => { let v = $mk(next); let ok = p.push(v.clone()).is_ok(); assert_eq!(ok, free >= 1); if ok { next += 1; qw.push_back(v); } }
            _ => { assert_eq!(p.available(), free); assert_eq!(w.available(), qw.len()); assert_eq!(c.available(), qc.len()); }
        }
    }
}}}
fn main() {
    let n: u64 = std::env::args().nth(1).map(|s| s.parse().unwrap()).unwrap_or(300);
    for seed in 1..=n {
        go!(usize, |x: usize| x, seed * 31);
        go!(u8, |x: usize| (x % 251) as u8, seed * 37);
        go!([u8; 3], |x: usize| [(x % 251) as u8, (x / 251 % 251) as u8, 7u8], seed * 41);
        go!((u64, u64), |x: usize| (x as u64, !(x as u64)), seed * 43);
    }
    // maps before/after: both views unmapped on drop
    let count = || std::fs::read_to_string("/proc/self/maps").unwrap().lines().filter(|l| l.contains("mrb-") || l.contains("/dev/shm")).count();
    let before = count();
    { let b = ConcurrentHeapRB::from(vec![0u64; 4096]); let (p, c) = b.split(); println!("mapped views while alive: {}", count() - before); drop(p); drop(c); }
    println!("mapped views after drop: {}", count() - before);
    println!("vmem runs ok: {}", n * 4);
}
