From Coq Require Import List Arith Lia Bool.
Import ListNotations.

Definition wadd (len i n : nat) : nat := if len <=? i + n then i + n - len else i + n.
Definition dist (len a b : nat) : nat := if a <=? b then b - a else len - a + b.
Definition pavail (len p c : nat) : nat := if p <? c then c - p - 1 else len - p + c - 1.

Ltac cases := repeat match goal with
  | |- context[if ?b then _ else _] => destruct b eqn:?
  | H: context[if ?b then _ else _] |- _ => destruct b eqn:?
  end; try rewrite ?Nat.leb_le, ?Nat.leb_gt, ?Nat.ltb_lt, ?Nat.ltb_ge in *.

Lemma dist_wadd len i j n : i < len -> j < len -> n <= dist len i j ->
  dist len (wadd len i n) j = dist len i j - n /\ wadd len i n < len.
Proof. unfold dist, wadd; intros; cases; lia. Qed.

Lemma pavail_dist len p c : p < len -> c < len -> pavail len p c + dist len c p = len - 1.
Proof. unfold pavail, dist; intros; cases; lia. Qed.

(* ring <-> absolute positions *)
Lemma wadd_mod len a n : 0 < len -> n <= len -> wadd len (a mod len) n = (a + n) mod len.
Proof.
  intros Hl Hn. unfold wadd.
  pose proof (Nat.mod_upper_bound a len ltac:(lia)) as Hb.
  pose proof (Nat.div_mod a len ltac:(lia)) as Hd.
  set (r := a mod len) in *. set (q := a / len) in *.
  destruct (len <=? r + n) eqn:E; [apply Nat.leb_le in E | apply Nat.leb_gt in E].
  - apply Nat.mod_unique with (q := q + 1); nia.
  - apply Nat.mod_unique with (q := q); nia.
Qed.

Lemma dist_mod len a b : 0 < len -> a <= b -> b - a < len -> dist len (a mod len) (b mod len) = b - a.
Proof.
  intros Hl Hab Hd.
  replace b with (a + (b - a)) at 1 by lia.
  rewrite <- wadd_mod by lia.
  pose proof (Nat.mod_upper_bound a len ltac:(lia)).
  unfold dist, wadd; cases; lia.
Qed.
Print Assumptions dist_mod.
