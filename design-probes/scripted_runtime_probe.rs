// Probe: run the real iterators on OS threads under a scripted, fully serialising listener.
// Script entry = (thread, message index the next load must read; usize::MAX = newest).
use mutringbuf::verif_hooks::{set_listener, Event, Kind};
use mutringbuf::{ConcurrentHeapRB, HeapSplit, MRBIterator};
use std::cell::Cell;
use std::collections::HashMap;
use std::sync::{Arc, Condvar, Mutex};

thread_local! { static TID: Cell<Option<usize>> = Cell::new(None); }

struct Sched {
    script: Vec<(usize, usize)>, pos: usize, running: Option<usize>, done: Vec<bool>,
    hist: HashMap<usize, Vec<usize>>, log: Vec<String>, names: HashMap<usize, &'static str>,
}
struct Rt { m: Mutex<Sched>, cv: Condvar }

impl Rt {
    fn head(s: &mut Sched) -> Option<(usize, usize)> {
        while s.pos < s.script.len() && s.done[s.script[s.pos].0] { s.pos += 1; }
        s.script.get(s.pos).copied()
    }
    /// park at an event until scheduled; returns the read choice of the consumed entry
    fn acquire(&self, me: usize) -> usize {
        let mut s = self.m.lock().unwrap();
        if s.running == Some(me) { s.running = None; self.cv.notify_all(); }
        loop {
            if s.running.is_none() {
                if let Some((t, c)) = Self::head(&mut s) { if t == me { s.pos += 1; s.running = Some(me); return c; } }
                else { s.running = Some(me); return usize::MAX; } // script exhausted: free run, newest reads
            }
            s = self.cv.wait(s).unwrap();
        }
    }
    fn finish(&self, me: usize) {
        let mut s = self.m.lock().unwrap();
        s.done[me] = true; if s.running == Some(me) { s.running = None; } self.cv.notify_all();
    }
    fn on_event(&self, e: Event) -> Option<usize> {
        let me = TID.with(|t| t.get())?;
        let choice = self.acquire(me);
        let mut s = self.m.lock().unwrap();
        let name = s.names.get(&e.addr).copied().unwrap_or("?");
        match e.kind {
            Kind::Load => {
                let h = s.hist.entry(e.addr).or_insert_with(|| vec![e.value]);
                let j = choice.min(h.len() - 1); let v = h[j];
                s.log.push(format!("T{me} load  {name} {:?} msg#{j} -> {v}", e.order)); Some(v)
            }
            Kind::Store => {
                s.hist.entry(e.addr).or_insert_with(|| vec![0]).push(e.value);
                s.log.push(format!("T{me} store {name} {:?} {}", e.order, e.value)); None
            }
            Kind::Fence => { s.log.push(format!("T{me} fence {:?}", e.order)); None }
        }
    }
}

fn main() {
    let buf = ConcurrentHeapRB::from(vec![0usize; 4]);
    let (mut prod, mut cons) = buf.split();
    // learn the addresses of the index atomics by one probing access each (no listener thread id set => passthrough)
    let probe = Arc::new(Mutex::new(Vec::<usize>::new()));
    let p2 = probe.clone();
    set_listener(Some(Box::new(move |e: Event| { p2.lock().unwrap().push(e.addr); None })));
    let _ = prod.prod_index(); let _ = prod.cons_index();
    let addrs = probe.lock().unwrap().clone();
    let names: HashMap<usize, &'static str> = [(addrs[0], "prod_idx"), (addrs[1], "cons_idx")].into_iter().collect();

    // schedule: P pushes twice; C's first look reads the STALE initial prod_idx (msg#0) -> None;
    // second look reads msg#1 (still stale, P is at 2) -> pops 10; then newest.
    let n = usize::MAX;
    let script = vec![(0, n), (0, n), (0, n), (1, 0), (1, 1), (1, n), (0, n), (0, n), (1, n), (1, n), (1, n), (1, n)];
    let rt = Arc::new(Rt { m: Mutex::new(Sched { script, pos: 0, running: None, done: vec![false; 2],
        hist: HashMap::new(), log: vec![], names }), cv: Condvar::new() });
    let r2 = rt.clone();
    set_listener(Some(Box::new(move |e: Event| r2.on_event(e))));

    let (ra, rb) = (rt.clone(), rt.clone());
    let tp = std::thread::spawn(move || {
        TID.with(|t| t.set(Some(0)));
        let r: Vec<bool> = [10, 11, 12].iter().map(|v| prod.push(*v).is_ok()).collect();
        TID.with(|t| t.set(None)); ra.finish(0); (r, prod)
    });
    let tc = std::thread::spawn(move || {
        TID.with(|t| t.set(Some(1)));
        let r: Vec<Option<usize>> = (0..4).map(|_| cons.pop()).collect();
        TID.with(|t| t.set(None)); rb.finish(1); (r, cons)
    });
    let (pr, prod) = tp.join().unwrap(); let (cr, cons) = tc.join().unwrap();
    set_listener(None);
    for l in &rt.m.lock().unwrap().log { println!("{l}"); }
    println!("pushes accepted: {pr:?}\nconsumer saw: {cr:?}");
    drop(prod); drop(cons);
}
