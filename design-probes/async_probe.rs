use mutringbuf::iterators::async_iterators::AsyncIterator;
use mutringbuf::ConcurrentHeapRB;
use std::future::Future;
use std::pin::Pin;
use std::sync::atomic::{AtomicUsize, Ordering::SeqCst};
use std::sync::Arc;
use std::task::{Context, Poll, Wake, Waker};
struct CountWaker(AtomicUsize);
impl Wake for CountWaker { fn wake(self: Arc<Self>) { self.0.fetch_add(1, SeqCst); } }
static DROPS: AtomicUsize = AtomicUsize::new(0);
struct It(u64);
impl Drop for It { fn drop(&mut self) { DROPS.fetch_add(1, SeqCst); } }
fn main() {
    let cw = Arc::new(CountWaker(AtomicUsize::new(0)));
    let waker = Waker::from(cw.clone());
    let mut cx = Context::from_waker(&waker);
    let buf = ConcurrentHeapRB::from(vec![It(100), It(101)]);   // len 2, capacity 1
    let (mut p, mut c) = buf.split_async();
    { let mut f = p.push(It(1)); println!("push#1 poll: ready={}", matches!(Pin::new(&mut f).poll(&mut cx), Poll::Ready(Some(())))); }
    println!("drops so far (overwrote It(100)) = {}", DROPS.load(SeqCst));
    {
        let mut f = p.push(It(2));
        for i in 0..3 { let r = Pin::new(&mut f).poll(&mut cx); println!("push#2 poll {i}: pending={}", r.is_pending()); }
        println!("while pending: drops={} wakes={}", DROPS.load(SeqCst), cw.0.load(SeqCst));
        // enabling operation on the other stage
        { let mut g = unsafe { c.pop_move() }; let r = Pin::new(&mut g).poll(&mut cx); println!("pop_move ready={}", matches!(r, Poll::Ready(Some(_)))); }
        println!("after enabling pop: wakes={}  (a wake-driven executor would never poll push#2 again)", cw.0.load(SeqCst));
        let r = Pin::new(&mut f).poll(&mut cx); println!("push#2 polled again by hand: ready={}", matches!(r, Poll::Ready(Some(()))));
    }
    println!("prod avail {} cons avail {}", p.available(), c.available());
    { let mut f = p.push(It(3)); let r = Pin::new(&mut f).poll(&mut cx); println!("push#3 pending={} ; dropping the pending future", r.is_pending()); }
    println!("drops={} (expected: It(100) overwritten, It(1) popped+dropped, It(3) dropped with its future = 3)", DROPS.load(SeqCst));
    drop(p); drop(c);
    println!("after release drops={} (adds It(101)?/It(2): buffer holds It(2) and zeroed slot)", DROPS.load(SeqCst));
}
