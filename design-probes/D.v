From Coq Require Import List Arith Lia Bool.
Import ListNotations.
(* Tiny SC-interleaving model of the current drop protocol for 2 iterators (P, C):
   pc 0: store own flag false ; pc 1: load other flag ; pc 2: (if other dead) free ; pc 3 done *)
Record cfg := { fp : bool; fc : bool; pcP : nat; pcC : nat; seenP : bool; seenC : bool; frees : nat }.
Definition init := {| fp := true; fc := true; pcP := 0; pcC := 0; seenP := true; seenC := true; frees := 0 |}.
Definition stepP (c : cfg) : cfg :=
  match pcP c with
  | 0 => {| fp := false; fc := fc c; pcP := 1; pcC := pcC c; seenP := seenP c; seenC := seenC c; frees := frees c |}
  | 1 => {| fp := fp c; fc := fc c; pcP := 2; pcC := pcC c; seenP := fc c; seenC := seenC c; frees := frees c |}
  | 2 => {| fp := fp c; fc := fc c; pcP := 3; pcC := pcC c; seenP := seenP c; seenC := seenC c;
            frees := if seenP c then frees c else S (frees c) |}
  | _ => c end.
Definition stepC (c : cfg) : cfg :=
  match pcC c with
  | 0 => {| fp := fp c; fc := false; pcP := pcP c; pcC := 1; seenP := seenP c; seenC := seenC c; frees := frees c |}
  | 1 => {| fp := fp c; fc := fc c; pcP := pcP c; pcC := 2; seenP := seenP c; seenC := fp c; frees := frees c |}
  | 2 => {| fp := fp c; fc := fc c; pcP := pcP c; pcC := 3; seenP := seenP c; seenC := seenC c;
            frees := if seenC c then frees c else S (frees c) |}
  | _ => c end.
Definition run (s : list bool) := fold_left (fun (c : cfg) (b : bool) => if b then stepP c else stepC c) s init.
Lemma double_free_refuted : exists s, frees (run s) = 2.
Proof. exists [true;false;true;false;true;false]. vm_compute. reflexivity. Qed.
