# Throw-away sizing of the exhaustive transition coverage (G-exh): reachable index/cache states
# of the (repaired) sequential model, contents abstracted away. 3-stage, contract-respecting ops.
import sys, collections, time
def wadd(L,i,n): 
    x=i+n
    return x-L if x>=L else x
def dist(L,a,b): return b-a if a<=b else L-a+b
def pav(L,p,c): return c-p-1 if p<c else L-p+c-1

def explore(L, worker=True, detach=True):
    # state: (pix,pca,pdet, wix,wca,wdet, cix,cca,cdet, pp,wp,cp)
    init=(0,0,0, 0,0,0, 0,0,0, 0,0,0)
    seen={init}; dq=collections.deque([init]); trans=0
    K=('P','W','C') if worker else ('P','C')
    def get(s,k):
        o={'P':0,'W':3,'C':6}[k]; return s[o],s[o+1],s[o+2]
    def setk(s,k,ix,ca,det):
        o={'P':0,'W':3,'C':6}[k]; l=list(s); l[o],l[o+1],l[o+2]=ix,ca,det; return tuple(l)
    def pub(s,k): return s[9+{'P':0,'W':1,'C':2}[k]]
    def setpub(s,k,v):
        l=list(s); l[9+{'P':0,'W':1,'C':2}[k]]=v; return tuple(l)
    def succ(s,k):
        if k=='P': return pub(s,'C')
        if k=='W': return pub(s,'P')
        return pub(s,'W') if worker else pub(s,'P')
    def fresh(s,k):
        ix,_,_=get(s,k); sx=succ(s,k)
        return pav(L,ix,sx) if k=='P' else dist(L,ix,sx)
    def ownpos_ok(s): return True
    while dq:
        s=dq.popleft()
        nxt=[]
        for k in K:
            ix,ca,det=get(s,k); fa=fresh(s,k)
            # available()
            nxt.append(setk(s,k,ix,fa,det))
            # requests n (getter/push/pop style): grant if ca>=n or fa>=n ; then maybe advance
            for n in range(0,L+1):
                if ca>=n: g,ca2=True,ca
                else: g,ca2=(fa>=n),fa
                s1=setk(s,k,ix,ca2,det)
                nxt.append(s1)                       # zero-copy getter / refused request
                if g and not det:                   # copying op = grant + advance(n) + publish
                    ix2=wadd(L,ix,n); s2=setk(s1,k,ix2,max(ca2-n,0),det); s2=setpub(s2,k,ix2); nxt.append(s2)
                if g and det:                       # detached: local advance only
                    ix2=wadd(L,ix,n); nxt.append(setk(s1,k,ix2,max(ca2-n,0),det))
            # plain advance(n) with n <= true availability (contract K1)
            for n in range(0,fa+1):
                ix2=wadd(L,ix,n); s2=setk(s,k,ix2,max(ca-n,0),det)
                if not det: s2=setpub(s2,k,ix2)
                nxt.append(s2)
            # reset_index (W, C): repaired version clears the cache
            if k!='P':
                sx=succ(s,k); s2=setk(s,k,sx,0,det)
                if not det: s2=setpub(s2,k,sx)
                nxt.append(s2)
            if detach:
                if not det: nxt.append(setk(s,k,ix,ca,1))
                else:
                    nxt.append(setpub(setk(s,k,ix,ca,0),k,ix))     # attach
                    nxt.append(setpub(s,k,ix))                     # sync_index
                    back=dist(L,pub(s,k),ix)                        # may go back to own published position (K5)
                    for n in range(1,back+1):
                        ix2=ix-n if ix>=n else L-(n-ix)
                        nxt.append(setk(s,k,ix2,ca+n,det))          # go_back (repaired)
                        nxt.append(setk(s,k,ix2,0,det))             # set_index (repaired: cache cleared)
                    for n in range(1,fa+1):
                        nxt.append(setk(s,k,wadd(L,ix,n),0,det))    # set_index forwards
        for t in nxt:
            trans+=1
            if t not in seen: seen.add(t); dq.append(t)
    return len(seen),trans
for L in range(1,6):
    for worker in (False,True):
        t0=time.time(); n,t=explore(L,worker); print(f"len={L} worker={worker}: states={n} transitions={t} ({time.time()-t0:.1f}s)", flush=True)
        if time.time()-t0>120: sys.exit()
