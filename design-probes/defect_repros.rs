use mutringbuf::*;
use mutringbuf::iterators::*;
use std::sync::atomic::{AtomicUsize, Ordering::SeqCst};
use std::sync::Arc;

fn c11() {
    let buf = LocalHeapRB::from(vec![0usize; 8]);
    let (mut prod, mut cons) = buf.split();
    for i in 1..=5 { prod.push(i).unwrap(); }
    assert_eq!(cons.peek_ref().copied(), Some(1)); // caches avail = 5
    cons.reset_index();
    println!("C11: after reset_index: index={} prod_index={} pop()={:?} (expected None)", cons.index(), cons.prod_index(), cons.pop());
}
fn c12() {
    let mut buf = LocalStackRB::from([0usize; 10]);
    let (mut prod, work, mut cons) = buf.split_mut();
    for i in 1..=9 { prod.push(i).unwrap(); }
    for _ in 0..9 { cons.available(); }
    let mut w = work.detach();
    unsafe { w.advance(2); }
    unsafe { w.go_back(3); }
    println!("C12: go_back from idx 2 by 3, len 10: index={} (expected 9)", w.index());
    // set_index forwards with stale cache
    let mut buf = LocalStackRB::from([0usize; 10]);
    let (mut prod, work, _cons) = buf.split_mut();
    for i in 1..=5 { prod.push(i).unwrap(); }
    let mut w = work.detach();
    assert_eq!(w.available(), 5);
    unsafe { w.set_index(3); }
    let g = w.get_workable_slice_exact(5).map(|(a,b)| a.len()+b.len());
    println!("C12: set_index(3) then get_workable_slice_exact(5) with prod at 5: {:?} (expected None)", g);
    w.reset_index();
    let g = w.get_workable().is_some();
    println!("C12: detached reset_index then get_workable: {} (expected false), idx={}", g, w.index());
}
fn c18() {
    let mut buf = LocalStackRB::from([0usize; 10]);
    {
        let (mut prod, mut cons) = buf.split();
        for i in 1..=5 { prod.push(i).unwrap(); }
        for _ in 0..3 { cons.pop(); }
    }
    let (mut prod, mut cons) = buf.split();
    println!("C18: resplit: prod.avail={} cons.avail={} sum(expected 9) first pop={:?} prod_index={} cons_index={}", prod.available(), cons.available(), cons.pop(), prod.prod_index(), prod.cons_index());
}
struct D(Arc<AtomicUsize>, u64);
impl Drop for D { fn drop(&mut self) { self.0.fetch_add(1, SeqCst); } }
fn c07() {
    let mut doubles = 0; let mut leaks = 0;
    for _ in 0..200000 {
        let ctr = Arc::new(AtomicUsize::new(0));
        let buf = ConcurrentHeapRB::from(vec![D(ctr.clone(), 0xdead)]);
        let (prod, cons) = buf.split();
        let b = Arc::new(AtomicUsize::new(0));
        let b2 = b.clone();
        let t = std::thread::spawn(move || { b2.fetch_add(1, SeqCst); while b2.load(SeqCst) < 2 {} drop(prod); });
        b.fetch_add(1, SeqCst); while b.load(SeqCst) < 2 {} drop(cons);
        t.join().unwrap();
        match ctr.load(SeqCst) { 1 => {}, 0 => leaks += 1, _ => doubles += 1 }
    }
    println!("C07: concurrent drop: doubles={} leaks={}", doubles, leaks);
}
fn main() {
    c11(); c12(); c18();
    if std::env::args().nth(1).as_deref() == Some("c07") { c07(); }
}
