// Throw-away randomized differential test: real crate vs. an abstract pipeline (lists + positions).
use mutringbuf::iterators::{ConsIter, Detached, ProdIter, WorkIter};
use mutringbuf::{HeapSplit, LocalHeapRB, MRBIterator};
use std::collections::VecDeque;
type B = LocalHeapRB<usize>;
struct Rng(u64);
impl Rng { fn next(&mut self) -> u64 { self.0 ^= self.0 << 13; self.0 ^= self.0 >> 7; self.0 ^= self.0 << 17; self.0 }
           fn below(&mut self, n: usize) -> usize { if n == 0 { 0 } else { (self.next() % n as u64) as usize } } }
enum W<'a> { A(WorkIter<'a, B>), D(Detached<WorkIter<'a, B>>), None }
enum C<'a> { A(ConsIter<'a, B, true>), D(Detached<ConsIter<'a, B, true>>), None }
enum P<'a> { A(ProdIter<'a, B>), D(Detached<ProdIter<'a, B>>), None }
fn flat(s: (&mut [usize], &mut [usize])) -> Vec<usize> { s.0.iter().chain(s.1.iter()).copied().collect() }
fn flatr(s: (&[usize], &[usize])) -> Vec<usize> { s.0.iter().chain(s.1.iter()).copied().collect() }

fn run(seed: u64, len: usize, steps: usize, log: &mut Vec<String>) -> Result<(), String> {
    let mut r = Rng(seed | 1);
    let buf = LocalHeapRB::from(vec![7usize; len]);
    let (p, w, c) = buf.split_mut();
    let (mut p, mut w, mut c) = (P::A(p), W::A(w), C::A(c));
    // abstract state
    let mut base = 0usize; let mut qc: VecDeque<usize> = VecDeque::new(); let mut qw: VecDeque<usize> = VecDeque::new();
    let mut qu: VecDeque<usize> = VecDeque::new(); // detached producer: written+locally advanced, unpublished
    let (mut offc, mut offw) = (0usize, 0usize);
    let mut next = 1usize;
    macro_rules! chk { ($a:expr, $b:expr, $what:expr) => { if $a != $b { return Err(format!("{}: impl {:?} != spec {:?}", $what, $a, $b)); } } }
    for _ in 0..steps {
        let inflight = qc.len() + qw.len() + qu.len();
        let free = len - 1 - inflight;
        match r.below(24) {
            0 | 1 => if let P::A(p) = &mut p { let v = next; next += 1; log.push(format!("push {v}"));
                let res = p.push(v).is_ok(); chk!(res, free >= 1, "push"); if res { qw.push_back(v); } }
            2 => if let P::A(p) = &mut p { let n = r.below(len + 1); let vs: Vec<usize> = (0..n).map(|i| next + i).collect(); log.push(format!("push_slice {vs:?}"));
                let res = p.push_slice(&vs).is_some(); chk!(res, n <= free, "push_slice"); if res { next += n; qw.extend(vs); } }
            3 => { log.push("avail*".into());
                match &mut p { P::A(x) => chk!(x.available(), free, "P.available"), P::D(x) => chk!(x.available(), free, "P(d).available"), _ => {} }
                match &mut w { W::A(x) => chk!(x.available(), qw.len(), "W.available"), W::D(x) => chk!(x.available(), qw.len() - offw, "W(d).available"), _ => {} }
                match &mut c { C::A(x) => chk!(x.available(), qc.len(), "C.available"), C::D(x) => chk!(x.available(), qc.len() - offc, "C(d).available"), _ => {} } }
            4 => if let W::A(x) = &mut w { log.push("work1".into());
                let g = x.get_workable(); chk!(g.is_some(), !qw.is_empty(), "W.get_workable");
                if let Some(v) = g { chk!(*v, qw[0], "W.get_workable value"); *v += 1000; unsafe { x.advance(1) }; let t = qw.pop_front().unwrap() + 1000; qc.push_back(t); } }
            5 => if let W::A(x) = &mut w { let n = r.below(len + 1); let k = r.below(n + 1); log.push(format!("work_slice {n} adv {k}"));
                let g = x.get_workable_slice_exact(n); chk!(g.is_some(), n <= qw.len(), "W.slice_exact");
                if let Some(s) = g { let got = flat((&mut *s.0, &mut *s.1)); let exp: Vec<usize> = qw.iter().take(n).copied().collect(); chk!(got, exp, "W.slice contents");
                    for v in s.0.iter_mut().chain(s.1.iter_mut()).take(k) { *v += 1000; } unsafe { x.advance(k) };
                    for _ in 0..k { let t = qw.pop_front().unwrap() + 1000; qc.push_back(t); } } }
            6 => if let C::A(x) = &mut c { log.push("pop".into()); let g = x.pop(); chk!(g, qc.front().copied(), "pop"); if g.is_some() { qc.pop_front(); base += 1; } }
            7 => if let C::A(x) = &mut c { let n = r.below(len + 1); let k = r.below(n + 1); log.push(format!("peek_slice {n} adv {k}"));
                let g = x.peek_slice(n); chk!(g.is_some(), n <= qc.len(), "peek_slice");
                if let Some(s) = g { let got = flatr(s); let exp: Vec<usize> = qc.iter().take(n).copied().collect(); chk!(got, exp, "peek contents");
                    unsafe { x.advance(k) }; for _ in 0..k { qc.pop_front(); base += 1; } } }
            8 => if let C::A(x) = &mut c { let n = r.below(len + 1); log.push(format!("copy_slice {n}")); let mut dst = vec![99usize; n];
                let g = x.copy_slice(&mut dst); chk!(g.is_some(), n <= qc.len(), "copy_slice");
                if g.is_some() { let exp: Vec<usize> = qc.iter().take(n).copied().collect(); chk!(dst, exp, "copy contents"); for _ in 0..n { qc.pop_front(); base += 1; } }
                else { chk!(dst, vec![99usize; n], "copy refused dst"); } }
            9 => if let C::A(x) = &mut c { log.push("C.reset".into()); x.reset_index(); base += qc.len(); qc.clear(); }
            10 => if let W::A(x) = &mut w { log.push("W.reset".into()); x.reset_index(); while let Some(v) = qw.pop_front() { qc.push_back(v); } }
            // ---- detached worker
            11 => { w = match std::mem::replace(&mut w, W::None) { W::A(x) => { log.push("W.detach".into()); W::D(x.detach()) }
                    W::D(x) => { log.push("W.attach".into()); for _ in 0..offw { let t = qw.pop_front().unwrap(); qc.push_back(t); } offw = 0; W::A(x.attach()) } W::None => W::None } }
            12 => if let W::D(x) = &mut w { let n = r.below(qw.len() - offw + 1); log.push(format!("W(d).advance {n}")); unsafe { x.advance(n) }; offw += n; }
            13 => if let W::D(x) = &mut w { let n = r.below(offw + 1); log.push(format!("W(d).go_back {n}")); unsafe { x.go_back(n) }; offw -= n; }
            14 => if let W::D(x) = &mut w { let o = r.below(qw.len() + 1); let i = (base + qc.len() + o) % len; log.push(format!("W(d).set_index {i} (off {o})")); unsafe { x.set_index(i) }; offw = o; }
            15 => if let W::D(x) = &mut w { let n = r.below(len + 1); log.push(format!("W(d).slice_exact {n}"));
                let g = x.get_workable_slice_exact(n); chk!(g.is_some(), n <= qw.len() - offw, "W(d).slice_exact");
                if let Some(s) = g { let got = flat(s); let exp: Vec<usize> = qw.iter().skip(offw).take(n).copied().collect(); chk!(got, exp, "W(d).slice contents"); } }
            16 => if let W::D(x) = &mut w { log.push("W(d).sync".into()); x.sync_index(); for _ in 0..offw { let t = qw.pop_front().unwrap(); qc.push_back(t); } offw = 0; }
            17 => if let W::D(x) = &mut w { log.push("W(d).reset".into()); x.reset_index(); offw = qw.len(); }
            // ---- detached consumer
            18 => { c = match std::mem::replace(&mut c, C::None) { C::A(x) => { log.push("C.detach".into()); C::D(x.detach()) }
                    C::D(x) => { log.push("C.attach".into()); for _ in 0..offc { qc.pop_front(); base += 1; } offc = 0; C::A(x.attach()) } C::None => C::None } }
            19 => if let C::D(x) = &mut c { let n = r.below(qc.len() - offc + 1); log.push(format!("C(d).advance {n}")); unsafe { x.advance(n) }; offc += n; }
            20 => if let C::D(x) = &mut c { let n = r.below(offc + 1); log.push(format!("C(d).go_back {n}")); unsafe { x.go_back(n) }; offc -= n; }
            21 => if let C::D(x) = &mut c { log.push("C(d).get_workable".into()); let g = x.get_workable().map(|v| *v); chk!(g, qc.get(offc).copied(), "C(d).get_workable"); }
            // ---- detached producer: write through granted slices, advance locally, publish on sync/attach
            22 => { p = match std::mem::replace(&mut p, P::None) { P::A(x) => { log.push("P.detach".into()); P::D(x.detach()) }
                    P::D(x) => { log.push("P.attach".into()); while let Some(v) = qu.pop_front() { qw.push_back(v); } P::A(x.attach()) } P::None => P::None } }
            _ => if let P::D(x) = &mut p { let n = r.below(len + 1); log.push(format!("P(d).write {n}"));
                let g = x.get_workable_slice_exact(n); chk!(g.is_some(), n <= free, "P(d).slice_exact");
                if let Some(s) = g { for v in s.0.iter_mut().chain(s.1.iter_mut()) { *v = next; qu.push_back(next); next += 1; } unsafe { x.advance(n) }; } }
        }
        // observables after every step
        let (pi, wi, ci) = match &p { P::A(x) => (x.prod_index(), x.work_index(), x.cons_index()), P::D(x) => (x.prod_index(), x.work_index(), x.cons_index()), _ => unreachable!() };
        chk!(ci, base % len, "cons_index"); chk!(wi, (base + qc.len()) % len, "work_index"); chk!(pi, (base + qc.len() + qw.len()) % len, "prod_index");
        let lp = match &p { P::A(x) => x.index(), P::D(x) => x.index(), _ => 0 }; chk!(lp, (base + qc.len() + qw.len() + qu.len()) % len, "P.index");
        let lw = match &w { W::A(x) => x.index(), W::D(x) => x.index(), _ => 0 }; chk!(lw, (base + qc.len() + offw) % len, "W.index");
        let lc = match &c { C::A(x) => x.index(), C::D(x) => x.index(), _ => 0 }; chk!(lc, (base + offc) % len, "C.index");
    }
    Ok(())
}
fn main() {
    let n: u64 = std::env::args().nth(1).map(|s| s.parse().unwrap()).unwrap_or(20000);
    let mut bad = 0;
    for seed in 1..=n { for len in [1usize, 2, 3, 4, 5, 7] {
        let mut log = vec![];
        if let Err(e) = run(seed * 7919 + len as u64, len, 120, &mut log) { bad += 1;
            if bad <= 5 { println!("MISMATCH len={len} seed={seed}: {e}\n  history: {}", log.join("; ")); } }
    } }
    println!("runs={} mismatches={}", n * 6, bad);
}
