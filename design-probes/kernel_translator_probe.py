#!/usr/bin/env python3
"""Throw-away feasibility probe: translate the arithmetic kernels of mutringbuf from Rust to Gallina.
Subset: let, field/assign via setters, unsafe{}, if/else, match <bool>{true=>..,false=>..}, comparisons, +,
unchecked_add/unchecked_sub/saturating_sub, calls to a fixed table of accessors. Fail-closed."""
import re, sys
SRC = sys.argv[1] if len(sys.argv) > 1 else '/repo/src'

def fn_body(path, name, nth=0):
    s = open(path).read()
    ms = [m for m in re.finditer(r'\bfn\s+' + re.escape(name) + r'\b', s)]
    m = ms[nth]; i = s.index('{', m.end()); d = 0; j = i
    while True:
        if s[j] == '{': d += 1
        elif s[j] == '}':
            d -= 1
            if d == 0: break
        j += 1
    return s[i+1:j]

TOK = re.compile(r'\s*(?:(//[^\n]*)|(\d+)|([A-Za-z_][A-Za-z_0-9]*)|(=>|<=|>=|==|\|\||&&|[-+*/%<>=!(){};,.:&|]))')
def lex(src):
    out = []; pos = 0; src = src.strip()
    while pos < len(src):
        m = TOK.match(src, pos)
        if not m: raise SyntaxError('lex: ' + src[pos:pos+30])
        pos = m.end()
        if m.group(1): continue
        out.append(m.group(2) or m.group(3) or m.group(4))
    return out

class P:
    """recursive descent; produces Gallina text in a monad  bind : M a -> (a -> M b) -> M b  where
    M a = lst -> option (a * lst); lst = local iterator state {index; cached}."""
    def __init__(s, toks): s.t = toks; s.i = 0; s.tmp = 0
    def peek(s, k=0): return s.t[s.i+k] if s.i+k < len(s.t) else None
    def eat(s, x=None):
        t = s.peek()
        if x is not None and t != x: raise SyntaxError(f'expected {x!r} got {t!r} at {s.i}: {s.t[max(0,s.i-5):s.i+5]}')
        s.i += 1; return t
    def fresh(s): s.tmp += 1; return f't{s.tmp}'
    # block := stmt* [expr]
    def block(s, end='}'):
        stmts = []
        while s.peek() != end and s.peek() is not None:
            if s.peek() == 'let':
                s.eat(); name = s.eat(); s.eat('='); e = s.expr(); s.eat(';'); stmts.append(('let', name, e))
            elif s.peek() == 'unsafe' and s.peek(1) == '{':
                s.eat(); s.eat('{'); inner = s.block('}'); s.eat('}')
                if s.peek() == ';': s.eat()
                stmts.append(('block', inner))
            elif s.peek() == 'if' :
                e = s.expr()
                if s.peek() == ';': s.eat()
                stmts.append(('expr', e))
            else:
                e = s.expr()
                if s.peek() == '=':       # assignment self.f = e
                    s.eat(); rhs = s.expr(); s.eat(';'); stmts.append(('assign', e, rhs))
                elif s.peek() == ';': s.eat(); stmts.append(('expr', e))
                else: stmts.append(('ret', e))
        return stmts
    def expr(s):
        l = s.add()
        if s.peek() in ('<', '<=', '>', '>=', '=='):
            op = s.eat(); r = s.add(); return ('cmp', op, l, r)
        return l
    def add(s):
        l = s.post()
        while s.peek() == '+':
            s.eat(); r = s.post(); l = ('call', 'checked_add', [l, r])
        return l
    def post(s):
        e = s.atom()
        while s.peek() == '.':
            s.eat(); name = s.eat()
            if s.peek() == '(':
                s.eat(); args = []
                while s.peek() != ')':
                    args.append(s.expr())
                    if s.peek() == ',': s.eat()
                s.eat(')'); e = ('mcall', e, name, args)
            else: e = ('field', e, name)
        return e
    def atom(s):
        t = s.eat()
        if t == '(':
            e = s.expr(); s.eat(')'); return e
        if t == 'match':
            c = s.expr(); s.eat('{'); arms = {}
            for _ in range(2):
                k = s.eat(); s.eat('=>'); arms[k] = s.expr()
                if s.peek() == ',': s.eat()
            s.eat('}'); return ('if', c, ('ret1', arms['true']), ('ret1', arms['false']))
        if t == 'if':
            c = s.expr(); s.eat('{'); a = s.block('}'); s.eat('}'); b = []
            if s.peek() == 'else': s.eat(); s.eat('{'); b = s.block('}'); s.eat('}')
            return ('ifb', c, a, b)
        if t.isdigit(): return ('num', t)
        return ('var', t)

# ---- code generation into the checked-arithmetic state monad
ACC = {'_index': 'get_index', 'index': 'get_index', 'cached_avail': 'get_cached', 'succ_index': 'succ_index E',
       'buf_len': 'buf_len E', 'inner_len': 'buf_len E', 'buffer': None, '_available': 'E_available'}
_n=[0]
def bind(rhs, k):
    _n[0]+=1; v=f'v{_n[0]}'
    return f"{v} <- {rhs} ;; " + k(v)
def gen_expr(e, k):
    """emit code computing e then continuing with k(varname-or-literal)"""
    kind = e[0]
    if kind == 'num': return k(e[1])
    if kind == 'var': return k(e[1])
    if kind == 'field':                       # self.index / self.cached_avail / self.inner (transparent)
        base, f = e[1], e[2]
        if f in ('index',): return bind(f"get_index", k)
        if f in ('cached_avail',): return bind(f"get_cached", k)
        if f in ('inner', 'buffer'): return gen_expr(base, k)
        raise SyntaxError('field ' + f)
    if kind == 'call' and e[1] == 'checked_add':
        return gen_expr(e[2][0], lambda a: gen_expr(e[2][1], lambda b: bind(f"uadd {a} {b}", k)))
    if kind == 'mcall':
        recv, name, args = e[1], e[2], e[3]
        if name in ('unchecked_add', 'unchecked_sub', 'saturating_sub'):
            op = {'unchecked_add': 'uadd', 'unchecked_sub': 'usub', 'saturating_sub': 'ssub'}[name]
            return gen_expr(recv, lambda a: gen_expr(args[0], lambda b: bind(f"{op} {a} {b}", k)))
        if name in ('buffer', 'inner', 'inner_mut'): return gen_expr(recv, k)        # transparent receivers
        if name in ACC and ACC[name] and not args: return bind(f"{ACC[name]}", k)
        if name == 'set_local_index': return gen_expr(args[0], lambda a: f"set_index {a} ;; " + k('tt'))
        if name == 'set_cached_avail': return gen_expr(args[0], lambda a: f"set_cached {a} ;; " + k('tt'))
        if name == 'set_atomic_index': return gen_expr(args[0], lambda a: f"publish {a} ;; " + k('tt'))
        if name == 'advance_local': return gen_expr(args[0], lambda a: f"advance_local {a} ;; " + k('tt'))
        raise SyntaxError('method ' + name)
    if kind == 'cmp':
        op = {'<': 'Nat.ltb', '<=': 'Nat.leb', '>=': 'geb', '>': 'gtb', '==': 'Nat.eqb'}[e[1]]
        return gen_expr(e[2], lambda a: gen_expr(e[3], lambda b: k(f"({op} {a} {b})")))
    if kind == 'if':
        return gen_expr(e[1], lambda c: bind(f"(if {c} then ({gen_expr(e[2][1], lambda x: f'ret {x}')}) else ({gen_expr(e[3][1], lambda x: f'ret {x}')}))", k))
    if kind == 'ifb':
        return gen_expr(e[1], lambda c: bind(f"(if {c} then ({gen_block(e[2])}) else ({gen_block(e[3])}))", k))
    raise SyntaxError('expr ' + kind)
_ctr = [0]
def uniq(code):
    # make every bound 'v' unique to avoid capture
    out = []; 
    def rep(m): _ctr[0] += 1; return f"v{_ctr[0]} <-"
    # sequential renaming: each "v <-" binds the following uses up to the next bind of v -- emulate with a stack-free pass
    parts = re.split(r'(\bv <- )', code); res = ''; cur = 'v'
    for p in parts:
        if p == 'v <- ': _ctr[0] += 1; new = f"v{_ctr[0]}"; res += f"{new} <- "; pending = new; continue
        res += p
    return res
def gen_block(stmts):
    if not stmts: return 'ret tt'
    st, rest = stmts[0], stmts[1:]
    if st[0] == 'let': return gen_expr(st[2], lambda a: f"let {st[1]} := {a} in " + gen_block(rest))
    if st[0] == 'block': return gen_block(st[1] + rest)
    if st[0] == 'assign':
        tgt = st[1]; assert tgt[0] == 'field', tgt
        setter = {'index': 'set_index', 'cached_avail': 'set_cached'}[tgt[2]]
        return gen_expr(st[2], lambda a: f"{setter} {a} ;; " + gen_block(rest))
    if st[0] == 'expr': return gen_expr(st[1], lambda a: gen_block(rest))
    if st[0] == 'ret': return gen_expr(st[1], lambda a: f"ret {a}")
    raise SyntaxError(st[0])

TARGETS = [('prod_available', 'iterators/sync_iterators/prod_iter.rs', '_available', 0),
           ('work_available', 'iterators/sync_iterators/work_iter.rs', '_available', 0),
           ('cons_available', 'iterators/sync_iterators/cons_iter.rs', '_available', 0),
           ('advance_local', 'iterators/iterator_trait.rs', 'advance_local', 0),
           ('cons_reset_index', 'iterators/sync_iterators/cons_iter.rs', 'reset_index', 0),
           ('detached_go_back', 'iterators/sync_iterators/detached.rs', 'go_back', 0),
           ('detached_set_index', 'iterators/sync_iterators/detached.rs', 'set_index', 0)]
for name, path, fn, nth in TARGETS:
    body = fn_body(f'{SRC}/{path}', fn, nth)
    try:
        code = gen_block(P(lex(body)).block(None))
        print(f"Definition gen_{name} (E : env) : M _ :=\n  {code}.\n")
    except SyntaxError as ex:
        print(f"(* {name}: OUTSIDE SUBSET: {ex} *)\n")
