use core::marker::PhantomData;
use mutringbuf::*;
use mutringbuf::iterators::*;
use std::rc::Rc;
struct P<T: ?Sized>(PhantomData<T>);
trait NoSend { const SEND: bool = false; } impl<T: ?Sized> NoSend for P<T> {}
impl<T: ?Sized + Send> P<T> { const SEND: bool = true; }
trait NoSync { const SYNC: bool = false; } impl<T: ?Sized> NoSync for P<T> {}
impl<T: ?Sized + Sync> P<T> { const SYNC: bool = true; }
macro_rules! probe { ($t:ty) => { println!("{:<70} send={} sync={}", stringify!($t), <P<$t>>::SEND, <P<$t>>::SYNC); } }
fn main() {
    probe!(ProdIter<'static, ConcurrentHeapRB<usize>>);
    probe!(ProdIter<'static, ConcurrentHeapRB<Rc<u8>>>);
    probe!(ProdIter<'static, LocalHeapRB<usize>>);
    probe!(Detached<WorkIter<'static, LocalHeapRB<usize>>>);
    probe!(Detached<WorkIter<'static, LocalStackRB<Rc<u8>, 4>>>);
    probe!(AsyncDetached<AsyncWorkIter<'static, LocalHeapRB<usize>>, LocalHeapRB<usize>>);
    probe!(AsyncConsIter<'static, ConcurrentStackRB<usize, 4>, true>);
    probe!(LocalStackRB<usize, 4>);
    probe!(ConcurrentHeapRB<usize>);
}
