#![cfg(feature = "async")]
use mutringbuf::{ConcurrentStackRB, StackSplit, MRBIterator};
use mutringbuf::iterators::async_iterators::AsyncIterator;

#[test]
fn resplit_by_value_async_two_stage() {
    let mut buf = ConcurrentStackRB::<usize, 8>::default();
    {
        let (mut p, mut c) = buf.split();
        for i in 0..5 { p.push(i).unwrap(); }
        for _ in 0..3 { c.pop().unwrap(); }
    }
    let (mut p, mut c) = buf.split_async();
    assert_eq!((p.available(), c.available()), (7, 0));
}

#[test]
fn resplit_by_value_async_three_stage() {
    let mut buf = ConcurrentStackRB::<usize, 8>::default();
    {
        let (mut p, mut c) = buf.split();
        for i in 0..5 { p.push(i).unwrap(); }
        for _ in 0..3 { c.pop().unwrap(); }
    }
    let (mut p, mut w, mut c) = buf.split_mut_async();
    assert_eq!((p.available(), w.available(), c.available()), (7, 0, 0));
}
