#![cfg(all(feature = "async", not(feature = "alloc")))]
use mutringbuf::ConcurrentStackRB;
use mutringbuf::iterators::async_iterators::AsyncIterator;
use core::future::Future;
use core::pin::Pin;
use core::task::{Context, Poll, RawWaker, RawWakerVTable, Waker};
fn noop_waker() -> Waker {
    fn clone(_: *const ()) -> RawWaker { RawWaker::new(core::ptr::null(), &VT) }
    fn noop(_: *const ()) {}
    static VT: RawWakerVTable = RawWakerVTable::new(clone, noop, noop, noop);
    unsafe { Waker::from_raw(RawWaker::new(core::ptr::null(), &VT)) }
}
fn poll_once<F: Future>(f: F) -> Poll<F::Output> { let w = noop_waker(); let mut cx = Context::from_waker(&w); let mut f = Box::pin(f); Pin::as_mut(&mut f).poll(&mut cx) }
#[test]
fn resplit_async_stack() {
    let mut buf = ConcurrentStackRB::<usize, 4>::default();
    {
        let (mut p, mut c) = buf.split_async();
        assert!(matches!(poll_once(p.push(7)), Poll::Ready(_)));
        assert!(matches!(poll_once(c.pop()), Poll::Ready(Some(7))));
    }
    let (mut p, mut c) = buf.split_async();
    assert_eq!(p.available(), 3, "producer availability right after the second split");
    assert_eq!(c.available(), 0, "consumer availability right after the second split");
}
