//! Shared pieces of the correspondence harness: item types with an ownership ledger.
use std::cell::{Cell, RefCell};
use std::collections::BTreeSet;

pub const FIRST_CLONE_ID: u64 = 1_000_000;
pub const SCRATCH_ID: u64 = 9_000_000;
const CANARY: u64 = 0xC0FF_EE00_DEAD_BEEF;

thread_local! {
    pub static EVENTS: RefCell<Vec<String>> = RefCell::new(Vec::new());
    pub static LIVE: RefCell<BTreeSet<u64>> = RefCell::new(BTreeSet::new());
    pub static NEXT_CLONE: Cell<u64> = Cell::new(FIRST_CLONE_ID);
    pub static NEXT_SCRATCH: Cell<u64> = Cell::new(SCRATCH_ID);
    pub static EXPECT_DROP: Cell<bool> = Cell::new(false);
}

pub fn log(e: String) { EVENTS.with(|v| v.borrow_mut().push(e)); }
pub fn take_events() -> Vec<String> { let mut v = EVENTS.with(|v| std::mem::take(&mut *v.borrow_mut())); v.sort(); v }
pub fn reset_ledger() {
    EVENTS.with(|v| v.borrow_mut().clear());
    LIVE.with(|v| v.borrow_mut().clear());
    NEXT_CLONE.with(|c| c.set(FIRST_CLONE_ID));
    NEXT_SCRATCH.with(|c| c.set(SCRATCH_ID));
}
pub fn live_ids() -> Vec<u64> { LIVE.with(|v| v.borrow().iter().cloned().filter(|x| *x < SCRATCH_ID).collect()) }

/// Owned items whose live values are never all-zero bytes; construction, cloning and destruction are recorded.
/// Three layouts: `Owned` (16 bytes, identity first), `Owned24` (24 bytes, the first word of a live value is zero),
/// `Owned4` (4 bytes).
macro_rules! owned_type {
    ($name:ident, $idty:ty, { $($pre:ident : $prety:ty = $preval:expr),* }, { $($post:ident : $postty:ty = $postval:expr),* }) => {
        #[repr(C)]
        pub struct $name { $($pre: $prety,)* pub id: $idty, $($post: $postty,)* }
        impl $name {
            pub fn new(id: u64) -> Self {
                LIVE.with(|v| v.borrow_mut().insert(id));
                $name { $($pre: $preval,)* id: id as $idty, $($post: $postval,)* }
            }
            fn intact(&self) -> bool { true $(&& self.$post == $postval)* $(&& self.$pre == $preval)* }
        }
        impl Clone for $name {
            fn clone(&self) -> Self {
                let id = NEXT_CLONE.with(|c| { let x = c.get(); c.set(x + 1); x });
                if self.id == 0 { log("zeroread".into()); }
                else {
                    if !self.intact() { log(format!("badcanary{}", self.id)); }
                    log(format!("make{}", id));
                }
                $name::new(id)
            }
        }
        impl Drop for $name {
            fn drop(&mut self) {
                if self.id == 0 { log("zerodrop".into()); return; }
                if !self.intact() { log(format!("badcanary{}", self.id)); return; }
                let id = self.id as u64;
                let was = LIVE.with(|v| v.borrow_mut().remove(&id));
                if !was { log(format!("doubledrop{}", id)); return; }
                if id >= SCRATCH_ID { return; }
                if !EXPECT_DROP.with(|c| c.get()) { log(format!("drop{}", id)); }
            }
        }
        impl Item for $name {
            const OWNED: bool = true;
            fn make(v: u64) -> Self { $name::new(v) }
            fn zero() -> Self { unsafe { std::mem::zeroed() } }
            fn scratch() -> Self { let id = NEXT_SCRATCH.with(|c| { let x = c.get(); c.set(x + 1); x }); $name::new(id) }
            unsafe fn peek(p: *const Self) -> u64 { std::ptr::read_unaligned(std::ptr::addr_of!((*p).id)) as u64 }
        }
    };
}
owned_type!(Owned, u64, {}, { canary: u64 = CANARY });
owned_type!(Owned24, u64, { pad: u64 = 0 }, { canary: u64 = CANARY });
owned_type!(Owned4, u32, {}, {});

/// What the interpreter needs from an item type.
pub trait Item: Clone + 'static {
    const OWNED: bool;
    /// a caller-owned value
    fn make(v: u64) -> Self;
    /// a value for an initial zeroed position inside otherwise initialised data
    fn zero() -> Self;
    /// a destination placeholder
    fn scratch() -> Self;
    /// raw read of the identity / number stored at `p` (works on zeroed memory)
    unsafe fn peek(p: *const Self) -> u64 { *(p as *const u64) }
    /// the caller disposes of a value it owns
    fn dispose(self) { EXPECT_DROP.with(|c| c.set(true)); drop(self); EXPECT_DROP.with(|c| c.set(false)); }
    fn add(&mut self, _d: u64) { unreachable!() }
}

impl Item for u64 {
    const OWNED: bool = false;
    fn make(v: u64) -> Self { v }
    fn zero() -> Self { 0 }
    fn scratch() -> Self { 0 }
    fn add(&mut self, d: u64) { *self = self.wrapping_add(d); }
}
