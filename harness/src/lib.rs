//! Shared pieces of the correspondence harness: item types with an ownership ledger.
use std::cell::{Cell, RefCell};
use std::collections::BTreeSet;

pub const FIRST_CLONE_ID: u64 = 1_000_000;
pub const SCRATCH_ID: u64 = 9_000_000;
const CANARY: u64 = 0xC0FF_EE00_DEAD_BEEF;

thread_local! {
    pub static EVENTS: RefCell<Vec<String>> = RefCell::new(Vec::new());
    pub static LIVE: RefCell<BTreeSet<u64>> = RefCell::new(BTreeSet::new());
    pub static NEXT_CLONE: Cell<u64> = Cell::new(FIRST_CLONE_ID);
    pub static NEXT_SCRATCH: Cell<u64> = Cell::new(SCRATCH_ID);
    pub static EXPECT_DROP: Cell<bool> = Cell::new(false);
}

pub fn log(e: String) { EVENTS.with(|v| v.borrow_mut().push(e)); }
pub fn take_events() -> Vec<String> { let mut v = EVENTS.with(|v| std::mem::take(&mut *v.borrow_mut())); v.sort(); v }
pub fn reset_ledger() {
    EVENTS.with(|v| v.borrow_mut().clear());
    LIVE.with(|v| v.borrow_mut().clear());
    NEXT_CLONE.with(|c| c.set(FIRST_CLONE_ID));
    NEXT_SCRATCH.with(|c| c.set(SCRATCH_ID));
}
pub fn live_ids() -> Vec<u64> { LIVE.with(|v| v.borrow().iter().cloned().filter(|x| *x < SCRATCH_ID).collect()) }

/// Owned items whose live values are never all-zero bytes; construction, cloning and destruction are recorded.
/// Three layouts: `Owned` (16 bytes, identity first), `Owned24` (24 bytes, the first word of a live value is zero),
/// `Owned4` (4 bytes).
macro_rules! owned_type {
    ($name:ident, $idty:ty, { $($pre:ident : $prety:ty = $preval:expr),* }, { $($post:ident : $postty:ty = $postval:expr),* }) => {
        #[repr(C)]
        pub struct $name { $($pre: $prety,)* pub id: $idty, $($post: $postty,)* }
        impl $name {
            pub fn new(id: u64) -> Self {
                LIVE.with(|v| v.borrow_mut().insert(id));
                $name { $($pre: $preval,)* id: id as $idty, $($post: $postval,)* }
            }
            fn intact(&self) -> bool { true $(&& self.$post == $postval)* $(&& self.$pre == $preval)* }
        }
        impl Clone for $name {
            fn clone(&self) -> Self {
                let id = NEXT_CLONE.with(|c| { let x = c.get(); c.set(x + 1); x });
                if self.id == 0 { log("zeroread".into()); }
                else {
                    if !self.intact() { log(format!("badcanary{}", self.id)); }
                    log(format!("make{}", id));
                }
                $name::new(id)
            }
        }
        impl Drop for $name {
            fn drop(&mut self) {
                if self.id == 0 { log("zerodrop".into()); return; }
                if !self.intact() { log(format!("badcanary{}", self.id)); return; }
                let id = self.id as u64;
                let was = LIVE.with(|v| v.borrow_mut().remove(&id));
                if !was { log(format!("doubledrop{}", id)); return; }
                if id >= SCRATCH_ID { return; }
                if !EXPECT_DROP.with(|c| c.get()) { log(format!("drop{}", id)); }
            }
        }
        impl Item for $name {
            const OWNED: bool = true;
            fn make(v: u64) -> Self { $name::new(v) }
            fn zero() -> Self { unsafe { std::mem::zeroed() } }
            fn scratch() -> Self { let id = NEXT_SCRATCH.with(|c| { let x = c.get(); c.set(x + 1); x }); $name::new(id) }
            unsafe fn peek(p: *const Self) -> u64 { std::ptr::read_unaligned(std::ptr::addr_of!((*p).id)) as u64 }
        }
    };
}
owned_type!(Owned, u64, {}, { canary: u64 = CANARY });
owned_type!(Owned24, u64, { pad: u64 = 0 }, { canary: u64 = CANARY });
owned_type!(Owned4, u32, {}, {});

/// What the interpreter needs from an item type.
pub trait Item: Clone + 'static {
    const OWNED: bool;
    /// a caller-owned value
    fn make(v: u64) -> Self;
    /// a value for an initial zeroed position inside otherwise initialised data
    fn zero() -> Self;
    /// a destination placeholder
    fn scratch() -> Self;
    /// raw read of the identity / number stored at `p` (works on zeroed memory)
    unsafe fn peek(p: *const Self) -> u64 { *(p as *const u64) }
    /// the caller disposes of a value it owns
    fn dispose(self) { EXPECT_DROP.with(|c| c.set(true)); drop(self); EXPECT_DROP.with(|c| c.set(false)); }
    fn add(&mut self, _d: u64) { unreachable!() }
}

impl Item for u64 {
    const OWNED: bool = false;
    fn make(v: u64) -> Self { v }
    fn zero() -> Self { 0 }
    fn scratch() -> Self { 0 }
    fn add(&mut self, d: u64) { *self = self.wrapping_add(d); }
}

// ------------------------------------------------------------------------------------------------------------
// Atomic-event log (suite S-ev): every atomic access of the concurrent buffer, through the verif-hooks listener.
use mutringbuf::verif_hooks::{self as hooks, Event, Kind, Listener};
use std::sync::atomic::{AtomicBool, Ordering as AO};
use std::sync::{Arc, Mutex};

pub struct Logged { pub kind: Kind, pub addr: usize, pub order: AO, pub value: usize, pub probe: Option<Vec<u64>> }

pub struct Logger { pub log: Mutex<Vec<Logged>>, pub enabled: AtomicBool }

thread_local! {
    /// what the harness wants to look at when the operation publishes its index (data written before publication?)
    pub static PROBE: RefCell<Option<Box<dyn Fn() -> Vec<u64>>>> = RefCell::new(None);
}

/// a single operation that performs this many atomic accesses is busy-waiting (no operation of the crate but `wait_for` loops): stop the
/// process instead of logging without bound (the runner resumes with the next history and reports the missing lines)
const FLOOD: usize = 200_000;
fn flood_guard(n: usize) {
    if n > FLOOD {
        println!("FLOOD: one operation performed more than {} atomic accesses (busy waiting inside an operation?)", FLOOD);
        use std::io::Write; let _ = std::io::stdout().flush();
        std::process::exit(3);
    }
}

impl Listener for Logger {
    fn before(&self, e: &Event) -> Option<usize> {
        if self.enabled.load(AO::Relaxed) && e.kind != Kind::Load {
            let probe = if e.kind == Kind::Store { PROBE.with(|p| p.borrow().as_ref().map(|f| f())) } else { None };
            let mut l = self.log.lock().unwrap();
            l.push(Logged { kind: e.kind, addr: e.addr, order: e.order, value: e.value, probe });
            let n = l.len(); drop(l); flood_guard(n);
        }
        None
    }
    fn after(&self, e: &Event, read: usize) {
        if self.enabled.load(AO::Relaxed) && e.kind == Kind::Load {
            let mut l = self.log.lock().unwrap();
            l.push(Logged { kind: e.kind, addr: e.addr, order: e.order, value: read, probe: None });
            let n = l.len(); drop(l); flood_guard(n);
        }
    }
}

pub fn install_logger() -> Arc<Logger> {
    let l = Arc::new(Logger { log: Mutex::new(vec![]), enabled: AtomicBool::new(false) });
    hooks::set_listener(Some(l.clone()));
    l
}

pub fn ord_name(o: AO) -> &'static str {
    match o { AO::Relaxed => "rlx", AO::Acquire => "acq", AO::Release => "rel", AO::AcqRel => "acqrel", AO::SeqCst => "seqcst", _ => "?" }
}

/// renders the log; `names` maps addresses to P / W / C (index words) and A (liveness word)
pub fn render_events(log: &[Logged], names: &std::collections::HashMap<usize, char>, final_probe: Option<Vec<u64>>) -> String {
    let mut out = vec![];
    for e in log {
        let n = names.get(&e.addr).cloned().unwrap_or('?');
        let mut s = match e.kind {
            Kind::Load => format!("ld:{}:{}:{}", n, ord_name(e.order), e.value),
            Kind::Store => format!("st:{}:{}:{}", n, ord_name(e.order), e.value),
            Kind::FetchAnd => format!("and:{}:{}:{}", n, ord_name(e.order), e.value),
            Kind::FetchOr => format!("or:{}:{}:{}", n, ord_name(e.order), e.value),
            Kind::Fence => format!("fence:{}", ord_name(e.order)),
            Kind::BufFree => "free".to_string(),
            Kind::BufAlloc => "alloc".to_string(),
        };
        if let (Some(p), Some(f)) = (&e.probe, &final_probe) { if p != f { s.push_str("@early"); } }
        out.push(s);
    }
    out.join(",")
}
