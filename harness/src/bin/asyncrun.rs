//! Async correspondence runner (C14, C15, async forms of C13): the history format of seqrun, executed through the
//! async wrappers. A plain operation line that exists as a future is "create the future, poll it once, drop it";
//! `hold <op>` keeps a Pending future, `repoll K` polls it again, `dropfut K` drops it, `task n` changes the polling
//! task. Every task/stage pair has its own waker, so the waker registered in an iterator is observable through the
//! reference count of that waker, and every `wake` call is counted.
use mrb_harness::*;
use mutringbuf::iterators::async_iterators::AsyncIterator;
use mutringbuf::iterators::*;
use mutringbuf::verif_hooks as hooks;
use mutringbuf::{ConcurrentHeapRB, ConcurrentMutRingBuf, HeapStorage, MRBIterator};
use std::future::Future;
use std::io::Write;
use std::pin::Pin;
use std::sync::atomic::{AtomicUsize, Ordering};
use std::task::{Context, Poll, RawWaker, RawWakerVTable, Waker};

type B<T> = ConcurrentMutRingBuf<HeapStorage<T>>;

static WAKES: AtomicUsize = AtomicUsize::new(0);

/// hand-made wakers: one per (task, stage); clones and drops are counted (so the waker registered in an iterator is
/// observable) and every clone is logged as a `reg` marker in the atomic-event log (program order of the registration)
struct WCell { refs: std::cell::Cell<isize> }
thread_local! {
    /// `inj <poll> | <step>`: a step of ANOTHER stage, performed inside the polling task's `Waker::clone` - i.e. inside `register_waker`,
    /// between the first and the second attempt of `MRBFuture::poll` (the only way to reach the branch "the second attempt succeeds")
    static INJECT: std::cell::RefCell<Option<Box<dyn FnOnce() -> String>>> = std::cell::RefCell::new(None);
    static INJ_RESULT: std::cell::RefCell<Option<String>> = std::cell::RefCell::new(None);
}
unsafe fn w_clone(p: *const ()) -> RawWaker {
    let c = &*(p as *const WCell); c.refs.set(c.refs.get() + 1);
    hooks::event(hooks::Kind::BufAlloc, usize::MAX);
    if log_is_on() {
        if let Some(f) = INJECT.with(|c| c.borrow_mut().take()) { let r = f(); INJ_RESULT.with(|c| *c.borrow_mut() = Some(r)); }
    }
    RawWaker::new(p, &VTABLE)
}
unsafe fn w_wake(p: *const ()) { WAKES.fetch_add(1, Ordering::SeqCst); w_drop(p) }
unsafe fn w_wake_ref(_p: *const ()) { WAKES.fetch_add(1, Ordering::SeqCst); }
unsafe fn w_drop(p: *const ()) { let c = &*(p as *const WCell); c.refs.set(c.refs.get() - 1); }
static VTABLE: RawWakerVTable = RawWakerVTable::new(w_clone, w_wake, w_wake_ref, w_drop);

struct Wakers { cells: Vec<[&'static WCell; 3]>, w: Vec<[Waker; 3]> }
impl Wakers {
    fn new() -> Self { Wakers { cells: vec![], w: vec![] } }
    fn get(&mut self, task: usize, k: usize) -> &Waker {
        while self.cells.len() <= task {
            let mk = || -> &'static WCell { Box::leak(Box::new(WCell { refs: std::cell::Cell::new(1) })) };
            let c = [mk(), mk(), mk()];
            self.w.push([unsafe { Waker::from_raw(RawWaker::new(c[0] as *const WCell as *const (), &VTABLE)) },
                         unsafe { Waker::from_raw(RawWaker::new(c[1] as *const WCell as *const (), &VTABLE)) },
                         unsafe { Waker::from_raw(RawWaker::new(c[2] as *const WCell as *const (), &VTABLE)) }]);
            self.cells.push(c);
        }
        &self.w[task][k]
    }
    /// which task's waker does iterator k hold? (baseline: the one reference we keep)
    fn registered(&self, k: usize) -> String {
        let mut r = vec![];
        for (t, c) in self.cells.iter().enumerate() { if c[k].refs.get() > 1 { r.push(t.to_string()); } }
        if r.is_empty() { "-".into() } else { r.join("+") }
    }
}

enum Raw<T> { Unit, Ok, Ptr(*const T), Sl(*const T, usize, *const T, usize), Val(T), Dst(Vec<u64>) }
type Held<T> = Box<dyn FnMut(&Waker) -> Poll<Option<Raw<T>>>>;

enum Slot<A: AsyncIterator> { Att(Box<A>), Det(AsyncDetached<A, A::B>), Gone }

struct Sess<T: Item + 'static, const WK: bool> {
    p: Slot<AsyncProdIter<'static, B<T>>>,
    w: Slot<AsyncWorkIter<'static, B<T>>>,
    c: Slot<AsyncConsIter<'static, B<T>, WK>>,
    held: [Option<Held<T>>; 3],
    freed: bool, len: usize, task: usize, wakers: Wakers,
}

fn opt(v: Option<usize>) -> String { v.map(|x| x.to_string()).unwrap_or("-".into()) }
fn fmt_list(v: &[u64]) -> String { format!("[{}]", v.iter().map(|x| x.to_string()).collect::<Vec<_>>().join(",")) }
fn ints(s: &str) -> Vec<u64> { if s == "-" { vec![] } else { s.split(',').map(|x| x.parse().unwrap()).collect() } }
fn kidx(s: &str) -> usize { match s { "P" => 0, "W" => 1, "C" => 2, _ => panic!("stage {s}") } }

macro_rules! slot_obs {
    ($s:expr) => { match $s {
        Slot::Att(it) => Some((it.index(), hooks::cached_avail_async(&**it), (it.prod_index(), it.work_index(), it.cons_index(), it.is_prod_alive(), it.is_work_alive(), it.is_cons_alive()),
                               hooks::storage_ptr(it.inner()) as usize)),
        Slot::Det(d) => { let it = d.verif_inner(); Some((it.index(), hooks::cached_avail_async(it), (it.prod_index(), it.work_index(), it.cons_index(), it.is_prod_alive(), it.is_work_alive(), it.is_cons_alive()),
                               hooks::storage_ptr(it.inner()) as usize)) }
        Slot::Gone => None } };
}

impl<T: Item + ItemA + 'static, const WK: bool> Sess<T, WK> {
    fn here(&self, k: usize) -> bool {
        !self.freed && match k { 0 => !matches!(self.p, Slot::Gone), 1 => WK && !matches!(self.w, Slot::Gone), _ => !matches!(self.c, Slot::Gone) }
    }
    fn is_det(&self, k: usize) -> bool { match k { 0 => matches!(self.p, Slot::Det(_)), 1 => matches!(self.w, Slot::Det(_)), _ => matches!(self.c, Slot::Det(_)) } }
    fn free(&self, k: usize) -> bool { self.held[k].is_none() }
    fn obs(&self) -> String {
        if self.freed { return format!("ix=-,-,- | pub=-,-,- | alive=--- | ca=-,-,- | freed=1 | wk=-,-,- | wakes={}", WAKES.load(Ordering::SeqCst)); }
        let (a, b, c) = (slot_obs!(&self.p), slot_obs!(&self.w), slot_obs!(&self.c));
        let pubs = a.map(|x| x.2).or(b.map(|x| x.2)).or(c.map(|x| x.2));
        let (ps, al) = match pubs { Some((x, y, z, p, q, r)) => (format!("{x},{y},{z}"), format!("{}{}{}", p as u8, q as u8, r as u8)), None => ("-,-,-".into(), "---".into()) };
        let wk = |k: usize, h: bool| if h { self.wakers.registered(k) } else { "-".into() };
        format!("ix={},{},{} | pub={} | alive={} | ca={},{},{} | freed=0 | wk={},{},{} | wakes={}",
            opt(a.map(|x| x.0)), opt(b.map(|x| x.0)), opt(c.map(|x| x.0)), ps, al, opt(a.map(|x| x.1)), opt(b.map(|x| x.1)), opt(c.map(|x| x.1)),
            wk(0, a.is_some()), wk(1, b.is_some()), wk(2, c.is_some()), WAKES.load(Ordering::SeqCst))
    }
    fn base(&self) -> *const T { let was = log_is_on(); log_off(); let r = slot_obs!(&self.p).or(slot_obs!(&self.w)).or(slot_obs!(&self.c)).unwrap().3 as *const T; if was { log_on(); } r }
    fn off(&self, p: *const T) -> usize { (p as usize - self.base() as usize) / std::mem::size_of::<T>() }
    fn fmt(&self, r: Raw<T>, name: &str) -> String {
        match r {
            Raw::Unit => "unit".into(), Raw::Ok => "ok".into(),
            Raw::Ptr(p) => format!("ref {} {}", self.off(p), unsafe { T::peek(p) }),
            Raw::Sl(a, n, b, m) => {
                let h: Vec<u64> = (0..n).map(|i| unsafe { T::peek(a.add(i)) }).collect();
                let t: Vec<u64> = (0..m).map(|i| unsafe { T::peek(b.add(i)) }).collect();
                let toff = if m == 0 { 0 } else { self.off(b) };
                if toff == 0 { format!("slices {} {} {}", self.off(a), fmt_list(&h), fmt_list(&t)) } else { format!("slices {} {} @{}{}", self.off(a), fmt_list(&h), toff, fmt_list(&t)) }
            }
            Raw::Val(x) => { let id = unsafe { T::peek(&x) };
                if T::OWNED { if id == 0 { log("zeroread".into()); std::mem::forget(x); } else if name == "pop" { log(format!("dup{id}")); std::mem::forget(x); } else { log(format!("give{id}")); x.dispose(); } }
                format!("val {id}") }
            Raw::Dst(v) => format!("dst {}", fmt_list(&v)),
        }
    }

    /// builds the future of an operation as an erased poll closure
    fn make_future(&mut self, words: &[&str]) -> Option<(usize, Held<T>)> {
        let num = |i: usize| -> usize { words[i].trim_start_matches('=').parse().unwrap() };
        macro_rules! it { ($f:expr) => { match &mut $f { Slot::Att(b) => stat(b), _ => return None } } }
        macro_rules! fut { ($k:expr, $f:expr, $map:expr) => {{ let mut f = $f; let h: Held<T> = Box::new(move |w: &Waker| { let mut cx = Context::from_waker(w);
            match Pin::new(&mut f).poll(&mut cx) { Poll::Pending => Poll::Pending, Poll::Ready(None) => Poll::Ready(None), Poll::Ready(Some(x)) => Poll::Ready(Some($map(x))) } }); Some(($k, h)) }} }
        #[cfg(not(feature = "vmem"))]
        let sl = |(h, t): (&'static mut [T], &'static mut [T])| Raw::Sl(h.as_ptr(), h.len(), t.as_ptr(), t.len());
        #[cfg(not(feature = "vmem"))]
        let sln = |(h, t): (&'static [T], &'static [T])| Raw::Sl(h.as_ptr(), h.len(), t.as_ptr(), t.len());
        // vmem: ONE slice through the mirror (it may run past the physical end into the second view)
        #[cfg(feature = "vmem")]
        let sl = |h: &'static mut [T]| Raw::Sl(h.as_ptr(), h.len(), h.as_ptr(), 0);
        #[cfg(feature = "vmem")]
        let sln = |h: &'static [T]| Raw::Sl(h.as_ptr(), h.len(), h.as_ptr(), 0);
        macro_rules! common { ($k:expr, $slot:expr) => { match words[0] {
            "get1" => { let a = it!($slot); fut!($k, a.get_workable(), |x: &'static mut T| Raw::Ptr(x as *const T)) }
            "getn" => { let a = it!($slot); fut!($k, a.get_workable_slice_exact(num(2)), sl) }
            "getavail" => { let a = it!($slot); fut!($k, a.get_workable_slice_avail(), sl) }
            "getmult" => { let a = it!($slot); fut!($k, a.get_workable_slice_multiple_of(num(2)), sl) }
            _ => None } } }
        match words[0] {
            "get1" | "getn" | "getavail" | "getmult" => match kidx(words[1]) { 0 => common!(0, self.p), 1 => common!(1, self.w), _ => common!(2, self.c) },
            "push" => { let v: u64 = words[1].parse().unwrap(); let a = it!(self.p); let x = T::make(v);
                fut!(0, a.push(x), move |_: ()| { if T::OWNED { log(format!("take{v}")); } Raw::Ok }) }
            "pushslice" | "pushclone" => {
                let src: &'static mut Vec<T> = Box::leak(Box::new(ints(words[1]).into_iter().map(T::make).collect::<Vec<T>>()));
                let raw = src as *mut Vec<T>; let a = it!(self.p);
                let guard = SrcGuard::<T>(raw);
                let s: &'static [T] = unsafe { &*raw };
                let f = T::push_slice_fut(a, s, words[0]);
                let mut f = f; let h: Held<T> = Box::new(move |w: &Waker| { let _g = &guard; let mut cx = Context::from_waker(w);
                    match Pin::new(&mut f).poll(&mut cx) { Poll::Pending => Poll::Pending, Poll::Ready(None) => Poll::Ready(None), Poll::Ready(Some(())) => Poll::Ready(Some(Raw::Ok)) } });
                Some((0, h)) }
            "nextitem" => { let a = it!(self.p); fut!(0, unsafe { a.get_next_item_mut() }, |x: &'static mut T| Raw::Ptr(x as *const T)) }
            "nextinit" => { let a = it!(self.p); fut!(0, a.get_next_item_mut_init(), |x: *mut T| Raw::Ptr(x as *const T)) }
            "nextslices" => { let a = it!(self.p); fut!(0, unsafe { a.get_next_slices_mut(num(1)) }, sl) }
            "peek" => { let a = it!(self.c); fut!(2, a.peek_ref(), |x: &'static T| Raw::Ptr(x as *const T)) }
            "peekslice" => { let a = it!(self.c); fut!(2, a.peek_slice(num(1)), sln) }
            "peekavail" => { let a = it!(self.c); fut!(2, a.peek_available(), sln) }
            "pop" => { let a = it!(self.c); fut!(2, a.pop(), |x: T| Raw::Val(x)) }
            "popmove" => { let a = it!(self.c); fut!(2, unsafe { a.pop_move() }, |x: T| Raw::Val(x)) }
            "copyitem" | "cloneitem" => {
                let raw: *mut T = Box::into_raw(Box::new(T::scratch())); let a = it!(self.c);
                let guard = DstGuard::<T>(raw, 1);
                let f = T::extract_item_fut(a, unsafe { &mut *raw }, words[0]);
                let mut f = f; let h: Held<T> = Box::new(move |w: &Waker| { let g = &guard; let mut cx = Context::from_waker(w);
                    match Pin::new(&mut f).poll(&mut cx) { Poll::Pending => Poll::Pending, Poll::Ready(None) => Poll::Ready(None), Poll::Ready(Some(())) => Poll::Ready(Some(Raw::Dst(vec![unsafe { T::peek(g.0) }]))) } });
                Some((2, h)) }
            "copyslice" | "cloneslice" => {
                let n = num(1);
                let v: Vec<T> = (0..n).map(|_| T::scratch()).collect();
                let raw = Box::into_raw(v.into_boxed_slice()) as *mut T; let a = it!(self.c);
                let guard = DstGuard::<T>(raw, n);
                let f = T::extract_slice_fut(a, unsafe { std::slice::from_raw_parts_mut(raw, n) }, words[0]);
                let mut f = f; let h: Held<T> = Box::new(move |w: &Waker| { let g = &guard; let mut cx = Context::from_waker(w);
                    match Pin::new(&mut f).poll(&mut cx) { Poll::Pending => Poll::Pending, Poll::Ready(None) => Poll::Ready(None),
                        Poll::Ready(Some(())) => Poll::Ready(Some(Raw::Dst((0..g.1).map(|i| unsafe { T::peek(g.0.add(i)) }).collect()))) } });
                Some((2, h)) }
            _ => None,
        }
    }

    fn step(&mut self, words: &[&str]) -> String {
        let num = |i: usize| -> usize { words[i].trim_start_matches('=').parse().unwrap() };
        let bad = "bad".to_string();
        match words[0] {
            "task" => { self.task = num(1); "unit".into() }
            "rewrap" => {
                // `into_sync()` hands the synchronous iterator back, `from_sync` wraps it again: the same iterator, no waker registered
                let k = kidx(words[1]);
                if self.held[k].is_some() { return bad; }
                macro_rules! rw { ($slot:expr, $A:ty) => {
                    match std::mem::replace(&mut $slot, Slot::Gone) {
                        Slot::Att(a) => { let it = (*a).into_sync(); $slot = Slot::Att(Box::new(<$A>::from_sync(it))); "unit".to_string() }
                        other => { $slot = other; bad.clone() }
                    } } }
                match k { 0 => rw!(self.p, AsyncProdIter<'static, B<T>>), 1 => rw!(self.w, AsyncWorkIter<'static, B<T>>), _ => rw!(self.c, AsyncConsIter<'static, B<T>, WK>) }
            }
            "inj" => {
                // the same gate as the Model's `astep_inj`: a poll on stage k (one-shot, kept, re-poll) and a step of another stage k'
                // (a synchronous method or a one-shot future)
                let bar = match words.iter().position(|w| *w == "|") { Some(b) => b, None => return bad };
                let (pw, dw) = (&words[1..bar], &words[bar + 1..]);
                if pw.is_empty() || dw.len() < 1 { return "bad inj:-".into(); }
                let k = match pw[0] { "hold" => if pw.len() > 1 { fut_stage(&pw[1..]) } else { None },
                                      "repoll" => if pw.len() > 1 && self.held[kidx(pw[1])].is_some() { Some(kidx(pw[1])) } else { None },
                                      "dropfut" | "task" | "rewrap" | "inj" => None,
                                      _ => fut_stage(pw) };
                let k2 = match dw[0] {
                    "avail" | "adv" | "reset" | "detach" | "attach" | "sync" | "goback" | "poke" | "pokeinit" | "edit" | "drop" =>
                        if dw.len() > 1 && matches!(dw[1], "P" | "W" | "C") && !(dw[0] == "avail" && self.is_det(kidx(dw[1]))) { Some(kidx(dw[1])) } else { None },
                    "hold" | "repoll" | "dropfut" | "task" | "rewrap" | "inj" => None,
                    _ => fut_stage(dw) };
                let (k, k2) = match (k, k2) { (Some(a), Some(b)) if a != b => (a, b), _ => return "bad inj:-".into() };
                let _ = k2;
                if pw[0] != "repoll" && (!self.here(k) || self.is_det(k) || !self.free(k)) { return "bad inj:-".into(); }
                let me = self as *mut Self;
                let dwords: Vec<String> = dw.iter().map(|x| x.to_string()).collect();
                INJECT.with(|c| *c.borrow_mut() = Some(Box::new(move || { let w: Vec<&str> = dwords.iter().map(|x| x.as_str()).collect(); unsafe { (*me).step(&w) } })));
                INJ_RESULT.with(|c| *c.borrow_mut() = None);
                let r = self.step(pw);
                INJECT.with(|c| *c.borrow_mut() = None);
                let fired = INJ_RESULT.with(|c| c.borrow_mut().take());
                format!("{} inj:{}", r, fired.unwrap_or("-".into()))
            }
            "hold" | "repoll" | "dropfut" => {
                if words[0] == "dropfut" {
                    let k = kidx(words[1]);
                    return match self.held[k].take() { Some(f) => { EXPECT_DROP.with(|c| c.set(true)); drop(f); EXPECT_DROP.with(|c| c.set(false)); "unit".into() } None => bad };
                }
                let (k, mut f, name) = if words[0] == "hold" {
                    let inner = &words[1..];
                    let k = fut_stage(inner);
                    let k = match k { Some(k) => k, None => return bad };
                    if !self.here(k) || self.is_det(k) || !self.free(k) || !T::supports(inner[0]) { return bad; }
                    match self.make_future(inner) { Some((k, f)) => (k, f, inner[0].to_string()), None => return bad }
                } else {
                    let k = kidx(words[1]);
                    match self.held[k].take() { Some(f) => (k, f, "held".to_string()), None => return bad }
                };
                let w = self.wakers.get(self.task, k).clone_quiet();
                let polled = std::panic::catch_unwind(std::panic::AssertUnwindSafe(|| f(&w)));
                let polled = match polled { Ok(x) => x, Err(_) => { EXPECT_DROP.with(|c| c.set(true)); drop(f); EXPECT_DROP.with(|c| c.set(false)); return "panic".into(); } };
                match polled {
                    Poll::Pending => { self.held[k] = Some(f); "pending".into() }
                    Poll::Ready(r) => { EXPECT_DROP.with(|c| c.set(true)); drop(f); EXPECT_DROP.with(|c| c.set(false));
                        match r { Some(x) => self.fmt(x, &name), None => "none".into() } }
                }
            }
            _ => {
                if let Some(k) = fut_stage(words) {
                    // future: create, poll once, drop
                    if !self.here(k) || self.is_det(k) || !self.free(k) || !T::supports(words[0]) { return bad; }
                    let (k, mut f) = match self.make_future(words) { Some(x) => x, None => return bad };
                    let w = self.wakers.get(self.task, k).clone_quiet();
                    let r = std::panic::catch_unwind(std::panic::AssertUnwindSafe(|| f(&w)));
                    EXPECT_DROP.with(|c| c.set(true)); drop(f); EXPECT_DROP.with(|c| c.set(false));
                    let r = match r { Ok(x) => x, Err(_) => return "panic".into() };
                    return match r { Poll::Pending => "pending".into(), Poll::Ready(Some(x)) => self.fmt(x, words[0]), Poll::Ready(None) => "none".into() };
                }
                self.direct(words)
            }
        }
    }

    fn direct(&mut self, words: &[&str]) -> String {
        let num = |i: usize| -> usize { words[i].trim_start_matches('=').parse().unwrap() };
        let bad = "bad".to_string();
        if words.len() < 2 { return bad; }
        let k = match words[1] { "P" | "W" | "C" => kidx(words[1]), _ => return bad };
        if !self.here(k) || !self.free(k) { return bad; }
        macro_rules! on { ($att:ident => $ea:expr, $det:ident => $ed:expr) => { match k {
            0 => match &mut self.p { Slot::Att($att) => $ea, Slot::Det($det) => $ed, Slot::Gone => return bad },
            1 => match &mut self.w { Slot::Att($att) => $ea, Slot::Det($det) => $ed, Slot::Gone => return bad },
            _ => match &mut self.c { Slot::Att($att) => $ea, Slot::Det($det) => $ed, Slot::Gone => return bad } } } }
        match words[0] {
            "avail" => on!(a => format!("num {}", a.available()), _d => bad),
            "adv" => { let n = num(2); on!(a => { unsafe { a.advance(n) }; "unit".into() }, d => { unsafe { d.advance(n) }; "unit".into() }) }
            "reset" => match k { 1 => match &mut self.w { Slot::Att(a) => { a.reset_index(); "unit".into() } _ => bad },
                                 2 => match &mut self.c { Slot::Att(a) => { a.reset_index(); "unit".into() } _ => bad }, _ => bad },
            "detach" => { if self.is_det(k) { return bad; }
                macro_rules! det { ($f:expr) => { $f = match std::mem::replace(&mut $f, Slot::Gone) { Slot::Att(b) => Slot::Det((*b).detach()), x => x } } }
                match k { 0 => det!(self.p), 1 => det!(self.w), _ => det!(self.c) } "unit".into() }
            "attach" => { if !self.is_det(k) { return bad; }
                macro_rules! att { ($f:expr) => { $f = match std::mem::replace(&mut $f, Slot::Gone) { Slot::Det(d) => Slot::Att(Box::new(d.attach())), x => x } } }
                match k { 0 => att!(self.p), 1 => att!(self.w), _ => att!(self.c) } "unit".into() }
            "sync" => on!(_a => bad, d => { d.sync_index(); "unit".into() }),
            "goback" => { let n = num(2); on!(_a => bad, d => { unsafe { d.go_back(n) }; "unit".into() }) }
            "poke" | "pokeinit" | "edit" => {
                if words[0] == "edit" && T::OWNED { return bad; }
                let off = num(2); let v: u64 = words[3].parse().unwrap();
                log_off(); let ix = match k { 0 => slot_obs!(&self.p), 1 => slot_obs!(&self.w), _ => slot_obs!(&self.c) }.unwrap().0; log_on();
                let mut i = ix + off; if i >= self.len { i -= self.len; }
                let p = unsafe { (self.base() as *mut T).add(i) };
                match words[0] {
                    "poke" => { let x = T::make(v); if T::OWNED { log(format!("take{v}")); } unsafe { *p = x; } }
                    "pokeinit" => { let x = T::make(v); if T::OWNED { log(format!("take{v}")); } unsafe { p.write(x); } }
                    _ => unsafe { (*p).add(v) },
                }
                "unit".into() }
            "drop" => { match k { 0 => self.p = Slot::Gone, 1 => self.w = Slot::Gone, _ => self.c = Slot::Gone }
                if matches!(self.p, Slot::Gone) && matches!(self.w, Slot::Gone) && matches!(self.c, Slot::Gone) { self.freed = true; }
                "unit".into() }
            _ => bad,
        }
    }
}

fn stat<A>(b: &mut Box<A>) -> &'static mut A { unsafe { &mut *(&mut **b as *mut A) } }

trait CloneQuiet { fn clone_quiet(&self) -> Waker; }
impl CloneQuiet for Waker { fn clone_quiet(&self) -> Waker { let was = log_is_on(); log_off(); let w = self.clone(); if was { log_on(); } w } }

struct SrcGuard<T: Item>(*mut Vec<T>);
impl<T: Item> Drop for SrcGuard<T> { fn drop(&mut self) { let v = unsafe { Box::from_raw(self.0) }; for x in *v { x.dispose(); } } }
struct DstGuard<T: Item>(*mut T, usize);
impl<T: Item> Drop for DstGuard<T> { fn drop(&mut self) { let v = unsafe { Box::from_raw(std::slice::from_raw_parts_mut(self.0, self.1)) }; for x in v.into_vec() { x.dispose(); } } }

fn fut_stage(words: &[&str]) -> Option<usize> {
    match words[0] {
        "get1" | "getn" | "getavail" | "getmult" => words.get(1).map(|s| kidx(s)),
        "push" | "pushslice" | "pushclone" | "nextitem" | "nextinit" | "nextslices" => Some(0),
        "peek" | "peekslice" | "peekavail" | "pop" | "popmove" | "copyitem" | "cloneitem" | "copyslice" | "cloneslice" => Some(2),
        _ => None,
    }
}

/// per item type: which operations exist, and the Copy-only futures
trait ItemA: Item {
    fn supports(op: &str) -> bool;
    fn push_slice_fut(a: &'static mut AsyncProdIter<'static, B<Self>>, s: &'static [Self], name: &str) -> Pin<Box<dyn Future<Output = Option<()>>>>;
    fn extract_item_fut<const W: bool>(a: &'static mut AsyncConsIter<'static, B<Self>, W>, d: &'static mut Self, name: &str) -> Pin<Box<dyn Future<Output = Option<()>>>>;
    fn extract_slice_fut<const W: bool>(a: &'static mut AsyncConsIter<'static, B<Self>, W>, d: &'static mut [Self], name: &str) -> Pin<Box<dyn Future<Output = Option<()>>>>;
}
impl ItemA for u64 {
    fn supports(_op: &str) -> bool { true }
    fn push_slice_fut(a: &'static mut AsyncProdIter<'static, B<Self>>, s: &'static [Self], name: &str) -> Pin<Box<dyn Future<Output = Option<()>>>> {
        if name == "pushslice" { Box::pin(a.push_slice(s)) } else { Box::pin(a.push_slice_clone(s)) } }
    fn extract_item_fut<const W: bool>(a: &'static mut AsyncConsIter<'static, B<Self>, W>, d: &'static mut Self, name: &str) -> Pin<Box<dyn Future<Output = Option<()>>>> {
        if name == "copyitem" { Box::pin(a.copy_item(d)) } else { Box::pin(a.clone_item(d)) } }
    fn extract_slice_fut<const W: bool>(a: &'static mut AsyncConsIter<'static, B<Self>, W>, d: &'static mut [Self], name: &str) -> Pin<Box<dyn Future<Output = Option<()>>>> {
        if name == "copyslice" { Box::pin(a.copy_slice(d)) } else { Box::pin(a.clone_slice(d)) } }
}
impl ItemA for Owned {
    fn supports(op: &str) -> bool { !matches!(op, "pushslice" | "copyitem" | "copyslice") }
    fn push_slice_fut(a: &'static mut AsyncProdIter<'static, B<Self>>, s: &'static [Self], _name: &str) -> Pin<Box<dyn Future<Output = Option<()>>>> { Box::pin(a.push_slice_clone(s)) }
    fn extract_item_fut<const W: bool>(a: &'static mut AsyncConsIter<'static, B<Self>, W>, d: &'static mut Self, _name: &str) -> Pin<Box<dyn Future<Output = Option<()>>>> { Box::pin(a.clone_item(d)) }
    fn extract_slice_fut<const W: bool>(a: &'static mut AsyncConsIter<'static, B<Self>, W>, d: &'static mut [Self], _name: &str) -> Pin<Box<dyn Future<Output = Option<()>>>> { Box::pin(a.clone_slice(d)) }
}

static LOGGER: std::sync::OnceLock<std::sync::Arc<Logger>> = std::sync::OnceLock::new();
fn logger() -> &'static Logger { LOGGER.get().unwrap() }
fn log_on() { logger().enabled.store(true, Ordering::Relaxed); }
fn log_off() { logger().enabled.store(false, Ordering::Relaxed); }
fn log_is_on() -> bool { logger().enabled.load(Ordering::Relaxed) }

fn emit(out: &mut impl Write, res: &str, obs: &str, at: &str) {
    let ev = take_events();
    writeln!(out, "{} | {} | ev={} | at={}", res, obs, ev.join(","), at).unwrap();
    out.flush().unwrap();
}

fn run_session<T: Item + ItemA + 'static, const WK: bool>(mut s: Sess<T, WK>, lines: &[String], pos: &mut usize, out: &mut impl Write) {
    let mut names = std::collections::HashMap::new();
    logger().log.lock().unwrap().clear();
    log_on();
    if let Slot::Att(p) = &s.p { p.prod_index(); p.work_index(); p.cons_index(); p.is_prod_alive(); }
    log_off();
    { let mut l = logger().log.lock().unwrap(); for (e, n) in l.iter().zip(['P', 'W', 'C', 'A']) { names.insert(e.addr, n); } l.clear(); }
    names.insert(usize::MAX, 'R');
    emit(out, "init ok", &s.obs(), "");
    while *pos < lines.len() {
        let l = lines[*pos].trim().to_string();
        if l.starts_with("cfg") || l.starts_with('#') { break; }
        *pos += 1;
        if l.is_empty() { continue; }
        let words: Vec<&str> = l.split_whitespace().collect();
        logger().log.lock().unwrap().clear();
        log_on();
        let r = s.step(&words);
        log_off();
        let evs = std::mem::take(&mut *logger().log.lock().unwrap());
        let at = render_events(&evs, &names, None).replace("alloc", "reg");
        emit(out, &r, &s.obs(), &at);
    }
    // pending futures are dropped by the caller first
    EXPECT_DROP.with(|c| c.set(true));
    for h in s.held.iter_mut() { *h = None; }
    EXPECT_DROP.with(|c| c.set(false));
    writeln!(out, "live={}", fmt_list(&if T::OWNED { live_ids() } else { vec![] })).unwrap();
    // `into_sync`: the synchronous iterator handed back is the wrapped one (same index, same remembered availability) and the wrapper's
    // registered waker is released with it
    macro_rules! unwrap_check { ($slot:expr, $k:expr, $name:expr) => {
        if let Slot::Att(a) = std::mem::replace(&mut $slot, Slot::Gone) {
            let (ix, ca) = (a.index(), mutringbuf::verif_hooks::cached_avail_async(&*a));
            let it = (*a).into_sync();
            if it.index() != ix || mutringbuf::verif_hooks::cached_avail(&it) != ca {
                writeln!(out, "INTO-SYNC-MISMATCH {}: index {} -> {}, remembered availability {} -> {}", $name, ix, it.index(), ca, mutringbuf::verif_hooks::cached_avail(&it)).unwrap();
            }
            if s.wakers.registered($k) != "-" { writeln!(out, "INTO-SYNC-MISMATCH {}: the wrapper's registered waker (task {}) outlives into_sync", $name, s.wakers.registered($k)).unwrap(); }
            EXPECT_DROP.with(|c| c.set(true)); drop(it); EXPECT_DROP.with(|c| c.set(false));
        }
    }}
    unwrap_check!(s.p, 0, "P"); unwrap_check!(s.w, 1, "W"); unwrap_check!(s.c, 2, "C");
    EXPECT_DROP.with(|c| c.set(true));
    drop(s);
    EXPECT_DROP.with(|c| c.set(false));
}

fn build<T: Item>(init: &[u64]) -> Vec<T> { init.iter().map(|v| if *v == 0 { T::zero() } else { T::make(*v) }).collect() }

/// number of mappings of the shared-memory object behind a vmem buffer that are still present
fn vmem_maps() -> usize { std::fs::read_to_string("/proc/self/maps").map(|m| m.lines().filter(|l| l.contains("mrb-")).count()).unwrap_or(0) }

fn run_cfg<T: Item + ItemA + 'static>(l: &str, lines: &[String], pos: &mut usize, out: &mut impl Write) {
    run_cfg_inner::<T>(l, lines, pos, out);
    if l.contains("vmem=1") { writeln!(out, "maps={}", vmem_maps()).unwrap(); }
}
/// the session starts with exactly the iterators the split handed out: the consumer's const parameter (does it follow a worker?) is
/// INFERRED from the split's return type, not written down here - a split that hands out the wrong kind of consumer shows in behaviour
fn start3<T: Item + ItemA + 'static, const WK: bool>(p: AsyncProdIter<'static, B<T>>, w: AsyncWorkIter<'static, B<T>>, c: AsyncConsIter<'static, B<T>, WK>,
                                                      len: usize, lines: &[String], pos: &mut usize, out: &mut impl Write) {
    run_session::<T, WK>(Sess { p: Slot::Att(Box::new(p)), w: Slot::Att(Box::new(w)), c: Slot::Att(Box::new(c)), held: [None, None, None], freed: false, len, task: 0, wakers: Wakers::new() }, lines, pos, out);
}
fn start2<T: Item + ItemA + 'static, const WK: bool>(p: AsyncProdIter<'static, B<T>>, c: AsyncConsIter<'static, B<T>, WK>,
                                                      len: usize, lines: &[String], pos: &mut usize, out: &mut impl Write) {
    run_session::<T, WK>(Sess { p: Slot::Att(Box::new(p)), w: Slot::Gone, c: Slot::Att(Box::new(c)), held: [None, None, None], freed: false, len, task: 0, wakers: Wakers::new() }, lines, pos, out);
}

fn run_cfg_inner<T: Item + ItemA + 'static>(l: &str, lines: &[String], pos: &mut usize, out: &mut impl Write) {
    let mut stages = 2; let mut init = vec![]; let mut ctor = "from".to_string();
    for w in l.split_whitespace().skip(1) { let (k, v) = w.split_once('=').unwrap();
        match k { "stages" => stages = v.parse().unwrap(), "init" => init = ints(v), "ctor" => ctor = v.into(), _ => {} } }
    let all_zero = init.iter().all(|v| *v == 0);
    let len = init.len();
    let buf: ConcurrentHeapRB<T> = if ctor == "zeroed" || (all_zero && T::OWNED) { unsafe { ConcurrentHeapRB::new_zeroed(len) } } else { ConcurrentHeapRB::from(build::<T>(&init)) };
    WAKES.store(0, Ordering::SeqCst);
    // every second buffer is split into SYNC iterators that are then wrapped with the public `AsyncIterator::from_sync` (must be
    // indistinguishable from `split_async` / `split_mut_async`)
    let via_sync = { static N: std::sync::atomic::AtomicUsize = std::sync::atomic::AtomicUsize::new(0); N.fetch_add(1, Ordering::SeqCst) % 2 == 1 };
    if via_sync && stages == 3 {
        let (p, w, c) = mutringbuf::HeapSplit::split_mut(buf);
        let (p, w, c) = (AsyncProdIter::from_sync(p), AsyncWorkIter::from_sync(w), AsyncConsIter::from_sync(c));
        start3::<T, _>(p, w, c, len, lines, pos, out);
    } else if via_sync {
        let (p, c) = mutringbuf::HeapSplit::split(buf);
        let (p, c) = (AsyncProdIter::from_sync(p), AsyncConsIter::from_sync(c));
        start2::<T, _>(p, c, len, lines, pos, out);
    } else if stages == 3 {
        let (p, w, c) = buf.split_mut_async();
        start3::<T, _>(p, w, c, len, lines, pos, out);
    } else {
        let (p, c) = buf.split_async();
        start2::<T, _>(p, c, len, lines, pos, out);
    }
}

fn main() {
    let args: Vec<String> = std::env::args().collect();
    let stdout = std::io::stdout();
    let mut out = std::io::BufWriter::new(stdout.lock());
    std::panic::set_hook(Box::new(|_| {}));
    let _ = LOGGER.set(install_logger());
    for f in &args[1..] {
        let text = std::fs::read_to_string(f).unwrap();
        let lines: Vec<String> = text.lines().map(|s| s.to_string()).collect();
        let mut pos = 0;
        while pos < lines.len() {
            let l = lines[pos].trim().to_string();
            pos += 1;
            if l.is_empty() { continue; }
            if l.starts_with('#') { writeln!(out, "{l}").unwrap(); continue; }
            if !l.starts_with("cfg") { writeln!(out, "skip").unwrap(); continue; }
            reset_ledger();
            EXPECT_DROP.with(|c| c.set(false));
            if l.contains("item=owned") { run_cfg::<Owned>(&l, &lines, &mut pos, &mut out) } else { run_cfg::<u64>(&l, &lines, &mut pos, &mut out) }
        }
    }
}
