//! Scripted weak-memory runtime: replays executions of the release/acquire machine (coq/Conc/RAn.v, printed by
//! ocaml/concdriver.ml as `concmodel gen`) on the real crate, with one OS thread per role.
//!
//! The verif-hooks listener makes the real execution follow the case: every atomic access of a worker thread is
//! compared with the thread's next `ev` line (load/store, word, ordering, stored value), blocks until all earlier
//! `ev` lines of the case have been performed, and - for a load - returns the scripted (possibly stale) value.
//! At a store (publication) the data of the operation must already be in place: the pushed values in the ring slots,
//! the copied values in the consumer's destination (looked at by the publishing thread itself).
//! Any deviation poisons the case, which releases every waiter; the threads then run on unscheduled.
//!
//!   concrun <file>      one line per case: `case <k> ok events=<n>` / `case <k> MISMATCH <what>`; exit code 1 on mismatch
use mutringbuf::verif_hooks::{self as hooks, Event, Kind, Listener};
use mutringbuf::{ConcurrentHeapRB, HeapSplit, MRBIterator};
use std::cell::Cell;
use std::sync::atomic::{AtomicUsize, Ordering as AO};
use std::sync::{Arc, Condvar, Mutex};
use std::time::{Duration, Instant};

const TIMEOUT: Duration = Duration::from_secs(3);
const NAMES: [&str; 3] = ["P", "C", "?"];

/// where the data of the running operation must be when it publishes: `count` values `first`, `first + 1`, ...
/// at `base[(start + j) % modulus]`
#[derive(Clone, Copy, Default)]
struct Probe { base: usize, modulus: usize, start: usize, count: usize, first: u64 }

thread_local! {
    static TID: Cell<usize> = Cell::new(0);                 // 0: main thread (not scheduled), 1: producer, 2: consumer
    static OPNO: Cell<usize> = Cell::new(0);                // the worker's running operation (position in its program)
    static PROBE: Cell<Probe> = Cell::new(Probe::default());
}

/// one `ev` line; threads and words are 0 = P (prod_idx), 1 = C (cons_idx); `op`: the operation of `thr` it belongs to
#[derive(Clone, Copy)]
struct Ev { thr: usize, store: bool, word: usize, val: usize, op: usize, line: usize, start: bool }

impl Ev { fn show(&self) -> String { if self.start { format!("op {} {}", NAMES[self.thr], self.val) } else { format!("{} {} {} {}", NAMES[self.thr], if self.store { "st" } else { "ld" }, NAMES[self.word], self.val) } } }

#[derive(Default)]
struct Case {
    k: usize, len: usize, evs: Vec<Ev>,
    prog: [Vec<(usize, Option<bool>, usize)>; 2],          // requested count, expected outcome, line
    fin: [usize; 2], consumed: usize, race: bool,
}

struct St { cur: usize, own: [usize; 2], running: [bool; 2], poison: Option<String> }

struct Sched {
    evs: Vec<Ev>,
    mine: [Vec<usize>; 2],                                  // per thread: the positions of its events in `evs`
    words: [AtomicUsize; 2], last_addr: AtomicUsize, early: bool,
    st: Mutex<St>, cv: Condvar,
}

impl Sched {
    fn poison(&self, st: &mut St, what: String) {
        if st.poison.is_none() { st.poison = Some(what); }
        self.cv.notify_all();
    }
    fn fail(&self, what: String) { let mut st = self.st.lock().unwrap(); self.poison(&mut st, what); }
    /// a worker has run its whole program (or is unwinding)
    fn finish(&self, t: usize) {
        let mut st = self.st.lock().unwrap();
        st.running[t] = false; self.cv.notify_all();
        if let Some(&k) = self.mine[t].get(st.own[t]) {
            let what = format!("at ev {} (line {}): {} finished its program, expected `{}`", k, self.evs[k].line, NAMES[t], self.evs[k].show());
            self.poison(&mut st, what);
        }
    }
}

impl Sched {
    /// ONE thread runs at a time: thread `t`, arrived at its event `k`, parks until every earlier line of the case has been performed AND
    /// the other thread is parked at one of its own lines (or has finished) - so whatever a thread does between two of its lines (its data
    /// accesses in particular) happens exactly in that interval of the machine execution, not merely somewhere around it
    fn turn<'a>(&'a self, mut st: std::sync::MutexGuard<'a, St>, t: usize, k: usize) -> Option<std::sync::MutexGuard<'a, St>> {
        st.running[t] = false; self.cv.notify_all();
        let deadline = Instant::now() + TIMEOUT;
        while st.cur != k || st.running[1 - t] {
            let now = Instant::now();
            if now >= deadline {
                let c = self.evs[st.cur.min(self.evs.len() - 1)];
                let what = format!("at ev {} (line {}): timeout, `{}` never came ({} waits with ev {})", st.cur, c.line, c.show(), NAMES[t], k);
                self.poison(&mut st, what);
            }
            if st.poison.is_some() { return None; }
            st = self.cv.wait_timeout(st, deadline - now).unwrap().0;
        }
        st.cur += 1;
        st.own[t] += 1;
        st.running[t] = true;
        self.cv.notify_all();
        Some(st)
    }
    /// the `op` line of a thread's next operation: the operation starts exactly there
    fn op_start(&self, t: usize, i: usize) {
        let st = self.st.lock().unwrap();
        if st.poison.is_some() { return; }
        let Some(&k) = self.mine[t].get(st.own[t]) else { return };
        let x = self.evs[k];
        if !x.start && self.early { return; }
        if !x.start || x.op != i { let mut st = st; self.poison(&mut st, format!("at ev {} (line {}): {} starts operation {}, expected `{}`", k, x.line, NAMES[t], i, x.show())); return; }
        let _ = self.turn(st, t, k);
    }
}

impl Listener for Sched {
    fn before(&self, e: &Event) -> Option<usize> {
        let me = TID.with(|t| t.get());
        if me == 0 { self.last_addr.store(e.addr, AO::SeqCst); return None; }
        let t = me - 1;
        let mut st = self.st.lock().unwrap();
        if st.poison.is_some() { return None; }
        let word = (0..2).find(|&w| self.words[w].load(AO::SeqCst) == e.addr).unwrap_or(2);
        let val = if e.kind == Kind::Load { String::new() } else { format!(" {}", e.value) };
        let got = format!("{} {:?} {}{} ({:?})", NAMES[t], e.kind, NAMES[word], val, e.order);
        let Some(&k) = self.mine[t].get(st.own[t]) else {
            let what = format!("after ev {}: extra event `{}`, nothing more expected of {}", st.cur as isize - 1, got, NAMES[t]);
            self.poison(&mut st, what);
            return None;
        };
        let x = self.evs[k];
        let ok = !x.start && word == x.word && x.op == OPNO.with(|c| c.get()) && match e.kind {
            Kind::Load => !x.store && matches!(e.order, AO::Acquire | AO::SeqCst),
            Kind::Store => x.store && e.value == x.val && matches!(e.order, AO::Release | AO::SeqCst),
            _ => false,
        };
        if !ok {
            self.poison(&mut st, format!("at ev {} (line {}): expected `{}` in op {}, got `{}` in op {}", k, x.line, x.show(), x.op, got, OPNO.with(|c| c.get())));
            return None;
        }
        if x.store {
            let pr = PROBE.with(|c| c.get());
            for j in 0..pr.count {
                let v = unsafe { std::ptr::read_volatile((pr.base as *const u64).add((pr.start + j) % pr.modulus)) };
                if v != pr.first + j as u64 {
                    self.poison(&mut st, format!("at ev {} (line {}): `{}` publishes before the data is in place (item {} of the operation is {}, expected {})", k, x.line, x.show(), j, v, pr.first + j as u64));
                    return None;
                }
            }
        }
        let Some(_st) = self.turn(st, t, k) else { return None };
        if x.store { None } else { Some(x.val) }
    }
}

struct Fin(Arc<Sched>, usize);
impl Drop for Fin { fn drop(&mut self) { self.0.finish(self.1); } }

/// runs a thread's program; `op(n)` performs one request and says whether it was granted
fn work(s: &Arc<Sched>, t: usize, prog: &[(usize, Option<bool>, usize)], mut op: impl FnMut(usize, usize) -> bool) {
    TID.with(|c| c.set(t + 1));
    let _fin = Fin(s.clone(), t);
    for (i, &(n, exp, line)) in prog.iter().enumerate() {
        OPNO.with(|c| c.set(i));
        s.op_start(t, i);
        let r = op(n, i);
        if Some(r) != exp { s.fail(format!("op {} of {} (line {}, count {}): granted={}, expected {:?}", i, NAMES[t], line, n, r, exp)); }
    }
}

fn run(case: Case) -> Result<usize, String> {
    let events = case.evs.len(); let case_k = case.k;
    let mine = [0, 1].map(|t| (0..events).filter(|&k| case.evs[k].thr == t).collect::<Vec<_>>());
    let s = Arc::new(Sched {
        evs: case.evs, mine, words: [AtomicUsize::new(0), AtomicUsize::new(0)], last_addr: AtomicUsize::new(0), early: case_k % 2 == 0,
        st: Mutex::new(St { cur: 0, own: [0, 0], running: [true, true], poison: None }), cv: Condvar::new(),
    });
    hooks::set_listener(Some(s.clone()));
    let (mut p, mut c) = ConcurrentHeapRB::<u64>::from(vec![u64::MAX; case.len]).split();
    p.prod_index(); s.words[0].store(s.last_addr.load(AO::SeqCst), AO::SeqCst);
    p.cons_index(); s.words[1].store(s.last_addr.load(AO::SeqCst), AO::SeqCst);
    let (slots, len) = (hooks::storage_ptr(&p) as usize, case.len);
    let [prog_p, prog_c] = case.prog;
    let (sp, sc) = (s.clone(), s.clone());
    let hp = std::thread::spawn(move || {
        let mut next = 0u64;
        let salt = case_k;
        work(&sp, 0, &prog_p, |n, i| {
            let v: Vec<u64> = (next..next + n as u64).collect();
            PROBE.with(|c| c.set(Probe { base: slots, modulus: len, start: next as usize % len, count: n, first: next }));
            // the machine's "request n slots, fill them, publish" is realised by every public form in turn
            let r = match (n, (salt + i) % 4) {
                (1, 1) => p.push(v[0]).is_ok(),
                (1, 2) => p.push_init(v[0]).is_ok(),
                (1, 3) => match p.get_next_item_mut_init() { Some(x) => { unsafe { x.write(v[0]); p.advance(1); } true } None => false },
                (k, 1) if k > 1 => p.push_slice_clone(&v).is_some(),
                (k, 2) if k > 1 => p.push_slice_init(&v).is_some(),
                (k, 3) if k > 1 => match unsafe { p.get_next_slices_mut(k) } { Some((h, t)) => { for (d, x) in h.iter_mut().chain(t.iter_mut()).zip(v.iter()) { *d = *x; } unsafe { p.advance(k) }; true } None => false },
                _ => p.push_slice(&v).is_some(),
            };
            if r { next += n as u64; }
            r
        });
        p                                                    // dropped by the main thread
    });
    let hc = std::thread::spawn(move || {
        let mut got: Vec<u64> = vec![];
        let salt = case_k;
        work(&sc, 1, &prog_c, |n, i| {
            let mut dst = vec![u64::MAX - 1; n];
            let variant = (salt / 4 + i) % 5;
            let probed = !(n == 1 && variant == 3);            // `pop` hands the value out by return: no destination to look at
            PROBE.with(|c| c.set(Probe { base: dst.as_mut_ptr() as usize, modulus: n.max(1), start: 0, count: if probed { n } else { 0 }, first: got.len() as u64 }));
            let r = match (n, variant) {
                (1, 1) => c.copy_item(&mut dst[0]).is_some(),
                (1, 2) => c.clone_item(&mut dst[0]).is_some(),
                (1, 3) => match c.pop() { Some(x) => { dst[0] = x; true } None => false },
                (1, 4) => match c.peek_ref() { Some(x) => { dst[0] = *x; unsafe { c.advance(1) }; true } None => false },
                (k, 1) if k > 1 => c.clone_slice(&mut dst).is_some(),
                (k, 2) if k > 1 => match c.peek_slice(k) { Some((h, t)) => { for (d, x) in dst.iter_mut().zip(h.iter().chain(t.iter())) { *d = *x; } unsafe { c.advance(k) }; true } None => false },
                _ => c.copy_slice(&mut dst).is_some(),
            };
            if r { got.extend_from_slice(&dst); }
            r
        });
        (c, got)
    });
    let (rp, rc) = (hp.join(), hc.join());
    let st = s.st.lock().unwrap();
    if let Some(what) = &st.poison { return Err(what.clone()); }
    let (Ok(p), Ok((c, got))) = (rp, rc) else { return Err("a worker thread panicked".into()) };
    if st.cur != events { return Err(format!("only {} of {} events performed", st.cur, events)); }
    drop(st);
    if case.race { return Err("the machine reports a data race".into()); }
    if got != (0..case.consumed as u64).collect::<Vec<_>>() { return Err(format!("consumer copied {:?}, expected 0..{}", got, case.consumed)); }
    let fin = [p.prod_index(), c.cons_index()];
    if fin != case.fin { return Err(format!("final prod_idx,cons_idx = {:?}, expected {:?}", fin, case.fin)); }
    Ok(events)
}

fn parse(text: &str) -> Result<Vec<Case>, String> {
    let thr = |w: &str| match w { "P" => Ok(0), "C" => Ok(1), _ => Err(format!("bad thread/word `{}`", w)) };
    let num = |w: &str| w.parse::<usize>().map_err(|_| format!("bad number `{}`", w));
    let (mut cases, mut cur): (Vec<Case>, Option<Case>) = (vec![], None);
    for (i, l) in text.lines().enumerate() {
        let line = i + 1;
        let w: Vec<&str> = l.split_whitespace().collect();
        let r: Result<(), String> = (|| {
            match (w.as_slice(), cur.as_mut()) {
                ([], _) => {}
                (["case", k, len], None) => cur = Some(Case { k: num(k)?, len: num(len.strip_prefix("len=").ok_or("len= expected")?)?, ..Default::default() }),
                (["op", t, n], Some(c)) => { let t = thr(t)?; c.prog[t].push((num(n)?, None, line));
                    // odd cases: an operation starts exactly at its `op` line; even cases: as early as the one-runner rule allows (right
                    // after the thread's previous operation) - there, whatever an operation does before its first atomic access is done
                    // BEFORE the other thread's intervening steps (a data read hoisted above the index load shows)
                    if c.k % 2 == 1 { let op = c.prog[t].len() - 1; c.evs.push(Ev { thr: t, store: false, word: 2, val: num(n)?, op, line, start: true }) } }
                (["res", t, g], Some(c)) => c.prog[thr(t)?].last_mut().ok_or("res without op")?.1 = Some(num(g)? == 1),
                (["ev", t, k @ ("ld" | "st"), wd, v], Some(c)) => {
                    let t = thr(t)?;
                    let op = c.prog[t].len().checked_sub(1).ok_or("ev without op")?;
                    c.evs.push(Ev { thr: t, store: *k == "st", word: thr(wd)?, val: num(v)?, op, line, start: false })
                }
                (["final", rest @ ..], Some(c)) => for kv in rest {
                    let (key, v) = kv.split_once('=').ok_or("key=value expected")?;
                    let v = num(v)?;
                    match key { "prod_idx" => c.fin[0] = v, "cons_idx" => c.fin[1] = v, "consumed" => c.consumed = v, "race" => c.race = v != 0, _ => return Err(format!("unknown key `{}`", key)) }
                },
                (["end"], Some(_)) => cases.push(cur.take().unwrap()),
                _ => return Err("unexpected line".into()),
            }
            Ok(())
        })();
        r.map_err(|e| format!("line {}: {}", line, e))?;
    }
    if cur.is_some() { return Err("unterminated case".into()); }
    Ok(cases)
}

fn main() {
    let path = std::env::args().nth(1).unwrap_or_else(|| { eprintln!("usage: concrun <file>"); std::process::exit(2) });
    let text = std::fs::read_to_string(&path).unwrap_or_else(|e| { eprintln!("concrun: {}: {}", path, e); std::process::exit(2) });
    let cases = parse(&text).unwrap_or_else(|e| { eprintln!("concrun: {}: {}", path, e); std::process::exit(2) });
    let (total, mut bad, t0) = (cases.len(), 0, Instant::now());
    for case in cases {
        let k = case.k;
        match run(case) {
            Ok(n) => println!("case {} ok events={}", k, n),
            Err(what) => { bad += 1; println!("case {} MISMATCH {}", k, what) }
        }
    }
    hooks::set_listener(None);
    eprintln!("concrun: {} cases, {} mismatches, {:.2} s", total, bad, t0.elapsed().as_secs_f64());
    if bad > 0 { std::process::exit(1); }
}
