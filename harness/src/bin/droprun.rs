//! Scripted replay of concurrent iterator drops: performs the schedules of the drop-protocol machine
//! (coq/Conc/Drop.v, printed by ocaml/dropdriver.ml as `dropmodel all|rand`) on the real crate.
//!
//! A heap `ConcurrentHeapRB` holding drop-recording items is split into 2 (`split`: P, C) or 3 (`split_mut`: P, W, C)
//! iterators; every iterator is moved to an OS thread of its own and dropped there.  The verif-hooks listener turns
//! the threads into coroutines: a role thread stops at every hook point (before each atomic access, fence and
//! BufFree event of the crate, and at one harness point before its last access) and goes on only when the controller
//! releases it; the controller releases one thread per line of the case and waits until that thread stops again (or
//! ends) before it looks at the next line.  So exactly one role thread runs at any time, the accesses take effect in
//! the order of the case, and the RMW of a line has read its value before the next line starts.
//!
//! Lines of a case (format: ocaml/dropdriver.ml) and what is checked when thread T is released for them:
//!   last T sees w              T waits at the harness point; released, it asks its (possibly wrapped) iterator
//!                              is_prod_alive / is_work_alive / is_cons_alive - three Acquire loads of the liveness
//!                              word A, the only accesses allowed here -, buf_len, and reads the identities of the items
//!                              in the slots (plain reads of buffer memory): answers = bits of w, buffer not yet freed
//!   pre T fence SeqCst         T waits at a Fence(SeqCst)                              } the two fences of BufRef::set_*_alive;
//!   ev T and A m reads v       T waits at FetchAnd on A, operand m, AcqRel; the        } no step of the machine, named by
//!                              value it read (hook `after`) is v                       } the case all the same
//!   post T fence SeqCst        T waits at a Fence(SeqCst)
//!   free T                     T waits at BufFree of the address of the BufAlloc event; released, it frees the buffer:
//!                              all items are dropped now, by T, exactly once
//!   final frees=1 word=0       exactly one BufFree was performed, by the thread of the `free` line (= the thread whose
//!                              RMW read exactly its own bit); afterwards every thread ends without another hook event
//! A thread that waits somewhere else, has already ended, or still has hook events when the case is over, is a
//! deviation.  Deviations do not stop the replay (the thread is released all the same, leftover hook points are
//! released round robin at the end), so that the outcome of a wrong protocol is seen as well: a thread about to free
//! the buffer a second time, or to access the buffer structure after it was freed, is reported and unwound inside the
//! hook instead of being allowed to do it.  3 s without progress poison the case: everything is released at once.
//!
//!   droprun <file>      one line per case: `case <k> ok events=<n>` / `case <k> MISMATCH <what>`; exit code 1 on mismatch
use mutringbuf::iterators::async_iterators::AsyncIterator;
use mutringbuf::iterators::{AsyncDetached, Detached};
use mutringbuf::verif_hooks::{self as hooks, Event, Kind, Listener};
use mutringbuf::{ConcurrentHeapRB, HeapSplit, MRBIterator};
use std::cell::Cell;
use std::sync::atomic::{AtomicUsize, Ordering as AO};
use std::sync::{Arc, Condvar, Mutex, MutexGuard};
use std::time::{Duration, Instant};

const TIMEOUT: Duration = Duration::from_secs(3);
const NAMES: [&str; 3] = ["P", "W", "C"];
const LEN: usize = 4;
const NOLINE: usize = usize::MAX;
type RB = ConcurrentHeapRB<Tracked>;

thread_local! {
    static TID: Cell<usize> = Cell::new(0);                 // 0: main thread (controller), 1: P, 2: W, 3: C
    static IN_LAST: Cell<bool> = Cell::new(false);          // inside the observations of a `last` line
}

/// who dropped which item, and during which line of the case
struct Ledger { now: AtomicUsize, drops: Mutex<Vec<(usize, usize, usize)>> }

/// an item of the buffer: never all-zero bytes (the Arc), its destruction is recorded
struct Tracked { id: usize, ledger: Arc<Ledger> }
impl Drop for Tracked {
    fn drop(&mut self) {
        self.ledger.drops.lock().unwrap().push((self.id, TID.with(|c| c.get()), self.ledger.now.load(AO::SeqCst)));
    }
}

/// what a thread sees at its last access
#[derive(Clone, Copy, Debug)]
#[allow(dead_code)]
struct Obs { alive: [bool; 3], len: usize, ids_ok: bool }

fn look<I: MRBIterator<Item = Tracked>>(alive: [bool; 3], it: &I) -> Obs {
    let (len, slots) = (it.buf_len(), hooks::storage_ptr(it) as *const Tracked);  // UnsafeSyncCell<T> is repr(transparent)
    let ids_ok = len == LEN && (0..LEN).all(|j| unsafe { std::ptr::read_volatile(std::ptr::addr_of!((*slots.add(j)).id)) } == j);
    Obs { alive, len, ids_ok }
}

/// the four ways an iterator is held when it is dropped
trait Role: Send + 'static { fn observe(&self) -> Obs; }
struct Plain<I>(I);
struct Det<I: MRBIterator>(Detached<I>);
struct Asy<A>(A);
struct ADet<A: AsyncIterator>(AsyncDetached<A, RB>);
impl<I: MRBIterator<Item = Tracked> + Send + 'static> Role for Plain<I> {
    fn observe(&self) -> Obs { look([self.0.is_prod_alive(), self.0.is_work_alive(), self.0.is_cons_alive()], &self.0) }
}
impl<I: MRBIterator<Item = Tracked> + Send + 'static> Role for Det<I> {
    fn observe(&self) -> Obs { look([self.0.is_prod_alive(), self.0.is_work_alive(), self.0.is_cons_alive()], self.0.verif_inner()) }
}
impl<A: AsyncIterator + Send + 'static> Role for Asy<A> where A::I: MRBIterator<Item = Tracked> {
    fn observe(&self) -> Obs { look([AsyncIterator::is_prod_alive(&self.0), AsyncIterator::is_work_alive(&self.0), AsyncIterator::is_cons_alive(&self.0)], self.0.inner()) }
}
impl<A: AsyncIterator<B = RB> + Send + 'static> Role for ADet<A> where A::I: MRBIterator<Item = Tracked> {
    fn observe(&self) -> Obs {
        let a = self.0.verif_inner();
        look([AsyncIterator::is_prod_alive(a), AsyncIterator::is_work_alive(a), AsyncIterator::is_cons_alive(a)], a.inner())
    }
}

#[derive(Clone, Copy, PartialEq, Debug)]
enum LK { Last { sees: usize }, Pre, And { mask: usize, reads: usize }, Post, Free }
#[derive(Clone, Copy)]
struct Line { kind: LK, thr: usize, line: usize }
impl Line {
    fn show(&self) -> String {
        let t = NAMES[self.thr];
        match self.kind {
            LK::Last { sees } => format!("last {} sees {}", t, sees),
            LK::Pre => format!("pre {} fence SeqCst", t),
            LK::And { mask, reads } => format!("ev {} and A {} reads {}", t, mask, reads),
            LK::Post => format!("post {} fence SeqCst", t),
            LK::Free => format!("free {}", t),
        }
    }
}

#[derive(Clone, Copy, PartialEq, Debug)]
enum Variant { Plain, Detached, Async, ADetached }
struct Case { k: usize, stages: usize, variant: Variant, lines: Vec<Line>, frees: usize, word: usize }

/// where a role thread waits
#[derive(Clone, Copy, PartialEq)]
enum At { Start, Hook(Kind, usize, AO, usize) }
#[derive(Clone, Copy, PartialEq)]
enum Ph { Running, Waiting(At), Done }

struct St {
    ph: [Ph; 3], grant: [bool; 3], poison: Option<String>,
    dev: Vec<String>,                                       // deviations, in order of discovery
    freed: bool, frees: Vec<usize>,                         // the BufFree events that were let through (thread)
    last_read: [Option<usize>; 3], obs: [Option<Obs>; 3], aborted: [bool; 3],
    cur: String,                                            // the line being performed, for messages
}

struct Sched {
    st: Mutex<St>, cv: Condvar,
    a_addr: AtomicUsize, buf: AtomicUsize, allocs: AtomicUsize, last_addr: AtomicUsize,
}

/// payload of the unwinding that keeps a thread from a double free / use after free
struct Stopped;

impl Sched {
    fn in_buf(&self, addr: usize) -> bool { let b = self.buf.load(AO::SeqCst); b != 0 && addr >= b && addr < b + std::mem::size_of::<RB>() }
    fn describe(&self, at: At) -> String {
        match at {
            At::Start => "the point before its last access".into(),
            At::Hook(Kind::Fence, _, o, _) => format!("Fence ({:?})", o),
            At::Hook(k @ (Kind::BufFree | Kind::BufAlloc), a, _, _) => format!("{:?} of {}", k, if a == self.buf.load(AO::SeqCst) { "the buffer".to_string() } else { format!("{:#x}", a) }),
            At::Hook(k, a, o, v) => {
                let w = if a == self.a_addr.load(AO::SeqCst) { "A".to_string() }
                        else if self.in_buf(a) { format!("buffer+{}", a - self.buf.load(AO::SeqCst)) } else { format!("{:#x}", a) };
                if k == Kind::Load { format!("Load {} ({:?})", w, o) } else { format!("{:?} {} {} ({:?})", k, w, v, o) }
            }
        }
    }
    fn poison(&self, st: &mut St, what: String) {
        if st.poison.is_none() { st.poison = Some(what); }
        self.cv.notify_all();
    }
    /// role thread: stop here until the controller releases this thread (or the case is poisoned)
    fn stop(&self, t: usize, at: At) {
        let mut st = self.st.lock().unwrap();
        if st.poison.is_none() {
            st.ph[t] = Ph::Waiting(at);
            self.cv.notify_all();
            let deadline = Instant::now() + 4 * TIMEOUT;
            while !st.grant[t] && st.poison.is_none() {
                let now = Instant::now();
                if now >= deadline { let what = format!("{} was never released from {}", NAMES[t], self.describe(at)); self.poison(&mut st, what); break; }
                st = self.cv.wait_timeout(st, deadline - now).unwrap().0;
            }
            st.grant[t] = false;
            st.ph[t] = Ph::Running;
        }
        // released: the buffer may be gone
        if let At::Hook(kind, addr, _, _) = at {
            let stopper = match kind {
                Kind::BufFree if st.freed && addr == self.buf.load(AO::SeqCst) => Some("DOUBLE FREE"),
                Kind::Load | Kind::Store | Kind::FetchAnd | Kind::FetchOr if st.freed && self.in_buf(addr) => Some("USE AFTER FREE"),
                _ => None,
            };
            if let Some(what) = stopper {
                let by = st.frees.iter().map(|&x| NAMES[x]).collect::<Vec<_>>().join(",");
                let msg = format!("{}: {} is about to perform {} after the buffer was freed by {} (stopped)", what, NAMES[t], self.describe(at), by);
                st.dev.push(msg);
                st.aborted[t] = true;
                drop(st);
                std::panic::resume_unwind(Box::new(Stopped));
            }
            if kind == Kind::BufFree { st.freed = true; st.frees.push(t); }
        }
    }
    /// controller: wait until no role thread is running
    fn quiesce(&self) -> Result<MutexGuard<'_, St>, String> {
        let mut st = self.st.lock().unwrap();
        let deadline = Instant::now() + TIMEOUT;
        loop {
            if let Some(p) = &st.poison { return Err(p.clone()); }
            if st.ph.iter().all(|p| *p != Ph::Running) { return Ok(st); }
            let now = Instant::now();
            if now >= deadline {
                let who = (0..3).filter(|&t| st.ph[t] == Ph::Running).map(|t| NAMES[t]).collect::<Vec<_>>().join(",");
                let what = format!("timeout: {} still running 3 s after `{}`", who, st.cur);
                self.poison(&mut st, what.clone());
                return Err(what);
            }
            st = self.cv.wait_timeout(st, deadline - now).unwrap().0;
        }
    }
    fn release(&self, st: &mut St, t: usize) { st.grant[t] = true; st.ph[t] = Ph::Running; self.cv.notify_all(); }
}

impl Listener for Sched {
    fn before(&self, e: &Event) -> Option<usize> {
        let me = TID.with(|c| c.get());
        if me == 0 {                                         // set-up on the main thread: remember the addresses
            match e.kind {
                Kind::BufAlloc => { self.buf.store(e.addr, AO::SeqCst); self.allocs.fetch_add(1, AO::SeqCst); }
                Kind::BufFree => self.st.lock().unwrap().dev.push("BufFree on the main thread".into()),
                _ => self.last_addr.store(e.addr, AO::SeqCst),
            }
            return None;
        }
        let t = me - 1;
        let at = At::Hook(e.kind, e.addr, e.order, e.value);
        if IN_LAST.with(|c| c.get()) {                       // the observations of a `last` line: loads of A only
            if !(e.kind == Kind::Load && e.addr == self.a_addr.load(AO::SeqCst) && matches!(e.order, AO::Acquire | AO::SeqCst)) {
                let mut st = self.st.lock().unwrap();
                let what = format!("`{}`: is_*_alive of {} performs {}, expected Load A (Acquire)", st.cur, NAMES[t], self.describe(at));
                st.dev.push(what);
            }
            return None;
        }
        self.stop(t, at);
        None
    }
    fn after(&self, e: &Event, read: usize) {
        let me = TID.with(|c| c.get());
        if me != 0 && e.kind == Kind::FetchAnd { self.st.lock().unwrap().last_read[me - 1] = Some(read); }
    }
}

struct Fin(Arc<Sched>, usize);
impl Drop for Fin {
    fn drop(&mut self) { let mut st = self.0.st.lock().unwrap(); st.ph[self.1] = Ph::Done; self.0.cv.notify_all(); }
}

/// a role thread: last access, then the drop
fn role<R: Role>(s: Arc<Sched>, t: usize, it: R) -> std::thread::JoinHandle<()> {
    std::thread::spawn(move || {
        TID.with(|c| c.set(t + 1));
        let _fin = Fin(s.clone(), t);
        s.stop(t, At::Start);
        if s.st.lock().unwrap().freed {
            s.st.lock().unwrap().dev.push(format!("USE AFTER FREE: last access of {} after the buffer was freed (not performed)", NAMES[t]));
            std::mem::forget(it);
            return;
        }
        IN_LAST.with(|c| c.set(true));
        let o = it.observe();
        IN_LAST.with(|c| c.set(false));
        s.st.lock().unwrap().obs[t] = Some(o);
        drop(it);
    })
}

fn expect(s: &Sched, ln: &Line, at: At) -> Option<String> {
    let ok = match (ln.kind, at) {
        (LK::Last { .. }, At::Start) => true,
        (LK::Pre | LK::Post, At::Hook(Kind::Fence, _, AO::SeqCst, _)) => true,
        (LK::And { mask, .. }, At::Hook(Kind::FetchAnd, a, AO::AcqRel, v)) => a == s.a_addr.load(AO::SeqCst) && v == mask,
        (LK::Free, At::Hook(Kind::BufFree, a, _, _)) => a == s.buf.load(AO::SeqCst),
        _ => false,
    };
    if ok { None } else { Some(format!("line {}: expected `{}`, {} waits at {}", ln.line, ln.show(), NAMES[ln.thr], s.describe(at))) }
}

fn run(case: &Case) -> Result<usize, String> {
    let present: Vec<usize> = if case.stages == 3 { vec![0, 1, 2] } else { vec![0, 2] };
    let mut ph = [Ph::Done; 3];
    for &t in &present { ph[t] = Ph::Running; }
    let s = Arc::new(Sched {
        st: Mutex::new(St { ph, grant: [false; 3], poison: None, dev: vec![], freed: false, frees: vec![],
                            last_read: [None; 3], obs: [None; 3], aborted: [false; 3], cur: "start".into() }),
        cv: Condvar::new(),
        a_addr: AtomicUsize::new(0), buf: AtomicUsize::new(0), allocs: AtomicUsize::new(0), last_addr: AtomicUsize::new(0),
    });
    hooks::set_listener(Some(s.clone()));
    let ledger = Arc::new(Ledger { now: AtomicUsize::new(NOLINE), drops: Mutex::new(vec![]) });
    let rb = RB::from((0..LEN).map(|id| Tracked { id, ledger: ledger.clone() }).collect::<Vec<_>>());

    // split, find the liveness word (the word the iterator's is_cons_alive loads), one thread per iterator
    let word0 = if case.stages == 3 { 7 } else { 5 };
    let probe = |r: &dyn Role| -> Result<(), String> {
        let o = r.observe();
        s.a_addr.store(s.last_addr.load(AO::SeqCst), AO::SeqCst);
        let w = o.alive.iter().enumerate().map(|(i, &b)| (b as usize) << i).sum::<usize>();
        if w != word0 || !o.ids_ok { return Err(format!("after the split: {:?}, expected the word {}", o, word0)); }
        if s.allocs.load(AO::SeqCst) != 1 || !s.in_buf(s.a_addr.load(AO::SeqCst)) { return Err("after the split: no BufAlloc event / the liveness word is outside the boxed buffer".into()); }
        Ok(())
    };
    macro_rules! go {
        ($wrap: expr, $p: ident, $c: ident) => {{ let (p, c) = ($wrap($p), $wrap($c)); probe(&p)?; vec![role(s.clone(), 0, p), role(s.clone(), 2, c)] }};
        ($wrap: expr, $p: ident, $w: ident, $c: ident) => {{ let (p, w, c) = ($wrap($p), $wrap($w), $wrap($c)); probe(&p)?; vec![role(s.clone(), 0, p), role(s.clone(), 1, w), role(s.clone(), 2, c)] }};
    }
    macro_rules! plain { () => { |x| Plain(x) } }
    macro_rules! det { () => { |x| Det(MRBIterator::detach(x)) } }
    macro_rules! asy { () => { |x| Asy(x) } }
    macro_rules! adet { () => { |x| ADet(AsyncIterator::detach(x)) } }
    let handles = match (case.variant, case.stages) {
        (Variant::Plain, 2) => { let (p, c) = rb.split(); go!(plain!(), p, c) }
        (Variant::Plain, _) => { let (p, w, c) = rb.split_mut(); go!(plain!(), p, w, c) }
        (Variant::Detached, 2) => { let (p, c) = rb.split(); go!(det!(), p, c) }
        (Variant::Detached, _) => { let (p, w, c) = rb.split_mut(); go!(det!(), p, w, c) }
        (Variant::Async, 2) => { let (p, c) = rb.split_async(); go!(asy!(), p, c) }
        (Variant::Async, _) => { let (p, w, c) = rb.split_mut_async(); go!(asy!(), p, w, c) }
        (Variant::ADetached, 2) => { let (p, c) = rb.split_async(); go!(adet!(), p, c) }
        (Variant::ADetached, _) => { let (p, w, c) = rb.split_mut_async(); go!(adet!(), p, w, c) }
    };

    let mut free_line = None;
    let body = (|| -> Result<(), String> {
        for (i, ln) in case.lines.iter().enumerate() {
            let t = ln.thr;
            let mut st = s.quiesce()?;
            let at = match st.ph[t] {
                Ph::Waiting(at) => at,
                _ => { st.dev.push(format!("line {}: expected `{}`, {} has already ended", ln.line, ln.show(), NAMES[t])); continue }
            };
            if let Some(what) = expect(&s, ln, at) { st.dev.push(what); }
            if ln.kind == LK::Free { free_line = Some((i, t)); }
            ledger.now.store(i, AO::SeqCst);
            st.cur = ln.show();
            st.last_read[t] = None;
            s.release(&mut st, t);
            drop(st);
            let mut st = s.quiesce()?;
            ledger.now.store(NOLINE, AO::SeqCst);
            match ln.kind {
                LK::And { reads, .. } => if st.last_read[t] != Some(reads) {
                    let what = format!("line {}: `{}`: the RMW read {:?}", ln.line, ln.show(), st.last_read[t]);
                    st.dev.push(what);
                },
                LK::Last { sees } => {
                    let exp = [sees & 1 != 0, sees & 2 != 0, sees & 4 != 0];
                    match st.obs[t] {
                        Some(o) if o.alive == exp && o.ids_ok => {}
                        o => { let what = format!("line {}: `{}`: {} observes {:?}", ln.line, ln.show(), NAMES[t], o); st.dev.push(what); }
                    }
                }
                _ => {}
            }
        }
        // the case is over: nobody may have anything left to do
        for round in 0.. {
            let mut st = s.quiesce()?;
            let Some(t) = (0..3).map(|j| (round + j) % 3).find(|&t| matches!(st.ph[t], Ph::Waiting(_))) else { break };
            let Ph::Waiting(at) = st.ph[t] else { unreachable!() };
            let what = format!("after the last line: {} still has {} to perform", NAMES[t], s.describe(at));
            st.dev.push(what);
            st.cur = "the last line".into();
            if round > 64 { let what = "more than 64 leftover events".to_string(); s.poison(&mut st, what.clone()); return Err(what); }
            s.release(&mut st, t);
        }
        Ok(())
    })();
    let joined: Vec<_> = handles.into_iter().map(|h| h.join()).collect();
    hooks::set_listener(None);
    let st = s.st.lock().unwrap();
    let mut dev = st.dev.clone();
    if let Err(what) = body { dev.insert(0, what); }
    for (j, r) in joined.iter().enumerate() {
        let t = present[j];
        if r.is_err() && !st.aborted[t] { dev.push(format!("{} panicked", NAMES[t])); }
    }
    // the outcome: freed exactly once, by the thread of the `free` line, all items dropped then and there
    let by = st.frees.iter().map(|&x| NAMES[x]).collect::<Vec<_>>().join(",");
    if st.frees.len() != case.frees {
        dev.push(format!("OUTCOME frees={} [{}]{}, expected {}", st.frees.len(), by, if st.frees.is_empty() { " (LEAK)" } else { "" }, case.frees));
    } else if let Some((_, t)) = free_line { if st.frees != [t] { dev.push(format!("OUTCOME freed by {}, expected {}", by, NAMES[t])); } }
    let drops = ledger.drops.lock().unwrap();
    for id in 0..LEN {
        let d: Vec<_> = drops.iter().filter(|d| d.0 == id).collect();
        let fine = match (free_line, d.as_slice()) { (Some((i, t)), [d]) => d.1 == t + 1 && d.2 == i, _ => false };
        if !fine && !(st.frees.is_empty() && d.is_empty()) {  // a leak is reported once, above
            dev.push(format!("OUTCOME item {} dropped {} times (thread, line index: {:?}), expected once by the thread of the `free` line", id, d.len(), d.iter().map(|d| (d.1, d.2 as isize)).collect::<Vec<_>>()));
            break;
        }
    }
    if dev.is_empty() { return Ok(case.lines.len()); }
    let outcome: Vec<&String> = dev.iter().skip(1).filter(|d| d.starts_with("OUTCOME") || d.starts_with("DOUBLE") || d.starts_with("USE AFTER")).collect();
    let mut msg = dev[0].clone();
    if dev.len() > 1 { msg.push_str(&format!(" [+{} more]", dev.len() - 1)); }
    for o in outcome { msg.push_str("; "); msg.push_str(o); }
    Err(msg)
}

fn parse(text: &str) -> Result<Vec<Case>, String> {
    let thr = |w: &str| match w { "P" => Ok(0), "W" => Ok(1), "C" => Ok(2), _ => Err(format!("bad thread `{}`", w)) };
    let num = |w: &str| w.parse::<usize>().map_err(|_| format!("bad number `{}`", w));
    let (mut cases, mut cur): (Vec<Case>, Option<Case>) = (vec![], None);
    for (i, l) in text.lines().enumerate() {
        let line = i + 1;
        let w: Vec<&str> = l.split_whitespace().collect();
        let r: Result<(), String> = (|| {
            let push = |c: &mut Case, t: &str, kind: LK| -> Result<(), String> {
                let t = thr(t)?;
                if t == 1 && c.stages == 2 { return Err("a worker line in a two-stage case".into()); }
                c.lines.push(Line { kind, thr: t, line });
                Ok(())
            };
            match (w.as_slice(), cur.as_mut()) {
                ([], _) => {}
                (["case", k, st, v], None) => cur = Some(Case {
                    k: num(k)?,
                    stages: match *st { "stages=2" => 2, "stages=3" => 3, _ => return Err("stages=2 or stages=3 expected".into()) },
                    variant: match *v { "variant=plain" => Variant::Plain, "variant=detached" => Variant::Detached, "variant=async" => Variant::Async,
                                        "variant=adetached" => Variant::ADetached, _ => return Err("variant=plain|detached|async|adetached expected".into()) },
                    lines: vec![], frees: usize::MAX, word: usize::MAX }),
                (["last", t, "sees", v], Some(c)) => push(c, t, LK::Last { sees: num(v)? })?,
                (["pre", t, "fence", "SeqCst"], Some(c)) => push(c, t, LK::Pre)?,
                (["post", t, "fence", "SeqCst"], Some(c)) => push(c, t, LK::Post)?,
                (["ev", t, "and", "A", m, "reads", v], Some(c)) => push(c, t, LK::And { mask: num(m)?, reads: num(v)? })?,
                (["free", t], Some(c)) => push(c, t, LK::Free)?,
                (["final", f, wd], Some(c)) => {
                    c.frees = num(f.strip_prefix("frees=").ok_or("frees= expected")?)?;
                    c.word = num(wd.strip_prefix("word=").ok_or("word= expected")?)?;
                }
                (["end"], Some(c)) => {
                    // the case must be consistent in itself: the values read follow the modification order of the word
                    let mut word = if c.stages == 3 { 7 } else { 5 };
                    for ln in &c.lines {
                        match ln.kind {
                            LK::And { mask, reads } => { if reads != word { return Err(format!("line {} reads {}, the word is {}", ln.line, reads, word)); } word &= mask; }
                            LK::Last { sees } => if sees != word { return Err(format!("line {} sees {}, the word is {}", ln.line, sees, word)); },
                            _ => {}
                        }
                    }
                    if c.word != word || c.frees == usize::MAX { return Err(format!("final line missing or wrong (the word ends as {})", word)); }
                    cases.push(cur.take().unwrap())
                }
                _ => return Err("unexpected line".into()),
            }
            Ok(())
        })();
        r.map_err(|e| format!("line {}: {}", line, e))?;
    }
    if cur.is_some() { return Err("unterminated case".into()); }
    Ok(cases)
}

fn main() {
    let path = std::env::args().nth(1).unwrap_or_else(|| { eprintln!("usage: droprun <file>"); std::process::exit(2) });
    let text = std::fs::read_to_string(&path).unwrap_or_else(|e| { eprintln!("droprun: {}: {}", path, e); std::process::exit(2) });
    let cases = parse(&text).unwrap_or_else(|e| { eprintln!("droprun: {}: {}", path, e); std::process::exit(2) });
    let (total, mut bad, t0) = (cases.len(), 0, Instant::now());
    let out = std::io::stdout();
    let mut out = std::io::BufWriter::new(out.lock());
    use std::io::Write;
    for case in &cases {
        match run(case) {
            Ok(n) => writeln!(out, "case {} ok events={}", case.k, n).unwrap(),
            Err(what) => { bad += 1; writeln!(out, "case {} MISMATCH {}", case.k, what).unwrap() }
        }
    }
    out.flush().unwrap();
    hooks::set_listener(None);
    eprintln!("droprun: {} cases, {} mismatches, {:.2} s", total, bad, t0.elapsed().as_secs_f64());
    if bad > 0 { std::process::exit(1); }
}
