//! Sequential correspondence runner: executes history files against the real crate and prints one
//! observation line per step, in the same format as the extracted Coq model (ocaml/driver.ml).
use mrb_harness::*;
use mutringbuf::iterators::{ConsIter, Detached, ProdIter, WorkIter};
use mutringbuf::verif_hooks as hooks;
use mutringbuf::{ConcurrentHeapRB, LocalHeapRB, MRBIterator, MutRB};
#[cfg(not(feature = "vmem"))]
use mutringbuf::{ConcurrentStackRB, LocalStackRB, StackSplit};
use mutringbuf::HeapSplit;
use std::io::Write;

/// the two slices of a grant (one mirrored slice under `vmem`) as raw parts
trait Parts<T> { fn parts(self) -> (*const T, usize, *const T, usize); }
impl<'a, T> Parts<T> for (&'a mut [T], &'a mut [T]) { fn parts(self) -> (*const T, usize, *const T, usize) { (self.0.as_ptr(), self.0.len(), self.1.as_ptr(), self.1.len()) } }
impl<'a, T> Parts<T> for (&'a [T], &'a [T]) { fn parts(self) -> (*const T, usize, *const T, usize) { (self.0.as_ptr(), self.0.len(), self.1.as_ptr(), self.1.len()) } }
impl<'a, T> Parts<T> for &'a mut [T] { fn parts(self) -> (*const T, usize, *const T, usize) { (self.as_ptr(), self.len(), self.as_ptr(), 0) } }
impl<'a, T> Parts<T> for &'a [T] { fn parts(self) -> (*const T, usize, *const T, usize) { (self.as_ptr(), self.len(), self.as_ptr(), 0) } }

enum Slot<I: MRBIterator> { Att(I), Det(Detached<I>), Gone }

macro_rules! both {
    ($slot:expr, $it:ident => $e:expr) => {
        match $slot { Slot::Att($it) => Some($e), Slot::Det($it) => Some($e), Slot::Gone => None }
    };
}

impl<I: MRBIterator> Slot<I> {
    fn here(&self) -> bool { !matches!(self, Slot::Gone) }
    fn ix(&self) -> Option<usize> { both!(self, it => it.index()) }
    fn ca(&self) -> Option<usize> {
        match self { Slot::Att(it) => Some(hooks::cached_avail(it)), Slot::Det(d) => Some(hooks::cached_avail(d.verif_inner())), Slot::Gone => None }
    }
    fn pubs(&self) -> Option<(usize, usize, usize, bool, bool, bool)> {
        both!(self, it => (it.prod_index(), it.work_index(), it.cons_index(), it.is_prod_alive(), it.is_work_alive(), it.is_cons_alive()))
    }
    fn base(&self) -> Option<*const I::Item> {
        match self { Slot::Att(it) => Some(hooks::storage_ptr(it) as *const I::Item), Slot::Det(d) => Some(hooks::storage_ptr(d.verif_inner()) as *const I::Item), Slot::Gone => None }
    }
}

#[derive(Clone, Copy, PartialEq)]
enum St { P, W, C }
fn st(s: &str) -> St { match s { "P" => St::P, "W" => St::W, "C" => St::C, _ => panic!("stage {s}") } }

fn opt(v: Option<usize>) -> String { v.map(|x| x.to_string()).unwrap_or("-".into()) }
fn fmt_list(v: &[u64]) -> String { format!("[{}]", v.iter().map(|x| x.to_string()).collect::<Vec<_>>().join(",")) }
fn ints(s: &str) -> Vec<u64> { if s == "-" { vec![] } else { s.split(',').map(|x| x.parse().unwrap()).collect() } }

enum Next { End, DropBuf, Resplit(bool) }

struct Session<'b, B: MutRB, const WK: bool> {
    p: Slot<ProdIter<'b, B>>,
    w: Slot<WorkIter<'b, B>>,
    c: Slot<ConsIter<'b, B, WK>>,
    heap: bool,
    freed: bool,
    len: usize,
    final_probe: Option<Vec<u64>>,
    /// what `available()` answered in the operation just before this one (`adv <k> =<n>` advances by what the crate itself reported)
    last_avail: Option<(St, usize)>,
}

impl<'b, T: ItemX, B: MutRB<Item = T>, const WK: bool> Session<'b, B, WK> {
    fn obs(&self) -> String {
        if self.freed { return "ix=-,-,- | pub=-,-,- | alive=--- | ca=-,-,- | freed=1".into(); }
        let pubs = self.p.pubs().or(self.w.pubs()).or(self.c.pubs());
        let (ps, al) = match pubs {
            Some((a, b, c, x, y, z)) => (format!("{a},{b},{c}"), format!("{}{}{}", x as u8, y as u8, z as u8)),
            None => ("-,-,-".into(), "---".into()),
        };
        format!("ix={},{},{} | pub={} | alive={} | ca={},{},{} | freed=0",
            opt(self.p.ix()), opt(self.w.ix()), opt(self.c.ix()), ps, al, opt(self.p.ca()), opt(self.w.ca()), opt(self.c.ca()))
    }
    fn base(&self) -> *const T { self.p.base().or(self.w.base()).or(self.c.base()).unwrap() }
    fn off(&self, p: *const T) -> usize { (p as usize - self.base() as usize) / std::mem::size_of::<T>() }
    fn slices(&self, h: &[T], t: &[T]) -> String {
        let hv: Vec<u64> = h.iter().map(|x| unsafe { T::peek(x) }).collect();
        let tv: Vec<u64> = t.iter().map(|x| unsafe { T::peek(x) }).collect();
        let toff = if t.is_empty() { 0 } else { self.off(t.as_ptr()) };
        if toff == 0 { format!("slices {} {} {}", self.off(h.as_ptr()), fmt_list(&hv), fmt_list(&tv)) }
        else { format!("slices {} {} @{}{}", self.off(h.as_ptr()), fmt_list(&hv), toff, fmt_list(&tv)) }
    }
    /// snapshot of `n` slots starting at slot `i` (wrapping): used to see whether data is in place when an index is published
    fn slot_probe(&self, i: usize, n: usize) -> Box<dyn Fn() -> Vec<u64>> {
        let base = self.base() as usize; let len = self.len;
        Box::new(move || (0..n).map(|j| { let mut k = i + j; if k >= len { k -= len; } unsafe { T::peek((base as *const T).add(k)) } }).collect())
    }
    fn set_probe(&mut self, f: Box<dyn Fn() -> Vec<u64>>) { PROBE.with(|p| *p.borrow_mut() = Some(f)); }
    fn end_probe(&mut self) { self.final_probe = PROBE.with(|p| p.borrow_mut().take()).map(|f| f()); }
    fn usable(&self, k: St) -> bool {
        !self.freed && match k { St::P => self.p.here(), St::W => self.w.here(), St::C => self.c.here() }
    }
    fn is_det(&self, k: St) -> bool {
        match k { St::P => matches!(self.p, Slot::Det(_)), St::W => matches!(self.w, Slot::Det(_)), St::C => matches!(self.c, Slot::Det(_)) }
    }
    fn attached(&self, k: St) -> bool { self.usable(k) && !self.is_det(k) }
    fn detached(&self, k: St) -> bool { self.usable(k) && self.is_det(k) }

    /// runs one operation; returns the result text (None = end of session requested)
    fn step(&mut self, words: &[&str]) -> Result<String, Next> {
        macro_rules! on {
            ($k:expr, $it:ident => $e:expr) => {
                match $k { St::P => both!(&mut self.p, $it => $e), St::W => both!(&mut self.w, $it => $e), St::C => both!(&mut self.c, $it => $e) }.unwrap()
            };
        }
        macro_rules! sl { ($r:expr) => { match $r { Some((h, t)) => { let s = self.slices(h, t); s } None => "none".to_string() } } }
        let num = |i: usize| -> usize { words[i].trim_start_matches('=').parse().unwrap() };
        let bad = Ok("bad".to_string());
        let prev_avail = self.last_avail.take();
        let r = match words[0] {
            "avail" => { let k = st(words[1]); if !self.usable(k) { return bad; } let a = on!(k, it => it.available()); self.last_avail = Some((k, a)); format!("num {}", a) }
            "adv" => { let k = st(words[1]); if !self.usable(k) { return bad; }
                // `adv <k> =<n>` directly after `avail <k>`: the usual `let n = it.available(); it.advance(n)` - by what the crate answered
                let n = match prev_avail { Some((pk, a)) if pk == k && words[2].starts_with('=') => a, _ => num(2) };
                on!(k, it => unsafe { it.advance(n) }); "unit".into() }
            "get1" => { let k = st(words[1]); if !self.usable(k) { return bad; }
                let r: Option<*const T> = on!(k, it => it.get_workable().map(|x| x as *const T));
                match r { Some(p) => format!("ref {} {}", self.off(p), unsafe { T::peek(p) }), None => "none".into() } }
            "nextitem" => { if !self.attached(St::P) { return bad; }
                let r = if let Slot::Att(p) = &mut self.p { unsafe { p.get_next_item_mut() }.map(|x| x as *const T) } else { unreachable!() };
                match r { Some(p) => format!("ref {} {}", self.off(p), unsafe { T::peek(p) }), None => "none".into() } }
            "nextinit" => { if !self.attached(St::P) { return bad; }
                let r = if let Slot::Att(p) = &mut self.p { p.get_next_item_mut_init().map(|x| x as *const T) } else { unreachable!() };
                match r { Some(p) => format!("ref {} {}", self.off(p), unsafe { T::peek(p) }), None => "none".into() } }
            "peek" => { if !self.attached(St::C) { return bad; }
                let r = if let Slot::Att(c) = &mut self.c { c.peek_ref().map(|x| x as *const T) } else { unreachable!() };
                match r { Some(p) => format!("ref {} {}", self.off(p), unsafe { T::peek(p) }), None => "none".into() } }
            "getn" => { let k = st(words[1]); if !self.usable(k) { return bad; } let n = num(2);
                let r: Option<(*const T, usize, *const T, usize)> = on!(k, it => it.get_workable_slice_exact(n).map(|s| s.parts()));
                sl!(r.map(|(a, b, c, d)| unsafe { (std::slice::from_raw_parts(a, b), std::slice::from_raw_parts(c, d)) })) }
            "getavail" => { let k = st(words[1]); if !self.usable(k) { return bad; }
                let r: Option<(*const T, usize, *const T, usize)> = on!(k, it => it.get_workable_slice_avail().map(|s| s.parts()));
                sl!(r.map(|(a, b, c, d)| unsafe { (std::slice::from_raw_parts(a, b), std::slice::from_raw_parts(c, d)) })) }
            "getmult" => { let k = st(words[1]); if !self.usable(k) { return bad; } let n = num(2);
                let r = std::panic::catch_unwind(std::panic::AssertUnwindSafe(|| {
                    let r: Option<(*const T, usize, *const T, usize)> = on!(k, it => it.get_workable_slice_multiple_of(n).map(|s| s.parts()));
                    r }));
                match r { Err(_) => "panic".into(), Ok(r) => sl!(r.map(|(a, b, c, d)| unsafe { (std::slice::from_raw_parts(a, b), std::slice::from_raw_parts(c, d)) })) } }
            "nextslices" => { if !self.attached(St::P) { return bad; } let n = num(1);
                let r = if let Slot::Att(p) = &mut self.p { unsafe { p.get_next_slices_mut(n) }.map(|s| s.parts()) } else { unreachable!() };
                sl!(r.map(|(a, b, c, d)| unsafe { (std::slice::from_raw_parts(a, b), std::slice::from_raw_parts(c, d)) })) }
            "peekslice" => { if !self.attached(St::C) { return bad; } let n = num(1);
                let r = if let Slot::Att(c) = &mut self.c { c.peek_slice(n).map(|s| s.parts()) } else { unreachable!() };
                sl!(r.map(|(a, b, c, d)| unsafe { (std::slice::from_raw_parts(a, b), std::slice::from_raw_parts(c, d)) })) }
            "peekavail" => { if !self.attached(St::C) { return bad; }
                let r = if let Slot::Att(c) = &mut self.c { c.peek_available().map(|s| s.parts()) } else { unreachable!() };
                sl!(r.map(|(a, b, c, d)| unsafe { (std::slice::from_raw_parts(a, b), std::slice::from_raw_parts(c, d)) })) }
            "poke" | "pokeinit" | "edit" => { let k = st(words[1]); if !self.usable(k) || (words[0] == "edit" && T::OWNED) { return bad; }
                let off = num(2); let v: u64 = words[3].parse().unwrap();
                let ix: usize = on!(k, it => it.index());
                let mut i = ix + off; if i >= self.len { i -= self.len; }
                let p = unsafe { (self.base() as *mut T).add(i) };
                match words[0] {
                    "poke" => { let x = T::make(v); if T::OWNED { log(format!("take{v}")); } unsafe { *p = x; } }
                    "pokeinit" => { let x = T::make(v); if T::OWNED { log(format!("take{v}")); } unsafe { p.write(x); } }
                    _ => unsafe { (*p).add(v) },
                }
                "unit".into() }
            "push" | "pushinit" => { if !self.attached(St::P) { return bad; } let v: u64 = words[1].parse().unwrap();
                let x = T::make(v);
                let pr = self.slot_probe(self.p.ix().unwrap(), 1); self.set_probe(pr);
                let p = if let Slot::Att(p) = &mut self.p { p } else { unreachable!() };
                let r = if words[0] == "push" { p.push(x) } else { p.push_init(x) };
                self.end_probe();
                match r { Ok(()) => { if T::OWNED { log(format!("take{v}")); } "ok".into() }
                          Err(x) => { let id = unsafe { T::peek(&x) }; x.dispose(); format!("err {id}") } } }
            "pushslice" | "pushsliceinit" | "pushclone" | "pushcloneinit" => {
                if !self.attached(St::P) || (T::OWNED && words[0].starts_with("pushslice")) { return bad; }
                let src: Vec<T> = ints(words[1]).into_iter().map(T::make).collect();
                let pr = self.slot_probe(self.p.ix().unwrap(), src.len().min(self.len)); self.set_probe(pr);
                let p = if let Slot::Att(p) = &mut self.p { p } else { unreachable!() };
                let r = T::push_slice_op(p, &src, words[0]);
                self.end_probe();
                for x in src { x.dispose(); }
                match r { Some(()) => "ok".into(), None => "none".into() } }
            "pop" | "popmove" => { if !self.attached(St::C) { return bad; }
                if words[0] == "popmove" { let pr = self.slot_probe(self.c.ix().unwrap(), 1); self.set_probe(pr); }
                let c = if let Slot::Att(c) = &mut self.c { c } else { unreachable!() };
                let r = if words[0] == "pop" { c.pop() } else { unsafe { c.pop_move() } };
                self.end_probe();
                match r { None => "none".into(), Some(x) => { let id = unsafe { T::peek(&x) };
                    if T::OWNED {
                        if id == 0 { log("zeroread".into()); std::mem::forget(x); }
                        else if words[0] == "pop" { log(format!("dup{id}")); std::mem::forget(x); }
                        else { log(format!("give{id}")); x.dispose(); }
                    }
                    format!("val {id}") } } }
            "copyitem" | "cloneitem" => { if !self.attached(St::C) || (T::OWNED && words[0] == "copyitem") { return bad; }
                let c = if let Slot::Att(c) = &mut self.c { c } else { unreachable!() };
                let mut dst = T::scratch();
                { let dp = &dst as *const T as usize; PROBE.with(|p| *p.borrow_mut() = Some(Box::new(move || vec![unsafe { T::peek(dp as *const T) }]))); }
                let r = T::extract_item_op(c, &mut dst, words[0]);
                self.final_probe = PROBE.with(|p| p.borrow_mut().take()).map(|f| f());
                let id = unsafe { T::peek(&dst) }; dst.dispose();
                match r { Some(()) => format!("dst [{id}]"), None => "none".into() } }
            "copyslice" | "cloneslice" => { if !self.attached(St::C) || (T::OWNED && words[0] == "copyslice") { return bad; }
                let n = num(1);
                let c = if let Slot::Att(c) = &mut self.c { c } else { unreachable!() };
                let mut dst: Vec<T> = (0..n).map(|_| T::scratch()).collect();
                { let dp = dst.as_ptr() as usize; PROBE.with(|p| *p.borrow_mut() = Some(Box::new(move || (0..n).map(|j| unsafe { T::peek((dp as *const T).add(j)) }).collect()))); }
                let r = T::extract_slice_op(c, &mut dst, words[0]);
                self.final_probe = PROBE.with(|p| p.borrow_mut().take()).map(|f| f());
                let ids: Vec<u64> = dst.iter().map(|x| unsafe { T::peek(x) }).collect();
                for x in dst { x.dispose(); }
                match r { Some(()) => format!("dst {}", fmt_list(&ids)), None => "none".into() } }
            "reset" => { let k = st(words[1]); if k == St::P || !self.attached(k) { return bad; }
                match k { St::W => if let Slot::Att(w) = &mut self.w { w.reset_index() }, St::C => if let Slot::Att(c) = &mut self.c { c.reset_index() }, _ => {} }
                "unit".into() }
            "detach" => { let k = st(words[1]); if !self.attached(k) { return bad; }
                macro_rules! det { ($f:expr) => { $f = match std::mem::replace(&mut $f, Slot::Gone) { Slot::Att(i) => Slot::Det(i.detach()), x => x } } }
                match k { St::P => det!(self.p), St::W => det!(self.w), St::C => det!(self.c) } "unit".into() }
            "attach" => { let k = st(words[1]); if !self.detached(k) { return bad; }
                macro_rules! att { ($f:expr) => { $f = match std::mem::replace(&mut $f, Slot::Gone) { Slot::Det(d) => Slot::Att(d.attach()), x => x } } }
                match k { St::P => att!(self.p), St::W => att!(self.w), St::C => att!(self.c) } "unit".into() }
            "sync" | "setindex" | "goback" | "dreset" => { let k = st(words[1]); if !self.detached(k) { return bad; }
                macro_rules! d { ($f:expr) => { if let Slot::Det(d) = &mut $f { match words[0] {
                    "sync" => d.sync_index(), "setindex" => unsafe { d.set_index(num(2)) }, "goback" => unsafe { d.go_back(num(2)) }, _ => d.reset_index() } } } }
                match k { St::P => d!(self.p), St::W => d!(self.w), St::C => d!(self.c) } "unit".into() }
            "drop" => { let k = st(words[1]); if !self.usable(k) { return bad; }
                match k { St::P => self.p = Slot::Gone, St::W => self.w = Slot::Gone, St::C => self.c = Slot::Gone }
                if self.heap && !self.p.here() && !self.w.here() && !self.c.here() { self.freed = true; }
                "unit".into() }
            "dropbuf" | "resplit" => {
                if self.heap || self.freed || self.p.here() || self.w.here() || self.c.here() { return bad; }
                return Err(if words[0] == "dropbuf" { Next::DropBuf } else { Next::Resplit(words[1] == "3") });
            }
            x => panic!("unknown op {x}"),
        };
        Ok(r)
    }
}

/// Copy-only / clone operations dispatched per item type.
trait ItemOps: Item {
    fn push_slice_op<B: MutRB<Item = Self>>(p: &mut ProdIter<B>, s: &[Self], name: &str) -> Option<()>;
    fn extract_item_op<B: MutRB<Item = Self>, const W: bool>(c: &mut ConsIter<B, W>, d: &mut Self, name: &str) -> Option<()>;
    fn extract_slice_op<B: MutRB<Item = Self>, const W: bool>(c: &mut ConsIter<B, W>, d: &mut [Self], name: &str) -> Option<()>;
}
impl ItemOps for u64 {
    fn push_slice_op<B: MutRB<Item = Self>>(p: &mut ProdIter<B>, s: &[Self], name: &str) -> Option<()> {
        match name { "pushslice" => p.push_slice(s), "pushsliceinit" => p.push_slice_init(s), "pushclone" => p.push_slice_clone(s), _ => p.push_slice_clone_init(s) }
    }
    fn extract_item_op<B: MutRB<Item = Self>, const W: bool>(c: &mut ConsIter<B, W>, d: &mut Self, name: &str) -> Option<()> {
        if name == "copyitem" { c.copy_item(d) } else { c.clone_item(d) }
    }
    fn extract_slice_op<B: MutRB<Item = Self>, const W: bool>(c: &mut ConsIter<B, W>, d: &mut [Self], name: &str) -> Option<()> {
        if name == "copyslice" { c.copy_slice(d) } else { c.clone_slice(d) }
    }
}
macro_rules! owned_ops { ($T:ty) => {
impl ItemOps for $T {
    fn push_slice_op<B: MutRB<Item = Self>>(p: &mut ProdIter<B>, s: &[Self], name: &str) -> Option<()> {
        match name { "pushclone" => p.push_slice_clone(s), "pushcloneinit" => p.push_slice_clone_init(s), _ => unreachable!() }
    }
    fn extract_item_op<B: MutRB<Item = Self>, const W: bool>(c: &mut ConsIter<B, W>, d: &mut Self, _name: &str) -> Option<()> { c.clone_item(d) }
    fn extract_slice_op<B: MutRB<Item = Self>, const W: bool>(c: &mut ConsIter<B, W>, d: &mut [Self], _name: &str) -> Option<()> { c.clone_slice(d) }
}
impl HeapDefault<$T> for ConcurrentHeapRB<$T> { fn mk_default(_n: usize) -> Self { unreachable!() } }
impl HeapDefault<$T> for LocalHeapRB<$T> { fn mk_default(_n: usize) -> Self { unreachable!() } }
#[cfg(not(feature = "vmem"))]
impl<const N: usize> StackDefault<$T> for ConcurrentStackRB<$T, N> { fn mk_default() -> Self { unreachable!() } }
#[cfg(not(feature = "vmem"))]
impl<const N: usize> StackDefault<$T> for LocalStackRB<$T, N> { fn mk_default() -> Self { unreachable!() } }
}}
owned_ops!(Owned); owned_ops!(Owned24); owned_ops!(Owned4);
// the Item trait lives in the library; bridge the per-type operations into it
trait ItemX: Item + ItemOps {}
impl<T: Item + ItemOps> ItemX for T {}

struct Lines<'a> { lines: &'a [String], pos: usize }

static LOGGER: std::sync::OnceLock<std::sync::Arc<Logger>> = std::sync::OnceLock::new();
fn logger() -> &'static Logger { LOGGER.get().unwrap() }
fn log_on() { logger().enabled.store(true, std::sync::atomic::Ordering::Relaxed); }
fn log_off() { logger().enabled.store(false, std::sync::atomic::Ordering::Relaxed); }

fn emit(out: &mut impl Write, res: &str, obs: &str) { emit_at(out, res, obs, "") }
fn emit_at(out: &mut impl Write, res: &str, obs: &str, at: &str) {
    let ev = take_events();
    writeln!(out, "{} | {} | ev={} | at={}", res, obs, ev.join(","), at).unwrap();
    out.flush().unwrap();
}

fn run_session<'b, T: ItemX, B: MutRB<Item = T>, const WK: bool>(mut s: Session<'b, B, WK>, ls: &mut Lines, out: &mut impl Write, first: Option<&str>) -> Next {
    // which address is which atomic: one load of each through the accessor methods
    log_off();
    let pending: Vec<Logged> = std::mem::take(&mut *logger().log.lock().unwrap());   // events of a re-split, logged by the caller
    let mut names = std::collections::HashMap::new();
    log_on();
    if let Slot::Att(p) = &s.p { p.prod_index(); p.work_index(); p.cons_index(); p.is_prod_alive(); }
    log_off();
    { let mut l = logger().log.lock().unwrap(); for (e, n) in l.iter().zip(['P', 'W', 'C', 'A']) { names.insert(e.addr, n); } l.clear(); }
    if let Some(f) = first { let at = render_events(&pending, &names, None); emit_at(out, f, &s.obs(), &at); }
    while ls.pos < ls.lines.len() {
        let l = ls.lines[ls.pos].trim().to_string();
        if l.starts_with("cfg") || l.starts_with('#') { break; }
        ls.pos += 1;
        if l.is_empty() { continue; }
        let words: Vec<&str> = l.split_whitespace().collect();
        logger().log.lock().unwrap().clear();
        s.final_probe = None;
        log_on();
        let r = s.step(&words);
        log_off();
        match r {
            Ok(r) => {
                let evs = std::mem::take(&mut *logger().log.lock().unwrap());
                let at = render_events(&evs, &names, s.final_probe.take());
                emit_at(out, &r, &s.obs(), &at) }
            Err(n) => return n,
        }
    }
    // end of history: report what is alive now, then tear down quietly
    writeln!(out, "live={}", fmt_list(&if T::OWNED { live_ids() } else { vec![] })).unwrap();
    EXPECT_DROP.with(|c| c.set(true));
    drop(s);
    Next::End
}

/// number of mappings of the shared-memory object behind a vmem buffer that are still present
#[allow(dead_code)]
fn vmem_maps() -> usize { std::fs::read_to_string("/proc/self/maps").map(|m| m.lines().filter(|l| l.contains("mrb-")).count()).unwrap_or(0) }

fn build<T: Item>(init: &[u64]) -> Vec<T> { init.iter().map(|v| if *v == 0 { T::zero() } else { T::make(*v) }).collect() }

macro_rules! heap_run {
    ($B:ident, $T:ty, $cfg:expr, $ls:expr, $out:expr) => {{
        let cfg = $cfg;
        let all_zero = cfg.init.iter().all(|v| *v == 0);
        let r = std::panic::catch_unwind(|| {
            match cfg.ctor.as_str() {
                "zeroed" => unsafe { $B::<$T>::new_zeroed(cfg.init.len()) },
                _ if all_zero && <$T as Item>::OWNED => unsafe { $B::<$T>::new_zeroed(cfg.init.len()) },
                "default" => heap_default::<$T, $B<$T>>(cfg.init.len()),
                "fromcap" => { // a Vec whose capacity exceeds its length: the buffer must use the length
                    let mut v: Vec<$T> = Vec::with_capacity(cfg.init.len() * 2 + 3);
                    v.extend(build::<$T>(&cfg.init));
                    $B::<$T>::from(v) }
                _ => $B::<$T>::from(build::<$T>(&cfg.init)),
            }
        });
        match r {
            Err(_) => { writeln!($out, "init panic").unwrap(); }
            Ok(buf) => {
                let len = cfg.init.len();
                if cfg.stages == 3 {
                    let (p, w, c) = buf.split_mut();
                    run_session(Session { p: Slot::Att(p), w: Slot::Att(w), c: Slot::Att(c), heap: true, freed: false, len, final_probe: None, last_avail: None }, $ls, $out, Some("init ok"));
                } else {
                    let (p, c) = buf.split();
                    run_session(Session { p: Slot::Att(p), w: Slot::Gone, c: Slot::Att(c), heap: true, freed: false, len, final_probe: None, last_avail: None }, $ls, $out, Some("init ok"));
                }
            }
        }
    }};
}

trait HeapDefault<T> { fn mk_default(n: usize) -> Self; }
impl HeapDefault<u64> for ConcurrentHeapRB<u64> { fn mk_default(n: usize) -> Self { ConcurrentHeapRB::default(n) } }
impl HeapDefault<u64> for LocalHeapRB<u64> { fn mk_default(n: usize) -> Self { LocalHeapRB::default(n) } }
fn heap_default<T, B: HeapDefault<T>>(n: usize) -> B { B::mk_default(n) }

#[cfg(not(feature = "vmem"))]
trait StackDefault<T> { fn mk_default() -> Self; }
#[cfg(not(feature = "vmem"))]
impl<const N: usize> StackDefault<u64> for ConcurrentStackRB<u64, N> { fn mk_default() -> Self { Default::default() } }
#[cfg(not(feature = "vmem"))]
impl<const N: usize> StackDefault<u64> for LocalStackRB<u64, N> { fn mk_default() -> Self { Default::default() } }
#[cfg(not(feature = "vmem"))]
fn stack_default<T, B: StackDefault<T>>() -> B { B::mk_default() }

#[cfg(not(feature = "vmem"))]
macro_rules! stack_run_n {
    ($B:ident, $T:ty, $N:literal, $cfg:expr, $ls:expr, $out:expr) => {{
        let cfg = $cfg;
        let lsr: &mut Lines = $ls;
        let all_zero = cfg.init.iter().all(|v| *v == 0);
        let r = std::panic::catch_unwind(|| -> $B<$T, $N> {
            if cfg.ctor == "zeroed" || (all_zero && <$T as Item>::OWNED) { unsafe { $B::<$T, $N>::new_zeroed() } }
            else if cfg.ctor == "default" { stack_default::<$T, $B<$T, $N>>() }
            else {
                let v = build::<$T>(&cfg.init);
                let arr: [$T; $N] = match v.try_into() { Ok(a) => a, Err(_) => panic!("len") };
                $B::<$T, $N>::from(arr)
            }
        });
        match r {
            Err(_) => { writeln!($out, "init panic").unwrap(); }
            Ok(mut buf) => {
                let mut stages3 = cfg.stages == 3;
                let mut first = Some("init ok");
                loop {
                    if first == Some("unit") { logger().log.lock().unwrap().clear(); log_on(); }
                    let nx = if stages3 {
                        let (p, w, c) = buf.split_mut();
                        run_session(Session { p: Slot::Att(p), w: Slot::Att(w), c: Slot::Att(c), heap: false, freed: false, len: $N, final_probe: None, last_avail: None }, &mut *lsr, $out, first)
                    } else {
                        let (p, c) = buf.split();
                        run_session(Session { p: Slot::Att(p), w: Slot::Gone, c: Slot::Att(c), heap: false, freed: false, len: $N, final_probe: None, last_avail: None }, &mut *lsr, $out, first)
                    };
                    match nx {
                        Next::End => { drop(buf); break }
                        Next::Resplit(w3) => { stages3 = w3; first = Some("unit"); }
                        Next::DropBuf => {
                            // the owner drops the stack buffer; nothing is usable afterwards
                            drop(buf);
                            emit($out, "unit", "ix=-,-,- | pub=-,-,- | alive=--- | ca=-,-,- | freed=1");
                            while lsr.pos < lsr.lines.len() {
                                let l = lsr.lines[lsr.pos].trim().to_string();
                                if l.starts_with("cfg") || l.starts_with('#') { break; }
                                lsr.pos += 1;
                                if !l.is_empty() { emit($out, "bad", "ix=-,-,- | pub=-,-,- | alive=--- | ca=-,-,- | freed=1"); }
                            }
                            writeln!($out, "live={}", fmt_list(&if <$T as Item>::OWNED { live_ids() } else { vec![] })).unwrap();
                            break
                        }
                    }
                }
            }
        }
    }};
}

struct Cfg { kind: String, store: String, stages: u32, item: String, ctor: String, init: Vec<u64> }

fn parse_cfg(l: &str) -> Cfg {
    let mut c = Cfg { kind: "conc".into(), store: "heap".into(), stages: 2, item: "plain".into(), ctor: "from".into(), init: vec![] };
    for w in l.split_whitespace().skip(1) {
        let (k, v) = w.split_once('=').unwrap();
        match k { "kind" => c.kind = v.into(), "store" => c.store = v.into(), "stages" => c.stages = v.parse().unwrap(), "item" => c.item = v.into(),
                  "ctor" => c.ctor = v.into(), "init" => c.init = ints(v), _ => {} }
    }
    c
}

#[cfg(not(feature = "vmem"))]
macro_rules! stack_dispatch {
    ($B:ident, $T:ty, $cfg:expr, $ls:expr, $out:expr; $($N:literal),*) => {
        match $cfg.init.len() { $($N => stack_run_n!($B, $T, $N, $cfg, $ls, $out),)* n => panic!("stack length {n} not instantiated") }
    };
}

fn run_file(path: &str, out: &mut impl Write) {
    let text = std::fs::read_to_string(path).unwrap();
    let lines: Vec<String> = text.lines().map(|s| s.to_string()).collect();
    let mut ls = Lines { lines: &lines, pos: 0 };
    std::panic::set_hook(Box::new(|_| {}));
    let _ = LOGGER.set(install_logger());
    while ls.pos < ls.lines.len() {
        let l = ls.lines[ls.pos].trim().to_string();
        ls.pos += 1;
        if l.is_empty() { continue; }
        if l.starts_with('#') { writeln!(out, "{l}").unwrap(); continue; }
        if !l.starts_with("cfg") { writeln!(out, "skip").unwrap(); continue; }
        let cfg = parse_cfg(&l);
        reset_ledger();
        EXPECT_DROP.with(|c| c.set(false));
        match (cfg.kind.as_str(), cfg.store.as_str(), cfg.item.as_str()) {
            ("conc", "heap", "plain") => heap_run!(ConcurrentHeapRB, u64, &cfg, &mut ls, out),
            ("local", "heap", "plain") => heap_run!(LocalHeapRB, u64, &cfg, &mut ls, out),
            ("conc", "heap", "owned") => heap_run!(ConcurrentHeapRB, Owned, &cfg, &mut ls, out),
            ("local", "heap", "owned") => heap_run!(LocalHeapRB, Owned, &cfg, &mut ls, out),
            ("conc", "heap", "owned24") => heap_run!(ConcurrentHeapRB, Owned24, &cfg, &mut ls, out),
            ("local", "heap", "owned24") => heap_run!(LocalHeapRB, Owned24, &cfg, &mut ls, out),
            ("conc", "heap", "owned4") => heap_run!(ConcurrentHeapRB, Owned4, &cfg, &mut ls, out),
            ("local", "heap", "owned4") => heap_run!(LocalHeapRB, Owned4, &cfg, &mut ls, out),
            #[cfg(not(feature = "vmem"))]
            ("conc", "stack", "plain") => stack_dispatch!(ConcurrentStackRB, u64, &cfg, &mut ls, out; 0,1,2,3,4,5,7,8,13,16),
            #[cfg(not(feature = "vmem"))]
            ("local", "stack", "plain") => stack_dispatch!(LocalStackRB, u64, &cfg, &mut ls, out; 0,1,2,3,4,5,7,8,13,16),
            #[cfg(not(feature = "vmem"))]
            ("conc", "stack", "owned") => stack_dispatch!(ConcurrentStackRB, Owned, &cfg, &mut ls, out; 0,1,2,3,4,5),
            #[cfg(not(feature = "vmem"))]
            ("local", "stack", "owned") => stack_dispatch!(LocalStackRB, Owned, &cfg, &mut ls, out; 0,1,2,3,4,5),
            #[cfg(not(feature = "vmem"))]
            ("conc", "stack", "owned24") => stack_dispatch!(ConcurrentStackRB, Owned24, &cfg, &mut ls, out; 0,1,2,3,4,5),
            #[cfg(not(feature = "vmem"))]
            ("local", "stack", "owned4") => stack_dispatch!(LocalStackRB, Owned4, &cfg, &mut ls, out; 0,1,2,3,4,5),
            #[cfg(not(feature = "vmem"))]
            ("conc", "stack", "owned4") => stack_dispatch!(ConcurrentStackRB, Owned4, &cfg, &mut ls, out; 0,1,2,3,4,5),
            #[cfg(not(feature = "vmem"))]
            ("local", "stack", "owned24") => stack_dispatch!(LocalStackRB, Owned24, &cfg, &mut ls, out; 0,1,2,3,4,5),
            _ => panic!("unsupported configuration: {l}"),
        }
        EXPECT_DROP.with(|c| c.set(false));
        if l.contains("vmem=1") { writeln!(out, "maps={}", vmem_maps()).unwrap(); }
        // skip the rest of a history whose construction panicked
        while ls.pos < ls.lines.len() && !ls.lines[ls.pos].starts_with("cfg") && !ls.lines[ls.pos].starts_with('#') {
            if !ls.lines[ls.pos].trim().is_empty() { writeln!(out, "skip").unwrap(); }
            ls.pos += 1;
        }
    }
}

fn main() {
    let args: Vec<String> = std::env::args().collect();
    let stdout = std::io::stdout();
    let mut out = std::io::BufWriter::new(stdout.lock());
    #[cfg(feature = "vmem")]
    if args.len() > 1 && args[1] == "--pagemul" {
        // C17: `get_page_size_mul(n)` and the length of `default(n)` / `new_zeroed(n)` buffers for the requested minimums
        use std::io::Write;
        writeln!(out, "page {}", mutringbuf::vmem_helper::page_size()).unwrap();
        {
            // ownership of the supplied data on BOTH paths of a construction `from(Vec<T>)`:
            // (a) a length that is not a whole number of pages is rejected (panic) - the items handed over are destroyed exactly once;
            // (b) data whose first and last items are the all-zero pattern (`None`) while the ones in between are live: the buffer holds
            //     every one of them (read back through the producer's window), and dropping it destroys each exactly once
            use std::rc::Rc;
            let page = mutringbuf::vmem_helper::page_size();
            let tok = Rc::new(());
            for n in [1usize, 3, 7] {
                let v: Vec<Rc<()>> = (0..n).map(|_| tok.clone()).collect();
                let r = std::panic::catch_unwind(std::panic::AssertUnwindSafe(|| { let _b = mutringbuf::LocalHeapRB::from(v); }));
                writeln!(out, "reject {} panicked={} left={}", n, r.is_err(), Rc::strong_count(&tok) - 1).unwrap();
            }
            let n = page;          // lengths are counted in items
            let mut v: Vec<Option<Rc<()>>> = (0..n).map(|_| Some(tok.clone())).collect();
            v[0] = None; v[n - 1] = None;
            let held = std::panic::catch_unwind(std::panic::AssertUnwindSafe(|| {
                let b = mutringbuf::LocalHeapRB::from(v); let (mut p, _c) = b.split();
                let len = p.buf_len();
                let live = unsafe { p.get_next_slices_mut(len - 1) }.map(|s| s.iter().filter(|x| x.is_some()).count()).unwrap_or(0);
                (len, live, Rc::strong_count(&tok) - 1)
            })).unwrap_or((0, 0, 0));
            writeln!(out, "sparse n={} len={} live={} refs={} left={}", n, held.0, held.1, held.2, Rc::strong_count(&tok) - 1).unwrap();
            let mut v: Vec<u64> = (0..page as u64).collect(); let m = v.len(); v[m - 1] = 0;
            let want: u64 = v.iter().sum();
            let got = { let b = mutringbuf::ConcurrentHeapRB::from(v); let (mut p, _c) = b.split(); let len = p.buf_len();
                        unsafe { p.get_next_slices_mut(len - 1) }.map(|s| s.iter().sum::<u64>()).unwrap_or(0) };
            writeln!(out, "sparseplain want={} got={}", want, got).unwrap();
        }
        for a in &args[2..] {
            let n: usize = a.parse().unwrap();
            let m = mutringbuf::vmem_helper::get_page_size_mul(n);
            // an item type whose default is NOT the all-zero pattern: every slot of a `default(n)` buffer - the ones beyond `n` up to the
            // page multiple included, they are ordinary ring positions - must hold the default (read back through the producer's window)
            #[derive(Clone, Copy, PartialEq)] struct D7(u32);
            impl Default for D7 { fn default() -> Self { D7(0x5A5A_5A5A) } }
            let l = std::panic::catch_unwind(|| {
                let b = mutringbuf::ConcurrentHeapRB::<D7>::default(n); let (mut p, _c) = b.split();
                let len = p.buf_len();
                let all = unsafe { p.get_next_slices_mut(len - 1) }.map(|s| s.iter().all(|x| *x == D7::default())).unwrap_or(false);
                if all { len as i64 } else { -2 }
            }).unwrap_or(-1);
            let z = std::panic::catch_unwind(|| { let b = unsafe { mutringbuf::LocalHeapRB::<u64>::new_zeroed(n) }; let (p, _c) = b.split(); p.buf_len() }).map(|x| x as i64).unwrap_or(-1);
            writeln!(out, "pagemul {} {} {} {}", n, m, l, z).unwrap();
        }
        return;
    }
    for f in &args[1..] { run_file(f, &mut out); }
}
