//! C09 for ZERO-SIZED item types (outside the Coq Model, which keeps a value per cell): a zero-sized item has no bytes, so every
//! slot reads as "empty" - the crate must therefore never pass a slot to a destructor in a `*_init` store or at release, and the
//! only destructor calls are those of values handed back to the caller (`pop_move`, refused pushes) or made by the caller.
//! Exact ledger on histories that follow the initialisation rules (`new_zeroed` + `*_init` stores + `pop_move`):
//!   at every step   dropped <= created - in_flight        (nothing inside the buffer has been destroyed)
//!   after draining  dropped == created                    (nothing leaked, nothing destroyed twice)
//!   zstprobe <seed> <count>   ->  one line `ok histories=<n> steps=<m>` or `MISMATCH <history> : <what>`; exit code 1 on mismatch
use mutringbuf::{ConcurrentHeapRB, ConcurrentStackRB, HeapSplit, LocalHeapRB, LocalStackRB, MRBIterator, StackSplit};
use std::cell::Cell;

thread_local! { static CREATED: Cell<usize> = Cell::new(0); static DROPPED: Cell<usize> = Cell::new(0); }
struct Z;
fn mk() -> Z { CREATED.with(|c| c.set(c.get() + 1)); Z }
impl Drop for Z { fn drop(&mut self) { DROPPED.with(|c| c.set(c.get() + 1)); } }
impl Clone for Z { fn clone(&self) -> Z { mk() } }
fn created() -> usize { CREATED.with(|c| c.get()) }
fn dropped() -> usize { DROPPED.with(|c| c.get()) }

struct Rng(u64);
impl Rng { fn next(&mut self, n: u64) -> u64 { self.0 = self.0.wrapping_mul(6364136223846793005).wrapping_add(1442695040888963407); (self.0 >> 33) % n } }

macro_rules! session {
    ($prod:ident, $cons:ident, $len:expr, $rng:ident, $hist:ident, $steps:ident) => {{
        let mut inflight = 0usize;
        // C18 for zero-sized items: the buffer has the requested length and starts empty
        if $prod.buf_len() != $len || $prod.available() != $len - 1 || $cons.available() != 0 {
            println!("MISMATCH {}: a buffer of zero-sized items requested with length {} has length {} (producer availability {}, consumer availability {})",
                     $hist, $len, $prod.buf_len(), $prod.available(), $cons.available());
            std::process::exit(1);
        }
        let n = 4 + $rng.next(24);
        let mut bad: Option<String> = None;
        for _ in 0..n {
            match $rng.next(4) {
                0 | 1 => { $hist.push_str("pushinit "); if $prod.push_init(mk()).is_ok() { inflight += 1; } }
                2 => { let k = 1 + $rng.next(3) as usize; let src: Vec<Z> = (0..k).map(|_| mk()).collect();
                       $hist.push_str(&format!("pushcloneinit{} ", k));
                       if $prod.push_slice_clone_init(&src).is_some() { inflight += k; } }
                _ => { $hist.push_str("popmove "); if let Some(z) = unsafe { $cons.pop_move() } { inflight -= 1; drop(z); } }
            }
            $steps += 1;
            if dropped() + inflight > created() {
                bad = Some(format!("after this step dropped={} created={} in_flight={}: a value still inside the buffer (or an empty slot) was passed to a destructor", dropped(), created(), inflight));
                break;
            }
            if inflight > $len.saturating_sub(1) { bad = Some(format!("{} items in flight in a buffer of length {}", inflight, $len)); break; }
        }
        if bad.is_none() {
            $hist.push_str("drain ");
            while let Some(z) = unsafe { $cons.pop_move() } { inflight -= 1; drop(z); }
            if inflight != 0 { bad = Some(format!("{} accepted items could not be popped", inflight)); }
        }
        bad
    }};
}

fn one(rng: &mut Rng, steps: &mut usize) -> Option<String> {
    CREATED.with(|c| c.set(0)); DROPPED.with(|c| c.set(0));
    let mut steps_l = 0usize;
    let kind = rng.next(4);
    let len = 1 + rng.next(5) as usize;
    let mut hist = format!("kind={} len={} : ", ["conc-heap", "local-heap", "conc-stack", "local-stack"][kind as usize], if kind < 2 { len } else { 4 });
    let bad = match kind {
        0 => { let b = unsafe { ConcurrentHeapRB::<Z>::new_zeroed(len) }; let (mut p, mut c) = b.split(); session!(p, c, len, rng, hist, steps_l) }
        1 => { let b = unsafe { LocalHeapRB::<Z>::new_zeroed(len) }; let (mut p, mut c) = b.split(); session!(p, c, len, rng, hist, steps_l) }
        2 => { let mut b = unsafe { ConcurrentStackRB::<Z, 4>::new_zeroed() }; let (mut p, mut c) = b.split(); session!(p, c, 4usize, rng, hist, steps_l) }
        _ => { let mut b = unsafe { LocalStackRB::<Z, 4>::new_zeroed() }; let (mut p, mut c) = b.split(); session!(p, c, 4usize, rng, hist, steps_l) }
    };
    *steps += steps_l;
    if let Some(w) = bad { return Some(format!("{}: {}", hist, w)); }
    // everything is released here (iterators and buffer dropped at the end of the match arms)
    if dropped() != created() { return Some(format!("{}: after draining and releasing the buffer dropped={} created={}", hist, dropped(), created())); }
    None
}

fn main() {
    let a: Vec<String> = std::env::args().collect();
    let seed: u64 = a.get(1).and_then(|x| x.parse().ok()).unwrap_or(1);
    let count: usize = a.get(2).and_then(|x| x.parse().ok()).unwrap_or(200);
    let mut rng = Rng(seed.wrapping_mul(0x9E3779B97F4A7C15) ^ 0xD1B54A32D192ED03);
    let mut steps = 0usize;
    for _ in 0..count {
        if let Some(w) = one(&mut rng, &mut steps) { println!("MISMATCH {}", w); std::process::exit(1); }
    }
    println!("ok histories={} steps={}", count, steps);
}
