//! The public API of `UnsafeSyncCell<T>` - the primitives the translated data-touching functions are built from (`check_zeroed`,
//! `take_inner`, `inner_duplicate`, `inner_ref(_mut)`, `as_mut_ptr`, `Clone` incl. `clone_from`, `Drop`, `From<T>`, `Default`) - stated as
//! the property itself (C08 / C09) on single cells, for item types of 1, 2, 3, 4, 8, 12, 16 and 24 bytes (with and without drop glue):
//! an empty (all-zero) cell is never read as an item, cloned or dropped; an occupied cell is dropped exactly once; `take_inner` leaves
//! an empty cell whatever the item type; `check_zeroed` answers "all bytes are zero" for every size; `clone` / `clone_from` of the four
//! empty / occupied combinations create and destroy exactly the items they must.
//!   cellprobe  ->  `ok cases=<n>` or `MISMATCH <item type>: <case>: <what>` (exit code 1)
use mutringbuf::UnsafeSyncCell;
use std::cell::RefCell;

thread_local! { static LOG: RefCell<Vec<String>> = RefCell::new(vec![]); }
fn log(s: String) { LOG.with(|l| l.borrow_mut().push(s)); }
fn take_log() -> Vec<String> { let mut v = LOG.with(|l| std::mem::take(&mut *l.borrow_mut())); v.sort(); v }

/// an item with a destructor: `id` (never 0 for a live item) in the LAST bytes, so that a test looking only at leading bytes is fooled
macro_rules! tracked {
    ($name:ident, $idty:ty, [$($pad:ident : $padty:ty),*]) => {
        #[repr(C)]
        struct $name { $($pad: $padty,)* id: $idty }
        impl $name { fn new(id: u64) -> Self { $name { $($pad: 0,)* id: id as $idty } } }
        impl Clone for $name {
            fn clone(&self) -> Self {
                if self.id == 0 { log("clone-of-zero".into()); } else { log(format!("clone{}", self.id)); }
                $name::new(self.id as u64 + 100)
            }
        }
        impl Drop for $name {
            fn drop(&mut self) { if self.id == 0 { log("drop-of-zero".into()); } else { log(format!("drop{}", self.id)); } }
        }
        impl Probe for $name {
            const NAME: &'static str = concat!(stringify!($name), " (drop glue)");
            fn mk(id: u64) -> Self { $name::new(id) }
            fn id(&self) -> u64 { self.id as u64 }
        }
    };
}
/// the same layouts without drop glue and without `Copy` (move-only tickets)
macro_rules! plain {
    ($name:ident, $idty:ty, [$($pad:ident : $padty:ty),*]) => {
        #[repr(C)]
        struct $name { $($pad: $padty,)* id: $idty }
        impl Clone for $name {
            fn clone(&self) -> Self { if self.id == 0 { log("clone-of-zero".into()); } else { log(format!("clone{}", self.id)); } $name { $($pad: 0,)* id: self.id + 100 } }
        }
        impl Probe for $name {
            const NAME: &'static str = concat!(stringify!($name), " (no drop glue)");
            fn mk(id: u64) -> Self { $name { $($pad: 0,)* id: id as $idty } }
            fn id(&self) -> u64 { self.id as u64 }
            const DROPS: bool = false;
        }
    };
}
trait Probe: Clone { const NAME: &'static str; const DROPS: bool = true; fn mk(id: u64) -> Self; fn id(&self) -> u64; }

tracked!(T1, u8, []);
tracked!(T2, u16, []);
tracked!(T3, u8, [a: u8, b: u8]);
tracked!(T4, u32, []);
tracked!(T8, u64, []);
tracked!(T12, u32, [a: u32, b: u32]);
tracked!(T16, u64, [a: u64]);
tracked!(T24, u64, [a: u64, b: u64]);
plain!(P1, u8, []);
plain!(P4, u32, []);
plain!(P12, u32, [a: u32, b: u32]);
plain!(P16, u64, [a: u64]);

fn fail(ty: &str, case: &str, what: String) -> ! { println!("MISMATCH {}: {}: {}", ty, case, what); std::process::exit(1) }

fn expect(ty: &str, case: &str, want: &[String]) {
    let got = take_log();
    let mut w: Vec<String> = want.to_vec(); w.sort();
    if got != w { fail(ty, case, format!("item events {:?}, expected {:?}", got, w)); }
}
fn d<T: Probe>(id: u64) -> Vec<String> { if T::DROPS { vec![format!("drop{}", id)] } else { vec![] } }

fn zeroed<T>(c: &UnsafeSyncCell<T>) -> bool { UnsafeSyncCell::check_zeroed(c.as_mut_ptr() as *const T) }

fn run<T: Probe>() -> usize {
    let ty = T::NAME; let mut n = 0;
    println!("CASE {} ({} bytes, alignment {})", ty, std::mem::size_of::<T>(), std::mem::align_of::<T>());   // an abort is attributed to this item type
    take_log();
    // occupied cell: not zeroed, readable, dropped exactly once
    { let c = UnsafeSyncCell::from(T::mk(1));
      if zeroed(&c) { fail(ty, "from", "a cell holding a live item answers check_zeroed = true".into()); }
      if unsafe { c.inner_ref().id() } != 1 || unsafe { c.inner_ref_mut().id() } != 1 || unsafe { (*c.as_mut_ptr()).id() } != 1 { fail(ty, "from", "the cell does not hold the item".into()); }
    } expect(ty, "drop of an occupied cell", &d::<T>(1)); n += 1;
    // take_inner: the value comes out, the cell is empty afterwards and is not dropped
    { let c = UnsafeSyncCell::from(T::mk(2));
      let v = unsafe { c.take_inner() };
      if v.id() != 2 { fail(ty, "take_inner", format!("returned item {}", v.id())); }
      if !zeroed(&c) { fail(ty, "take_inner", "the vacated cell is not all-zero (check_zeroed = false): it still looks occupied".into()); }
      std::mem::forget(v);
    } expect(ty, "drop of a vacated cell", &[]); n += 1;
    // inner_duplicate: a bitwise duplicate, the cell stays occupied
    { let c = UnsafeSyncCell::from(T::mk(3));
      let v = unsafe { c.inner_duplicate() };
      if v.id() != 3 || zeroed(&c) { fail(ty, "inner_duplicate", "wrong duplicate / the cell was emptied".into()); }
      std::mem::forget(v);
    } expect(ty, "inner_duplicate", &d::<T>(3)); n += 1;
    // clone of an occupied cell: one clone, two drops; clone of an empty cell: an empty cell, nothing else
    { let c = UnsafeSyncCell::from(T::mk(4)); let c2 = c.clone();
      if zeroed(&c2) || unsafe { c2.inner_ref().id() } != 104 { fail(ty, "clone", "the clone of an occupied cell does not hold the cloned item".into()); }
    } expect(ty, "clone of an occupied cell", &[vec!["clone4".to_string()], d::<T>(4), d::<T>(104)].concat()); n += 1;
    { let c = UnsafeSyncCell::from(T::mk(5)); std::mem::forget(unsafe { c.take_inner() });
      let c2 = c.clone();
      if !zeroed(&c2) { fail(ty, "clone", "the clone of an empty cell is not empty".into()); }
    } expect(ty, "clone of an empty cell", &[]); n += 1;
    // clone_from: the four combinations
    { let mut dst = UnsafeSyncCell::from(T::mk(6)); let src = UnsafeSyncCell::from(T::mk(7));
      dst.clone_from(&src);
      if zeroed(&dst) || unsafe { dst.inner_ref().id() } != 107 { fail(ty, "clone_from occupied <- occupied", "destination does not hold the clone".into()); }
    } expect(ty, "clone_from occupied <- occupied", &[vec!["clone7".to_string()], d::<T>(6), d::<T>(7), d::<T>(107)].concat()); n += 1;
    { let mut dst = UnsafeSyncCell::from(T::mk(8)); std::mem::forget(unsafe { dst.take_inner() });
      let src = UnsafeSyncCell::from(T::mk(9));
      dst.clone_from(&src);
      if zeroed(&dst) || unsafe { dst.inner_ref().id() } != 109 { fail(ty, "clone_from empty <- occupied", "destination does not hold the clone".into()); }
    } expect(ty, "clone_from empty <- occupied", &[vec!["clone9".to_string()], d::<T>(9), d::<T>(109)].concat()); n += 1;
    { let mut dst = UnsafeSyncCell::from(T::mk(10)); let src = UnsafeSyncCell::from(T::mk(11)); std::mem::forget(unsafe { src.take_inner() });
      dst.clone_from(&src);
      if !zeroed(&dst) { fail(ty, "clone_from occupied <- empty", "destination is not empty afterwards".into()); }
    } expect(ty, "clone_from occupied <- empty", &d::<T>(10)); n += 1;
    { let mut dst = UnsafeSyncCell::from(T::mk(12)); std::mem::forget(unsafe { dst.take_inner() });
      let src = UnsafeSyncCell::from(T::mk(13)); std::mem::forget(unsafe { src.take_inner() });
      dst.clone_from(&src);
      if !zeroed(&dst) { fail(ty, "clone_from empty <- empty", "destination is not empty afterwards".into()); }
    } expect(ty, "clone_from empty <- empty", &[]); n += 1;
    // a boxed run of cells [occupied, empty, occupied, empty]: every occupied one dropped once, no empty one touched (neighbouring cells
    // must not influence each other's emptiness test)
    { let v: Vec<UnsafeSyncCell<T>> = vec![UnsafeSyncCell::from(T::mk(20)), UnsafeSyncCell::from(T::mk(21)), UnsafeSyncCell::from(T::mk(22)), UnsafeSyncCell::from(T::mk(23))];
      std::mem::forget(unsafe { v[1].take_inner() }); std::mem::forget(unsafe { v[3].take_inner() });
      if zeroed(&v[0]) || !zeroed(&v[1]) || zeroed(&v[2]) || !zeroed(&v[3]) { fail(ty, "run of cells", "check_zeroed is influenced by the neighbouring cell".into()); }
      let b = v.into_boxed_slice(); drop(b);
    } expect(ty, "drop of a run [occupied, empty, occupied, empty]", &[d::<T>(20), d::<T>(22)].concat()); n += 1;
    n
}

fn main() {
    let n = run::<T1>() + run::<T2>() + run::<T3>() + run::<T4>() + run::<T8>() + run::<T12>() + run::<T16>() + run::<T24>()
          + run::<P1>() + run::<P4>() + run::<P12>() + run::<P16>();
    println!("ok cases={}", n);
}
