//! Scripted weak-memory runtime for the three-stage release/acquire machine with worker / consumer commands
//! (coq/Conc/RA3x.v): replays the executions printed by ocaml/concdriver3x.ml (`concmodel3x gen`) on the real crate,
//! with one OS thread per role.  Same design as concrun.rs / concrun2.rs:
//!
//! the verif-hooks listener makes the real execution follow the case: every atomic access of a role thread is
//! compared with the thread's next `ev` line (load/store, word, ordering, stored value, program item it belongs to),
//! blocks until all earlier `ev` lines of the case have been performed, and - for a load - returns the scripted
//! (possibly stale) value.  At a store (publication) the data the publication covers must already be in place
//! (looked at by the publishing thread itself): the producer's values in the ring slots; the worker's edited values
//! in the ring slots - ALL edits since the worker's previous publication, i.e. at a `sync` / `attach` the whole
//! detached phase; the copied values in the consumer's destination.  Any deviation poisons the case, which releases
//! every waiter; the threads then run on unscheduled.
//!
//! kind=3x  three threads on `split_mut()`:
//!   P  `push_slice(&[v, v+1, ..])`
//!   W  attached: `get_workable_slice_exact(n)`, checks that the window holds the producer's v, v+1, .., adds EDIT to
//!                every item in place, `MRBIterator::advance(n)` (release store of work_idx)
//!      detached: `Detached::get_workable_slice_exact(n)`, same check and edit, `Detached::advance(n)` (NO store)
//!   C  attached: `copy_slice(&mut dst)`; detached: `Detached::get_workable_slice_exact(n)`, copy, `Detached::advance(n)`;
//!      must get exactly the mix the script announces (`edited=` bits): v+j+EDIT where the worker edited the
//!      position, v+j where a worker reset jumped over it
//!   commands of W and C (RA3x.v):
//!      reset   attached: `WorkIter::reset_index()` / `ConsIter::reset_index()`  (machine: load at [Reset j], store at
//!                                                                               the thread's next [Op], pc 5)
//!              detached: `Detached::reset_index()`                              (load only)
//!      detach  `MRBIterator::detach()`                                          (no access)
//!      sync    detached: `Detached::sync_index()`                               (one store of the local index)
//!              attached: `MRBIterator::advance(0)`          (presentation only: the crate has no sync_index on an
//!                                                            attached iterator; advance(0) is the same single release
//!                                                            store of the unchanged index)
//!      attach  detached: `Detached::attach()`                                   (one store of the local index)
//!              attached: `detach().attach()`                                    (presentation only: same single store)
//!   After the run: final published / local indices and modes, the number of items consumed, and the positions the
//!   worker thread really edited against the `edited=` bits of the consumed windows.
//!
//!   concrun3x <file>    one line per case: `case <k> ok events=<n>` / `case <k> MISMATCH <what>`; exit code 1 on mismatch
use mutringbuf::iterators::{ConsIter, Detached, WorkIter};
use mutringbuf::verif_hooks::{self as hooks, Event, Kind, Listener};
use mutringbuf::{ConcurrentHeapRB, HeapSplit, MRBIterator};
use std::cell::{Cell, RefCell};
use std::collections::HashSet;
use std::sync::atomic::{AtomicUsize, Ordering as AO};
use std::sync::{Arc, Condvar, Mutex};
use std::time::{Duration, Instant};

const TIMEOUT: Duration = Duration::from_secs(3);
const NAMES: [&str; 4] = ["P", "W", "C", "?"];
const EDIT: u64 = 1_000_000;
type RB = ConcurrentHeapRB<u64>;

thread_local! {
    static TID: Cell<usize> = Cell::new(0);                 // 0: main thread (not scheduled), 1: producer, 2: worker, 3: consumer
    static OPNO: Cell<usize> = Cell::new(0);                // the thread's running operation / command (position in its program)
    /// what must be in memory when the thread's next store happens: (address of a u64, expected value)
    static PROBE: RefCell<Vec<(usize, u64)>> = RefCell::new(Vec::new());
}
fn set_probe(v: Vec<(usize, u64)>) { PROBE.with(|p| *p.borrow_mut() = v); }

/// one `ev` line; threads and words are 0 = P (prod_idx), 1 = W (work_idx), 2 = C (cons_idx);
/// `op`: the program item of `thr` it belongs to
#[derive(Clone, Copy)]
struct Ev { thr: usize, store: bool, word: usize, val: usize, op: usize, line: usize }

impl Ev { fn show(&self) -> String { format!("{} {} {} {}", NAMES[self.thr], if self.store { "st" } else { "ld" }, NAMES[self.word], self.val) } }

#[derive(Clone, Debug)]
enum What { Op { n: usize, from: u64, exp: Option<bool>, edited: Option<Vec<bool>> }, Reset { to: Option<u64> }, Detach, Attach, Sync }

#[derive(Clone)]
struct Item { what: What, line: usize }

#[derive(Default)]
struct Case {
    k: usize, len: usize, evs: Vec<Ev>,
    prog: [Vec<Item>; 3],
    fin: [Option<usize>; 3], local: [Option<usize>; 2], detached: [Option<bool>; 2], consumed: usize, race: bool,
}

struct St { cur: usize, own: [usize; 3], running: [bool; 3], poison: Option<String> }

struct Sched {
    evs: Vec<Ev>,
    mine: [Vec<usize>; 3],                                  // per thread: the positions of its events in `evs`
    words: [AtomicUsize; 3], last_addr: AtomicUsize, salt: usize,
    st: Mutex<St>, cv: Condvar,
}

impl Sched {
    fn poison(&self, st: &mut St, what: String) {
        if st.poison.is_none() { st.poison = Some(what); }
        self.cv.notify_all();
    }
    fn fail(&self, what: String) { let mut st = self.st.lock().unwrap(); self.poison(&mut st, what); }
    /// a role thread has run its whole program (or is unwinding)
    fn finish(&self, t: usize) {
        let mut st = self.st.lock().unwrap();
        st.running[t] = false; self.cv.notify_all();
        if let Some(&k) = self.mine[t].get(st.own[t]) {
            let what = format!("at ev {} (line {}): {} finished its program, expected `{}`", k, self.evs[k].line, NAMES[t], self.evs[k].show());
            self.poison(&mut st, what);
        }
    }
}

impl Listener for Sched {
    fn before(&self, e: &Event) -> Option<usize> {
        let me = TID.with(|t| t.get());
        if me == 0 { self.last_addr.store(e.addr, AO::SeqCst); return None; }
        let t = me - 1;
        let mut st = self.st.lock().unwrap();
        if st.poison.is_some() { return None; }
        let word = (0..3).find(|&w| self.words[w].load(AO::SeqCst) == e.addr).unwrap_or(3);
        let val = if e.kind == Kind::Load { String::new() } else { format!(" {}", e.value) };
        let got = format!("{} {:?} {}{} ({:?})", NAMES[t], e.kind, NAMES[word], val, e.order);
        let Some(&k) = self.mine[t].get(st.own[t]) else {
            let what = format!("after ev {}: extra event `{}` in op {}, nothing more expected of {}", st.cur as isize - 1, got, OPNO.with(|c| c.get()), NAMES[t]);
            self.poison(&mut st, what);
            return None;
        };
        let x = self.evs[k];
        let ok = word == x.word && x.op == OPNO.with(|c| c.get()) && match e.kind {
            Kind::Load => !x.store && matches!(e.order, AO::Acquire | AO::SeqCst),
            Kind::Store => x.store && e.value == x.val && matches!(e.order, AO::Release | AO::SeqCst),
            _ => false,
        };
        if !ok {
            self.poison(&mut st, format!("at ev {} (line {}): expected `{}` in op {}, got `{}` in op {}", k, x.line, x.show(), x.op, got, OPNO.with(|c| c.get())));
            return None;
        }
        if x.store {
            let bad = PROBE.with(|p| p.borrow().iter().enumerate().find_map(|(j, &(addr, want))| {
                let v = unsafe { std::ptr::read_volatile(addr as *const u64) };
                (v != want).then_some((j, v, want))
            }));
            if let Some((j, v, want)) = bad {
                self.poison(&mut st, format!("at ev {} (line {}): `{}` publishes before the data is in place (item {} covered by the publication is {}, expected {})", k, x.line, x.show(), j, v, want));
                return None;
            }
        }
        // ONE thread runs at a time: this thread parks until every earlier line of the case has been performed AND every other role thread is
        // parked at one of its own lines (or has finished) - whatever a thread does between two of its lines (its data accesses in particular)
        // then happens in exactly that interval of the machine execution; an operation starts as early as this rule allows
        st.running[t] = false; self.cv.notify_all();
        let deadline = Instant::now() + TIMEOUT;
        while st.cur != k || (0..3).any(|o| o != t && st.running[o]) {
            let now = Instant::now();
            if now >= deadline {
                let c = self.evs[st.cur.min(self.evs.len() - 1)];
                let what = format!("at ev {} (line {}): timeout, `{}` never came ({} waits with ev {})", st.cur, c.line, c.show(), NAMES[t], k);
                self.poison(&mut st, what);
            }
            if st.poison.is_some() { return None; }
            st = self.cv.wait_timeout(st, deadline - now).unwrap().0;
        }
        st.cur += 1;
        st.own[t] += 1;
        st.running[t] = true;
        self.cv.notify_all();
        if x.store { None } else { Some(x.val) }
    }
}

struct Fin(Arc<Sched>, usize);
impl Drop for Fin { fn drop(&mut self) { self.0.finish(self.1); } }

/// runs a thread's program; `item(what)` performs one operation / command and returns a complaint, if any
fn work(s: &Arc<Sched>, t: usize, prog: &[Item], mut item: impl FnMut(&What) -> Result<(), String>) {
    TID.with(|c| c.set(t + 1));
    let _fin = Fin(s.clone(), t);
    for (i, it) in prog.iter().enumerate() {
        OPNO.with(|c| c.set(i));
        set_probe(vec![]);
        if let Err(what) = item(&it.what) { s.fail(format!("op {} of {} (line {}, {:?}): {}", i, NAMES[t], it.line, it.what, what)); }
    }
}

/// the usual bookkeeping of an operation: `pos` is the value position of the thread (items handled or skipped so far)
fn op_start(pos: u64, from: u64) -> Result<(), String> {
    if pos == from { Ok(()) } else { Err(format!("the script is at value position {}, the replay at {}", from, pos)) }
}
fn op_end(r: bool, exp: Option<bool>) -> Result<(), String> {
    if Some(r) == exp { Ok(()) } else { Err(format!("granted={}, expected {:?}", r, exp)) }
}
fn same(what: &str, got: &[u64], want: &[u64]) -> Result<(), String> {
    if got == want { Ok(()) } else { Err(format!("{}: {:?}, expected {:?}", what, got, want)) }
}

/// `reset_index` is an inherent method of the two iterators
trait Role: MRBIterator<Item = u64> + Sized {
    fn reset(&mut self);
    fn published(&self) -> usize;
}
impl Role for WorkIter<'static, RB> {
    fn reset(&mut self) { self.reset_index() }
    fn published(&self) -> usize { self.work_index() }
}
impl Role for ConsIter<'static, RB, true> {
    fn reset(&mut self) { self.reset_index() }
    fn published(&self) -> usize { self.cons_index() }
}

/// a worker / consumer with its mode (attached / detached)
enum Stage<I: Role> { A(I), D(Detached<I>), Gone }

impl<I: Role> Stage<I> {
    fn index(&self) -> usize { match self { Stage::A(i) => i.index(), Stage::D(d) => d.index(), Stage::Gone => usize::MAX } }
    fn published(&self) -> usize { match self { Stage::A(i) => i.published(), Stage::D(d) => d.verif_inner().published(), Stage::Gone => usize::MAX } }
    fn detached(&self) -> bool { matches!(self, Stage::D(_)) }
    /// the commands of RA3x.v; a reset moves the value position `pos` by the number of items it jumps over
    fn command(&mut self, what: &What, len: usize, pos: &mut u64) -> Result<(), String> {
        match what {
            What::Reset { to } => {
                let old = self.index();
                match self { Stage::A(i) => i.reset(), Stage::D(d) => d.reset_index(), Stage::Gone => unreachable!() }
                *pos += ((self.index() + len - old) % len) as u64;
                if Some(*pos) == *to { Ok(()) } else { Err(format!("jumped to value position {}, expected {:?}", pos, to)) }
            }
            What::Detach => {
                if let Stage::A(a) = std::mem::replace(self, Stage::Gone) { *self = Stage::D(a.detach()); Ok(()) } else { Err("detach while detached".into()) }
            }
            What::Attach => {
                *self = match std::mem::replace(self, Stage::Gone) { Stage::D(d) => Stage::A(d.attach()), Stage::A(a) => Stage::A(a.detach().attach()), Stage::Gone => unreachable!() };
                Ok(())
            }
            What::Sync => { match self { Stage::D(d) => d.sync_index(), Stage::A(a) => unsafe { a.advance(0) }, Stage::Gone => unreachable!() } Ok(()) }
            What::Op { .. } => unreachable!(),
        }
    }
}

/// the worker's program; returns the value positions it edited
fn worker(s: &Arc<Sched>, prog: &[Item], w: WorkIter<'static, RB>, len: usize, slots: usize) -> (Stage<WorkIter<'static, RB>>, Vec<u64>) {
    let (mut w, mut pos, mut edited) = (Stage::A(w), 0u64, Vec::<u64>::new());
    // the edits no store of work_idx has covered yet (those of the running detached phase): (address, value)
    let mut pending: Vec<(usize, u64)> = vec![];
    let addr = |p: u64| slots + (p as usize % len) * std::mem::size_of::<u64>();
    work(s, 1, prog, |what| {
        match what {
            What::Op { n, from, exp, .. } => {
                let n = *n;
                op_start(pos, *from)?;
                let window: Vec<(usize, u64)> = (pos..pos + n as u64).map(|p| (addr(p), p + EDIT)).collect();
                let mut seen = vec![];
                let mut edit = |(h, t): (&mut [u64], &mut [u64])| for x in h.iter_mut().chain(t.iter_mut()) { seen.push(*x); *x += EDIT; };
                let r = match &mut w {
                    Stage::A(w) => {
                        set_probe(pending.iter().copied().chain(window.iter().copied()).collect());
                        if n == 1 && (s.salt / 4 + OPNO.with(|c| c.get())) % 2 == 1 {
                            match w.get_workable() {
                                Some(x) => { edit((std::slice::from_mut(x), &mut [])); unsafe { w.advance(1) }; pending.clear(); true }
                                None => false,
                            }
                        } else {
                            match w.get_workable_slice_exact(n) {
                                Some(sl) => { edit(sl); unsafe { w.advance(n) }; pending.clear(); true }
                                None => false,
                            }
                        }
                    }
                    Stage::D(d) => match d.get_workable_slice_exact(n) {
                        Some(sl) => { edit(sl); unsafe { d.advance(n) }; pending.extend_from_slice(&window); true }
                        None => false,
                    },
                    Stage::Gone => unreachable!(),
                };
                if r {
                    if seen.len() != n { return Err(format!("window of {} items for a request of {}", seen.len(), n)); }
                    same("the worker's window held", &seen, &(pos..pos + n as u64).collect::<Vec<_>>())?;
                    edited.extend(pos..pos + n as u64);
                    pos += n as u64;
                }
                op_end(r, *exp)
            }
            cmd => {
                // every store of a command publishes the local index: it covers the whole detached phase
                set_probe(pending.clone());
                w.command(cmd, len, &mut pos)?;
                if matches!(cmd, What::Attach | What::Sync) || (matches!(cmd, What::Reset { .. }) && !w.detached()) { pending.clear(); }
                Ok(())
            }
        }
    });
    (w, edited)                                              // dropped by the main thread
}

/// the consumer's program; returns (value position, edited bit of the script, value copied) of every item consumed
fn consumer(s: &Arc<Sched>, prog: &[Item], c: ConsIter<'static, RB, true>, len: usize) -> (Stage<ConsIter<'static, RB, true>>, Vec<(u64, bool, u64)>) {
    let (mut c, mut got, mut pos) = (Stage::A(c), Vec::<(u64, bool, u64)>::new(), 0u64);
    work(s, 2, prog, |what| {
        match what {
            What::Op { n, from, exp, edited } => {
                let n = *n;
                op_start(pos, *from)?;
                if *exp == Some(true) && edited.as_ref().map(|e| e.len()) != Some(n) { return Err("granted consumer operation without its edited= bits".into()); }
                let bits = edited.clone().unwrap_or(vec![false; n]);
                let want: Vec<u64> = (0..n).map(|j| pos + j as u64 + if bits[j] { EDIT } else { 0 }).collect();
                let mut dst = vec![u64::MAX - 1; n];
                let r = match &mut c {
                    Stage::A(c) => {
                        set_probe((0..n).map(|j| (dst.as_ptr() as usize + j * std::mem::size_of::<u64>(), want[j])).collect());
                        match (n, (s.salt / 8 + OPNO.with(|c| c.get())) % 5) {
                            (1, 1) => c.copy_item(&mut dst[0]).is_some(),
                            (1, 2) => c.clone_item(&mut dst[0]).is_some(),
                            (1, 3) => { set_probe(vec![]); match c.pop() { Some(x) => { dst[0] = x; true } None => false } }
                            (1, 4) => match c.peek_ref() { Some(x) => { dst[0] = *x; unsafe { c.advance(1) }; true } None => false },
                            (k, 1) if k > 1 => c.clone_slice(&mut dst).is_some(),
                            (k, 2) if k > 1 => match c.peek_slice(k) { Some((h, t)) => { for (d, x) in dst.iter_mut().zip(h.iter().chain(t.iter())) { *d = *x; } unsafe { c.advance(k) }; true } None => false },
                            _ => c.copy_slice(&mut dst).is_some(),
                        }
                    }
                    Stage::D(d) => match d.get_workable_slice_exact(n) {
                        Some((h, t)) => {
                            let mid = h.len();
                            dst[..mid].copy_from_slice(h);
                            dst[mid..].copy_from_slice(t);
                            unsafe { d.advance(n) };
                            true
                        }
                        None => false,
                    },
                    Stage::Gone => unreachable!(),
                };
                op_end(r, *exp)?;
                if r {
                    same("copied", &dst, &want)?;
                    got.extend((0..n).map(|j| (pos + j as u64, bits[j], dst[j])));
                    pos += n as u64;
                }
                Ok(())
            }
            cmd => c.command(cmd, len, &mut pos),
        }
    });
    (c, got)                                                 // dropped by the main thread
}

fn run(case: Case) -> Result<usize, String> {
    let events = case.evs.len();
    let mine = [0, 1, 2].map(|t| (0..events).filter(|&k| case.evs[k].thr == t).collect::<Vec<_>>());
    let s = Arc::new(Sched {
        evs: case.evs, mine, words: [AtomicUsize::new(0), AtomicUsize::new(0), AtomicUsize::new(0)], last_addr: AtomicUsize::new(0), salt: case.k,
        st: Mutex::new(St { cur: 0, own: [0; 3], running: [true; 3], poison: None }), cv: Condvar::new(),
    });
    hooks::set_listener(Some(s.clone()));
    let len = case.len;
    let [prog_p, prog_w, prog_c] = case.prog;
    let rb = RB::from(vec![u64::MAX; len]);
    let (mut p, w, c) = rb.split_mut();
    p.prod_index(); s.words[0].store(s.last_addr.load(AO::SeqCst), AO::SeqCst);
    p.work_index(); s.words[1].store(s.last_addr.load(AO::SeqCst), AO::SeqCst);
    p.cons_index(); s.words[2].store(s.last_addr.load(AO::SeqCst), AO::SeqCst);
    let slots = hooks::storage_ptr(&p) as usize;

    let sp = s.clone();
    let hp = std::thread::spawn(move || {
        let mut next = 0u64;
        work(&sp, 0, &prog_p, |what| {
            let What::Op { n, from, exp, .. } = what else { return Err("the producer has no commands".into()) };
            op_start(next, *from)?;
            let v: Vec<u64> = (next..next + *n as u64).collect();
            set_probe(v.iter().map(|&x| (slots + (x as usize % len) * std::mem::size_of::<u64>(), x)).collect());
            // the machine's "request n slots, fill them, publish" is realised by every public form in turn
            let r = match (*n, (sp.salt + OPNO.with(|c| c.get())) % 4) {
                (1, 1) => p.push(v[0]).is_ok(),
                (1, 2) => p.push_init(v[0]).is_ok(),
                (1, 3) => match p.get_next_item_mut_init() { Some(x) => { unsafe { x.write(v[0]); p.advance(1); } true } None => false },
                (k, 1) if k > 1 => p.push_slice_clone(&v).is_some(),
                (k, 2) if k > 1 => p.push_slice_init(&v).is_some(),
                (k, 3) if k > 1 => match unsafe { p.get_next_slices_mut(k) } { Some((h, t)) => { for (d, x) in h.iter_mut().chain(t.iter_mut()).zip(v.iter()) { *d = *x; } unsafe { p.advance(k) }; true } None => false },
                _ => p.push_slice(&v).is_some(),
            };
            if r { next += *n as u64; }
            op_end(r, *exp)
        });
        p                                                    // dropped by the main thread
    });
    let sw = s.clone();
    let hw = std::thread::spawn(move || worker(&sw, &prog_w, w, len, slots));
    let sc = s.clone();
    let hc = std::thread::spawn(move || consumer(&sc, &prog_c, c, len));
    let (rp, rw, rc) = (hp.join(), hw.join(), hc.join());
    let st = s.st.lock().unwrap();
    let (poisoned, cur) = (st.poison.clone(), st.cur);
    drop(st);
    if let Some(what) = poisoned { return Err(what); }
    let (Ok(p), Ok((w, edited)), Ok((c, got))) = (rp, rw, rc) else { return Err("a role thread panicked".into()) };
    if cur != events { return Err(format!("only {} of {} events performed", cur, events)); }
    if case.race { return Err("the machine reports a data race".into()); }
    if got.len() != case.consumed { return Err(format!("consumer copied {} items, expected {}", got.len(), case.consumed)); }
    let fin = [Some(p.prod_index()), Some(w.published()), Some(c.published())];
    if fin != case.fin { return Err(format!("final prod_idx,work_idx,cons_idx = {:?}, expected {:?}", fin, case.fin)); }
    let (local, det) = ([Some(w.index()), Some(c.index())], [Some(w.detached()), Some(c.detached())]);
    if (local, det) != (case.local, case.detached) { return Err(format!("final work_local,cons_local / detached = {:?}, expected {:?}", (local, det), (case.local, case.detached))); }
    // what the script says about the consumed items is what the worker thread did
    let edited: HashSet<u64> = edited.into_iter().collect();
    if let Some((p, b, v)) = got.iter().find(|(p, b, _)| edited.contains(p) != *b) {
        return Err(format!("the item at value position {} (consumed as {}) is announced as edited={}, the worker thread says {}", p, v, b, !b));
    }
    Ok(events)
}

fn parse(text: &str) -> Result<Vec<Case>, String> {
    let thr = |w: &str| match w { "P" => Ok(0), "W" => Ok(1), "C" => Ok(2), _ => Err(format!("bad thread/word `{}`", w)) };
    let num = |w: &str| w.parse::<usize>().map_err(|_| format!("bad number `{}`", w));
    let (mut cases, mut cur): (Vec<Case>, Option<Case>) = (vec![], None);
    for (i, l) in text.lines().enumerate() {
        let line = i + 1;
        let w: Vec<&str> = l.split_whitespace().collect();
        let r: Result<(), String> = (|| {
            match (w.as_slice(), cur.as_mut()) {
                ([], _) => {}
                (["case", k, "kind=3x", len], None) => cur = Some(Case { k: num(k)?, len: num(len.strip_prefix("len=").ok_or("len= expected")?)?, ..Default::default() }),
                (["op", t, n, from, rest @ ..], Some(c)) => {
                    let from = num(from.strip_prefix("from=").ok_or("from= expected")?)? as u64;
                    let (t, n) = (thr(t)?, num(n)?);
                    let edited = match rest {
                        [] if t != 2 => None,
                        [e] if t == 2 => match e.strip_prefix("edited=").ok_or("edited= expected")? {
                            "-" => None,
                            bits if bits.len() == n && bits.bytes().all(|b| b == b'0' || b == b'1') => Some(bits.bytes().map(|b| b == b'1').collect()),
                            _ => return Err("edited= needs one 0/1 per item".into()),
                        },
                        _ => return Err("edited= belongs to the consumer's operations (exactly)".into()),
                    };
                    c.prog[t].push(Item { what: What::Op { n, from, exp: None, edited }, line })
                }
                (["res", t, g], Some(c)) => match c.prog[thr(t)?].last_mut() {
                    Some(Item { what: What::Op { exp, .. }, .. }) => *exp = Some(num(g)? == 1),
                    _ => return Err("res without op".into()),
                },
                (["cmd", t @ ("W" | "C"), k], Some(c)) => {
                    let what = match *k { "reset" => What::Reset { to: None }, "detach" => What::Detach, "attach" => What::Attach, "sync" => What::Sync, _ => return Err("unknown command".into()) };
                    c.prog[thr(t)?].push(Item { what, line })
                }
                (["jump", t @ ("W" | "C"), v], Some(c)) => match c.prog[thr(t)?].last_mut() {
                    Some(Item { what: What::Reset { to }, .. }) => *to = Some(num(v)? as u64),
                    _ => return Err("jump without reset".into()),
                },
                (["ev", t, k @ ("ld" | "st"), wd, v], Some(c)) => {
                    let t = thr(t)?;
                    let op = c.prog[t].len().checked_sub(1).ok_or("ev without op")?;
                    c.evs.push(Ev { thr: t, store: *k == "st", word: thr(wd)?, val: num(v)?, op, line })
                }
                (["final", rest @ ..], Some(c)) => for kv in rest {
                    let (key, v) = kv.split_once('=').ok_or("key=value expected")?;
                    let v = num(v)?;
                    match key {
                        "prod_idx" => c.fin[0] = Some(v), "work_idx" => c.fin[1] = Some(v), "cons_idx" => c.fin[2] = Some(v),
                        "work_local" => c.local[0] = Some(v), "work_detached" => c.detached[0] = Some(v != 0),
                        "cons_local" => c.local[1] = Some(v), "cons_detached" => c.detached[1] = Some(v != 0),
                        "consumed" => c.consumed = v, "race" => c.race = v != 0, _ => return Err(format!("unknown key `{}`", key)) }
                },
                (["end"], Some(_)) => cases.push(cur.take().unwrap()),
                _ => return Err("unexpected line".into()),
            }
            Ok(())
        })();
        r.map_err(|e| format!("line {}: {}", line, e))?;
    }
    if cur.is_some() { return Err("unterminated case".into()); }
    Ok(cases)
}

fn main() {
    let path = std::env::args().nth(1).unwrap_or_else(|| { eprintln!("usage: concrun3x <file>"); std::process::exit(2) });
    let text = std::fs::read_to_string(&path).unwrap_or_else(|e| { eprintln!("concrun3x: {}: {}", path, e); std::process::exit(2) });
    let cases = parse(&text).unwrap_or_else(|e| { eprintln!("concrun3x: {}: {}", path, e); std::process::exit(2) });
    let (total, mut bad, t0) = (cases.len(), 0, Instant::now());
    for case in cases {
        let k = case.k;
        match run(case) {
            Ok(n) => println!("case {} ok events={}", k, n),
            Err(what) => { bad += 1; println!("case {} MISMATCH {}", k, what) }
        }
    }
    hooks::set_listener(None);
    eprintln!("concrun3x: {} cases, {} mismatches, {:.2} s", total, bad, t0.elapsed().as_secs_f64());
    if bad > 0 { std::process::exit(1); }
}
