//! C16 tie: evaluates `T: Send` / `T: Sync` as constants (inherent associated const shadowing a blanket trait
//! const) for the matrix wrapper x iterator x buffer variant x item type and prints one row per type.
use core::marker::PhantomData;
use mutringbuf::iterators::*;
use mutringbuf::*;
use std::cell::Cell;
use std::rc::Rc;
use std::sync::MutexGuard;

struct P<T: ?Sized>(PhantomData<T>);
trait NoSend { const SEND: bool = false; }
impl<T: ?Sized> NoSend for P<T> {}
impl<T: ?Sized + Send> P<T> { const SEND: bool = true; }
trait NoSync { const SYNC: bool = false; }
impl<T: ?Sized> NoSync for P<T> {}
impl<T: ?Sized + Sync> P<T> { const SYNC: bool = true; }

macro_rules! row {
    ($w:expr, $i:expr, $conc:expr, $is:expr, $iy:expr, $t:ty) => {
        println!("{} {} conc={} item_send={} item_sync={} => send={} sync={}   # {}", $w, $i, $conc, $is, $iy,
                 <P<$t>>::SEND as u8, <P<$t>>::SYNC as u8, stringify!($t).split_whitespace().collect::<Vec<_>>().join(" "));
    };
}
macro_rules! iters {
    ($conc:expr, $is:expr, $iy:expr, $B:ty) => {
        row!("Plain", "Prod", $conc, $is, $iy, ProdIter<'static, $B>);
        row!("Plain", "Work", $conc, $is, $iy, WorkIter<'static, $B>);
        row!("Plain", "Cons", $conc, $is, $iy, ConsIter<'static, $B, true>);
        row!("Plain", "Cons", $conc, $is, $iy, ConsIter<'static, $B, false>);
        row!("Async", "Prod", $conc, $is, $iy, AsyncProdIter<'static, $B>);
        row!("Async", "Work", $conc, $is, $iy, AsyncWorkIter<'static, $B>);
        row!("Async", "Cons", $conc, $is, $iy, AsyncConsIter<'static, $B, true>);
        row!("Async", "Cons", $conc, $is, $iy, AsyncConsIter<'static, $B, false>);
        row!("Det", "Prod", $conc, $is, $iy, Detached<ProdIter<'static, $B>>);
        row!("Det", "Work", $conc, $is, $iy, Detached<WorkIter<'static, $B>>);
        row!("Det", "Cons", $conc, $is, $iy, Detached<ConsIter<'static, $B, true>>);
        row!("Det", "Cons", $conc, $is, $iy, Detached<ConsIter<'static, $B, false>>);
        row!("ADet", "Prod", $conc, $is, $iy, AsyncDetached<AsyncProdIter<'static, $B>, $B>);
        row!("ADet", "Work", $conc, $is, $iy, AsyncDetached<AsyncWorkIter<'static, $B>, $B>);
        row!("ADet", "Cons", $conc, $is, $iy, AsyncDetached<AsyncConsIter<'static, $B, true>, $B>);
        row!("ADet", "Cons", $conc, $is, $iy, AsyncDetached<AsyncConsIter<'static, $B, false>, $B>);
        // the futures of the async operations borrow their iterator mutably: never more sendable than the iterator itself
        row!("Fut", "Prod", $conc, $is, $iy, mutringbuf::iterators::async_iterators::MRBFuture<'static, AsyncProdIter<'static, $B>, (), (), true>);
        row!("Fut", "Prod", $conc, $is, $iy, mutringbuf::iterators::async_iterators::MRBFuture<'static, AsyncProdIter<'static, $B>, usize, (), true>);
        row!("Fut", "Work", $conc, $is, $iy, mutringbuf::iterators::async_iterators::MRBFuture<'static, AsyncWorkIter<'static, $B>, (), (), true>);
        row!("Fut", "Cons", $conc, $is, $iy, mutringbuf::iterators::async_iterators::MRBFuture<'static, AsyncConsIter<'static, $B, true>, (), (), true>);
        row!("Fut", "Cons", $conc, $is, $iy, mutringbuf::iterators::async_iterators::MRBFuture<'static, AsyncConsIter<'static, $B, false>, usize, (), false>);
        row!("MutRef", "Prod", $conc, $is, $iy, &'static mut AsyncProdIter<'static, $B>);
        row!("MutRef", "Cons", $conc, $is, $iy, &'static mut ConsIter<'static, $B, false>);
        // references to iterators are never Send (iterators are never Sync)
        row!("Ref", "Prod", $conc, $is, $iy, &'static ProdIter<'static, $B>);
        row!("Ref", "Work", $conc, $is, $iy, &'static Detached<WorkIter<'static, $B>>);
        row!("Ref", "Cons", $conc, $is, $iy, &'static AsyncConsIter<'static, $B, true>);
    };
}
macro_rules! bufs {
    ($is:expr, $iy:expr, $T:ty) => {
        iters!(1, $is, $iy, ConcurrentHeapRB<$T>);
        iters!(0, $is, $iy, LocalHeapRB<$T>);
        iters!(1, $is, $iy, ConcurrentStackRB<$T, 4>);
        iters!(0, $is, $iy, LocalStackRB<$T, 4>);
    };
}

/// user-side implementations of the public, unsealed `AsyncIterator` trait whose associated buffer type `B` is NOT the buffer
/// the wrapped iterator `I` runs on: nothing a wrapper's `Send` rests on may be decided by `B`
macro_rules! foreign {
    ($name:ident, $I:ty, $B:ty) => {
        #[allow(dead_code)]
        struct $name { inner: $I }
        impl mutringbuf::iterators::async_iterators::AsyncIterator for $name {
            type I = $I;
            type B = $B;
            fn register_waker(&mut self, _w: &std::task::Waker) {}
            fn inner(&self) -> &Self::I { &self.inner }
            fn inner_mut(&mut self) -> &mut Self::I { &mut self.inner }
            fn into_sync(self) -> Self::I { self.inner }
            fn from_sync(iter: Self::I) -> Self { Self { inner: iter } }
        }
    };
}
foreign!(ForeignLocalProd, ProdIter<'static, LocalHeapRB<Rc<u8>>>, ConcurrentHeapRB<u8>);
foreign!(ForeignLocalWork, WorkIter<'static, LocalHeapRB<usize>>, ConcurrentHeapRB<usize>);
foreign!(ForeignRcCons, ConsIter<'static, ConcurrentHeapRB<Rc<u8>>, false>, ConcurrentHeapRB<u8>);

/// a user-side async iterator whose wrapped sync iterator IS sendable (concurrent buffer, sendable items) but which carries something that
/// is not (an `Rc`, an iterator of a local buffer): a wrapper's `Send` must rest on the whole `I`, not on `I::I`
#[allow(dead_code)]
struct ForeignCarriesRc { inner: ProdIter<'static, ConcurrentHeapRB<usize>>, extra: Rc<u8> }
#[allow(dead_code)]
struct ForeignCarriesLocal { inner: WorkIter<'static, ConcurrentHeapRB<usize>>, extra: Option<ProdIter<'static, LocalHeapRB<usize>>> }
impl mutringbuf::iterators::async_iterators::AsyncIterator for ForeignCarriesRc {
    type I = ProdIter<'static, ConcurrentHeapRB<usize>>;
    type B = ConcurrentHeapRB<usize>;
    fn register_waker(&mut self, _w: &std::task::Waker) {}
    fn inner(&self) -> &Self::I { &self.inner }
    fn inner_mut(&mut self) -> &mut Self::I { &mut self.inner }
    fn into_sync(self) -> Self::I { self.inner }
    fn from_sync(iter: Self::I) -> Self { Self { inner: iter, extra: Rc::new(0) } }
}
impl mutringbuf::iterators::async_iterators::AsyncIterator for ForeignCarriesLocal {
    type I = WorkIter<'static, ConcurrentHeapRB<usize>>;
    type B = ConcurrentHeapRB<usize>;
    fn register_waker(&mut self, _w: &std::task::Waker) {}
    fn inner(&self) -> &Self::I { &self.inner }
    fn inner_mut(&mut self) -> &mut Self::I { &mut self.inner }
    fn into_sync(self) -> Self::I { self.inner }
    fn from_sync(iter: Self::I) -> Self { Self { inner: iter, extra: None } }
}

fn main() {
    row!("Foreign", "Prod", 1, 0, 0, AsyncDetached<ForeignCarriesRc, ConcurrentHeapRB<usize>>);
    row!("Foreign", "Work", 0, 1, 1, AsyncDetached<ForeignCarriesLocal, ConcurrentHeapRB<usize>>);
    row!("Foreign", "Prod", 0, 0, 0, AsyncDetached<ForeignLocalProd, ConcurrentHeapRB<u8>>);
    row!("Foreign", "Work", 0, 1, 1, AsyncDetached<ForeignLocalWork, ConcurrentHeapRB<usize>>);
    row!("Foreign", "Cons", 1, 0, 0, AsyncDetached<ForeignRcCons, ConcurrentHeapRB<u8>>);

    // carriers: an iterator (or a non-sendable item) travels inside an UNSPLIT buffer - the buffer types themselves must not be more
    // sendable than what they hold (conc = 0: the carried iterator belongs to a local buffer; item_send = 0: the carried item is not Send)
    row!("Carrier", "Prod", 0, 1, 1, ConcurrentHeapRB<ProdIter<'static, LocalHeapRB<usize>>>);
    row!("Carrier", "Cons", 0, 1, 1, LocalHeapRB<ConsIter<'static, LocalStackRB<usize, 4>, false>>);
    row!("Carrier", "Work", 0, 1, 1, ConcurrentStackRB<Detached<WorkIter<'static, LocalHeapRB<usize>>>, 2>);
    row!("Carrier", "Prod", 0, 1, 1, LocalStackRB<AsyncProdIter<'static, LocalHeapRB<usize>>, 2>);
    row!("Carrier", "Prod", 1, 0, 0, ConcurrentHeapRB<Rc<u8>>);
    row!("Carrier", "Prod", 1, 0, 0, LocalHeapRB<Rc<u8>>);
    row!("Carrier", "Cons", 1, 0, 0, ConcurrentStackRB<Rc<u8>, 4>);
    row!("Carrier", "Cons", 1, 0, 0, LocalStackRB<Rc<u8>, 4>);
    row!("Carrier", "Cons", 1, 0, 0, ConcurrentHeapRB<ConsIter<'static, ConcurrentHeapRB<Rc<u8>>, false>>);

    bufs!(1, 1, usize);
    bufs!(0, 0, Rc<u8>);
    bufs!(1, 0, Cell<u8>);
    bufs!(0, 1, MutexGuard<'static, u8>);
    bufs!(0, 0, *const u8);
}
