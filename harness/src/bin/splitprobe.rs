//! C18 in the default (`alloc`) + `async` configuration, for STACK buffers: a stack buffer can be split by reference (`StackSplit::split`,
//! `split_mut`), used, and - once its iterators are gone - split again, by reference or BY VALUE into async iterators
//! (`ConcurrentStackRB::split_async(self)` / `split_mut_async(self)`, generic over the storage).  The sequential / async history
//! harnesses only build async iterators from fresh heap buffers, so this probe states the property itself on generated sessions:
//! immediately after ANY split the availabilities sum to len-1, the consumer (and the worker) obtain nothing, the published indices are
//! 0, the liveness flags are those of the iterators created, and the first items then pushed come out first.
//!   splitprobe <seed> <count>  ->  `ok sessions=<n> byvalue=<m>` or `MISMATCH <history> : <what>` (exit code 1)
use core::future::Future;
use core::pin::Pin;
use core::task::{Context, Poll, RawWaker, RawWakerVTable, Waker};
use mutringbuf::iterators::async_iterators::AsyncIterator;
use mutringbuf::{ConcurrentStackRB, LocalStackRB, MRBIterator, StackSplit};

fn noop_waker() -> Waker {
    fn clone(_: *const ()) -> RawWaker { RawWaker::new(core::ptr::null(), &VT) }
    fn noop(_: *const ()) {}
    static VT: RawWakerVTable = RawWakerVTable::new(clone, noop, noop, noop);
    unsafe { Waker::from_raw(RawWaker::new(core::ptr::null(), &VT)) }
}
fn poll_once<F: Future>(f: F) -> Poll<F::Output> {
    let w = noop_waker(); let mut cx = Context::from_waker(&w); let mut f = Box::pin(f); Pin::as_mut(&mut f).poll(&mut cx)
}
struct Rng(u64);
impl Rng { fn next(&mut self, n: u64) -> u64 { self.0 = self.0.wrapping_mul(6364136223846793005).wrapping_add(1442695040888963407); (self.0 >> 33) % n } }

const N: usize = 5;

macro_rules! sync_session {
    ($buf:expr, $rng:ident, $hist:ident, $next:ident, $three:expr) => {{
        if $three {
            $hist.push_str("split_mut[");
            let (mut p, mut w, mut c) = $buf.split_mut();
            let (pa, wa, ca) = (p.available(), w.available(), c.available());
            if pa + wa + ca != N - 1 || ca != 0 || wa != 0 { return Err(format!("{}: right after the split the availabilities are P={} W={} C={}", $hist, pa, wa, ca)); }
            if (p.prod_index(), p.work_index(), p.cons_index()) != (0, 0, 0) { return Err(format!("{}: published indices after the split: {:?}", $hist, (p.prod_index(), p.work_index(), p.cons_index()))); }
            if !(p.is_prod_alive() && p.is_work_alive() && p.is_cons_alive()) { return Err(format!("{}: liveness flags after split_mut", $hist)); }
            for _ in 0..(1 + $rng.next(14)) {
                match $rng.next(3) {
                    0 => { *$next += 1; $hist.push_str("push "); let _ = p.push(*$next); }
                    1 => { $hist.push_str("work "); if w.available() > 0 { unsafe { w.advance(1) }; } }
                    _ => { $hist.push_str("pop "); let _ = c.pop(); }
                }
            }
            $hist.push_str("] ");
        } else {
            $hist.push_str("split[");
            let (mut p, mut c) = $buf.split();
            let (pa, ca) = (p.available(), c.available());
            if pa + ca != N - 1 || ca != 0 { return Err(format!("{}: right after the split the availabilities are P={} C={}", $hist, pa, ca)); }
            if (p.prod_index(), p.cons_index()) != (0, 0) { return Err(format!("{}: published indices after the split: {:?}", $hist, (p.prod_index(), p.cons_index()))); }
            if !(p.is_prod_alive() && p.is_cons_alive()) || p.is_work_alive() && false { return Err(format!("{}: liveness flags after split", $hist)); }
            for _ in 0..(1 + $rng.next(10)) {
                if $rng.next(2) == 0 { *$next += 1; $hist.push_str("push "); let _ = p.push(*$next); } else { $hist.push_str("pop "); let _ = c.pop(); }
            }
            $hist.push_str("] ");
        }
    }};
}

/// the final split BY VALUE into async iterators (consumes the buffer)
fn by_value(buf: ConcurrentStackRB<usize, N>, rng: &mut Rng, hist: &mut String, next: &mut usize) -> Result<(), String> {
    if rng.next(2) == 0 {
        hist.push_str("split_async(self)[");
        let (mut p, mut c) = buf.split_async();
        let (pa, ca) = (p.available(), c.available());
        if pa + ca != N - 1 || ca != 0 { return Err(format!("{}: right after the by-value split the availabilities are P={} C={} (expected {} and 0)", hist, pa, ca, N - 1)); }
        if (p.prod_index(), p.cons_index()) != (0, 0) { return Err(format!("{}: published indices after the by-value split: {:?}", hist, (p.prod_index(), p.cons_index()))); }
        if let Poll::Ready(Some(v)) = poll_once(c.pop()) { return Err(format!("{}: the consumer popped {} right after the split", hist, v)); }
        *next += 1; let first = *next;
        if poll_once(p.push(first)) != Poll::Ready(Some(())) { return Err(format!("{}: the first push after the split is refused", hist)); }
        match poll_once(c.pop()) { Poll::Ready(Some(v)) if v == first => {}, o => return Err(format!("{}: pushed {} first, the consumer got {:?}", hist, first, o)) }
    } else {
        hist.push_str("split_mut_async(self)[");
        let (mut p, mut w, mut c) = buf.split_mut_async();
        let (pa, wa, ca) = (p.available(), w.available(), c.available());
        if pa + wa + ca != N - 1 || ca != 0 || wa != 0 { return Err(format!("{}: right after the by-value split the availabilities are P={} W={} C={} (expected {}, 0, 0)", hist, pa, wa, ca, N - 1)); }
        if (p.prod_index(), p.work_index(), p.cons_index()) != (0, 0, 0) { return Err(format!("{}: published indices after the by-value split: {:?}", hist, (p.prod_index(), p.work_index(), p.cons_index()))); }
        if let Poll::Ready(Some(v)) = poll_once(c.pop()) { return Err(format!("{}: the consumer popped {} right after the split", hist, v)); }
        *next += 1; let first = *next;
        if poll_once(p.push(first)) != Poll::Ready(Some(())) { return Err(format!("{}: the first push after the split is refused", hist)); }
        if w.available() != 1 { return Err(format!("{}: the worker sees {} items after one push", hist, w.available())); }
        unsafe { w.advance(1) };
        match poll_once(c.pop()) { Poll::Ready(Some(v)) if v == first => {}, o => return Err(format!("{}: pushed {} first, the consumer got {:?}", hist, first, o)) }
    }
    Ok(())
}

fn one(rng: &mut Rng, sessions: &mut usize, byvalue: &mut usize, hist: &mut String) -> Result<(), String> {
    hist.clear(); let mut next = 100usize;
    if rng.next(4) == 0 {
        // the local variant: by-reference splits only
        let mut buf = LocalStackRB::<usize, N>::default();
        for _ in 0..(2 + rng.next(4)) { let three = rng.next(2) == 0; let nx = &mut next; sync_session!(buf, rng, hist, nx, three); *sessions += 1; }
        return Ok(());
    }
    let mut buf = ConcurrentStackRB::<usize, N>::default();
    for _ in 0..(1 + rng.next(4)) { let three = rng.next(2) == 0; let nx = &mut next; sync_session!(buf, rng, hist, nx, three); *sessions += 1; }
    *byvalue += 1; *sessions += 1;
    by_value(buf, rng, hist, &mut next)
}

/// C07 / C08 for a stack buffer that is boxed by a by-value async split: once the last iterator is gone the box is released exactly once
/// (hook events) and every item still inside is destroyed exactly once - in every drop order
fn boxed_stack_release(rng: &mut Rng) -> Result<(), String> {
    use std::rc::Rc;
    use std::sync::{Arc, Mutex};
    use mutringbuf::verif_hooks::{self, Event, Kind, Listener};
    struct Frees(Mutex<(usize, usize)>);
    impl Listener for Frees { fn before(&self, e: &Event) -> Option<usize> {
        if e.kind == Kind::BufAlloc { self.0.lock().unwrap().0 += 1; } else if e.kind == Kind::BufFree { self.0.lock().unwrap().1 += 1; } None } }
    let token = Rc::new(());
    let three = rng.next(2) == 0;
    let l = Arc::new(Frees(Mutex::new((0, 0))));
    let hist;
    {
        let buf = ConcurrentStackRB::<Rc<()>, N>::from(core::array::from_fn(|_| token.clone()));
        if Rc::strong_count(&token) != N + 1 { return Err(format!("ConcurrentStackRB::<Rc<()>, {}>::from([..; {}]): the buffer holds {} of the {} supplied items right after construction", N, N, Rc::strong_count(&token) - 1, N)); }
        verif_hooks::set_listener(Some(l.clone()));
        let mut order: Vec<usize> = if three { vec![0, 1, 2] } else { vec![0, 2] };
        for i in (1..order.len()).rev() { let j = rng.next(i as u64 + 1) as usize; order.swap(i, j); }
        hist = format!("ConcurrentStackRB::<Rc<()>, {}>::from(..).{}() then drops in order {:?}", N, if three { "split_mut_async" } else { "split_async" }, order);
        if three {
            let (p, w, c) = buf.split_mut_async();
            let (mut p, mut w, mut c) = (Some(p), Some(w), Some(c));
            for (n, k) in order.iter().enumerate() {
                match k { 0 => drop(p.take()), 1 => drop(w.take()), _ => drop(c.take()) }
                let (_, frees) = *l.0.lock().unwrap();
                if n + 1 < order.len() && (frees != 0 || Rc::strong_count(&token) != N + 1) { verif_hooks::set_listener(None); return Err(format!("{}: the buffer or its items were released while an iterator was still alive", hist)); }
            }
        } else {
            let (p, c) = buf.split_async();
            let (mut p, mut c) = (Some(p), Some(c));
            for (n, k) in order.iter().enumerate() {
                match k { 0 => drop(p.take()), _ => drop(c.take()) }
                let (_, frees) = *l.0.lock().unwrap();
                if n + 1 < order.len() && (frees != 0 || Rc::strong_count(&token) != N + 1) { verif_hooks::set_listener(None); return Err(format!("{}: the buffer or its items were released while an iterator was still alive", hist)); }
            }
        }
    }
    verif_hooks::set_listener(None);
    let (allocs, frees) = *l.0.lock().unwrap();
    if allocs != 1 || frees != 1 { return Err(format!("{}: the boxed buffer was allocated {} time(s) and freed {} time(s) after its last iterator was dropped", hist, allocs, frees)); }
    if Rc::strong_count(&token) != 1 { return Err(format!("{}: {} of its {} items were never destroyed", hist, Rc::strong_count(&token) - 1, N)); }
    Ok(())
}

fn main() {
    let a: Vec<String> = std::env::args().collect();
    let seed: u64 = a.get(1).and_then(|x| x.parse().ok()).unwrap_or(1);
    let count: usize = a.get(2).and_then(|x| x.parse().ok()).unwrap_or(200);
    let mut rng = Rng(seed.wrapping_mul(0x9E3779B97F4A7C15) ^ 0xA24BAED4963EE407);
    let (mut sessions, mut byvalue) = (0usize, 0usize);
    for _ in 0..count {
        // a panic inside the crate during a session of legal operations is a departure in its own right: report the session so far
        let mut hist = String::new();
        match std::panic::catch_unwind(std::panic::AssertUnwindSafe(|| one(&mut rng, &mut sessions, &mut byvalue, &mut hist))) {
            Ok(Ok(())) => {}
            Ok(Err(w)) => { println!("MISMATCH {}", w); std::process::exit(1); }
            Err(e) => {
                let msg = e.downcast_ref::<String>().cloned().or_else(|| e.downcast_ref::<&str>().map(|x| x.to_string())).unwrap_or_default();
                println!("MISMATCH {}: the crate PANICKED in this split / operation: {}", hist, msg.replace('\n', " ")); std::process::exit(1);
            }
        }
    }
    // constructors with an item type whose default is not the all-zero pattern: every slot of a `default` buffer holds the default
    {
        use mutringbuf::{ConcurrentHeapRB, LocalHeapRB, HeapSplit};
        #[derive(Clone, Copy, PartialEq, Debug)] struct D7(u32);
        impl Default for D7 { fn default() -> Self { D7(0x5A5A_5A5A) } }
        #[cfg(not(feature = "vmem"))]
        for n in [1usize, 2, 3, 7, 64] {
            // a constructor that refuses (panics on) a legal length is reported with that length
            for (name, r) in [("ConcurrentHeapRB::default", std::panic::catch_unwind(|| { let _ = ConcurrentHeapRB::<D7>::default(n); })),
                              ("LocalHeapRB::default", std::panic::catch_unwind(|| { let _ = LocalHeapRB::<D7>::default(n); })),
                              ("ConcurrentHeapRB / LocalHeapRB ::from(vec![_; n]), n = ", std::panic::catch_unwind(|| { let _ = ConcurrentHeapRB::<D7>::from(vec![D7(1); n]); let _ = LocalHeapRB::<D7>::from(vec![D7(1); n]); }))] {
                if let Err(e) = r {
                    let msg = e.downcast_ref::<String>().cloned().or_else(|| e.downcast_ref::<&str>().map(|x| x.to_string())).unwrap_or_default();
                    println!("MISMATCH {}({}): the constructor PANICKED for a legal length: {}", name, n, msg.replace('\n', " ")); std::process::exit(1);
                }
            }
            let b = ConcurrentHeapRB::<D7>::default(n); let (mut p, _c) = b.split();
            if p.buf_len() != n { println!("MISMATCH ConcurrentHeapRB::default({}): length {}", n, p.buf_len()); std::process::exit(1); }
            if n > 1 { let ok = unsafe { p.get_next_slices_mut(n - 1) }.map(|(h, t)| h.iter().chain(t.iter()).all(|x| *x == D7::default())).unwrap_or(false);
                       if !ok { println!("MISMATCH ConcurrentHeapRB::default({}): not every slot holds T::default()", n); std::process::exit(1); } }
            let b = LocalHeapRB::<D7>::default(n); let (mut p, _c) = b.split();
            if n > 1 { let ok = unsafe { p.get_next_slices_mut(n - 1) }.map(|(h, t)| h.iter().chain(t.iter()).all(|x| *x == D7::default())).unwrap_or(false);
                       if !ok || p.buf_len() != n { println!("MISMATCH LocalHeapRB::default({}): length {} / not every slot holds T::default()", n, p.buf_len()); std::process::exit(1); } }
        }
        #[cfg(not(feature = "vmem"))]
        {
            let mut b = ConcurrentStackRB::<D7, N>::default(); let (mut p, _c) = b.split();
            let ok = unsafe { p.get_next_slices_mut(N - 1) }.map(|(h, t)| h.iter().chain(t.iter()).all(|x| *x == D7::default())).unwrap_or(false);
            if !ok || p.buf_len() != N { println!("MISMATCH ConcurrentStackRB::default(): length {} / not every slot holds T::default()", p.buf_len()); std::process::exit(1); }
            let mut b = LocalStackRB::<D7, N>::from([D7(1), D7(2), D7(3), D7(4), D7(5)]); let (mut p, mut c) = b.split();
            let mut got: Vec<u32> = unsafe { p.get_next_slices_mut(N - 1) }.map(|(h, t)| h.iter().chain(t.iter()).map(|x| x.0).collect()).unwrap_or_default();
            // the LAST cell too: move both iterators on by N - 1 and look at the one slot that was the gap
            unsafe { p.advance(N - 1); c.advance(N - 1); }
            got.extend(unsafe { p.get_next_slices_mut(1) }.map(|(h, t)| h.iter().chain(t.iter()).map(|x| x.0).collect::<Vec<u32>>()).unwrap_or_default());
            if got != vec![1, 2, 3, 4, 5] { println!("MISMATCH LocalStackRB::from([1,2,3,4,5]): the buffer holds {:?} (supplied contents are kept in order, in every one of the {} cells)", got, N); std::process::exit(1); }
            let b = ConcurrentHeapRB::<D7>::from(vec![D7(1), D7(2), D7(3), D7(4), D7(5)]); let (mut p, mut c) = b.split();
            let mut got: Vec<u32> = unsafe { p.get_next_slices_mut(4) }.map(|(h, t)| h.iter().chain(t.iter()).map(|x| x.0).collect()).unwrap_or_default();
            unsafe { p.advance(4); c.advance(4); }
            got.extend(unsafe { p.get_next_slices_mut(1) }.map(|(h, t)| h.iter().chain(t.iter()).map(|x| x.0).collect::<Vec<u32>>()).unwrap_or_default());
            if got != vec![1, 2, 3, 4, 5] { println!("MISMATCH ConcurrentHeapRB::from(vec![1,2,3,4,5]): the buffer holds {:?}", got); std::process::exit(1); }
        }
        // n = 0 is refused with a panic by EVERY constructor of every variant
        #[cfg(not(feature = "vmem"))]
        {
            use std::panic::catch_unwind;
            let prev = std::panic::take_hook(); std::panic::set_hook(Box::new(|_| {}));
            let cases: Vec<(&str, bool)> = vec![
                ("ConcurrentHeapRB::default(0)", catch_unwind(|| { let _ = ConcurrentHeapRB::<D7>::default(0); }).is_err()),
                ("LocalHeapRB::default(0)", catch_unwind(|| { let _ = LocalHeapRB::<D7>::default(0); }).is_err()),
                ("ConcurrentHeapRB::from(vec![])", catch_unwind(|| { let _ = ConcurrentHeapRB::<D7>::from(Vec::<D7>::new()); }).is_err()),
                ("LocalHeapRB::from(vec![])", catch_unwind(|| { let _ = LocalHeapRB::<D7>::from(Vec::<D7>::new()); }).is_err()),
                ("ConcurrentHeapRB::new_zeroed(0)", catch_unwind(|| { let _ = unsafe { ConcurrentHeapRB::<D7>::new_zeroed(0) }; }).is_err()),
                ("LocalHeapRB::new_zeroed(0)", catch_unwind(|| { let _ = unsafe { LocalHeapRB::<D7>::new_zeroed(0) }; }).is_err()),
                ("ConcurrentStackRB::<_, 0>::default()", catch_unwind(|| { let _ = ConcurrentStackRB::<D7, 0>::default(); }).is_err()),
                ("LocalStackRB::<_, 0>::default()", catch_unwind(|| { let _ = LocalStackRB::<D7, 0>::default(); }).is_err()),
                ("ConcurrentStackRB::<_, 0>::from([])", catch_unwind(|| { let _ = ConcurrentStackRB::<D7, 0>::from([]); }).is_err()),
                ("LocalStackRB::<_, 0>::from([])", catch_unwind(|| { let _ = LocalStackRB::<D7, 0>::from([]); }).is_err()),
                ("ConcurrentStackRB::<_, 0>::new_zeroed()", catch_unwind(|| { let _ = unsafe { ConcurrentStackRB::<D7, 0>::new_zeroed() }; }).is_err()),
                ("LocalStackRB::<_, 0>::new_zeroed()", catch_unwind(|| { let _ = unsafe { LocalStackRB::<D7, 0>::new_zeroed() }; }).is_err()),
            ];
            std::panic::set_hook(prev);
            for (name, refused) in cases {
                if !refused { println!("MISMATCH {}: a buffer of length 0 is accepted (n = 0 must be refused with a panic)", name); std::process::exit(1); }
            }
        }
        sessions += 1;
    }
    for _ in 0..24 {
        if let Err(w) = boxed_stack_release(&mut rng) { println!("MISMATCH {}", w); std::process::exit(1); }
        sessions += 1;
    }
    println!("ok sessions={} byvalue={}", sessions, byvalue);
}
