//! Scripted weak-memory runtime for the two other proved release/acquire machines: replays the executions printed by
//! ocaml/concdriver2.ml (`concmodel2 gen3` : coq/Conc/RA3n.v, `concmodel2 genx` : coq/Conc/RAx.v) on the real crate,
//! with one OS thread per role.  Same design as concrun.rs:
//!
//! the verif-hooks listener makes the real execution follow the case: every atomic access of a role thread is
//! compared with the thread's next `ev` line (load/store, word, ordering, stored value, operation it belongs to),
//! blocks until all earlier `ev` lines of the case have been performed, and - for a load - returns the scripted
//! (possibly stale) value.  At a store (publication) the data of the operation must already be in place (looked at
//! by the publishing thread itself): the producer's values in the ring slots, the worker's edited values in the ring
//! slots, the copied values in the consumer's destination.  Any deviation poisons the case, which releases every
//! waiter; the threads then run on unscheduled.
//!
//! kind=3  three threads on `split_mut()`:
//!           P  `push_slice(&[v, v+1, ..])`
//!           W  `get_workable_slice_exact(n)`, checks that the window holds the producer's v, v+1, .., adds EDIT to
//!              every item in place, `advance(n)`
//!           C  `copy_slice(&mut dst)`, must get v+EDIT, v+1+EDIT, ..
//! kind=x  two threads on `split()`; the consumer additionally performs the commands of RAx.v:
//!           reset   attached: `ConsIter::reset_index()`            (machine: load at [Reset j], store at the next [Op], pc 5)
//!                   detached: `Detached::reset_index()`            (load only)
//!           detach  `MRBIterator::detach()`                        (no access)
//!           sync    detached: `Detached::sync_index()`             (one store of the local index)
//!                   attached: `MRBIterator::advance(0)`            (the crate has no sync_index on an attached iterator;
//!                                                                   advance(0) is the same single release store)
//!           attach  detached: `Detached::attach()`                 (one store of the local index)
//!                   attached: `detach().attach()`                  (same single store)
//!         while detached a consumer operation is `get_workable_slice_exact(n)`, copy, `Detached::advance(n)` (no store).
//!
//!   concrun2 <file>     one line per case: `case <k> ok events=<n>` / `case <k> MISMATCH <what>`; exit code 1 on mismatch
use mutringbuf::iterators::{ConsIter, Detached};
use mutringbuf::verif_hooks::{self as hooks, Event, Kind, Listener};
use mutringbuf::{ConcurrentHeapRB, HeapSplit, MRBIterator};
use std::cell::Cell;
use std::sync::atomic::{AtomicUsize, Ordering as AO};
use std::sync::{Arc, Condvar, Mutex};
use std::time::{Duration, Instant};

const TIMEOUT: Duration = Duration::from_secs(3);
const NAMES: [&str; 4] = ["P", "W", "C", "?"];
const EDIT: u64 = 1_000_000;
type RB = ConcurrentHeapRB<u64>;

/// where the data of the running operation must be when it publishes: `count` values `first`, `first + 1`, ...
/// at `base[(start + j) % modulus]`
#[derive(Clone, Copy, Default)]
struct Probe { base: usize, modulus: usize, start: usize, count: usize, first: u64 }

thread_local! {
    static TID: Cell<usize> = Cell::new(0);                 // 0: main thread (not scheduled), 1: producer, 2: worker, 3: consumer
    static OPNO: Cell<usize> = Cell::new(0);                // the thread's running operation / command (position in its program)
    static PROBE: Cell<Probe> = Cell::new(Probe::default());
}

/// one `ev` line; threads and words are 0 = P (prod_idx), 1 = W (work_idx), 2 = C (cons_idx);
/// `op`: the program item of `thr` it belongs to
#[derive(Clone, Copy)]
struct Ev { thr: usize, store: bool, word: usize, val: usize, op: usize, line: usize }

impl Ev { fn show(&self) -> String { format!("{} {} {} {}", NAMES[self.thr], if self.store { "st" } else { "ld" }, NAMES[self.word], self.val) } }

#[derive(Clone, Copy, Debug)]
enum What { Op { n: usize, from: u64, exp: Option<bool> }, Reset { to: Option<u64> }, Detach, Attach, Sync }

#[derive(Clone, Copy)]
struct Item { what: What, line: usize }

#[derive(Default)]
struct Case {
    k: usize, three: bool, len: usize, evs: Vec<Ev>,
    prog: [Vec<Item>; 3],
    fin: [Option<usize>; 3], cons_local: Option<usize>, detached: Option<bool>, consumed: usize, race: bool,
}

struct St { cur: usize, own: [usize; 3], running: [bool; 3], poison: Option<String> }

struct Sched {
    evs: Vec<Ev>,
    mine: [Vec<usize>; 3],                                  // per thread: the positions of its events in `evs`
    words: [AtomicUsize; 3], last_addr: AtomicUsize, salt: usize,
    st: Mutex<St>, cv: Condvar,
}

impl Sched {
    fn poison(&self, st: &mut St, what: String) {
        if st.poison.is_none() { st.poison = Some(what); }
        self.cv.notify_all();
    }
    fn fail(&self, what: String) { let mut st = self.st.lock().unwrap(); self.poison(&mut st, what); }
    /// a role thread has run its whole program (or is unwinding)
    fn finish(&self, t: usize) {
        let mut st = self.st.lock().unwrap();
        st.running[t] = false; self.cv.notify_all();
        if let Some(&k) = self.mine[t].get(st.own[t]) {
            let what = format!("at ev {} (line {}): {} finished its program, expected `{}`", k, self.evs[k].line, NAMES[t], self.evs[k].show());
            self.poison(&mut st, what);
        }
    }
}

impl Listener for Sched {
    fn before(&self, e: &Event) -> Option<usize> {
        let me = TID.with(|t| t.get());
        if me == 0 { self.last_addr.store(e.addr, AO::SeqCst); return None; }
        let t = me - 1;
        let mut st = self.st.lock().unwrap();
        if st.poison.is_some() { return None; }
        let word = (0..3).find(|&w| self.words[w].load(AO::SeqCst) == e.addr).unwrap_or(3);
        let val = if e.kind == Kind::Load { String::new() } else { format!(" {}", e.value) };
        let got = format!("{} {:?} {}{} ({:?})", NAMES[t], e.kind, NAMES[word], val, e.order);
        let Some(&k) = self.mine[t].get(st.own[t]) else {
            let what = format!("after ev {}: extra event `{}` in op {}, nothing more expected of {}", st.cur as isize - 1, got, OPNO.with(|c| c.get()), NAMES[t]);
            self.poison(&mut st, what);
            return None;
        };
        let x = self.evs[k];
        let ok = word == x.word && x.op == OPNO.with(|c| c.get()) && match e.kind {
            Kind::Load => !x.store && matches!(e.order, AO::Acquire | AO::SeqCst),
            Kind::Store => x.store && e.value == x.val && matches!(e.order, AO::Release | AO::SeqCst),
            _ => false,
        };
        if !ok {
            self.poison(&mut st, format!("at ev {} (line {}): expected `{}` in op {}, got `{}` in op {}", k, x.line, x.show(), x.op, got, OPNO.with(|c| c.get())));
            return None;
        }
        if x.store {
            let pr = PROBE.with(|c| c.get());
            for j in 0..pr.count {
                let v = unsafe { std::ptr::read_volatile((pr.base as *const u64).add((pr.start + j) % pr.modulus)) };
                if v != pr.first + j as u64 {
                    self.poison(&mut st, format!("at ev {} (line {}): `{}` publishes before the data is in place (item {} of the operation is {}, expected {})", k, x.line, x.show(), j, v, pr.first + j as u64));
                    return None;
                }
            }
        }
        // ONE thread runs at a time: this thread parks until every earlier line of the case has been performed AND every other role thread is
        // parked at one of its own lines (or has finished) - whatever a thread does between two of its lines (its data accesses in particular)
        // then happens in exactly that interval of the machine execution; an operation starts as early as this rule allows
        st.running[t] = false; self.cv.notify_all();
        let deadline = Instant::now() + TIMEOUT;
        while st.cur != k || (0..3).any(|o| o != t && st.running[o]) {
            let now = Instant::now();
            if now >= deadline {
                let c = self.evs[st.cur.min(self.evs.len() - 1)];
                let what = format!("at ev {} (line {}): timeout, `{}` never came ({} waits with ev {})", st.cur, c.line, c.show(), NAMES[t], k);
                self.poison(&mut st, what);
            }
            if st.poison.is_some() { return None; }
            st = self.cv.wait_timeout(st, deadline - now).unwrap().0;
        }
        st.cur += 1;
        st.own[t] += 1;
        st.running[t] = true;
        self.cv.notify_all();
        if x.store { None } else { Some(x.val) }
    }
}

struct Fin(Arc<Sched>, usize);
impl Drop for Fin { fn drop(&mut self) { self.0.finish(self.1); } }

/// runs a thread's program; `item(what)` performs one operation / command and returns a complaint, if any
fn work(s: &Arc<Sched>, t: usize, prog: &[Item], mut item: impl FnMut(What) -> Result<(), String>) {
    TID.with(|c| c.set(t + 1));
    let _fin = Fin(s.clone(), t);
    for (i, it) in prog.iter().enumerate() {
        OPNO.with(|c| c.set(i));
        PROBE.with(|c| c.set(Probe::default()));
        if let Err(what) = item(it.what) { s.fail(format!("op {} of {} (line {}, {:?}): {}", i, NAMES[t], it.line, it.what, what)); }
    }
}

/// the usual bookkeeping of an operation: `pos` is the value position of the thread (items handled so far)
fn op_start(pos: u64, from: u64) -> Result<(), String> {
    if pos == from { Ok(()) } else { Err(format!("the script is at value position {}, the replay at {}", from, pos)) }
}
fn op_end(r: bool, exp: Option<bool>) -> Result<(), String> {
    if Some(r) == exp { Ok(()) } else { Err(format!("granted={}, expected {:?}", r, exp)) }
}
fn same(what: &str, got: &[u64], first: u64) -> Result<(), String> {
    match got.iter().enumerate().find(|&(j, &v)| v != first + j as u64) {
        None => Ok(()),
        Some((j, v)) => Err(format!("{}: item {} is {}, expected {} (all: {:?})", what, j, v, first + j as u64, got)),
    }
}

/// the consumer with its mode (RAx: attached / detached)
enum Cons<const W: bool> { A(ConsIter<'static, RB, W>), D(Detached<ConsIter<'static, RB, W>>), Gone }

impl<const W: bool> Cons<W> {
    fn index(&self) -> usize { match self { Cons::A(c) => c.index(), Cons::D(d) => d.index(), Cons::Gone => usize::MAX } }
    fn published(&self) -> usize { match self { Cons::A(c) => c.cons_index(), Cons::D(d) => d.cons_index(), Cons::Gone => usize::MAX } }
}

/// the consumer's program; `add`: what the stage before it added to the producer's values
fn consumer<const W: bool>(s: &Arc<Sched>, prog: &[Item], c: ConsIter<'static, RB, W>, len: usize, add: u64) -> (Cons<W>, Vec<u64>) {
    let (mut c, mut got, mut pos) = (Cons::A(c), Vec::<u64>::new(), 0u64);
    work(s, 2, prog, |what| {
        match what {
            What::Op { n, from, exp } => {
                op_start(pos, from)?;
                let mut dst = vec![u64::MAX - 1; n];
                let r = match &mut c {
                    Cons::A(c) => {
                        let variant = (s.salt / 8 + OPNO.with(|c| c.get())) % 5;
                        let probed = !(n == 1 && variant == 3);        // `pop` hands the value out by return
                        PROBE.with(|p| p.set(Probe { base: dst.as_mut_ptr() as usize, modulus: n.max(1), start: 0, count: if probed { n } else { 0 }, first: pos + add }));
                        match (n, variant) {
                            (1, 1) => c.copy_item(&mut dst[0]).is_some(),
                            (1, 2) => c.clone_item(&mut dst[0]).is_some(),
                            (1, 3) => match c.pop() { Some(x) => { dst[0] = x; true } None => false },
                            (1, 4) => match c.peek_ref() { Some(x) => { dst[0] = *x; unsafe { c.advance(1) }; true } None => false },
                            (k, 1) if k > 1 => c.clone_slice(&mut dst).is_some(),
                            (k, 2) if k > 1 => match c.peek_slice(k) { Some((h, t)) => { for (d, x) in dst.iter_mut().zip(h.iter().chain(t.iter())) { *d = *x; } unsafe { c.advance(k) }; true } None => false },
                            _ => c.copy_slice(&mut dst).is_some(),
                        }
                    }
                    Cons::D(d) => match d.get_workable_slice_exact(n) {
                        Some((h, t)) => {
                            let mid = h.len();
                            dst[..mid].copy_from_slice(h);
                            dst[mid..].copy_from_slice(t);
                            unsafe { d.advance(n) };
                            true
                        }
                        None => false,
                    },
                    Cons::Gone => unreachable!(),
                };
                if r { same("copied", &dst, pos + add)?; got.extend_from_slice(&dst); pos += n as u64; }
                op_end(r, exp)
            }
            What::Reset { to } => {
                let old = c.index();
                match &mut c { Cons::A(c) => c.reset_index(), Cons::D(d) => d.reset_index(), Cons::Gone => unreachable!() }
                pos += ((c.index() + len - old) % len) as u64;
                if Some(pos) == to { Ok(()) } else { Err(format!("jumped to value position {}, expected {:?}", pos, to)) }
            }
            What::Detach => { if let Cons::A(a) = std::mem::replace(&mut c, Cons::Gone) { c = Cons::D(a.detach()); Ok(()) } else { Err("detach while detached".into()) } }
            What::Attach => {
                c = match std::mem::replace(&mut c, Cons::Gone) { Cons::D(d) => Cons::A(d.attach()), Cons::A(a) => Cons::A(a.detach().attach()), Cons::Gone => unreachable!() };
                Ok(())
            }
            What::Sync => { match &mut c { Cons::D(d) => d.sync_index(), Cons::A(a) => unsafe { a.advance(0) }, Cons::Gone => unreachable!() } Ok(()) }
        }
    });
    (c, got)                                                 // dropped by the main thread
}

fn run(case: Case) -> Result<usize, String> {
    let events = case.evs.len();
    let mine = [0, 1, 2].map(|t| (0..events).filter(|&k| case.evs[k].thr == t).collect::<Vec<_>>());
    let s = Arc::new(Sched {
        evs: case.evs, mine, words: [AtomicUsize::new(0), AtomicUsize::new(0), AtomicUsize::new(0)], last_addr: AtomicUsize::new(0), salt: case.k,
        st: Mutex::new(St { cur: 0, own: [0; 3], running: [true, case.three, true], poison: None }), cv: Condvar::new(),
    });
    hooks::set_listener(Some(s.clone()));
    let len = case.len;
    let [prog_p, prog_w, prog_c] = case.prog;
    let rb = RB::from(vec![u64::MAX; len]);

    // the producer's program
    macro_rules! producer { ($p: ident, $slots: ident) => {{
        let sp = s.clone();
        std::thread::spawn(move || {
            let mut next = 0u64;
            work(&sp, 0, &prog_p, |what| {
                let What::Op { n, from, exp } = what else { return Err("the producer has no commands".into()) };
                op_start(next, from)?;
                let v: Vec<u64> = (next..next + n as u64).collect();
                PROBE.with(|c| c.set(Probe { base: $slots, modulus: len, start: next as usize % len, count: n, first: next }));
                let r = match (n, (sp.salt + OPNO.with(|c| c.get())) % 4) {
                    (1, 1) => $p.push(v[0]).is_ok(),
                    (1, 2) => $p.push_init(v[0]).is_ok(),
                    (1, 3) => match $p.get_next_item_mut_init() { Some(x) => { unsafe { x.write(v[0]); $p.advance(1); } true } None => false },
                    (k, 1) if k > 1 => $p.push_slice_clone(&v).is_some(),
                    (k, 2) if k > 1 => $p.push_slice_init(&v).is_some(),
                    (k, 3) if k > 1 => match unsafe { $p.get_next_slices_mut(k) } { Some((h, t)) => { for (d, x) in h.iter_mut().chain(t.iter_mut()).zip(v.iter()) { *d = *x; } unsafe { $p.advance(k) }; true } None => false },
                    _ => $p.push_slice(&v).is_some(),
                };
                if r { next += n as u64; }
                op_end(r, exp)
            });
            $p                                               // dropped by the main thread
        })
    }} }
    macro_rules! words { ($p: ident) => {{
        $p.prod_index(); s.words[0].store(s.last_addr.load(AO::SeqCst), AO::SeqCst);
        $p.work_index(); s.words[1].store(s.last_addr.load(AO::SeqCst), AO::SeqCst);
        $p.cons_index(); s.words[2].store(s.last_addr.load(AO::SeqCst), AO::SeqCst);
        hooks::storage_ptr(&$p) as usize
    }} }

    let (poisoned, cur, fin, local, det, got);
    if case.three {
        let (mut p, mut w, c) = rb.split_mut();
        let slots = words!(p);
        let hp = producer!(p, slots);
        let sw = s.clone();
        let hw = std::thread::spawn(move || {
            let mut next = 0u64;
            work(&sw, 1, &prog_w, |what| {
                let What::Op { n, from, exp } = what else { return Err("the worker has no commands".into()) };
                op_start(next, from)?;
                PROBE.with(|c| c.set(Probe { base: slots, modulus: len, start: next as usize % len, count: n, first: next + EDIT }));
                let mut seen = vec![];
                let r = match w.get_workable_slice_exact(n) {
                    Some((h, t)) => {
                        for x in h.iter_mut().chain(t.iter_mut()) { seen.push(*x); *x += EDIT; }
                        unsafe { w.advance(n) };
                        true
                    }
                    None => false,
                };
                if r {
                    if seen.len() != n { return Err(format!("window of {} items for a request of {}", seen.len(), n)); }
                    same("the worker's window held", &seen, next)?;
                    next += n as u64;
                }
                op_end(r, exp)
            });
            w
        });
        let sc = s.clone();
        let hc = std::thread::spawn(move || consumer(&sc, &prog_c, c, len, EDIT));
        let (rp, rw, rc) = (hp.join(), hw.join(), hc.join());
        let st = s.st.lock().unwrap();
        (poisoned, cur) = (st.poison.clone(), st.cur);
        drop(st);
        if let Some(what) = poisoned { return Err(what); }
        let (Ok(p), Ok(w), Ok((c, g))) = (rp, rw, rc) else { return Err("a role thread panicked".into()) };
        fin = [Some(p.prod_index()), Some(w.work_index()), Some(c.published())];
        (local, det, got) = (None, None, g);
    } else {
        let (mut p, c) = rb.split();
        let slots = words!(p);
        let hp = producer!(p, slots);
        let sc = s.clone();
        let hc = std::thread::spawn(move || consumer(&sc, &prog_c, c, len, 0));
        let (rp, rc) = (hp.join(), hc.join());
        let st = s.st.lock().unwrap();
        (poisoned, cur) = (st.poison.clone(), st.cur);
        drop(st);
        if let Some(what) = poisoned { return Err(what); }
        let (Ok(p), Ok((c, g))) = (rp, rc) else { return Err("a role thread panicked".into()) };
        if !prog_w.is_empty() { return Err("worker lines in a two-stage case".into()); }
        fin = [Some(p.prod_index()), None, Some(c.published())];
        (local, det, got) = (Some(c.index()), Some(matches!(c, Cons::D(_))), g);
    }
    if cur != events { return Err(format!("only {} of {} events performed", cur, events)); }
    if case.race { return Err("the machine reports a data race".into()); }
    if got.len() != case.consumed { return Err(format!("consumer copied {} items, expected {}", got.len(), case.consumed)); }
    if fin != case.fin { return Err(format!("final prod_idx,work_idx,cons_idx = {:?}, expected {:?}", fin, case.fin)); }
    if (local, det) != (case.cons_local, case.detached) { return Err(format!("final cons_local,detached = {:?}, expected {:?}", (local, det), (case.cons_local, case.detached))); }
    Ok(events)
}

fn parse(text: &str) -> Result<Vec<Case>, String> {
    let thr = |w: &str| match w { "P" => Ok(0), "W" => Ok(1), "C" => Ok(2), _ => Err(format!("bad thread/word `{}`", w)) };
    let num = |w: &str| w.parse::<usize>().map_err(|_| format!("bad number `{}`", w));
    let (mut cases, mut cur): (Vec<Case>, Option<Case>) = (vec![], None);
    for (i, l) in text.lines().enumerate() {
        let line = i + 1;
        let w: Vec<&str> = l.split_whitespace().collect();
        let r: Result<(), String> = (|| {
            match (w.as_slice(), cur.as_mut()) {
                ([], _) => {}
                (["case", k, kind, len], None) => cur = Some(Case {
                    k: num(k)?,
                    three: match *kind { "kind=3" => true, "kind=x" => false, _ => return Err("kind=3 or kind=x expected".into()) },
                    len: num(len.strip_prefix("len=").ok_or("len= expected")?)?, ..Default::default() }),
                (["op", t, n, from], Some(c)) => {
                    let from = num(from.strip_prefix("from=").ok_or("from= expected")?)? as u64;
                    c.prog[thr(t)?].push(Item { what: What::Op { n: num(n)?, from, exp: None }, line })
                }
                (["res", t, g], Some(c)) => match c.prog[thr(t)?].last_mut() {
                    Some(Item { what: What::Op { exp, .. }, .. }) => *exp = Some(num(g)? == 1),
                    _ => return Err("res without op".into()),
                },
                (["cmd", "C", k], Some(c)) => {
                    if c.three { return Err("commands belong to kind=x".into()); }
                    let what = match *k { "reset" => What::Reset { to: None }, "detach" => What::Detach, "attach" => What::Attach, "sync" => What::Sync, _ => return Err("unknown command".into()) };
                    c.prog[2].push(Item { what, line })
                }
                (["jump", "C", v], Some(c)) => match c.prog[2].last_mut() {
                    Some(Item { what: What::Reset { to }, .. }) => *to = Some(num(v)? as u64),
                    _ => return Err("jump without reset".into()),
                },
                (["ev", t, k @ ("ld" | "st"), wd, v], Some(c)) => {
                    let t = thr(t)?;
                    let op = c.prog[t].len().checked_sub(1).ok_or("ev without op")?;
                    c.evs.push(Ev { thr: t, store: *k == "st", word: thr(wd)?, val: num(v)?, op, line })
                }
                (["final", rest @ ..], Some(c)) => for kv in rest {
                    let (key, v) = kv.split_once('=').ok_or("key=value expected")?;
                    let v = num(v)?;
                    match key {
                        "prod_idx" => c.fin[0] = Some(v), "work_idx" => c.fin[1] = Some(v), "cons_idx" => c.fin[2] = Some(v),
                        "cons_local" => c.cons_local = Some(v), "detached" => c.detached = Some(v != 0),
                        "consumed" => c.consumed = v, "race" => c.race = v != 0, _ => return Err(format!("unknown key `{}`", key)) }
                },
                (["end"], Some(_)) => cases.push(cur.take().unwrap()),
                _ => return Err("unexpected line".into()),
            }
            Ok(())
        })();
        r.map_err(|e| format!("line {}: {}", line, e))?;
    }
    if cur.is_some() { return Err("unterminated case".into()); }
    Ok(cases)
}

fn main() {
    let path = std::env::args().nth(1).unwrap_or_else(|| { eprintln!("usage: concrun2 <file>"); std::process::exit(2) });
    let text = std::fs::read_to_string(&path).unwrap_or_else(|e| { eprintln!("concrun2: {}: {}", path, e); std::process::exit(2) });
    let cases = parse(&text).unwrap_or_else(|e| { eprintln!("concrun2: {}: {}", path, e); std::process::exit(2) });
    let (total, mut bad, t0) = (cases.len(), 0, Instant::now());
    for case in cases {
        let k = case.k;
        match run(case) {
            Ok(n) => println!("case {} ok events={}", k, n),
            Err(what) => { bad += 1; println!("case {} MISMATCH {}", k, what) }
        }
    }
    hooks::set_listener(None);
    eprintln!("concrun2: {} cases, {} mismatches, {:.2} s", total, bad, t0.elapsed().as_secs_f64());
    if bad > 0 { std::process::exit(1); }
}
