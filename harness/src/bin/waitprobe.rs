//! `wait_for` - the crate's one busy-waiting call - on attached AND detached iterators of a concurrent buffer (C10, C12).
//! A thread that waits must only LOOK: every atomic access it performs is an Acquire load of its successor's index; it stores nothing
//! (in particular a detached iterator that waits publishes nothing - only `sync_index` / `attach` do), the other stages see the same
//! published indices and availabilities as before the wait, and it returns as soon as the awaited items were published.
//! One OS thread waits; the hook listener tells the main thread - without timing assumptions - that the waiter has completed at least
//! two rounds of its loop before the other stages are inspected and the awaited items are delivered.
//!   waitprobe  ->  `ok scenarios=<n>` or `MISMATCH <scenario>: <what>` (exit code 1)
use std::sync::atomic::{AtomicUsize, Ordering::SeqCst};
use std::sync::{Arc, Mutex, OnceLock};
use std::thread::{self, ThreadId};
use std::time::{Duration, Instant};

use mutringbuf::verif_hooks::{self, Event, Kind, Listener};
use mutringbuf::{ConcurrentHeapRB, HeapSplit, MRBIterator};

struct Watch { who: OnceLock<ThreadId>, loads: AtomicUsize, evs: Mutex<Vec<(Kind, usize, std::sync::atomic::Ordering)>> }
impl Listener for Watch {
    fn before(&self, e: &Event) -> Option<usize> {
        if self.who.get() == Some(&thread::current().id()) {
            self.evs.lock().unwrap().push((e.kind, e.addr, e.order));
            if e.kind == Kind::Load { self.loads.fetch_add(1, SeqCst); }
        }
        None
    }
}

const LEN: usize = 8;

/// what the other stages can see: the three published indices
fn published<I: MRBIterator>(it: &I) -> (usize, usize, usize) { (it.prod_index(), it.work_index(), it.cons_index()) }

fn fail(s: &str, what: String) -> ! { println!("MISMATCH {}: {}", s, what); std::process::exit(1) }

/// runs `wait` on its own thread; `inspect` is called once the waiter has completed two rounds; `deliver` then publishes the awaited items
fn scenario<W: Send, R: Send>(name: &str, w: W, wait: impl FnOnce(W) -> R + Send, inspect: impl FnOnce(), deliver: impl FnOnce()) -> R {
    let l = Arc::new(Watch { who: OnceLock::new(), loads: AtomicUsize::new(0), evs: Mutex::new(vec![]) });
    verif_hooks::set_listener(Some(l.clone()));
    let r = thread::scope(|s| {
        let lw = l.clone();
        let h = s.spawn(move || { lw.who.set(thread::current().id()).unwrap(); wait(w) });
        // the waiter goes round its loop several hundred times before anything is delivered (a wait that gives up, or fails, after a
        // number of unsuccessful looks is seen here)
        let deadline = Instant::now() + Duration::from_secs(90);
        let mut early = false;
        while l.loads.load(SeqCst) < 600 {
            if h.is_finished() { early = true; break; }
            if Instant::now() > deadline { fail(name, "the waiting thread never looked at its successor's index".into()); }
            thread::yield_now();
        }
        if !early {
            inspect();
            deliver();
            let deadline = Instant::now() + Duration::from_secs(90);
            while !h.is_finished() {
                if Instant::now() > deadline { fail(name, "wait_for did not return after the awaited items were published".into()); }
                thread::yield_now();
            }
        }
        match h.join() {
            Err(e) => {
                let msg = e.downcast_ref::<String>().cloned().or_else(|| e.downcast_ref::<&str>().map(|x| x.to_string())).unwrap_or_default();
                fail(name, format!("wait_for PANICKED while waiting (after {} looks): {}", l.loads.load(SeqCst), msg.replace('\n', " ")))
            }
            Ok(_) if early => fail(name, "wait_for returned although fewer items than requested were available".into()),
            Ok(r) => r,
        }
    });
    verif_hooks::set_listener(None);
    let evs = l.evs.lock().unwrap();
    let addrs: std::collections::BTreeSet<usize> = evs.iter().map(|e| e.1).collect();
    for (k, _a, o) in evs.iter() {
        if *k != Kind::Load { fail(name, format!("the waiting thread performed a {:?} ({:?}): a waiting iterator must only look", k, o)); }
        if *o != std::sync::atomic::Ordering::Acquire { fail(name, format!("the waiting thread loaded with {:?}", o)); }
    }
    if addrs.len() != 1 { fail(name, format!("the waiting thread read {} different atomics (expected: its successor's index only)", addrs.len())); }
    r
}

fn main() {
    let mut n = 0;
    // ---- detached worker that moved locally, waits for more items from the producer
    for moved in [0usize, 1, 2] {
        let name = format!("detached worker (moved {} locally) waits for 3 items", moved);
        let buf = ConcurrentHeapRB::from(vec![0usize; LEN]);
        let (mut prod, work, mut cons) = buf.split_mut();
        for v in 0..moved { prod.push(10 + v).unwrap(); }
        let mut work = work.detach();
        let _ = work.available();
        unsafe { work.advance(moved); }
        let before = published(&prod);
        let (p2, c2) = (&mut prod as *mut _ as usize, &mut cons as *mut _ as usize);
        let mut work = scenario(&name, work, |mut w| { w.wait_for(3); w },
            || {
                let prod: &mut mutringbuf::iterators::ProdIter<ConcurrentHeapRB<usize>> = unsafe { &mut *(p2 as *mut _) };
                let cons: &mut mutringbuf::iterators::ConsIter<ConcurrentHeapRB<usize>, true> = unsafe { &mut *(c2 as *mut _) };
                if published(prod) != before { fail(&name, format!("published indices changed while a detached iterator was only waiting: {:?} -> {:?}", before, published(prod))); }
                if cons.available() != 0 { fail(&name, format!("the consumer sees {} items although the detached worker never synced", cons.available())); }
            },
            || { let prod: &mut mutringbuf::iterators::ProdIter<ConcurrentHeapRB<usize>> = unsafe { &mut *(p2 as *mut _) }; prod.push_slice(&[1, 2, 3]).unwrap(); });
        if work.index() != moved { fail(&name, format!("the waiting iterator moved: index {}", work.index())); }
        if work.available() != 3 { fail(&name, format!("after the wait {} items are available (3 were published)", work.available())); }
        if prod.work_index() != 0 { fail(&name, "the worker's published index changed without sync_index / attach".into()); }
        let work = work.attach();
        if prod.work_index() != moved { fail(&name, "attach did not publish the local index".into()); }
        drop(work); n += 1;
    }
    // ---- detached consumer (two stages) waits behind the producer
    {
        let name = "detached consumer (moved 2 locally) waits for 2 items".to_string();
        let buf = ConcurrentHeapRB::from(vec![0usize; LEN]);
        let (mut prod, cons) = buf.split();
        prod.push_slice(&[7, 8]).unwrap();
        let mut cons = cons.detach();
        let _ = cons.available();
        unsafe { cons.advance(2); }
        let before = published(&prod);
        let p2 = &mut prod as *mut _ as usize;
        let cons = scenario(&name, cons, |mut c| { c.wait_for(2); c },
            || {
                let prod: &mut mutringbuf::iterators::ProdIter<ConcurrentHeapRB<usize>> = unsafe { &mut *(p2 as *mut _) };
                if published(prod) != before { fail(&name, format!("published indices changed while a detached iterator was only waiting: {:?} -> {:?}", before, published(prod))); }
                if prod.available() != LEN - 1 - 2 { fail(&name, format!("the producer sees {} free slots although the detached consumer never synced", prod.available())); }
            },
            || { let prod: &mut mutringbuf::iterators::ProdIter<ConcurrentHeapRB<usize>> = unsafe { &mut *(p2 as *mut _) }; prod.push_slice(&[1, 2]).unwrap(); });
        if prod.cons_index() != 0 { fail(&name, "the consumer's published index changed without sync_index / attach".into()); }
        drop(cons); n += 1;
    }
    // ---- attached iterators: waiting stores nothing either
    {
        let name = "attached worker waits for 2 items".to_string();
        let buf = ConcurrentHeapRB::from(vec![0usize; LEN]);
        let (mut prod, work, cons) = buf.split_mut();
        let before = published(&prod);
        let p2 = &mut prod as *mut _ as usize;
        let work = scenario(&name, work, |mut w| { w.wait_for(2); w },
            || { let prod: &mut mutringbuf::iterators::ProdIter<ConcurrentHeapRB<usize>> = unsafe { &mut *(p2 as *mut _) };
                 if published(prod) != before { fail(&name, "published indices changed while an iterator was only waiting".into()); } },
            || { let prod: &mut mutringbuf::iterators::ProdIter<ConcurrentHeapRB<usize>> = unsafe { &mut *(p2 as *mut _) }; prod.push_slice(&[1, 2]).unwrap(); });
        drop(work); drop(cons); n += 1;
    }
    {
        let name = "producer on a full buffer waits for 2 free slots".to_string();
        let buf = ConcurrentHeapRB::from(vec![0usize; LEN]);
        let (mut prod, mut cons) = buf.split();
        for v in 0..LEN - 1 { prod.push(v).unwrap(); }
        let before = published(&cons);
        let c2 = &mut cons as *mut _ as usize;
        let prod = scenario(&name, prod, |mut p| { p.wait_for(2); p },
            || { let cons: &mut mutringbuf::iterators::ConsIter<ConcurrentHeapRB<usize>, false> = unsafe { &mut *(c2 as *mut _) };
                 if published(cons) != before { fail(&name, "published indices changed while an iterator was only waiting".into()); } },
            || { let cons: &mut mutringbuf::iterators::ConsIter<ConcurrentHeapRB<usize>, false> = unsafe { &mut *(c2 as *mut _) }; cons.pop().unwrap(); cons.pop().unwrap(); });
        drop(prod); n += 1;
    }
    println!("ok scenarios={}", n);
}
