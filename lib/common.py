"""Shared machinery of ./check: builds, Coq re-check, evidence, violation protocol, known findings."""
import os, sys, json, time, subprocess, hashlib, re, fcntl, shutil, glob

ROOT = os.path.dirname(os.path.dirname(os.path.abspath(__file__)))
BUILD = os.path.join(ROOT, '.build')
COQ = os.path.join(ROOT, 'coq')
OCAML = os.path.join(ROOT, 'ocaml')
HARNESS = os.path.join(ROOT, 'harness')
REPO = '/repo'
MODEL = os.path.join(OCAML, 'model')
NCPU = os.cpu_count() or 8

TRUSTED_BASE = [
    "Coq 8.16.1 kernel (coqc; vm_compute used in Examples / refutation witnesses; no native_compute)",
    "axioms: none - every property theorem is 'Closed under the global context' (Print Assumptions checked on every run)",
    "extraction to OCaml 4.13.1 with ExtrOcamlBasic only (bool, option, unit, list, prod, sumbool, sumor, andb, orb); nat/N/positive stay Coq datatypes; no Extract Constant of our own",
    "OCaml drivers ocaml/{driver,concdriver,concdriver2,concdriver3x,dropdriver}.ml (parsing, printing, generators) and Rust harness harness/ (op interpreter, ledger item, listener, scripted schedulers concrun*/droprun, probes)",
    "fact extractors tools/extract_facts.py (fail-closed parsers) and the verif-hooks twins in /repo/src/verif_hooks.rs",
    "translators tools/extract_facts.py (arithmetic kernels -> gen/Kernels.v) and tools/data_translate.py (data-touching functions, vmem bodies, wiring, symbolic execution of poll, the drop path, the functions of unsafe_sync_cell.rs -> gen/DataFns.v, DataFnsV.v, PollGen.v, LifeFns.v, CellFns.v): what they emit is proved equal to the Model by Coq on every run; that the emitted term means what the Rust text means (the primitives of Model/KernelM.v, Model/DataM.v, Model/LifeM.v and Model/CellM.v - among them the std functions MaybeUninit::zeroed / assume_init*, mem::replace, slice_from_raw_parts) is trusted",
    "modelled, not verified: the Rust semantics of the primitives and of the parts not translated (constructors, BufRef drop protocol, the async per-method closures; Model = transcription there, validated by correspondence on every run); usize as unbounded nat with len <= isize::MAX; allocator / destructor glue / MaybeUninit as cells; C11 release/acquire as a view machine; mmap semantics; rustc trait solver as oracle for Send/Sync",
]

def sh(cmd, cwd=None, timeout=3600, env=None, inp=None):
    e = dict(os.environ)
    e['CARGO_NET_OFFLINE'] = 'true'
    if env: e.update(env)
    # once an operation of the real crate was seen not to return (seqsuite.HUNG), every further run of a harness binary would hang as well
    import seqsuite
    exe = cmd if isinstance(cmd, str) else (cmd[0] if cmd else '')
    if seqsuite.HUNG and isinstance(exe, str) and os.sep + os.path.join('.build', 'cargo') in exe and os.sep + 'debug' + os.sep in exe:
        return 125, 'skipped: an operation of the implementation does not return (see the reported history)\n'
    try:
        p = subprocess.run(cmd, cwd=cwd, shell=isinstance(cmd, str), stdout=subprocess.PIPE, stderr=subprocess.STDOUT,
                           timeout=timeout, env=e, input=inp, text=True, errors='replace')
    except subprocess.TimeoutExpired as ex:
        so = ex.stdout or ''
        so = so.decode('utf-8', 'replace') if isinstance(so, bytes) else so
        return 124, so + f'\nTIMEOUT: `{exe}` did not finish within {timeout} s\n'
    return p.returncode, p.stdout

class Lock:
    def __init__(self, name='build'):
        os.makedirs(BUILD, exist_ok=True)
        self.path = os.path.join(BUILD, name + '.lock')
    def __enter__(self):
        self.f = open(self.path, 'w')
        fcntl.flock(self.f, fcntl.LOCK_EX)
        return self
    def __exit__(self, *a):
        fcntl.flock(self.f, fcntl.LOCK_UN)
        self.f.close()

def repo_fingerprint():
    h = hashlib.sha256()
    for base, dirs, files in os.walk(os.path.join(REPO, 'src')):
        dirs.sort()
        for f in sorted(files):
            p = os.path.join(base, f)
            h.update(p.encode()); h.update(open(p, 'rb').read())
    h.update(open(os.path.join(REPO, 'Cargo.toml'), 'rb').read())
    return h.hexdigest()[:16]

class Ctx:
    def __init__(self, prop, tier, seed):
        self.prop, self.tier, self.seed = prop, tier, seed
        self.t0 = time.time()
        self.work = os.path.join(BUILD, 'work', f'{prop}-{tier}')
        shutil.rmtree(self.work, ignore_errors=True)
        os.makedirs(self.work, exist_ok=True)
        os.makedirs(os.path.join(ROOT, 'evidence'), exist_ok=True)
        os.makedirs(os.path.join(ROOT, 'replays'), exist_ok=True)
        self.violations = []      # (text, replay_path)
        self.known_lines = []
        self.notes = {}
        self.obligations = 0
        self.discharged = 0
        self.checker_cmds = []
        self.assumptions = []
        self.coverage = {}
        self.known = load_known()

    # ---------------------------------------------------------------- builds
    def build_harness(self, bins=('seqrun',), features=None, profile='dev'):
        """cargo build of the harness against the current /repo working tree (hooks on)."""
        with Lock('cargo'):
            cmd = ['cargo', 'build', '--offline'] + sum([['--bin', b] for b in bins], [])
            tdir = os.path.join(BUILD, 'cargo' if not features else 'cargo-' + features.replace(',', '-'))
            if features: cmd += ['--features', features]
            if profile == 'release': cmd.append('--release')
            elif profile != 'dev': cmd += ['--profile', profile]
            rc, out = sh(cmd, cwd=HARNESS, env={'CARGO_TARGET_DIR': tdir})
        self.notes.setdefault('build', []).append(' '.join(cmd))
        if rc != 0:
            return None, out
        return os.path.join(tdir, 'debug' if profile == 'dev' else profile), out

    def build_model(self):
        """make the Coq development needed for extraction, extract, compile the OCaml driver (cached by mtime)."""
        with Lock('coq'):
            rc, out = self._make(ALL_MODEL_VO)
            if rc != 0: return False, out
            srcs = [os.path.join(COQ, 'Model/Seq.vo'), os.path.join(COQ, 'Spec/Pipe.vo'), os.path.join(COQ, 'Extract/Extract.v'),
                    os.path.join(OCAML, 'driver.ml')]
            extra = glob.glob(os.path.join(COQ, 'Model/*.vo')) + [os.path.join(COQ, v) for v in ALL_MODEL_VO]
            newest = max(os.path.getmtime(p) for p in srcs + extra if os.path.exists(p))
            if os.path.exists(MODEL) and os.path.getmtime(MODEL) >= newest:
                return True, 'model up to date'
            rc, out = self._make(ALL_MODEL_VO)
            if rc != 0: return False, out
            rc, out = sh(['coqc', '-Q', COQ, 'MRB', os.path.join(COQ, 'Extract/Extract.v')], cwd=OCAML)
            if rc != 0: return False, out
            rc, out2 = sh('ocamlfind ocamlopt -O2 -w -a model.mli model.ml driver.ml -o model', cwd=OCAML)
            return rc == 0, out + out2

    def _make(self, targets):
        gen = ('SendClauses.v', 'Profile.v', 'Structure.v', 'VmemCalls.v', 'Kernels.v', 'SplitFns.v')
        if not all(os.path.exists(os.path.join(COQ, 'gen', g)) for g in gen):
            sh(['python3', os.path.join(ROOT, 'tools', 'extract_facts.py')])      # a tree without build output (fresh snapshot)
        if not os.path.exists(os.path.join(COQ, 'Makefile')) or \
           os.path.getmtime(os.path.join(COQ, 'Makefile')) < os.path.getmtime(os.path.join(COQ, '_CoqProject')):
            rc, out = sh('coq_makefile -f _CoqProject -o Makefile', cwd=COQ)
            if rc != 0: return rc, out
        return sh(['make', '-j%d' % NCPU] + list(targets), cwd=COQ, timeout=1800)

    def check_proofs(self, propfiles):
        """Re-check the theorems of the property (and everything they depend on). Returns (ok, failing log)."""
        with Lock('coq'):
            # the generated part of the development (gen/*.v) is regenerated from /repo's current tree before every proof check
            rc0, out0 = sh(['python3', os.path.join(ROOT, 'tools', 'extract_facts.py')])
            self.notes['extract_facts'] = out0.strip().split('\n')[-12:]
            builds = 'A,B' if self.prop == 'C17' else ('A,C' if self.prop in ('C04', 'C05', 'C14', 'C15', 'C18') else 'A')
            rc1, out1 = sh(['python3', os.path.join(ROOT, 'tools', 'cfg_audit.py'), '--builds=' + builds])
            if rc1 != 0:
                # code newly put under (or taken out of) a feature condition: the builds the checks use may not contain it at all
                self.checker_cmds.append('python3 tools/cfg_audit.py  (DIFFERENCES)')
                return False, out1[-3000:]
            if rc0 != 0:
                # the generated part of the development could not be regenerated from this tree: nothing below it is about this tree
                self.checker_cmds.append('python3 tools/extract_facts.py  (FAILED)')
                return False, 'tools/extract_facts.py failed on the current /repo tree (the model can not be regenerated from the source):\n' + out0[-3000:]
            # Props files print their assumptions when compiled: force their recompilation
            for pf in propfiles:
                for ext in ('.vo', '.glob', '.vok', '.vos'):
                    try: os.remove(os.path.join(COQ, pf[:-2] + ext))
                    except FileNotFoundError: pass
            targets = [pf[:-2] + '.vo' for pf in propfiles]
            # phase 1: everything the property files depend on (their own Print Assumptions output is not counted);
            # phase 2: the property files alone, so that exactly their `Print Assumptions` lines are in the output
            rc, out = self._make(targets)
            if rc == 0:
                for pf in propfiles:
                    for ext in ('.vo', '.glob', '.vok', '.vos'):
                        try: os.remove(os.path.join(COQ, pf[:-2] + ext))
                        except FileNotFoundError: pass
                rc, out = self._make(targets)
        self.checker_cmds.append('make -C coq -j%d %s  (coq_makefile, coqc 8.16.1, full .vo build)' % (NCPU, ' '.join(targets)))
        files = self.closure(propfiles)
        n = 0
        for f in files:
            txt = open(os.path.join(COQ, f)).read()
            n += len(re.findall(r'^\s*(?:Theorem|Lemma|Corollary|Example|Fact|Remark|Proposition)\s', txt, re.M))
        self.obligations += n
        bad = self.grep_forbidden(files)
        closed = len(re.findall(r'Closed under the global context', out))
        axioms = re.findall(r'^Axioms:\s*\n((?:.+\n)+?)(?=\S)', out, re.M)
        nthm = 0
        for pf in propfiles:
            nthm += len(re.findall(r'^Print Assumptions', open(os.path.join(COQ, pf)).read(), re.M))
        self.assumptions.append(f'{closed}/{nthm} property theorems: Closed under the global context')
        ok = (rc == 0) and not bad and closed == nthm and not axioms
        if ok and self.tier == 'thorough':
            # independent re-check of the compiled theorems and everything they depend on (coqchk), with its own axiom report
            mods = ['MRB.' + pf[:-2].replace('/', '.') for pf in propfiles]
            with Lock('coq'):
                rc2, out2 = sh(['coqchk', '-o', '-silent', '-Q', '.', 'MRB'] + mods, cwd=COQ, timeout=3000)
            self.checker_cmds.append('coqchk -o -silent -Q . MRB ' + ' '.join(mods))
            summary = out2[out2.find('CONTEXT SUMMARY'):] if 'CONTEXT SUMMARY' in out2 else out2[-1500:]
            clean = rc2 == 0 and all(re.search(re.escape(k) + r'\s*<none>', summary) for k in
                                     ('Axioms:', 'relying on type-in-type:', 'relying on unsafe (co)fixpoints:', 'positivity is assumed:'))
            self.assumptions.append('coqchk: ' + ('Axioms <none>, no type-in-type, no unsafe fixpoints, no assumed positivity' if clean else 'NOT CLEAN'))
            if not clean:
                ok = False
                return ok, 'coqchk does not accept the compiled development or reports assumptions:\n' + summary[-3000:]
        if ok: self.discharged += n
        log = out if rc != 0 else ''
        if bad: log += '\nforbidden construct: ' + '; '.join(bad)
        if rc == 0 and closed != nthm: log += f'\nPrint Assumptions: only {closed} of {nthm} theorems are closed under the global context\n' + out[-3000:]
        return ok, log

    def closure(self, propfiles):
        rc, out = sh(['coqdep', '-Q', '.', 'MRB', '-sort'] + list(propfiles), cwd=COQ)
        files = [f for f in out.split() if f.endswith('.v')]
        files = [os.path.normpath(f) for f in files]
        return files or list(propfiles)

    def grep_forbidden(self, files):
        bad = []
        pat = re.compile(r'\b(Admitted|admit|Axiom|Parameter|Conjecture|Abort All|Unset Guard Checking|Unset Positivity Checking|Unset Universe Checking|bypass_check|Admit Obligations)\b')
        for f in files:
            txt = open(os.path.join(COQ, f)).read()
            txt = re.sub(r'\(\*.*?\*\)', '', txt, flags=re.S)
            for m in pat.finditer(txt):
                bad.append(f'{f}: {m.group(1)}')
            if re.search(r'^\s*(Variable|Hypothesis|Variables|Hypotheses)\b', txt, re.M) and not re.search(r'^\s*Section\b', txt, re.M):
                bad.append(f'{f}: Variable/Hypothesis outside a section')
        return bad

    # ---------------------------------------------------------------- verdict
    def violation(self, what, replay_text, no_input=False):
        if len(what) > 400: what = what[:400] + ' ...'
        h = hashlib.sha256((what + replay_text).encode()).hexdigest()[:10]
        path = os.path.join(ROOT, 'replays', f'{self.prop}-{h}.txt')
        with open(path, 'w') as f:
            f.write(f'# property {self.prop}: {what}\n# replay: ./check {self.prop} --replay {path}\n')
            f.write(replay_text if replay_text.endswith('\n') else replay_text + '\n')
        self.violations.append((what, path, no_input))

    def known_finding(self, key, what):
        """Returns True (and remembers the line) when the failing case is a listed finding of this property."""
        for f in self.known.get('findings', []):
            if f['property'] == self.prop and f['key'] == key:
                line = f"KNOWN-FINDING: property={self.prop} {f['what']}"
                if line not in self.known_lines: self.known_lines.append(line)
                return True
        return False

    def finish(self, level, coverage, assumptions=None):
        wall = time.time() - self.t0
        cov = dict(coverage)
        if level == 'proof':
            cov.setdefault('obligations', self.obligations)
            cov.setdefault('discharged', self.discharged)
            cov.setdefault('checker_cmd', ' ; '.join(self.checker_cmds) or 'make -C coq')
            cov.setdefault('trusted_base', TRUSTED_BASE)
        cov['print_assumptions'] = self.assumptions
        cov['known_findings_reported'] = self.known_lines
        cov['notes'] = self.notes
        ev = {'property_id': self.prop, 'tier': self.tier, 'seed': self.seed, 'level': level, 'coverage': cov,
              'assumptions': assumptions or TRUSTED_BASE, 'wall_s': round(wall, 2), 'violations': len(self.violations)}
        with open(os.path.join(ROOT, 'evidence', f'{self.prop}.json'), 'w') as f:
            json.dump(ev, f, indent=1)
        for l in self.known_lines: print(l)
        if self.violations:
            for what, path, no_input in self.violations[:1]:
                print(f'{self.prop}: {what}')
                print(f'VIOLATION property={self.prop} replay={path}' + (' no-failing-input-found' if no_input else ''))
            return 1
        print(f'{self.prop}: OK ({self.tier}, {wall:.1f}s)')
        return 0

def _extract_deps():
    """the .vo files Extract/Extract.v requires (so that a tree without build output - a fresh snapshot - can extract)"""
    txt = open(os.path.join(COQ, 'Extract', 'Extract.v')).read()
    return sorted({m.replace('.', '/') + '.vo' for m in re.findall(r'MRB\.((?:Model|Spec|Conc|Base)\.\w+)', txt)})
ALL_MODEL_VO = _extract_deps()

def load_known():
    p = os.path.join(ROOT, 'known_findings.json')
    if os.path.exists(p):
        return json.load(open(p))
    return {'findings': [], 'fixed': []}
