"""Per-property checks."""
import collections, subprocess, os, re, json
import common, seqsuite

READ_OPS = {'pop', 'popmove', 'peek', 'peekslice', 'peekavail', 'copyitem', 'cloneitem', 'copyslice', 'cloneslice'}
REQ_OPS = READ_OPS | {'get1', 'getn', 'getavail', 'getmult', 'nextitem', 'nextinit', 'nextslices', 'push', 'pushinit',
                      'pushslice', 'pushsliceinit', 'pushclone', 'pushcloneinit'}
SLICE_OPS = {'getn', 'getavail', 'getmult', 'nextslices', 'peekslice', 'peekavail', 'copyslice', 'cloneslice',
             'pushslice', 'pushsliceinit', 'pushclone', 'pushcloneinit'}
DET_OPS = {'detach', 'attach', 'sync', 'setindex', 'goback', 'dreset'}

def inj_parts(s):
    """`inj <poll> | <step of another stage>` (a poll during whose waker registration another stage acts) -> (poll, step); else (s, None)"""
    if s and s.startswith('inj ') and '|' in s:
        a, b = s[4:].split('|', 1)
        return a.strip(), b.strip()
    return s, None
def opname(s):
    s = inj_parts(s)[0]
    return s.split()[0] if s else ''
def stage_of(s):
    w = inj_parts(s)[0].split()
    return w[1] if len(w) > 1 and w[1] in ('P', 'W', 'C') else None
FUT_STAGE = {'push': 'P', 'pushslice': 'P', 'pushclone': 'P', 'nextitem': 'P', 'nextinit': 'P', 'nextslices': 'P', 'pop': 'C', 'popmove': 'C', 'copyitem': 'C',
             'cloneitem': 'C', 'copyslice': 'C', 'cloneslice': 'C', 'peek': 'C', 'peekslice': 'C', 'peekavail': 'C'}
def acting_stage(op):
    op = op.replace('hold ', '')
    return stage_of(op) or FUT_STAGE.get(opname(op))

# ---- which Spec-vs-implementation divergences are failing inputs of which property
def is_c01(d):
    o = opname(d.op())
    return d.res(d.expected) != d.res(d.actual) and (o in READ_OPS or (o.startswith('get') and stage_of(d.op()) == 'C'))
def is_c04(d):
    o = opname(d.op())
    return d.field(d.expected, 'ix') != d.field(d.actual, 'ix') or d.field(d.expected, 'pub') != d.field(d.actual, 'pub') \
        or (o.startswith('push') and d.res(d.expected) != d.res(d.actual)) or o == 'avail'
def is_c05(d):
    o = opname(d.op())
    e, a = d.res(d.expected), d.res(d.actual)
    refused = lambda r: r == 'none' or r.startswith('err')
    if o == 'avail' and e != a: return True
    if o in REQ_OPS and refused(e) != refused(a): return True
    if o in REQ_OPS and refused(e) and (d.field(d.expected, 'ix') != d.field(d.actual, 'ix') or d.field(d.expected, 'pub') != d.field(d.actual, 'pub') or e != a):
        return True
    return False
def is_c06(d):
    o = opname(d.op())
    e, a = d.res(d.expected), d.res(d.actual)
    return e != a and (e.startswith('slices') or a.startswith('slices') or e.startswith('dst [') and o in SLICE_OPS or o in SLICE_OPS)
def is_c11(d): return any(opname(x) == 'reset' for x in d.prefix())
def is_c12(d): return any(opname(x) in DET_OPS for x in d.prefix())
def is_c18(d): return d.idx <= 0 or any(opname(x) == 'resplit' for x in d.prefix())
def is_ledger(d):
    # C08 / C09 speak about histories that follow the documented initialisation rules: once the model itself reports a drop / read
    # of an empty slot or a leaked value, the history is outside them (a divergence there still breaks the correspondence)
    if not getattr(d, 'rules_ok', True): return False
    return d.field(d.expected, 'ev') != d.field(d.actual, 'ev') or d.expected.startswith('live=') or \
        ('item=owned' in (d.cfg or '') and d.res(d.expected) != d.res(d.actual))

class SeqCheck:
    """A property decided by the sequential refinement: theorems in Props/<id>.v + correspondence on S-rand/S-exh."""
    def __init__(self, prop, pred, text, extra=None, propfiles=None):
        self.prop, self.pred, self.text, self.extra = prop, pred, text, extra
        self.propfiles = propfiles or [f'Props/{prop}.v']

    def suites(self, ctx):
        s = ctx.seed
        if ctx.tier == 'quick':
            return [('rand', ['rand', s, 1500, 20, 120]), ('life', ['life', s, 1500]), ('exh', ['bfs', 2, 100000000]), ('exh3', ['bfs', 3, 1500])]
        return [('rand', ['rand', s, 25000, 20, 200]), ('life', ['life', s, 25000]), ('exh', ['bfs', 3, 100000000]), ('exh4', ['bfs', 4, 60000])]

    def prepare(self, ctx):
        rc, out = common.sh(['python3', os.path.join(common.ROOT, 'tools', 'extract_facts.py')])
        ctx.notes['extract_facts'] = out.strip().split('\n')
        bindir, log = ctx.build_harness(('seqrun',))
        if bindir is None:
            ctx.violation('the harness does not build against the current /repo tree with feature verif-hooks (tie broken)',
                          '## cargo build failed\n' + log[-4000:], no_input=True)
            return None
        ok, log = ctx.build_model()
        if not ok:
            ctx.violation('the Coq model / extraction no longer builds', '## build log\n' + log[-4000:], no_input=True)
            return None
        return os.path.join(bindir, 'seqrun')

    def run(self, ctx):
        seqrun = self.prepare(ctx)
        if seqrun is None: return ctx.finish('proof', {'explanation': 'build failed'})
        self._runner = seqrun
        ok, log = ctx.check_proofs(self.propfiles)
        proof_broken = not ok
        # the corpus runs first: minimised failing histories of earlier seeded changes (on the unchanged tree they agree with the Spec)
        def corpus_file(sub):
            d = os.path.join(common.ROOT, 'corpus', sub)
            if not os.path.isdir(d): return None
            fs = sorted(f for f in os.listdir(d) if f.endswith('.hist'))
            if not fs: return None
            path = os.path.join(ctx.work, f'corpus_{sub}.hist')
            with open(path, 'w') as out:
                for f in fs:
                    # one header line per history (the first `#` line of the file, tagged with the corpus entry's name)
                    ls = [l for l in open(os.path.join(d, f)).read().split('\n') if l.strip()]
                    body = [l for l in ls if not l.startswith('#')]
                    cfgs = [l for l in body if l.startswith('cfg ')]; ops = [l for l in body if not l.startswith('cfg ')]
                    # a replay of the variant suite lists several buffer types for one history: one history per type
                    for c in cfgs:
                        # an entry filed under the wrong runner (an async history among the sequential / vmem ones) is left out
                        if ('kind=async' in c) != (sub == 'async'): continue
                        out.write(f'# corpus {f}\n' + c + '\n' + '\n'.join(ops) + '\n')
            return path
        divs = []
        cstats = None
        cf = corpus_file(getattr(self, 'corpus_dir', 'seq'))
        if cf:
            cstats, cd = seqsuite.run_files(ctx, seqrun, 'corpus', [cf]); divs += cd
        stats, d2 = seqsuite.run(ctx, seqrun, self.suites(ctx)); divs += d2
        if getattr(self, 'with_async', False):
            # the async wrappers (incl. AsyncDetached) run the same synchronous core: part of this property's footprint
            bindir, alog = ctx.build_harness(('asyncrun',))
            if bindir is None:
                ctx.violation('the async harness does not build against the current /repo tree (tie broken)', '## cargo build failed\n' + alog[-4000:], no_input=True)
            if bindir is not None:
                n = 500 if ctx.tier == 'quick' else 10000
                acf = corpus_file('async')
                if acf:
                    acs, acd = seqsuite.run_files(ctx, os.path.join(bindir, 'asyncrun'), 'corpus', [acf], mode='async'); divs += acd
                    if cstats: cstats.histories += acs.histories
                    else: cstats = acs
                astats, d3 = seqsuite.run(ctx, os.path.join(bindir, 'asyncrun'), [('arand', ['arand', ctx.seed, n, 20, 100])], mode='async')
                divs += d3; stats.steps += astats.steps; stats.histories += astats.histories; stats.distinct |= astats.distinct
                ctx.notes['async_suite'] = astats.summary()
        if getattr(self, 'corpus_dir', 'seq') == 'seq' and not seqsuite.HUNG:
            # second pass in the build a user ships, as far as the semantics go (profile `nodebug`: debug_assert!s compiled out, no overflow
            # checks): the corpus and a random suite again - what only a debug build does (or only a build without debug assertions) shows here
            bindir2, log2 = ctx.build_harness(('seqrun',), profile='nodebug')
            if bindir2 is None:
                ctx.violation('the harness does not build against the current /repo tree without debug assertions (tie broken)', '## cargo build --profile nodebug failed\n' + log2[-4000:], no_input=True)
            else:
                self._runner_nodebug = r2 = os.path.join(bindir2, 'seqrun')
                if cf:
                    cs2, cd2 = seqsuite.run_files(ctx, r2, 'corpus-nodebug', [cf]); divs += cd2
                n2 = 400 if ctx.tier == 'quick' else 6000
                st2, dv2 = seqsuite.run(ctx, r2, [('rand-nodebug', [getattr(self, 'nodebug_gen', 'rand'), ctx.seed + 7, n2, 20, 100])]); divs += dv2
                stats.steps += st2.steps; stats.histories += st2.histories; stats.distinct |= st2.distinct
                ctx.notes['nodebug_pass'] = {'histories': st2.histories + (cs2.histories if cf else 0), 'steps': st2.steps, 'profile': 'dev + debug-assertions=false + overflow-checks=false'}
        # (an operation that does not return was seen: the probes would hang as well - the history at hand is the failing input)
        if self.extra and not seqsuite.HUNG: self.extra(ctx, seqrun, stats, divs)
        self.decide(ctx, divs, proof_broken, log)
        cov = {'evaluations': stats.steps, 'distinct_nontrivial': len(stats.distinct),
               'rule': 'one evaluation = one operation of a generated history executed on the extracted Coq model, on the Spec and on the real crate and compared line by line '
                       '(result, the three local indices, the three published indices, liveness flags, cached_avail x3 via the hook, freed, ledger events); '
                       'distinct_nontrivial = distinct (observable state before, operation with arguments, length, stages) pairs whose result is not `bad`',
               'samples': stats.samples, 'input_distribution': stats.summary(),
               'traces_validated_against_impl': stats.histories,
               'divergences': len(divs), 'corpus_histories': cstats.histories if cstats else 0,
               'exhaustive': False,
               'explanation': self.text}
        return ctx.finish('proof', cov)

    def minimise(self, ctx, d, pred=None):
        """delta-debugging; a failure of the minimiser itself never hides the failing input it started from"""
        try: return self._minimise(ctx, d, pred)
        except Exception as ex:
            ctx.notes['minimiser_failed'] = str(ex)[:300]
            return d
    def _minimise(self, ctx, d, pred=None):
        """delta-debugging, one operation at a time: drop every operation whose removal keeps the same failure at the last step"""
        pred = pred or self.pred
        nd = 'nodebug' in (d.suite or '')
        runner = getattr(self, '_runner_nodebug' if nd else '_runner', None)
        if runner is None or d.idx < 1 or d.suite in ('arand', 'varand') or 'vmem=1' in (d.cfg or '') or 'kind=async' in (d.cfg or ''): return d
        mode = 'seq'
        cur = d.prefix()
        trials = 0
        def fails(ops):
            path = os.path.join(ctx.work, 'min.hist')
            with open(path, 'w') as f: f.write('\n'.join([d.header, d.cfg] + ops) + '\n')
            st, dv = seqsuite.run_files(ctx, runner, 'min-nodebug' if nd else 'min', [path], mode=mode)
            for x in dv:
                if x.idx == len(ops) - 1 and x.kind == d.kind and pred(x): return x
            return None
        best = d
        i = len(cur) - 2
        while i >= 0 and trials < 400:
            cand = cur[:i] + cur[i + 1:]
            trials += 1
            x = fails(cand)
            if x is not None: cur = cand; best = x
            i -= 1
        ctx.notes['minimised'] = f'{len(d.prefix())} -> {len(cur)} operations in {trials} trials'
        return best

    def decide(self, ctx, divs, proof_broken, log):
        mine = [d for d in divs if d.kind == 'spec' and self.pred(d)]
        if mine:
            d = self.minimise(ctx, min(mine, key=lambda d: len(d.prefix())))
            ctx.violation(f'the implementation departs from the Spec on a contract-respecting history at `{d.op()}`: expected `{d.res(d.expected)}`, got `{d.res(d.actual)}`',
                          d.replay_text())
        elif divs:
            d = min(divs, key=lambda d: len(d.prefix()))
            ctx.violation(f'correspondence Model = implementation no longer holds (suite {d.suite}, at `{d.op()}`); no failing input for {ctx.prop} found among {len(divs)} divergences',
                          '## correspondence suite ' + d.suite + ' (Model vs implementation) no longer checks; first divergence:\n' + d.replay_text(), no_input=True)
        elif proof_broken:
            ctx.violation('a proof obligation in the closure of ' + ', '.join(self.propfiles) + ' no longer checks',
                          '## theorem(s) in ' + ', '.join(self.propfiles) + ' no longer check; coq output:\n' + log[-4000:], no_input=True)

    def replay(self, ctx, path):
        return generic_replay(self, ctx, path)

def generic_replay(check, ctx, path):
    """replays what a replay file holds against the current tree: a history (sequential, async, vmem - the runner is chosen from its
    cfg line), a scripted multi-thread case (S-script / S-drop), or the command of a property-level probe; exit 1 if it still fails"""
    txt = open(path).read()
    vm = 'vmem=1' in txt or 'cargo-vmem' in txt
    m = re.search(r'^## replay: (\.build/(cargo[\w-]*)/debug/([\w-]+))((?: [^\n(]*)?)', txt, re.M)
    if m and not re.search(r'^cfg ', txt, re.M):
        # a probe: rebuild it against the current tree, run the recorded command
        exe, tdir, name, args = m.group(1), m.group(2), m.group(3), m.group(4).split()
        if tdir == 'cargo-noalloc':
            with common.Lock('cargo-noalloc'):
                common.sh(['cargo', 'build', '--offline'], cwd=os.path.join(common.ROOT, 'harness-noalloc'), env={'CARGO_TARGET_DIR': os.path.join(common.BUILD, 'cargo-noalloc')})
        else:
            bindir, log = ctx.build_harness((name,), features='vmem' if tdir == 'cargo-vmem' else None)
            if bindir is None: print(log[-2000:]); return 2
        rc, out = common.sh([os.path.join(common.ROOT, exe)] + args, timeout=1800)
        print('\n'.join(out.strip().split('\n')[-12:]))
        return 1 if (rc != 0 or 'MISMATCH' in out) else 0
    sm = re.search(r'^## (S-script|S-drop) case \(replay: \.build/cargo/debug/(\w+)', txt, re.M)
    if sm:
        runner = sm.group(2)
        kinds = re.search(r'\[(2n|3n|x|3x)\]', txt)
        if sm.group(1) == 'S-script' and kinds: runner = {'2n': 'concrun', '3n': 'concrun2', 'x': 'concrun2', '3x': 'concrun3x'}[kinds.group(1)]
        bindir, log = ctx.build_harness((runner,))
        if bindir is None: print(log[-2000:]); return 2
        case = os.path.join(ctx.work, 'replay.cases'); open(case, 'w').write('\n'.join(l for l in txt.split('\n') if l and not l.startswith('#')) + '\n')
        rc, out = common.sh([os.path.join(bindir, runner), case], timeout=600)
        print('\n'.join(out.strip().split('\n')[-6:]))
        return 1 if (rc != 0 or 'MISMATCH' in out) else 0
    if 'kind=async' in txt:
        bindir, log = ctx.build_harness(('asyncrun',), features='vmem' if vm else None, profile='nodebug' if (not vm and re.search(r'suite [\w-]*nodebug', txt)) else 'dev')
        if bindir is None: print(log[-2000:]); return 2
        ok, log = ctx.build_model()
        runner, mode = os.path.join(bindir, 'asyncrun'), 'async'
    elif vm:
        bindir, log = ctx.build_harness(('seqrun',), features='vmem')
        if bindir is None: print(log[-2000:]); return 2
        ok, log = ctx.build_model()
        runner, mode = os.path.join(bindir, 'seqrun'), 'seq'
    else:
        # a history found in the pass without debug assertions is replayed on that build
        bindir, log = ctx.build_harness(('seqrun',), profile='nodebug' if re.search(r'suite [\w-]*nodebug', txt) else 'dev')
        if bindir is None: print(log[-2000:]); return 2
        ok, log = ctx.build_model()
        runner, mode = os.path.join(bindir, 'seqrun'), 'seq'
    # one history per cfg line (a replay of the variant suite lists several buffer types for one history)
    ls = [l for l in txt.split('\n') if l.strip() and not l.startswith('#')]
    cfgs = [l for l in ls if l.startswith('cfg ')]; ops = [l for l in ls if not l.startswith('cfg ')]
    hist = os.path.join(ctx.work, 'replay.hist')
    with open(hist, 'w') as f:
        for c in cfgs: f.write('# replay\n' + c + '\n' + '\n'.join(ops) + '\n')
    stats, divs = seqsuite.run_files(ctx, runner, 'replay', [hist], mode=mode)
    for d in divs[:3]:
        print(d.replay_text())
    print(f'replayed {stats.histories} histories, {stats.steps} steps: {len(divs)} divergences')
    return 1 if divs else 0

SEQ_TEXT = ('Theorems (Coq, all lengths / states / histories): the Model refines the Spec (step_refines, run_refines, init_refines) and the '
            'property statements in Props/%s.v follow; tie: differential run of the extracted Model against the real crate on generated histories, '
            'oracle: the Spec run over the same histories. K-tie / D-tie: the arithmetic kernels and (C01 C05 C06) the 36 data-touching functions are translated from '
            'the Rust source on every run and proved equal to the Model functions for all inputs (Props/KTie.v, Props/DTie.v).')

CHECKS = {}
for pid, pred in (('C01', is_c01), ('C04', is_c04), ('C05', is_c05), ('C06', is_c06), ('C11', is_c11), ('C12', is_c12), ('C18', is_c18)):
    CHECKS[pid] = SeqCheck(pid, pred, SEQ_TEXT % pid)
def run_waitprobe(ctx, stats):
    """wait_for (the one busy-waiting call) on attached and detached iterators, one OS thread waiting: it only looks (Acquire loads of the
    successor's index), stores nothing - a detached iterator that waits publishes nothing - and returns once the items are there"""
    bindir, log = ctx.build_harness(('waitprobe',))
    if bindir is None:
        ctx.violation('the wait_for probe does not build against the current /repo tree', log[-3000:], no_input=True); return
    rc, out = common.sh([os.path.join(bindir, 'waitprobe')], timeout=600)
    m = re.search(r'ok scenarios=(\d+)', out)
    if m:
        ctx.notes['wait_for_probe'] = {'scenarios': int(m.group(1))}; stats.histories += int(m.group(1)); return
    mm = re.search(r'MISMATCH (.*)', out)
    what = mm.group(1) if mm else 'probe failed: ' + out[-600:]
    ctx.violation('wait_for: ' + what[:400], f'## replay: .build/cargo/debug/waitprobe\n## scenario: {what}\n', no_input=(mm is None))

class ResetDetachCheck(SeqCheck):
    """C11 / C12: the sequential refinement plus the scripted executions of the reset / detached machine (RAx) on the real crate"""
    def __init__(self, prop, pred, text):
        super().__init__(prop, pred, text)
        self.script_bad = []
        self.extra = lambda ctx, seqrun, stats, divs: (run_script_suite(self, ctx, stats, machines=('x', '3x')), run_waitprobe(ctx, stats) if ctx.prop == 'C12' else None)
    def decide(self, ctx, divs, proof_broken, log):
        mine = [d for d in divs if d.kind == 'spec' and self.pred(d)]
        if self.script_bad and not mine:
            what, text, path = min(self.script_bad, key=lambda b: len(b[1]))
            word = 'reset' if ctx.prop == 'C11' else 'detach'
            ctx.violation(f'an execution of the proved reset / detached machine (RAx: interleaving + stale reads) does not replay on the real crate: {what} ({len(self.script_bad)} cases)',
                          '## S-script case (replay: .build/cargo/debug/concrun2 <file with this case>)\n' + text, no_input=(f'cmd C {word}' not in text and f'cmd W {word}' not in text))
            return
        super().decide(ctx, divs, proof_broken, log)
for pid, pred in (('C11', is_c11), ('C12', is_c12)):
    CHECKS[pid] = ResetDetachCheck(pid, pred, SEQ_TEXT % pid + ' Under concurrency: theorems on the release/acquire machine RAx (race freedom, never backwards, published <= local); '
                                   'tie: S-script, executions of the extracted machine replayed on the real crate with OS threads.')
def c18_noalloc(ctx, seqrun, stats, divs):
    """the configuration without `alloc` (async splits borrow a stack buffer and can be repeated): property-level probe, see harness-noalloc"""
    tdir = os.path.join(common.BUILD, 'cargo-noalloc')
    with common.Lock('cargo-noalloc'):
        rc, out = common.sh(['cargo', 'build', '--offline'], cwd=os.path.join(common.ROOT, 'harness-noalloc'), env={'CARGO_TARGET_DIR': tdir})
    if rc != 0:
        ctx.violation('the crate does not build with --no-default-features --features async (probe harness-noalloc)', out[-3000:], no_input=True); return
    n = 500 if ctx.tier == 'quick' else 20000
    rc, out = common.sh([os.path.join(tdir, 'debug', 'mrb-harness-noalloc'), str(ctx.seed), str(n)], timeout=1800)
    m = re.search(r'ok sessions=(\d+)', out)
    if m:
        ctx.notes['noalloc_probe'] = {'sessions': int(m.group(1))}; stats.histories += int(m.group(1)); return
    mm = re.search(r'MISMATCH (.*)', out)
    what = mm.group(1) if mm else 'probe failed: ' + out[-600:]
    ctx.violation('without the alloc feature (stack buffer, async / sync splits repeated): ' + what.split(': ', 1)[-1][:300],
                  f'## replay: .build/cargo-noalloc/debug/mrb-harness-noalloc {ctx.seed} {n}\n## sessions: {what}\n', no_input=(mm is None))

def c18_splitprobe(ctx, seqrun, stats, divs):
    """default (alloc) + async configuration: stack buffers split by reference, used, released and split again - by reference or BY VALUE
    into async iterators (F11); property-level probe harness/src/bin/splitprobe.rs"""
    bindir, log = ctx.build_harness(('splitprobe',))
    if bindir is None:
        ctx.violation('the split probe does not build against the current /repo tree', log[-3000:], no_input=True); return
    n = 2000 if ctx.tier == 'quick' else 100000
    rc, out = common.sh([os.path.join(bindir, 'splitprobe'), str(ctx.seed), str(n)], timeout=1800)
    m = re.search(r'ok sessions=(\d+) byvalue=(\d+)', out)
    if m:
        ctx.notes['split_probe'] = {'sessions': int(m.group(1)), 'by_value_async_resplits': int(m.group(2))}; stats.histories += int(m.group(1)); return
    mm = re.search(r'MISMATCH (.*)', out)
    what = mm.group(1) if mm else 'probe failed: ' + out[-600:]
    ctor = mm is not None and re.match(r'(Concurrent|Local)(Heap|Stack)RB', what) is not None
    ctx.violation(('constructor ' + what[:300]) if ctor else
                  'stack buffer split again (by reference / by value into async iterators): ' + what.rsplit(': ', 1)[-1][:300],
                  f'## replay: .build/cargo/debug/splitprobe {ctx.seed} {n}\n## sessions (each [...] is one split and what was done with its iterators): {what}\n', no_input=(mm is None))

def c18_extra(ctx, seqrun, stats, divs):
    c18_noalloc(ctx, seqrun, stats, divs)
    c18_splitprobe(ctx, seqrun, stats, divs)
    # zero-sized item types are outside the Model: constructors checked by the property-level probe (length, initial availabilities)
    bindir, log = ctx.build_harness(('zstprobe',))
    if bindir is None: ctx.violation('zstprobe does not build against the current /repo tree (tie broken)', '## cargo build failed\n' + log[-4000:], no_input=True)
    if bindir is not None:
        rc, out = common.sh([os.path.join(bindir, 'zstprobe'), str(ctx.seed), '200' if ctx.tier == 'quick' else '5000'], timeout=600)
        mm = re.search(r'MISMATCH (.*)', out)
        if mm and 'requested with length' in mm.group(1):
            ctx.violation('zero-sized item type: ' + mm.group(1).split(': ', 1)[-1][:300], f'## replay: .build/cargo/debug/zstprobe {ctx.seed} 200\n## {mm.group(1)}\n')
        elif not mm: ctx.notes['zst_constructors'] = out.strip()[-80:]

def c04_safe_ops(ctx, seqrun, stats, divs):
    """the sentence `no safe operation moves an iterator past the iterator ahead`: safe methods whose contract fails"""
    for key, lst in sorted(stats.safe_breaks.items()):
        if not ctx.known_finding(key, ''):
            h, cfg, ops = min(lst, key=lambda x: len(x[2]))
            ctx.violation(f'a safe operation leaves the contract of the Spec ({key}): it can move an iterator past the iterator ahead',
                          '\n'.join([h, cfg] + ops) + f'\n## {key}: the last operation is a safe fn, yet its position contract does not hold in this state\n')
    ctx.notes['safe_ops_off_contract'] = {k: len(v) for k, v in stats.safe_breaks.items()}
CHECKS['C04'].extra = c04_safe_ops
CHECKS['C18'].extra = c18_extra
# C05 ("neither over- nor under-reports under concurrency"): a thread that only WAITS must not change what the other stages are offered
CHECKS['C05'].extra = lambda ctx, seqrun, stats, divs: (run_waitprobe(ctx, stats), c18_splitprobe(ctx, seqrun, stats, divs), c18_noalloc(ctx, seqrun, stats, divs))
# C01 / C04: the supplied contents of EVERY cell and the state right after every kind of split (stack buffers split again by reference
# and by value) are part of what the consumer may see / of the order of the stages
CHECKS['C01'].extra = lambda ctx, seqrun, stats, divs: (c18_splitprobe(ctx, seqrun, stats, divs), run_cellprobe(ctx, stats))
CHECKS['C04'].extra = lambda ctx, seqrun, stats, divs: (c04_safe_ops(ctx, seqrun, stats, divs), c18_splitprobe(ctx, seqrun, stats, divs), c18_noalloc(ctx, seqrun, stats, divs))
for pid in ('C01', 'C04', 'C05', 'C06', 'C11', 'C12'):
    CHECKS[pid].propfiles = [f'Props/{pid}.v', 'Props/KTie.v']    # K-tie: kernels translated from the source on every run
for pid in ('C01', 'C05', 'C06'):
    CHECKS[pid].propfiles = [f'Props/{pid}.v', 'Props/KTie.v', 'Props/DTie.v']   # D-tie: data-touching functions translated from the source on every run
for pid in ('C01', 'C04', 'C05', 'C06', 'C11', 'C12', 'C18'):
    CHECKS[pid].with_async = True   # the async wrappers / AsyncDetached run (and partly re-implement: go_back, advance, sync_index) the same core


class VariantCheck(SeqCheck):
    """C13: the same history on {Concurrent, Local} x {Heap, Stack} (split and split_mut), each compared with the one
    Model after every step, hence with each other; the four implementation outputs are also compared directly."""
    def suites(self, ctx):
        if ctx.tier == 'quick': return [('randv', ['randv', ctx.seed, 700, 20, 100]), ('life', ['life', ctx.seed, 2500])]
        return [('randv', ['randv', ctx.seed, 12000, 20, 200]), ('life', ['life', ctx.seed, 40000])]

    def run(self, ctx):
        seqrun = self.prepare(ctx)
        if seqrun is None: return ctx.finish('translation_validation', {'explanation': 'build failed'})
        ok, log = ctx.check_proofs(self.propfiles)
        collect = []
        stats, divs = seqsuite.run(ctx, seqrun, self.suites(ctx), collect=collect)
        bindir, alog = ctx.build_harness(('asyncrun',))
        if bindir is None: ctx.violation('the async harness does not build against the current /repo tree (tie broken)', '## cargo build failed\n' + alog[-4000:], no_input=True)
        if bindir is not None:
            astats, d3 = seqsuite.run(ctx, os.path.join(bindir, 'asyncrun'), [('arand', ['arand', ctx.seed, 600 if ctx.tier == 'quick' else 12000, 20, 100])], mode='async')
            divs += d3; stats.steps += astats.steps; stats.histories += astats.histories; stats.distinct |= astats.distinct
            ctx.notes['async_polled_form'] = astats.summary()
        groups = {}
        for header, cfg, ops, got in collect:
            m = re.match(r'# randv seed=(\d+) n=(\d+) variant=(\S+)', header)
            if m: groups.setdefault((m.group(1), m.group(2)), []).append((m.group(3), cfg, ops, [re.sub(r' \| at=\S*', '', x) for x in got]))
        disagreements = 0; compared = 0
        for key, vs in groups.items():
            ref = vs[0]
            for v in vs[1:]:
                compared += 1
                if v[3] != ref[3]:
                    disagreements += 1
                    if disagreements == 1:
                        k = next(i for i, (x, y) in enumerate(zip(ref[3], v[3])) if x != y) if len(ref[3]) == len(v[3]) else min(len(ref[3]), len(v[3]))
                        txt = '\n'.join(['# C13: variants disagree', ref[1]] + ref[2][:k] + [f'## step {k - 1}: variant {ref[0]} printed: {ref[3][k] if k < len(ref[3]) else "<missing>"}',
                                         f'## step {k - 1}: variant {v[0]} printed: {v[3][k] if k < len(v[3]) else "<missing>"}', '## second variant:', v[1]])
                        ctx.violation(f'buffer variants {ref[0]} and {v[0]} give different observable results on the same history', txt)
        if not ctx.violations and not seqsuite.HUNG:
            # the same contents in every cell whatever the storage (from(array) / from(vec) / default), the same start after every split
            c18_splitprobe(ctx, seqrun, stats, divs)
        if not ctx.violations:
            self.decide(ctx, divs, not ok, log)
        cov = {'programs': len(groups), 'disagreements_checked': compared,
               'samples': stats.samples, 'evaluations': stats.steps, 'distinct_nontrivial': len(stats.distinct),
               'input_distribution': stats.summary(), 'variant_disagreements': disagreements, 'model_divergences': len(divs),
               'explanation': self.text,
               'obligations': ctx.obligations, 'discharged': ctx.discharged, 'checker_cmd': ' ; '.join(ctx.checker_cmds), 'trusted_base': common.TRUSTED_BASE}
        return ctx.finish('translation_validation', cov)

CHECKS['C13'] = VariantCheck('C13', lambda d: True,
    'One Model for all variants: every history is run on ConcurrentHeapRB, LocalHeapRB, ConcurrentStackRB, LocalStackRB (split and split_mut) and compared, '
    'step by step, with the Model and with the other variants. Theorems: the Model has a single step function (Props/C13.v states what is proved at model level).',
    propfiles=['Props/C13.v'])


# ------------------------------------------------------------------------------------------- C16
class SendCheck:
    prop = 'C16'
    def gen(self, ctx):
        rc, out = common.sh(['python3', os.path.join(common.ROOT, 'tools', 'extract_facts.py')])
        ctx.notes['extract_facts'] = out.strip().split('\n')
        return rc == 0

    def model_matrix(self, ctx):
        """is_send / is_sync of the Coq model over the regenerated clauses, evaluated by coqc."""
        src = ('From Coq Require Import List Bool. Import ListNotations.\n'
               'Require Import MRB.Model.SendSync MRB.gen.SendClauses.\n'
               'Definition row (t : wty) := map (fun c => map (fun s => map (fun y => (is_send clauses c s y t, is_sync clauses c s y t)) bools) bools) bools.\n'
               'Eval vm_compute in map row all_wty.\n')
        p = os.path.join(ctx.work, 'matrix.v')
        open(p, 'w').write(src)
        with common.Lock('coq'):
            rc, out = ctx._make(['gen/SendClauses.vo', 'Model/SendSync.vo'])
            if rc != 0: return None, out
            rc, out = common.sh(['coqc', '-Q', common.COQ, 'MRB', p], cwd=ctx.work)
        if rc != 0: return None, out
        vals = re.findall(r'\((true|false),\s*(true|false)\)', out)
        names = [f'{w} {i}' for i in ('Prod', 'Work', 'Cons') for w in ('Plain', 'Async', 'Det', 'ADet')]
        if len(vals) != len(names) * 8: return None, 'unexpected matrix output:\n' + out
        m = {}
        k = 0
        for n in names:
            for c in (1, 0):
                for s in (1, 0):
                    for y in (1, 0):
                        m[(n, c, s, y)] = (int(vals[k][0] == 'true'), int(vals[k][1] == 'true')); k += 1
        return m, out

    def run(self, ctx):
        self.gen(ctx)
        bindir, log = ctx.build_harness(('sendprobe',))
        if bindir is None:
            ctx.violation('the probe crate does not build against the current /repo tree', '## cargo build failed\n' + log[-4000:], no_input=True)
            return ctx.finish('proof', {'explanation': 'build failed'})
        ok, log = ctx.check_proofs(['Props/C16.v'])
        rc, out = common.sh([os.path.join(bindir, 'sendprobe')])
        rows = []
        for l in out.split('\n'):
            m = re.match(r'(\w+) (\w+) conc=(\d) item_send=(\d) item_sync=(\d) => send=(\d) sync=(\d)\s+# (.*)', l)
            if m: rows.append((m.group(1), m.group(2), int(m.group(3)), int(m.group(4)), int(m.group(5)), int(m.group(6)), int(m.group(7)), m.group(8)))
        bad = [r for r in rows if (r[5] == 1 and (r[2] == 0 or r[3] == 0)) or r[6] == 1 or (r[0] == 'Ref' and r[5] == 1)]
        mm, mout = self.model_matrix(ctx)
        mismatch = []
        if mm is not None:
            for r in rows:
                if r[0] in ('Ref', 'Foreign', 'Fut', 'MutRef', 'Carrier'): continue
                exp = mm[(f'{r[0]} {r[1]}', r[2], r[3], r[4])]
                if exp != (r[5], r[6]): mismatch.append((r, exp))
        if bad:
            r = bad[0]
            what = 'is Sync' if r[6] == 1 else ('can be shared by reference across threads' if r[0] == 'Ref' else 'is Send')
            if r[0] == 'Fut' and r[6] != 1: what = 'is Send (the future of an async operation, which borrows its iterator mutably: polling it on another thread moves the iterator\'s use there)'
            prog = (f'// {r[7]} {what} although ' + ('it belongs to a local buffer' if r[2] == 0 else 'its item type is not Send') + '\n'
                    'use mutringbuf::*; use mutringbuf::iterators::*;\n'
                    f'fn assert_send<T: Send>() {{}}\nfn main() {{ assert_send::<{r[7]}>(); /* compiles: the value can be moved into std::thread::spawn */ }}\n')
            ctx.violation(f'`{r[7]}` {what} (rustc), conc={r[2]} item_send={r[3]} item_sync={r[4]}',
                          f'## probe row: {r}\n## {len(bad)} offending rows in total; run: ./check C16 --replay <this file>\n' + prog)
        elif mismatch:
            r, exp = mismatch[0]
            ctx.violation(f'the clause model disagrees with rustc on `{r[7]}`: model send/sync = {exp}, rustc = {(r[5], r[6])}',
                          f'## correspondence S-send (Coq clause model over gen/SendClauses.v vs rustc) no longer checks\n## row: {r}\n', no_input=True)
        elif mm is None:
            ctx.violation('the model matrix could not be evaluated', '## coqc output\n' + mout[-3000:], no_input=True)
        elif not ok:
            ctx.violation('the closing lemma C16_source_closed over the regenerated impl headers no longer checks',
                          '## theorem C16_source_closed / C16_send (Props/C16.v) no longer checks; the rustc matrix shows no offending type\n' + log[-3000:] +
                          '\n## gen/SendClauses.v:\n' + open(os.path.join(common.COQ, 'gen', 'SendClauses.v')).read(), no_input=True)
        sendable = len([r for r in rows if r[5] == 1])
        cov = {'evaluations': len(rows), 'distinct_nontrivial': len(set((r[0], r[1], r[2], r[3], r[4]) for r in rows)),
               'rule': 'one evaluation = one concrete type (wrapper x iterator x buffer variant x item type) whose Send / Sync is decided by rustc and compared with the Coq clause model; '
                       'distinct = distinct (wrapper, iterator, concurrent?, item Send?, item Sync?) classes', 'exhaustive': True,
               'samples': [list(r) for r in rows[:3]] + [list(r) for r in rows if r[5] == 1][:2],
               'sendable_types': sendable, 'offending_types': len(bad), 'model_mismatches': len(mismatch),
               'explanation': 'Theorems: C16_check_sound, C16_bounds_suffice (for every set of impl headers), C16_source_closed / C16_send over the headers regenerated from the source; '
                              'tie: extractor (fail-closed) + rustc evaluation of Send/Sync constants on the matrix.'}
        return ctx.finish('proof', cov)

    def replay(self, ctx, path):
        bindir, log = ctx.build_harness(('sendprobe',))
        rc, out = common.sh([os.path.join(bindir, 'sendprobe')])
        txt = open(path).read()
        m = re.search(r"## probe row: \('(\w+)', '(\w+)', (\d), (\d), (\d), (\d), (\d), '(.*)'\)", txt)
        n = 0
        for l in out.split('\n'):
            if m and m.group(8) in l: print(l); n += 1
        return 0 if n else 1

CHECKS['C16'] = SendCheck()


class LedgerCheck(SeqCheck):
    """C08 / C09: owned-item histories (three item layouts: 4, 16 and 24 bytes), ledger events compared per step and the
    set of live objects compared at the end of every history."""
    with_async = True      # the async wrappers push / pop owned items through the same core: part of the footprint
    nodebug_gen = 'rando'  # the pass without debug assertions runs owned-item histories
    def suites(self, ctx):
        s = ctx.seed
        if ctx.tier == 'quick':
            return [('own', ['rando', s, 1500, 20, 120]), ('lifeo', ['lifeo', s, 1200]), ('rand', ['rand', s + 1, 500, 20, 100])]
        return [('own', ['rando', s, 30000, 20, 200]), ('lifeo', ['lifeo', s, 30000]), ('rand', ['rand', s + 1, 8000, 20, 150])]

LEDGER_TEXT = ('Theorems (Coq): conservation of owned values for every operation of every contract-respecting history (conservation, history_conservation, '
               'released_balance), *_init stores never drop an empty cell nor lose an occupied one, release skips empty cells and drops each occupied one once, '
               'the state after a push does not depend on the store mode. Tie: owned-item histories with a recording Drop/Clone item in three layouts, ledger events compared '
               'per step, live objects compared at the end of each history; refinement Model ~ Spec as for C01. D-tie: the ledger events of every store / take / duplicate / '
               'clone in the data-touching functions translated from the source on every run equal the Model\'s (Props/DTie.v; the check_zeroed branches of the *_init '
               'closures are proved equal to the single mode SInit).')
def run_cellprobe(ctx, stats):
    """the public API of UnsafeSyncCell (the primitives the translated functions are built from) on single cells, item types of 1..24 bytes
    with and without drop glue: empties are never read / cloned / dropped, occupied cells dropped once, take_inner leaves an empty cell,
    check_zeroed = all bytes zero, clone / clone_from in the four empty / occupied combinations"""
    bindir, log = ctx.build_harness(('cellprobe',))
    if bindir is None:
        ctx.violation('cellprobe does not build against the current /repo tree', log[-3000:], no_input=True); return
    rc, out = common.sh([os.path.join(bindir, 'cellprobe')], timeout=300)
    m = re.search(r'ok cases=(\d+)', out)
    if m:
        ctx.notes['cell_probe'] = {'cases': int(m.group(1)), 'item_sizes': [1, 2, 3, 4, 8, 12, 16, 24]}; stats.steps += int(m.group(1)); return
    mm = re.search(r'MISMATCH (.*)', out)
    cases = re.findall(r'^CASE (.*)$', out, re.M)
    if mm: what = mm.group(1)
    elif cases:
        # the process aborted (a non-unwinding panic, a signal) inside the cell API for this item type: that is the failing input
        tail = [l for l in out.strip().split('\n') if l and not l.startswith('CASE ')]
        pm = re.search(r"panicked at [^\n]*\n([^\n]*)", out)
        what = cases[-1] + ': the process ABORTED inside the cell API (rc ' + str(rc) + '): ' + (pm.group(0).replace('\n', ' ') if pm else ' '.join(tail[-3:]))[:300]
    else: what = 'probe failed: ' + out[-600:]
    ctx.violation('UnsafeSyncCell, item type ' + what[:500], f'## replay: .build/cargo/debug/cellprobe\n## case: {what}\n', no_input=(mm is None and not cases))

def c09_zst(ctx, seqrun, stats, divs):
    run_cellprobe(ctx, stats)
    """zero-sized item types (outside the Model, which keeps a value per cell): exact drop ledger on rule-following histories"""
    bindir, log = ctx.build_harness(('zstprobe',))
    if bindir is None:
        ctx.violation('zstprobe does not build against the current /repo tree', log[-3000:], no_input=True); return
    n = 2000 if ctx.tier == 'quick' else 100000
    rc, out = common.sh([os.path.join(bindir, 'zstprobe'), str(ctx.seed), str(n)], timeout=1800)
    m = re.search(r'ok histories=(\d+) steps=(\d+)', out)
    if m:
        ctx.notes['zst_probe'] = {'histories': int(m.group(1)), 'steps': int(m.group(2))}
        stats.histories += int(m.group(1)); stats.steps += int(m.group(2)); return
    mm = re.search(r'MISMATCH (.*)', out)
    what = mm.group(1) if mm else 'zstprobe failed: ' + out[-800:]
    ctx.violation('zero-sized item type with a destructor (new_zeroed + *_init stores + pop_move): ' + what.split(' : ')[-1][:300],
                  f'## replay: .build/cargo/debug/zstprobe {ctx.seed} {n}\n## history: {what}\n', no_input=(mm is None))

def c08_extra(ctx, seqrun, stats, divs):
    # cell primitives, zero-sized items with a destructor, and the release of a stack buffer boxed by a by-value async split (every item once)
    c09_zst(ctx, seqrun, stats, divs)
    if not ctx.violations: c18_splitprobe(ctx, seqrun, stats, divs)
CHECKS['C08'] = LedgerCheck('C08', is_ledger, LEDGER_TEXT + ' The cell primitives themselves: C-tie (unsafe_sync_cell.rs translated on every run and proved for every byte representation without all-zero live values, Props/CTie.v) and cellprobe (public API of UnsafeSyncCell on single cells, item sizes 1..24 bytes); zero-sized items (zstprobe); boxed stack buffers (splitprobe).', extra=c08_extra)
CHECKS['C09'] = LedgerCheck('C09', is_ledger, LEDGER_TEXT + ' Zero-sized item types (no bytes: outside the Model): exact drop ledger on rule-following histories (zstprobe). The cell primitives themselves: C-tie (Props/CTie.v) and cellprobe.', extra=c09_zst)
for pid in ('C08', 'C09'):
    # D-tie: the ledger events of every store / take / clone in the translated source = the Model's; C-tie: the cell primitives they are built from
    CHECKS[pid].propfiles = [f'Props/{pid}.v', 'Props/DTie.v', 'Props/CTie.v']


# ------------------------------------------------------------------------------------------- async: C14, C15
def field(line, name):
    for part in line.split(' | '):
        if part.startswith(name + '='): return part[len(name) + 1:].split(' ##')[0]
    return None

def is_c14(d):
    return d.res(d.expected) != d.res(d.actual) or any(field(d.expected, f) != field(d.actual, f) for f in ('ix', 'pub', 'ev', 'alive', 'freed')) \
        or d.expected.startswith('live=')
def is_c15(d):
    return field(d.expected, 'wk') != field(d.actual, 'wk')

class AsyncCheck(SeqCheck):
    def __init__(self, prop, pred, text, wake_oracle=False):
        super().__init__(prop, pred, text)
        self.wake_oracle = wake_oracle
    def suites(self, ctx):
        if ctx.tier == 'quick': return [('arand', ['arand', ctx.seed, 1500, 20, 100])]
        return [('arand', ['arand', ctx.seed, 40000, 20, 160])]
    def prepare(self, ctx):
        bindir, log = ctx.build_harness(('asyncrun',))
        if bindir is None:
            ctx.violation('the harness does not build against the current /repo tree (tie broken)', '## cargo build failed\n' + log[-4000:], no_input=True)
            return None
        ok, log = ctx.build_model()
        if not ok:
            ctx.violation('the Coq model / extraction no longer builds', '## build log\n' + log[-4000:], no_input=True)
            return None
        return os.path.join(bindir, 'asyncrun')
    def run(self, ctx):
        runner = self.prepare(ctx)
        if runner is None: return ctx.finish('proof', {'explanation': 'build failed'})
        # C15(b) also needs the structural fact that nothing calls wake (regenerated from the source)
        ok, log = ctx.check_proofs(self.propfiles)
        satlog = []
        stats, divs = seqsuite.run(ctx, runner, self.suites(ctx), mode='async', satlog=satlog)
        if not seqsuite.HUNG:
            # second pass without debug assertions / overflow checks (profile `nodebug`), see SeqCheck.run
            bindir2, log2 = ctx.build_harness(('asyncrun',), profile='nodebug')
            if bindir2 is None:
                ctx.violation('the async harness does not build against the current /repo tree without debug assertions (tie broken)', '## cargo build --profile nodebug failed\n' + log2[-4000:], no_input=True)
            else:
                st2, dv2 = seqsuite.run(ctx, os.path.join(bindir2, 'asyncrun'), [('arand-nodebug', ['arand', ctx.seed + 7, 300 if ctx.tier == 'quick' else 6000, 20, 100])], mode='async')
                divs += dv2; stats.steps += st2.steps; stats.histories += st2.histories; stats.distinct |= st2.distinct
                ctx.notes['nodebug_pass'] = {'histories': st2.histories, 'steps': st2.steps, 'profile': 'dev + debug-assertions=false + overflow-checks=false'}
        extra = {}
        if self.wake_oracle: extra = self.wake_check(ctx, satlog)
        if ctx.prop in ('C14', 'C15') and not seqsuite.HUNG:
            # futures of iterators created by EVERY async split, the by-value splits of a stack buffer that was used before included
            # (fresh async iterators against the indices of the previous session would resolve with items nobody produced)
            c18_splitprobe(ctx, runner, stats, divs)
            c18_noalloc(ctx, runner, stats, divs)        # the twins of the async splits compiled without `alloc`
        self.decide(ctx, divs, not ok, log)
        cov = {'evaluations': stats.steps, 'distinct_nontrivial': len(stats.distinct),
               'rule': 'one evaluation = one step of an async history (future created and polled once, kept future polled again / dropped, direct method, task switch) executed on the '
                       'extracted Coq model (poll = two synchronous attempts with waker registration in between) and on the real async wrappers with per-(task, stage) counting wakers, '
                       'compared line by line incl. the registered waker and the number of wake calls; distinct = distinct (observable state before, operation) pairs',
               'samples': stats.samples, 'input_distribution': stats.summary(), 'traces_validated_against_impl': stats.histories,
               'divergences': len(divs), 'exhaustive': False, 'explanation': self.text}
        cov.update(extra)
        return ctx.finish('proof', cov)
    def wake_check(self, ctx, satlog):
        """(b): whenever a kept future becomes satisfiable through another stage's operation, its task must have been woken."""
        names = 'PWC'
        prev = {}
        inst = {}
        pending_polls = 0
        for header, cfg, ops, idx, sat, impl in satlog:
            key = (header, cfg)
            p = prev.get(key, ('---', 0)) if idx >= 0 else ('---', 0)
            w = int(field(impl, 'wakes') or 0) if not impl.startswith('<missing') else 0
            if impl.startswith('pending'): pending_polls += 1
            for k in range(3):
                if sat[k] == '1' and p[0][k] == '0' and idx >= 0:
                    pa, ia = inj_parts(ops[idx])
                    actor = acting_stage(pa) or '?'
                    if ia is not None:
                        # a poll with an injected step of another stage: the stage that feeds k is the one that made it possible
                        feeder = {'P': 'C', 'W': 'P', 'C': ('W' if 'stages=3' in cfg else 'P')}[names[k]]
                        both = [actor, acting_stage(ia) or '?']
                        actor = feeder if feeder in both else both[1]
                    if w <= p[1]:
                        inst.setdefault(f'no-wake/{names[k]}<-{actor}', []).append((header, cfg, ops[:idx + 1]))
            prev[key] = (sat, w)
        for key, lst in sorted(inst.items()):
            if not ctx.known_finding(key, ''):
                h, cfg, ops = min(lst, key=lambda x: len(x[2]))
                ctx.violation(f'a task whose awaited operation became possible was not woken ({key})', '\n'.join([h, cfg] + ops) + f'\n## {key}: the kept future is satisfiable after the last step but no wake call was made\n')
        return {'wake_instances': {k: len(v) for k, v in inst.items()}, 'pending_polls_observed': pending_polls}

ASYNC_TEXT = ('Theorems (Coq): MRBFuture::poll modelled as two synchronous attempts with waker registration in between; poll_ready / poll_pending: the poll resolves with exactly the synchronous '
              'result, otherwise Pending with no ledger event, the Spec state untouched and the polling task registered; a poll during whose waker registration another stage acts (poll_inj) is '
              'the source shape with the step at its registration event, refines the Spec and sees what that step made possible (no lost wake-up); tie: async histories on the real wrappers, '
              '30 % of the polls with a step of another stage performed inside the polling task\'s Waker::clone.')
CHECKS['C14'] = AsyncCheck('C14', is_c14, ASYNC_TEXT)
CHECKS['C15'] = AsyncCheck('C15', is_c15, ASYNC_TEXT + ' (b) "is woken" is refuted (C15_refuted, C15_never_woken): known finding F8.', wake_oracle=True)


# ------------------------------------------------------------------------------------------- concurrency: C02 C03 C07 C10
def at_events(line):
    a = field(line, 'at')
    return [x for x in (a or '').split(',') if x]
def is_c03(d):
    e, a = at_events(d.expected), at_events(d.actual)
    strip = lambda ev: [re.sub(r':(rlx|acq|rel|acqrel|seqcst)', '', x) for x in ev]
    if e != a and (strip(e) == strip(a) or any('@early' in x for x in a)): return True     # an ordering changed, or data published early
    # an iterator at another position than the Spec's: its window overlaps another iterator's
    return d.kind == 'spec' and (d.field(d.expected, 'ix') != d.field(d.actual, 'ix') or d.field(d.expected, 'pub') != d.field(d.actual, 'pub'))
def is_c02(d):
    return any('@early' in x for x in at_events(d.actual)) or (d.res(d.expected) != d.res(d.actual) and 'kind=conc' in (d.cfg or '') + 'kind=async')
def is_c07(d):
    if d.field(d.expected, 'alive') != d.field(d.actual, 'alive') or d.field(d.expected, 'freed') != d.field(d.actual, 'freed'): return True
    return opname(d.op()) in ('drop', 'dropbuf', 'resplit') or d.expected.startswith('live=') or any(x.startswith(('and:', 'or:', 'fence', 'free')) for x in at_events(d.expected) + at_events(d.actual))
def is_c10(d):
    return len(at_events(d.expected)) != len(at_events(d.actual)) or at_events(d.expected) != at_events(d.actual)

WITNESS = {
 # (what is weak) -> Coq term that evaluates to true when the weakened machine has a racy / unsafe execution
 'idx_load': ('race (gexec false true 2 (ginit 2) [(true, 0); (true, 0); (true, 0); (false, 1); (false, 0)])',
              'two-stage machine, len 2: P: check, write slot 0, publish;  C: loads the published index WITHOUT acquiring, reads slot 0  => the read races with the write'),
 'idx_store': ('race (gexec true false 2 (ginit 2) [(true, 0); (true, 0); (true, 0); (false, 1); (false, 0)])',
               'two-stage machine, len 2: P: check, write slot 0, publishes WITHOUT release;  C: acquires the index, reads slot 0  => the read races with the write'),
 'alive_rmw': ('uaf (dexec false false (mkB3 true false true) [TP; TC; TP; TC; TC])',
               'drop protocol, two iterators: both make their last access, both clear their bit with a relaxed RMW, the last one frees without having synchronised with the other\'s last access'),
}

def run_script_suite(self, ctx, stats, machines=('2n', '3n', 'x', '3x')):
    """S-script: executions of the proved release/acquire machine (RAn, extracted) - interleavings and STALE reads chosen by the
    machine - replayed on the real crate with two OS threads under a scripted scheduler (harness/src/bin/concrun.rs)"""
    self.script_bad = []
    bindir, log = ctx.build_harness(('concrun', 'concrun2', 'concrun3x'))
    if bindir is None:
        self.script_bad.append(('concrun does not build against the current /repo tree', log[-3000:], None)); return
    with common.Lock('coq'):
        rc, out = ctx._make(['Conc/RA3n.vo', 'Conc/RAx.vo', 'Conc/RA3x.vo'])
        if rc != 0:
            self.script_bad.append(('the machines RA3n / RAx no longer compile', out[-3000:], None)); return
        def stale(target, srcs):
            return not os.path.exists(target) or os.path.getmtime(target) < max(os.path.getmtime(x) for x in srcs)
        O = common.OCAML
        if stale(os.path.join(O, 'cmodel.ml'), [os.path.join(common.COQ, x) for x in ('Conc/RA3n.vo', 'Conc/RAx.vo', 'Extract/ExtractConc.v')]):
            rc, out = common.sh(['coqc', '-Q', common.COQ, 'MRB', os.path.join(common.COQ, 'Extract/ExtractConc.v')], cwd=O)
            if rc != 0:
                self.script_bad.append(('extraction of RA3n / RAx fails', out[-3000:], None)); return
        for exe, model, drv in (('concmodel', 'model', 'concdriver'), ('concmodel2', 'cmodel', 'concdriver2')):
            if stale(os.path.join(O, exe), [os.path.join(O, x) for x in (model + '.ml', model + '.mli', drv + '.ml')]):
                rc, out = common.sh(f'ocamlfind ocamlopt -O2 -w -a {model}.mli {model}.ml {drv}.ml -o {exe}', cwd=O)
                if rc != 0:
                    self.script_bad.append((exe + ' does not build', out[-3000:], None)); return
    n = 300 if ctx.tier == 'quick' else 20000
    shards = 4 if ctx.tier == 'quick' else 16
    total = ok = events = 0
    kinds = collections.Counter()
    jobs = []
    for k in range(shards):
        sd = str(int(ctx.seed) * 100 + k)
        jobs.append(('2n', 'concmodel', ['gen', sd, str(n // shards), '9'], 'concrun', k))
        jobs.append(('3n', 'concmodel2', ['gen3', sd, str(n // shards), '7'], 'concrun2', k))
        jobs.append(('x', 'concmodel2', ['genx', sd, str(n // shards), '7'], 'concrun2', k))
        jobs.append(('3x', 'concmodel3x', ['gen', sd, str(n // shards), '7'], 'concrun3x', k))
    for kind, gen, gargs, runner, k in jobs:
        if kind not in machines: continue
        path = os.path.join(ctx.work, f'script-{kind}-{k}.cases')
        rc, out = common.sh([os.path.join(common.OCAML, gen)] + gargs)
        out = '\n'.join(l for l in out.split('\n') if l.startswith(('case ', 'op ', 'ev ', 'res ', 'cmd ', 'jump ', 'final ', 'end')) or l == '') 
        open(path, 'w').write(out)
        rc, res = common.sh([os.path.join(bindir, runner), path], timeout=1800)
        cases = out.split('end\n')
        for line in res.splitlines():
            m = re.match(r'case (\d+) (ok|MISMATCH)(.*)', line)
            if not m: continue
            total += 1; kinds[kind] += 1
            if m.group(2) == 'ok':
                ok += 1
                e = re.search(r'events=(\d+)', line); events += int(e.group(1)) if e else 0
            else:
                cid = int(m.group(1))
                text = next((c for c in cases if c.lstrip().startswith(f'case {cid} ')), '')
                what = f'[{kind}] ' + m.group(3).strip()
                if 'timeout' in what:
                    # a wait that ran into the 3 s limit may be scheduling noise on a loaded machine: the case counts only if it
                    # fails again when replayed alone
                    one = os.path.join(ctx.work, f'script-{kind}-{k}-retry{cid}.cases'); open(one, 'w').write(text + 'end\n')
                    again = [common.sh([os.path.join(bindir, runner), one], timeout=600)[1] for _ in range(2)]
                    if not all('MISMATCH' in a for a in again):
                        ok += 1; ctx.notes.setdefault('script_timeouts_not_reproduced', []).append(cid); continue
                self.script_bad.append((what, text + 'end\n', path))
        if rc not in (0, 1) and not self.script_bad:
            self.script_bad.append((f'{runner} exited with code {rc}', res[-2000:], path))
    ctx.notes['script_suite'] = {'cases': total, 'ok': ok, 'atomic_events': events, 'per_machine': dict(kinds),
                                 'generator': 'concmodel gen (extracted RAn.step_a), concmodel2 gen3 / genx (extracted RA3n.step3_a, RAx.step_a), concmodel3x gen (extracted RA3x.step3_a); stale reads via pick'}
    stats.histories += total; stats.steps += events

def run_drop_suite(self, ctx, stats):
    """S-drop: EVERY schedule of the proved drop machine (Conc/Drop.v, extracted) replayed on the real crate with one OS thread per
    iterator (harness/src/bin/droprun.rs): 2 and 3 iterators x plain / detached / async / async-detached wrappers; quick: machine-step
    granularity (6 + 90 schedules) plus a random sample at hook-point granularity (fences scheduled separately); thorough: all 52290."""
    self.script_bad = []
    bindir, log = ctx.build_harness(('droprun',))
    if bindir is None:
        self.script_bad.append(('droprun does not build against the current /repo tree', log[-3000:], None)); return
    O = common.OCAML
    with common.Lock('coq'):
        rc, out = ctx._make(['Conc/Drop.vo'])
        if rc != 0:
            self.script_bad.append(('Conc/Drop.v no longer compiles', out[-3000:], None)); return
        def stale(target, srcs):
            return not os.path.exists(target) or os.path.getmtime(target) < max(os.path.getmtime(x) for x in srcs)
        if stale(os.path.join(O, 'dmodel.ml'), [os.path.join(common.COQ, 'Conc/Drop.vo'), os.path.join(common.COQ, 'Extract/ExtractDrop.v')]):
            rc, out = common.sh(['coqc', '-Q', common.COQ, 'MRB', os.path.join(common.COQ, 'Extract/ExtractDrop.v')], cwd=O)
            if rc != 0:
                self.script_bad.append(('extraction of the drop machine fails', out[-3000:], None)); return
        if stale(os.path.join(O, 'dropmodel'), [os.path.join(O, x) for x in ('dmodel.ml', 'dmodel.mli', 'dropdriver.ml')]):
            rc, out = common.sh('ocamlfind ocamlopt -O2 -w -a dmodel.mli dmodel.ml dropdriver.ml -o dropmodel', cwd=O)
            if rc != 0:
                self.script_bad.append(('dropmodel does not build', out[-3000:], None)); return
    jobs = [('all2', ['all', '2']), ('all3', ['all', '3']), ('fine2', ['all', '2', 'fine'])]
    if ctx.tier == 'quick': jobs.append(('fine3-sample', ['rand', str(ctx.seed), '1500', '3', 'fine']))
    else: jobs.append(('fine3', ['all', '3', 'fine']))
    total = ok = events = 0
    per = {}
    for name, gargs in jobs:
        path = os.path.join(ctx.work, f'drop-{name}.cases')
        with open(path, 'w') as f:
            subprocess.run([os.path.join(O, 'dropmodel')] + gargs, stdout=f, stderr=subprocess.DEVNULL)
        rc, res = common.sh([os.path.join(bindir, 'droprun'), path], timeout=3000)
        n0 = total
        bad_ids = []
        for line in res.splitlines():
            m = re.match(r'case (\d+) (ok|MISMATCH)(.*)', line)
            if not m: continue
            total += 1
            if m.group(2) == 'ok':
                ok += 1; e = re.search(r'events=(\d+)', line); events += int(e.group(1)) if e else 0
            elif len(bad_ids) < 20: bad_ids.append((int(m.group(1)), m.group(3).strip()))
        per[name] = total - n0
        if bad_ids:
            want = {c for c, _ in bad_ids}; texts = {}; cur = None
            for l in open(path):
                if l.startswith('case '): cur = int(l.split()[1]) if int(l.split()[1]) in want else None
                if cur is not None: texts[cur] = texts.get(cur, '') + l
            for cid, what in bad_ids:
                if 'timeout' in what or 'never released' in what:
                    # both diagnoses are wall-clock limits (3 s / 12 s) and may be scheduling noise on a loaded machine: the case
                    # counts only if it fails again when replayed alone
                    one = os.path.join(ctx.work, f'drop-{name}-retry{cid}.cases'); open(one, 'w').write(texts.get(cid, ''))
                    again = [common.sh([os.path.join(bindir, 'droprun'), one], timeout=600)[1] for _ in range(2)]
                    if not all('MISMATCH' in a for a in again):
                        ok += 1; ctx.notes.setdefault('drop_timeouts_not_reproduced', []).append(cid); continue
                self.script_bad.append((f'[{name}] ' + what, texts.get(cid, ''), path))
        if rc not in (0, 1) and not self.script_bad:
            self.script_bad.append((f'droprun exited with code {rc}', res[-2000:], path))
    ctx.notes['drop_suite'] = {'schedules_replayed': total, 'ok': ok, 'hook_events': events, 'per_set': per,
                               'generator': 'dropmodel (extracted Drop.dstep): all schedules at machine-step granularity; hook-point granularity: 2 iterators all, 3 iterators '
                                            + ('random sample' if ctx.tier == 'quick' else 'all 52290 x 4 variants')}
    stats.histories += total; stats.steps += events

class ConcCheck(SeqCheck):
    def __init__(self, prop, pred, text):
        super().__init__(prop, pred, text)
        self.with_async = True
        self.extra = self.script_suite
        self.script_bad = []
    def script_suite(self, ctx, seqrun, stats, divs):
        if ctx.prop == 'C07':
            # a stack buffer boxed by a by-value async split is released like a heap buffer: once, after its last iterator (splitprobe)
            bindir, log = ctx.build_harness(('splitprobe',))
            if bindir is None: ctx.violation('splitprobe does not build against the current /repo tree (tie broken)', '## cargo build failed\n' + log[-4000:], no_input=True)
            if bindir is not None:
                rc, out = common.sh([os.path.join(bindir, 'splitprobe'), str(ctx.seed), '50'], timeout=600)
                mm = re.search(r'MISMATCH (.*)', out)
                if mm and re.search(r'freed|released|never destroyed', mm.group(1)):
                    ctx.violation('boxed stack buffer: ' + mm.group(1)[:400], f'## replay: .build/cargo/debug/splitprobe {ctx.seed} 50\n## {mm.group(1)}\n')
                elif not mm: ctx.notes['boxed_stack_release'] = '24 drop orders of by-value async splits of a stack buffer of Rc items: one BufFree after the last iterator, every item destroyed once'
            # the Local variant decides "last iterator out" on PLAIN flags: none of its iterators (detached ones included) may reach a
            # second thread, by value or by reference (rustc decides, as in C16 / C03)
            self.send_bad = []
            sbin, slog = ctx.build_harness(('sendprobe',))
            if sbin is None: ctx.violation('sendprobe does not build against the current /repo tree (tie broken)', '## cargo build failed\n' + slog[-4000:], no_input=True)
            if sbin is not None:
                rc, out = common.sh([os.path.join(sbin, 'sendprobe')])
                for l in out.split('\n'):
                    m = re.match(r'(\w+) (\w+) conc=(\d) item_send=(\d) item_sync=(\d) => send=(\d) sync=(\d)\s+# (.*)', l)
                    if not m: continue
                    conc, send, sync = int(m.group(3)), int(m.group(6)), int(m.group(7))
                    if not conc and (send or sync): self.send_bad.append((m.group(8), conc, send, sync))
                ctx.notes['send_probe_rows_for_C07'] = len(re.findall(r'=> send=', out))
            return run_drop_suite(self, ctx, stats)
        run_script_suite(self, ctx, stats)
        if ctx.prop in ('C10', 'C02', 'C03'): run_waitprobe(ctx, stats)     # a thread that only waits publishes nothing (nothing unreleased becomes visible)
        # C03: an emptiness test that looks beyond its own cell reads slots another stage holds
        if ctx.prop == 'C03': run_cellprobe(ctx, stats)
        self.send_bad = []
        if ctx.prop in ('C02', 'C03'):
            # "safe programs are free of data races": an iterator of a LOCAL buffer (plain cells, no release/acquire) must not be able
            # to reach a second thread, by value or by reference (rustc decides, as in C16)
            bindir, log = ctx.build_harness(('sendprobe',))
            if bindir is None:
                ctx.violation('sendprobe does not build against the current /repo tree (tie broken)', '## cargo build failed\n' + log[-4000:], no_input=True)
                return
            rc, out = common.sh([os.path.join(bindir, 'sendprobe')])
            for l in out.split('\n'):
                m = re.match(r'(\w+) (\w+) conc=(\d) item_send=(\d) item_sync=(\d) => send=(\d) sync=(\d)\s+# (.*)', l)
                if not m: continue
                conc, send, sync = int(m.group(3)), int(m.group(6)), int(m.group(7))
                if (send and not conc) or sync or (m.group(1) == 'Ref' and send): self.send_bad.append((m.group(8), conc, send, sync))
            ctx.notes['send_probe_rows'] = len(re.findall(r'=> send=', out))
    def suites(self, ctx):
        s = ctx.seed
        if ctx.tier == 'quick':
            return [('rand', ['rand', s, 1200, 20, 120]), ('life', ['life', s, 1500]), ('exh', ['bfs', 2, 100000000]), ('exh3', ['bfs', 3, 1500])]
        return [('rand', ['rand', s, 25000, 20, 200]), ('life', ['life', s, 25000]), ('exh', ['bfs', 3, 100000000])]
    def prepare(self, ctx):
        rc, out = common.sh(['python3', os.path.join(common.ROOT, 'tools', 'extract_facts.py')])
        ctx.notes['extract_facts'] = out.strip().split('\n')
        return super().prepare(ctx)
    def observed_profile(self):
        txt = open(os.path.join(common.COQ, 'gen', 'Profile.v')).read()
        m = re.search(r'mkProfile (\w+) (\w+) (\w+) (\w+) (\w+) (\w+)', txt)
        return m.groups() if m else None
    def decide(self, ctx, divs, proof_broken, log):
        prof = self.observed_profile()
        weak = []
        if prof:
            if prof[0] not in ('Acquire', 'AcqRel', 'SeqCst'): weak.append('idx_load')
            if prof[1] not in ('Release', 'AcqRel', 'SeqCst'): weak.append('idx_store')
            if prof[2] not in ('AcqRel', 'SeqCst'): weak.append('alive_rmw')
        # dynamic observation of the same thing: an ordering in the hook log weaker than the model's
        for d in divs:
            for e, a in zip(at_events(d.expected), at_events(d.actual)):
                if e != a and e.split(':')[:2] == a.split(':')[:2]:
                    if e.startswith('ld:') and e.split(':')[1] in 'PWC' and 'idx_load' not in weak and ':rlx:' in a + ':': weak.append('idx_load')
                    if e.startswith('st:') and 'idx_store' not in weak and ':rlx:' in a + ':': weak.append('idx_store')
        relevant = {'C02': ('idx_load', 'idx_store'), 'C03': ('idx_load', 'idx_store', 'alive_rmw'), 'C07': ('alive_rmw',), 'C10': ()}[ctx.prop]
        for w in weak:
            if w in relevant:
                term, story = WITNESS[w]
                src = ('From Coq Require Import List. Import ListNotations.\nRequire Import MRB.Conc.RA MRB.Conc.RAg MRB.Conc.Drop.\n'
                       f'Eval vm_compute in ({term}).\n')
                pth = os.path.join(ctx.work, 'witness.v'); open(pth, 'w').write(src)
                rc, out = common.sh(['coqc', '-Q', common.COQ, 'MRB', pth], cwd=ctx.work)
                if 'true' in out:
                    ctx.violation(f'the memory ordering of the {w.replace("_", " ")} is too weak (source: {prof}): the view machine has an execution with a data race / use after free',
                                  f'## model-level failing execution (evaluated by coqc on this run): {term} = true\n## {story}\n## observed profile (gen/Profile.v): {prof}\n'
                                  + ('## first diverging event trace:\n' + divs[0].replay_text() if divs else ''))
                    return
        if getattr(self, 'send_bad', None) and ctx.prop == 'C07':
            t, conc, send, sync = self.send_bad[0]
            ctx.violation(f'`{t}` is {"Sync" if sync else "Send"} although it belongs to a local buffer: its liveness flags are plain cells, two threads dropping '
                          'such iterators decide "last one out" without synchronisation (double free / leak / use after free)',
                          f'## rustc accepts (probe crate harness/src/bin/sendprobe.rs): {t} send={send} sync={sync} concurrent_buffer={conc}\n'
                          '// use mutringbuf::*; use mutringbuf::iterators::*;\n'
                          f'// fn assert_send<T: Send>() {{}}  fn main() {{ assert_send::<{t}>(); }}   // compiles: the iterator can be dropped on another thread\n'
                          f'## {len(self.send_bad)} such types')
            return
        if getattr(self, 'send_bad', None) and ctx.prop in ('C02', 'C03'):
            t, conc, send, sync = self.send_bad[0]
            how = 'is Sync: a reference to it can be used from a second thread' if sync else 'is Send although it belongs to a local buffer (plain, unsynchronised index cells)'
            ctx.violation(f'`{t}` {how}: safe code can access one buffer from two threads with no happens-before between the accesses',
                          f'## rustc accepts (probe crate harness/src/bin/sendprobe.rs): {t} send={send} sync={sync} concurrent_buffer={conc}\n'
                          '// use mutringbuf::*; use mutringbuf::iterators::*;\n'
                          f'// fn assert_send<T: Send>() {{}}  fn main() {{ assert_send::<{t}>(); }}   // compiles: the iterator can be moved into std::thread::spawn\n'
                          f'## {len(self.send_bad)} such types')
            return
        if self.script_bad and ctx.prop == 'C07':
            what, text, path = min(self.script_bad, key=lambda b: len(b[1]))
            concrete = any(k in what for k in ('DOUBLE FREE', 'USE AFTER FREE', 'LEAK', 'frees=', 'dropped', 'alive'))
            ctx.violation(f'a schedule of the proved drop machine does not replay on the real crate: {what} ({len(self.script_bad)} schedules)',
                          '## S-drop case (replay: .build/cargo/debug/droprun <file with this case>)\n' + text, no_input=not concrete)
            return
        mine = [d for d in divs if self.pred(d)]
        script = None
        if self.script_bad and ctx.prop in ('C02', 'C03', 'C10'):
            what, text, path = min(self.script_bad, key=lambda b: len(b[1]))
            short = {'C02': 'publishes before the data is in place' in what or 'consumed' in what or 'item' in what,
                     'C03': 'publishes before the data is in place' in what,
                     'C10': 'expected' in what}[ctx.prop]
            script = (what, text, short)
        if script and (script[2] or not mine):
            what, text, short = script
            ctx.violation(f'an execution of the proved release/acquire machine (interleaving + stale reads) does not replay on the real crate: {what} '
                          f'({len(self.script_bad)} cases)',
                          '## S-script case (replay: .build/cargo/debug/concrun <file with this case>; kinds [3n] / [x]: concrun2)\n' + text, no_input=not short)
            return
        if mine:
            d = self.minimise(ctx, min(mine, key=lambda d: len(d.prefix())))
            ctx.violation(f'at `{d.op()}` the real crate performs other atomic accesses / publishes at another point than the model the theorems are about: expected `{field(d.expected, "at")}`, got `{field(d.actual, "at")}` (result `{d.res(d.actual)}`)',
                          d.replay_text())
            return
        super().decide(ctx, divs, proof_broken, log)

CONC_TEXT = ('Theorems (Coq): release/acquire view machine (vector-clock race detector, stale reads) for the two- and three-stage pipeline: race freedom and the prefix property for every length, '
             'interleaving and stale read; the drop protocol for every schedule; bounded micro-programs. Closed against the orderings / structure regenerated from the source. '
             'Tie: per-call atomic event traces (kind, location, ordering, value, data-before-publication probe) of the real crate compared with the model on every history; '
             'S-script / S-drop: executions of the extracted proved machines (interleavings, stale reads, window sizes, resets, detached phases, all drop schedules) replayed on the real '
             'crate with OS threads under a scripted scheduler (their cases and atomic events are included in the evaluation counts, see notes.script_suite / notes.drop_suite); '
             'machine tie (Props/KTie.v): the machines\' thread-local arithmetic equals the kernels translated from the source.')
CHECKS['C02'] = ConcCheck('C02', is_c02, CONC_TEXT)
CHECKS['C03'] = ConcCheck('C03', is_c03, CONC_TEXT)
CHECKS['C07'] = ConcCheck('C07', is_c07, CONC_TEXT)
CHECKS['C10'] = ConcCheck('C10', is_c10, CONC_TEXT)
for pid in ('C02', 'C03', 'C10'):
    # machine tie: the thread-local arithmetic of the machines = the kernels translated from the source on every run
    CHECKS[pid].propfiles = [f'Props/{pid}.v', 'Props/KTie.v']
for pid in ('C02', 'C03'):
    # access discipline of the translated data-touching functions: no buffer cell is touched before an availability check has covered
    # it nor after advance has published it away (DT_access_inside_window over every DT_* statement)
    CHECKS[pid].propfiles = [f'Props/{pid}.v', 'Props/KTie.v', 'Props/DTie.v']


# ------------------------------------------------------------------------------------------- C17 (vmem)
class VmemCheck(SeqCheck):
    corpus_dir = 'vmem'
    def suites(self, ctx):
        if ctx.tier == 'quick': return [('vrand', ['vrand', ctx.seed, 16, 20, 50])]
        return [('vrand', ['vrand', ctx.seed, 200, 30, 120])]
    def prepare(self, ctx):
        rc, out = common.sh(['python3', os.path.join(common.ROOT, 'tools', 'extract_facts.py')])
        ctx.notes['extract_facts'] = out.strip().split('\n')
        bindir, log = ctx.build_harness(('seqrun',), features='vmem')
        if bindir is None:
            ctx.violation('the harness does not build against the current /repo tree with --features vmem (tie broken)', '## cargo build failed\n' + log[-4000:], no_input=True)
            return None
        ok, log = ctx.build_model()
        if not ok:
            ctx.violation('the Coq model / extraction no longer builds', '## build log\n' + log[-4000:], no_input=True)
            return None
        return os.path.join(bindir, 'seqrun')

def c17_extra(ctx, seqrun, stats, divs):
    # feature set {vmem, vmem + async}: the async wrappers on the vmem build (futures of slice operations hand out ONE mirrored slice)
    bindir, alog = ctx.build_harness(('asyncrun',), features='vmem')
    if bindir is None:
        ctx.violation('the async harness does not build against the current /repo tree with --features vmem (tie broken)', '## cargo build failed\n' + alog[-4000:], no_input=True)
    else:
        n = 12 if ctx.tier == 'quick' else 150
        astats, d3 = seqsuite.run(ctx, os.path.join(bindir, 'asyncrun'), [('varand', ['varand', ctx.seed, n, 20, 60])], mode='async')
        divs += d3; stats.steps += astats.steps; stats.histories += astats.histories; stats.distinct |= astats.distinct
        ctx.notes['vmem_async_suite'] = astats.summary()
    c17_pagemul(ctx, seqrun, stats, divs)
    # "all other properties hold unchanged": the slot primitives (emptiness test over all bytes of every item size) decide what the release
    # of the mapping destroys
    if not ctx.violations: run_cellprobe(ctx, stats)

def c17_pagemul(ctx, seqrun, stats, divs):
    """requested minimum -> length: `get_page_size_mul(n)` and the length of `default(n)` / `new_zeroed(n)` buffers of the vmem build
    against the Model's `page_mul` evaluated by coqc, at the page boundaries and at seeded random minimums"""
    import random
    rc, out = common.sh([seqrun, '--pagemul', '1'])
    m = re.search(r'page (\d+)', out)
    if not m:
        ctx.violation('the vmem harness does not report the page size', out[-1500:], no_input=True); return
    page = int(m.group(1))
    # ownership of the supplied data: a rejected length destroys the items handed over exactly once; data whose first and last items
    # are all-zero is held completely and destroyed once
    for n, pan, left in re.findall(r'reject (\d+) panicked=(\w+) left=(-?\d+)', out):
        if pan != 'true' or left != '0':
            ctx.violation(f'vmem from(Vec) of {n} owned items (not a whole number of pages): ' +
                          ('the construction is not rejected' if pan != 'true' else f'{left} of the items handed over were never destroyed (or destroyed twice) after the rejected construction'),
                          f'## replay: .build/cargo-vmem/debug/seqrun --pagemul 1   (line `reject {n} ...`)\n## {out[:600]}\n'); return
    sp = re.search(r'sparse n=(\d+) len=(\d+) live=(\d+) refs=(\d+) left=(-?\d+)', out)
    spp = re.search(r'sparseplain want=(\d+) got=(\d+)', out)
    if not sp or not spp or not re.search(r'reject ', out):
        ctx.violation('the vmem harness does not report the ownership probes', out[-1500:], no_input=True); return
    n_, len_, live_, refs_, left_ = [int(x) for x in sp.groups()]
    if len_ != n_ or live_ != n_ - 2 or refs_ != n_ - 2 or left_ != 0:
        ctx.violation(f'vmem from(Vec) of {n_} items whose first and last are the all-zero pattern and the rest live: the buffer shows {live_} live items '
                      f'(expected {n_ - 2}), holds {refs_} of them, and {left_} were not destroyed exactly once after the drop',
                      f'## replay: .build/cargo-vmem/debug/seqrun --pagemul 1   (line `sparse ...`)\n## {sp.group(0)}\n'); return
    if spp.group(1) != spp.group(2):
        ctx.violation(f'vmem from(Vec<u64>) whose first and last items are 0: the buffer does not hold the supplied data (sum {spp.group(2)} instead of {spp.group(1)})',
                      f'## replay: .build/cargo-vmem/debug/seqrun --pagemul 1   (line `sparseplain ...`)\n'); return
    ctx.notes['vmem_ownership_probes'] = 'rejected lengths 1, 3, 7 (items destroyed once); contents with all-zero first / last item held and destroyed once'
    rnd = random.Random(int(ctx.seed))
    ns = sorted(set([1, 2, page - 1, page, page + 1, 2 * page - 1, 2 * page, 2 * page + 1, 3 * page, 3 * page + 1] +
                    [rnd.randrange(1, 3 * page + 2) for _ in range(12 if ctx.tier == 'quick' else 120)]))
    rc, out = common.sh([seqrun, '--pagemul'] + [str(n) for n in ns], timeout=1200)
    got = {int(a): (int(b), int(c), int(d)) for a, b, c, d in re.findall(r'pagemul (\d+) (\d+) (-?\d+) (-?\d+)', out)}
    src = ('From Coq Require Import List NArith. Import ListNotations.\nRequire Import MRB.Model.Vmem.\n'
           f'Eval vm_compute in map (fun n => N.of_nat (page_mul (N.to_nat {page}%N) (N.to_nat n))) [' + '; '.join(f'{n}%N' for n in ns) + '].\n')
    pth = os.path.join(ctx.work, 'pagemul.v'); open(pth, 'w').write(src)
    with common.Lock('coq'):
        ctx._make(['Model/Vmem.vo'])
        rc, mo = common.sh(['coqc', '-Q', common.COQ, 'MRB', pth], cwd=ctx.work)
    exp = [int(x) for x in re.findall(r'(\d+)%N', mo)]
    if rc != 0 or len(exp) != len(ns):
        ctx.violation('the Model page rounding could not be evaluated', mo[-1500:], no_input=True); return
    ctx.notes['pagemul'] = {'page': page, 'minimums': len(ns)}
    stats.steps += len(ns)
    for n, e in zip(ns, exp):
        g = got.get(n)
        if g is None or g != (e, e, e):
            what = (f'a vmem buffer built by default({n}) does not hold T::default() in every one of its {e} slots (the slots beyond the requested minimum are ordinary ring positions)'
                    if g and g[1] == -2 else
                    f'a vmem buffer requested with minimum {n} has length {g[1] if g else None} (get_page_size_mul = {g[0] if g else None}); the least whole number of pages is {e}')
            ctx.violation(what,
                          f'## requested minimum {n}, page size {page}: expected length {e} (Model page_mul, theorem C17_round), got get_page_size_mul={g}\n'
                          f'## replay: .build/cargo-vmem/debug/seqrun --pagemul {n}\n')
            return

CHECKS['C17'] = VmemCheck('C17', lambda d: True,
    'Theorems (Coq): the call sequence of vmem_helper::new regenerated from the source builds two views of one shared object at offset 0 that holds the supplied data (C17_source_closed, C17_mirror), '
    'page rounding is the least multiple (C17_round), a contiguous window resolves to the ring slots (C17_slice), the release drops items once before unmapping both halves. '
    'Tie: the whole sequential correspondence on a --features vmem build (1-3 pages, element sizes 4/8/16/24 bytes, histories positioned at the physical end: single mirrored slices, '
    'initial contents, ledger, /proc/self/maps after release; async histories on the vmem + async build).', extra=c17_extra, propfiles=['Props/C17.v', 'Props/DTieV.v', 'Props/CTie.v'])
