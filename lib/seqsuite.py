"""Sequential correspondence: generate histories with the extracted model, run model / spec / real crate, compare."""
import os, re, subprocess, collections, json
from concurrent.futures import ThreadPoolExecutor
import common

UNSAFE_OPS = {'adv', 'poke', 'pokeinit', 'edit', 'setindex', 'goback'}
CA_RE = re.compile(r' \| ca=[^ |]*| \| at=\S*')

class Div:
    """One divergence: the implementation's line differs from the model's (kind 'tie') or, on a
    contract-respecting prefix, from the Spec's (kind 'spec')."""
    def __init__(self, suite, header, cfg, ops, idx, kind, expected, actual):
        self.suite, self.header, self.cfg, self.ops, self.idx = suite, header, cfg, ops, idx
        self.kind, self.expected, self.actual = kind, expected, actual
        self.rules_ok = True      # False: the history had left the documented initialisation rules (model: zerodrop / zeroread / lost) by this step
    def op(self):
        return self.ops[self.idx] if 0 <= self.idx < len(self.ops) else ('init' if self.idx < 0 else 'live')
    def prefix(self):
        return self.ops[:max(self.idx, -1) + 1]
    def replay_text(self):
        lines = [self.header, self.cfg] + self.prefix()
        lines.append(f'## diverging step {self.idx}: {self.op()}   ({self.kind}: {"model" if self.kind == "tie" else "spec"} vs implementation, suite {self.suite})')
        lines.append('## expected: ' + self.expected)
        lines.append('## actual:   ' + self.actual)
        return '\n'.join(lines) + '\n'
    def field(self, line, name):
        for part in line.split(' | '):
            if part.startswith(name + '='): return part[len(name) + 1:]
        return None
    def res(self, line):
        return line.split(' | ')[0]

def split_histories(path, nshards, outdir, tag):
    """Split a history file at '#' lines into nshards files of similar size."""
    shards = [[] for _ in range(nshards)]
    cur = []
    n = 0
    with open(path) as f:
        for l in f:
            if l.startswith('#') and cur:
                shards[n % nshards].append(cur); n += 1; cur = []
            cur.append(l)
    if cur: shards[n % nshards].append(cur); n += 1
    paths = []
    for i, sh in enumerate(shards):
        if not sh: continue
        p = os.path.join(outdir, f'{tag}.{i}.hist')
        with open(p, 'w') as f:
            for h in sh: f.writelines(h)
        paths.append(p)
    return paths, n

def run_one(args):
    seqrun, shard, mode = args
    outs = {}
    cmds = (('model', [common.MODEL, 'seq', shard]), ('spec', [common.MODEL, 'spec', shard]), ('impl', [seqrun, shard])) if mode == 'seq' else \
           (('model', [common.MODEL, 'aseq', shard]), ('impl', [seqrun, shard]))
    for name, cmd in cmds:
        if name == 'impl':
            outs[name] = run_impl_resilient(cmd[0], shard)
            continue
        p = subprocess.run(cmd, stdout=subprocess.PIPE, stderr=subprocess.PIPE, text=True, errors='replace')
        outs[name] = (p.returncode, p.stdout, p.stderr[-2000:])
    if 'spec' not in outs: outs['spec'] = (0, None, '')
    return shard, outs

MISSING = '<missing: implementation output ends here (crash / abort)>'
IMPL_TIMEOUT = int(os.environ.get('VERIF_IMPL_TIMEOUT', '240'))
SKIPPED = '<skipped: not run - an earlier operation of the implementation did not return>'
HUNG = []          # set once an operation of the real crate did not return: the rest of the check does not start the implementation again

def run_impl_resilient(binary, shard):
    """Runs the implementation on a shard. A history that leaves the contract can put the real crate into a state in
    which a debug precondition check aborts the process: the run is resumed with the next history and the missing lines
    of the aborted one are padded (they count as a divergence only if the history was respecting the contract)."""
    hs = parse_hist(shard)
    out_lines = []
    if HUNG:
        for h2, c2, ops2 in hs:
            out_lines += [h2] + [SKIPPED] * (1 + len(ops2) + 1 + (1 if 'vmem=1' in (c2 or '') else 0))
        return (125, '\n'.join(out_lines) + '\n', 'skipped: an operation of the implementation does not return')
    start = 0
    err = ''
    rc_all = 0
    hangs = 0
    while start < len(hs):
        path = shard if start == 0 else shard + f'.resume{start}'
        if start > 0:
            with open(path, 'w') as f:
                for h, c, ops in hs[start:]:
                    f.write(h + '\n' + (c or '') + '\n' + '\n'.join(ops) + '\n')
        # an operation that never returns (a busy wait that should not be there) must not hang the check: the history in progress
        # counts as aborted, the run resumes with the next one; after three such histories the rest of the shard is given up
        try:
            p = subprocess.run([binary, path], stdout=subprocess.PIPE, stderr=subprocess.PIPE, text=True, errors='replace', timeout=IMPL_TIMEOUT)
            stdout, rcode, stderr = p.stdout, p.returncode, p.stderr
        except subprocess.TimeoutExpired as ex:
            so = ex.stdout or ''
            stdout = so.decode('utf-8', 'replace') if isinstance(so, bytes) else so
            stdout = stdout[:stdout.rfind('\n') + 1]          # drop a partial last line
            rcode, stderr = -9, f'timeout: the implementation did not finish the shard within {IMPL_TIMEOUT} s (an operation that does not return)'
            hangs += 1; HUNG.append(path)
        lines = stdout.split('\n')
        if lines and lines[-1] == '': lines.pop()
        if rcode == 0:
            out_lines += lines; break
        rc_all = rcode; err = stderr[-1500:]
        # how many histories are complete? a complete history has header + init + ops + live lines
        i = 0; k = start
        while k < len(hs):
            need = 1 + 1 + len(hs[k][2]) + 1 + (1 if 'vmem=1' in (hs[k][1] or '') else 0)
            if i + need <= len(lines) and (k + 1 >= len(hs) or (i + need < len(lines) and lines[i + need].startswith('#')) or i + need == len(lines)):
                i += need; k += 1
            else: break
        # history k crashed: keep what it printed, pad the rest
        need = 1 + 1 + len(hs[k][2]) + 1 + (1 if 'vmem=1' in (hs[k][1] or '') else 0) if k < len(hs) else 0
        got = lines[i:]
        out_lines += lines[:i] + got + [MISSING] * max(0, need - len(got))
        start = k + 1
        if hangs >= 1:
            for h2, c2, ops2 in hs[start:]:
                out_lines += [h2] + [SKIPPED] * (1 + len(ops2) + 1 + (1 if 'vmem=1' in (c2 or '') else 0))
            break
    return (rc_all, '\n'.join(out_lines) + '\n', err)

def parse_hist(path):
    """-> list of (header, cfg, ops)"""
    hs = []
    with open(path) as f:
        cur = None
        for l in f:
            l = l.rstrip('\n')
            if not l.strip(): continue
            if l.startswith('#'):
                cur = [l, None, []]; hs.append(cur)
            elif l.startswith('cfg'):
                if cur is None or cur[1] is not None:
                    cur = ['# (no header)', None, []]; hs.append(cur)
                cur[1] = l
            else:
                cur[2].append(l)
    return hs

class Stats:
    def __init__(self):
        self.histories = 0; self.steps = 0; self.ops = collections.Counter(); self.results = collections.Counter()
        self.lens = collections.Counter(); self.variants = collections.Counter(); self.distinct = set()
        self.contract_steps = 0; self.offcontract_steps = 0; self.samples = []; self.seam = 0; self.owned_hist = 0
        self.safe_breaks = {}
    def summary(self):
        refused = self.results['none'] + self.results['err']
        return {
            'histories': self.histories, 'steps': self.steps,
            'op_kinds': dict(self.ops.most_common()), 'result_kinds': dict(self.results.most_common()),
            'buffer_lengths': {str(k): v for k, v in sorted(self.lens.items())}, 'variants': dict(self.variants),
            'refused_share': round(refused / max(1, self.steps), 3),
            'contract_respecting_steps': self.contract_steps, 'off_contract_steps': self.offcontract_steps,
            'slice_grants_crossing_the_physical_end': self.seam, 'owned_item_histories': self.owned_hist,
        }

def compare_shard(suite, shard, outs, stats, divs, maxdiv=200, collect=None, satlog=None):
    hs = parse_hist(shard)
    if outs['model'][0] != 0 or outs['spec'][0] != 0:
        raise RuntimeError('model driver failed: ' + outs['model'][2] + outs['spec'][2])
    ml = outs['model'][1].split('\n'); il = outs['impl'][1].split('\n')
    nospec = outs['spec'][1] is None
    sl = [] if nospec else outs['spec'][1].split('\n')
    mi = ii = si = 0
    def nxt(arr, i):
        if arr is sl and nospec: return '! -', i + 1
        return (arr[i] if i < len(arr) else '<missing: implementation output ends here (crash / abort)>'), i + 1
    for header, cfg, ops in hs:
        stats.histories += 1
        # header lines
        m, mi = nxt(ml, mi); i, ii = nxt(il, ii); s, si = nxt(sl, si)
        len_ = 0
        mm = re.search(r'init=(\S+)', cfg or '')
        if mm: len_ = 0 if mm.group(1) == '-' else len(mm.group(1).split(','))
        stats.lens[len_] += 1
        kv = dict(w.split('=', 1) for w in (cfg or '').split()[1:] if '=' in w)
        stats.variants[f"{kv.get('kind')}/{kv.get('store')}/{kv.get('stages')}"] += 1
        owned = kv.get('item') == 'owned'
        if owned: stats.owned_hist += 1
        if len(stats.samples) < 3: stats.samples.append({'cfg': cfg, 'ops': ops[:12]})
        broken = False
        nspec = 0; nstrong = 0
        was_ok = True; all_ok = True; gone = False
        rules = True
        ndiv0 = len(divs)
        prev = ''
        got = []
        if collect is not None: collect.append((header, cfg, ops, got))
        for idx in range(-1, len(ops)):
            m, mi = nxt(ml, mi); i, ii = nxt(il, ii); s, si = nxt(sl, si)
            sat = None
            if ' ## ' in m:
                m, sat = m.split(' ## ', 1); sat = sat.replace('sat=', '')
            got.append(i)
            if rules and re.search(r'\| ev=[^|]*(zerodrop|zeroread|lost)', m): rules = False
            if sat is not None and satlog is not None: satlog.append((header, cfg, ops, idx, sat, i))
            if idx >= 0:
                stats.steps += 1
                opn = ops[idx].split()[0]
                stats.ops[opn] += 1
                r = m.split(' | ')[0].split(' ')[0]
                stats.results[r] += 1
                if r != 'bad': stats.distinct.add(hash((prev, ops[idx] if opn not in ('push', 'pushinit', 'poke', 'pokeinit') else opn, len_, kv.get('stages'))))
                if r == 'slices':
                    parts = m.split(' | ')[0].split(' ')
                    if len(parts) >= 4 and parts[3] != '[]': stats.seam += 1
                if s.startswith('+'): stats.contract_steps += 1
                else:
                    stats.offcontract_steps += 1
                    if was_ok and opn not in UNSAFE_OPS:
                        # a *safe* method whose contract (on the Spec state) does not hold here
                        w = ops[idx].split()
                        key = f'safe-op/{opn}-{w[1] if len(w) > 1 else ""}'
                        stats.safe_breaks.setdefault(key, []).append((header, cfg, ops[:idx + 1]))
                was_ok = s.startswith('+')
                if not was_ok and not nospec: all_ok = False
            prev = CA_RE.sub('', m.split(' | ev=')[0]).split(' | ', 1)[-1]
            if i.startswith('<skipped'): continue          # never run
            if i.startswith('<missing') and not (s.startswith('+') or nospec):
                continue       # the process aborted after the history had left the contract: nothing to compare
            if i.startswith('<missing') and not gone and idx >= 0 and (was_ok or nospec):
                # the implementation aborted or did not return IN this operation of a history that respects the contract: a departure
                # from the Spec in its own right (the Spec answers)
                gone = True
                if len(divs) < maxdiv * 4 + 400:
                    divs.append(Div(suite, header, cfg, ops, idx, 'spec', s[2:] if s.startswith('+ ') else m, i)); divs[-1].rules_ok = rules
            if m != i and not broken:
                broken = True
                if len(divs) < maxdiv: divs.append(Div(suite, header, cfg, ops, idx, 'tie', m, i)); divs[-1].rules_ok = rules
            if nospec and m != i and not i.startswith('<missing'):
                # async suite: the model line is one synchronous attempt (proved); every departure is a failing input.
                # A departure in more than the atomic trace (result, indices, ledger, waker) is kept even when trace-only ones abound
                strong = re.sub(r' \| at=.*$', '', m) != re.sub(r' \| at=.*$', '', i)
                if strong and nstrong < 6:
                    nstrong += 1
                    if len(divs) < maxdiv * 4 + 400: divs.append(Div(suite, header, cfg, ops, idx, 'spec', m, i)); divs[-1].rules_ok = rules
                elif not strong and nspec < 2:
                    nspec += 1
                    if len(divs) < maxdiv * 4: divs.append(Div(suite, header, cfg, ops, idx, 'spec', m, i)); divs[-1].rules_ok = rules
            # the Spec stays the reference for the whole history (as long as the history respects the contract):
            # keep looking for steps where the implementation departs from it, also after the first divergence
            if s.startswith('+ ') and s[2:] != CA_RE.sub('', i) and nspec < 6 and not i.startswith('<missing'):
                nspec += 1
                if len(divs) < maxdiv * 4: divs.append(Div(suite, header, cfg, ops, idx, 'spec', s[2:], CA_RE.sub('', i))); divs[-1].rules_ok = rules
        # live line: model and impl only
        m, mi = nxt(ml, mi); i, ii = nxt(il, ii)
        got.append(i)
        if i.startswith('<skipped'): pass
        else:
            if not broken and m != i and not (i.startswith('<missing') and not was_ok) and len(divs) < maxdiv:
                divs.append(Div(suite, header, cfg, ops, len(ops), 'tie', m, i)); divs[-1].rules_ok = rules
            if m != i and m.startswith('live=') and i.startswith('live=') and all_ok and len(divs) < maxdiv * 4 + 400:
                # the objects still alive at the end (leaks, double destruction) of a history that stayed within the contract: a departure
                # from the Spec's ledger in its own right - when it is the ONLY line of the history that differs (a value that is
                # never dropped, `C14-22`) and when an earlier line of the history already differed
                divs.append(Div(suite, header, cfg, ops, len(ops), 'spec', m, i)); divs[-1].rules_ok = rules
        if mi < len(ml) and ml[mi].startswith('maps='):
            # vmem: mappings of the buffer's shared object that remain after it was released
            m, mi = nxt(ml, mi); i, ii = nxt(il, ii)
            if m != i and not i.startswith('<skipped') and len(divs) < maxdiv: divs.append(Div(suite, header, cfg, ops, len(ops), 'spec', m, i))

def set_timeout(ctx):
    # a shard of the quick tier takes seconds, one of the thorough tier (large vmem histories) up to a few minutes
    global IMPL_TIMEOUT
    IMPL_TIMEOUT = int(os.environ.get('VERIF_IMPL_TIMEOUT', '240' if ctx.tier == 'quick' else '2400'))

def run(ctx, seqrun, suites, collect=None, mode='seq', satlog=None):
    """suites: list of (name, model-generator-args). Returns (stats, divergences)."""
    set_timeout(ctx)
    stats = Stats(); divs = []
    for name, genargs in suites:
        hist = os.path.join(ctx.work, f'{name}.hist')
        with open(hist, 'w') as f:
            p = subprocess.run([common.MODEL] + [str(a) for a in genargs], stdout=f, stderr=subprocess.PIPE, text=True)
        if p.returncode != 0: raise RuntimeError('generator failed: ' + p.stderr)
        ctx.notes.setdefault('generators', []).append(f'model {" ".join(str(a) for a in genargs)}' + (f' [{p.stderr.strip()}]' if p.stderr.strip() else ''))
        shards, n = split_histories(hist, common.NCPU, ctx.work, name)
        with ThreadPoolExecutor(max_workers=common.NCPU) as ex:
            for shard, outs in ex.map(run_one, [(seqrun, s, mode) for s in shards]):
                compare_shard(name, shard, outs, stats, divs, collect=collect, satlog=satlog)
    return stats, divs

def run_files(ctx, seqrun, name, files, mode='seq'):
    set_timeout(ctx)
    stats = Stats(); divs = []
    for f in files:
        shard, outs = run_one((seqrun, f, mode))
        compare_shard(name, shard, outs, stats, divs)
    return stats, divs
