(** Extraction of the two other release/acquire machines (ExtrOcamlBasic only; nat stays a Coq datatype):
    - RA3n.v : three stages (producer / worker / consumer), multi-slot windows;
    - RAx.v  : two stages, consumer commands Reset / Detach / Attach / Sync.
    Used by ocaml/concdriver2.ml (`concmodel2 gen3|genx`), replayed on the real crate by harness/src/bin/concrun2.rs.
    Kept apart from Extract.v / model.ml:   cd ocaml && coqc -Q ../coq MRB ../coq/Extract/ExtractConc.v *)
Require Import Coq.extraction.Extraction Coq.extraction.ExtrOcamlBasic.
Require Import MRB.Conc.RA MRB.Conc.RA3 MRB.Conc.RA3n MRB.Conc.RAx.
Extraction Language OCaml.
Extraction "cmodel.ml" RA.pick RA.dist RA.pavail RA.wadd
  RA3n.step3_a RA3n.exec3_a RA3n.init3_n
  RAx.step_a RAx.exec_a RAx.init_x RAx.publishedC RAx.publishedP.
