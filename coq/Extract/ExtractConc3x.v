(** Extraction of the three-stage release/acquire machine with worker / consumer commands
    (ExtrOcamlBasic only; nat stays a Coq datatype):
    - RA3x.v : producer / worker / consumer, multi-slot windows, Reset / Detach / Attach / Sync on W and C.
    Used by ocaml/concdriver3x.ml (`concmodel3x gen`), replayed on the real crate by harness/src/bin/concrun3x.rs.
    Kept apart from the other extractions:   cd ocaml && coqc -Q ../coq MRB ../coq/Extract/ExtractConc3x.v *)
Require Import Coq.extraction.Extraction Coq.extraction.ExtrOcamlBasic.
Require Import MRB.Conc.RA MRB.Conc.RA3 MRB.Conc.RA3x.
Extraction Language OCaml.
Extraction "c3xmodel.ml" RA.pick RA.dist RA.pavail RA.wadd
  RA3x.step3_a RA3x.exec3_a RA3x.init3_x RA3x.publishedP3 RA3x.publishedW3 RA3x.publishedC3.
