(** Extraction of the drop-protocol machine (coq/Conc/Drop.v; ExtrOcamlBasic only, nat stays a Coq datatype).
    The section variables [acq rel present] become the first three arguments of [dstep], [dexec], [good], ...
    Used by ocaml/dropdriver.ml (`dropmodel all|rand`): every maximal schedule of the machine is printed as a
    replay case for harness/src/bin/droprun.rs, which performs it on the real crate with one OS thread per
    dropped iterator.
    Kept apart from Extract.v / ExtractConc.v:   cd ocaml && coqc -Q ../coq MRB ../coq/Extract/ExtractDrop.v *)
Require Import Coq.extraction.Extraction Coq.extraction.ExtrOcamlBasic.
Require Import MRB.Conc.Drop.
Extraction Language OCaml.
Extraction "dmodel.ml" Drop.dstep Drop.dexec Drop.dinit Drop.all_done Drop.good Drop.thr_of Drop.get Drop.none
  Drop.dcfg_beq.
