(** Extraction of the executable model (ExtrOcamlBasic only; nat, N, positive stay Coq datatypes). *)
Require Import Coq.extraction.Extraction Coq.extraction.ExtrOcamlBasic.
Require Import MRB.Model.Types MRB.Model.Seq MRB.Spec.Pipe MRB.Model.Async MRB.Model.Trace MRB.Conc.RA MRB.Conc.RAn.
Extraction Language OCaml.
Extraction "model.ml" Seq.init Seq.step Seq.run Seq.fresh Seq.succ_idx Seq.first_clone_id
  Pipe.a_init Pipe.sstep Pipe.ok_op Pipe.srun Pipe.a_avail Pipe.a_ring
  Async.astep Async.a_init_state Async.future_of Async.direct_of Async.arun Async.refused Async.astep_inj Async.poll_inj Async.inj_ok Async.register Async.set_base
  Trace.trace Trace.strong_profile Trace.profile_ok
  RAn.step_a RAn.exec_a RAn.init_n.
