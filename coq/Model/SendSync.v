(** * Auto-trait model for the crate's iterator types (C16).

    Rust: a type constructor with an explicit `unsafe impl Send` is Send exactly when the bounds of
    (one of) its impl(s) hold - the automatic, field-wise derivation is switched off for it; without an
    explicit impl the derivation is field-wise. Every iterator holds a [BufRef] (a [NonNull]), directly or
    through the iterator it wraps, so the field-wise derivation always answers "no".
    Item types are abstracted by the two booleans (is it Send, is it Sync); this is sound because the
    extractor checks that impl headers mention the item type only through `Send` / `Sync` bounds. *)
From Coq Require Import List Bool.
Import ListNotations.

Inductive tycon := TProd | TWork | TCons | TAProd | TAWork | TACons | TDet | TADet | TFut.
Inductive trait := TrSend | TrSync.

Definition tycon_eqb (a b : tycon) : bool :=
  match a, b with
  | TProd, TProd | TWork, TWork | TCons, TCons | TAProd, TAProd | TAWork, TAWork | TACons, TACons
  | TDet, TDet | TADet, TADet | TFut, TFut => true
  | _, _ => false
  end.
Definition trait_eqb (a b : trait) : bool := match a, b with TrSend, TrSend | TrSync, TrSync => true | _, _ => false end.

(** one `unsafe impl<..bounds..> Trait for Type<..>`: which bounds guard it *)
Record clause := mkClause {
  cl_type : tycon;
  cl_trait : trait;
  cl_conc : bool;        (* B: ConcurrentRB *)
  cl_item_send : bool;   (* T: Send *)
  cl_item_sync : bool;   (* T: Sync *)
  cl_inner_send : bool   (* I: Send  (Detached / AsyncDetached) *)
}.

(** the six iterators, and the two wrappers applied to them *)
Inductive ity := IProd | IWork | ICons.
Inductive wty :=
| Plain (i : ity)             (* ProdIter / WorkIter / ConsIter *)
| Async (i : ity)             (* AsyncProdIter / ... *)
| Det (i : ity)               (* Detached<XIter> *)
| ADet (i : ity).             (* AsyncDetached<AsyncXIter, B> *)

Definition plain_con (i : ity) := match i with IProd => TProd | IWork => TWork | ICons => TCons end.
Definition async_con (i : ity) := match i with IProd => TAProd | IWork => TAWork | ICons => TACons end.

Section S.
Variable cls : list clause.
Variables (conc item_send item_sync : bool).

Definition implb (a b : bool) := orb (negb a) b.

(** does some impl of [tr] for constructor [c] apply?  [inner]: is the wrapped iterator Send *)
Definition holds (tr : trait) (c : tycon) (inner : bool) : bool :=
  existsb (fun cl =>
    tycon_eqb (cl_type cl) c && trait_eqb (cl_trait cl) tr &&
    implb (cl_conc cl) conc && implb (cl_item_send cl) item_send && implb (cl_item_sync cl) item_sync &&
    implb (cl_inner_send cl) inner) cls.

Definition is_send (t : wty) : bool :=
  match t with
  | Plain i => holds TrSend (plain_con i) false
  | Async i => holds TrSend (async_con i) false
  | Det i => holds TrSend TDet (holds TrSend (plain_con i) false)
  | ADet i => holds TrSend TADet (holds TrSend (async_con i) false)
  end.

(** Sync: only through an explicit impl (the field-wise derivation fails on NonNull) *)
Definition is_sync (t : wty) : bool :=
  match t with
  | Plain i => holds TrSync (plain_con i) false
  | Async i => holds TrSync (async_con i) false
  | Det i => holds TrSync TDet (holds TrSend (plain_con i) false)
  | ADet i => holds TrSync TADet (holds TrSend (async_con i) false)
  end.
(** the future returned by an async operation ([MRBFuture]) holds [&mut I] (and the operation's parameter): without an explicit impl
    it is Send at most when its iterator is, and never Sync; with an explicit impl the impl's bounds decide *)
Definition has_fut_clause (tr : trait) : bool :=
  existsb (fun cl => tycon_eqb (cl_type cl) TFut && trait_eqb (cl_trait cl) tr) cls.
Definition fut_send (t : wty) : bool :=
  if has_fut_clause TrSend then holds TrSend TFut (is_send t) else is_send t.
Definition fut_sync (t : wty) : bool :=
  if has_fut_clause TrSync then holds TrSync TFut (is_send t) else is_sync t.
End S.

Definition all_wty : list wty :=
  flat_map (fun i => [Plain i; Async i; Det i; ADet i]) [IProd; IWork; ICons].
Definition bools := [true; false].

(** the property, as a decidable statement about a clause list *)
Definition c16_ok (cls : list clause) : bool :=
  forallb (fun t => forallb (fun c => forallb (fun s => forallb (fun y =>
    implb (is_send cls c s y t) (c && s) && negb (is_sync cls c s y t)) bools) bools) bools) all_wty.

Definition c16_fut_ok (cls : list clause) : bool :=
  forallb (fun t => forallb (fun c => forallb (fun s => forallb (fun y =>
    implb (fut_send cls c s y t) (c && s) && negb (fut_sync cls c s y t)) bools) bools) bools) all_wty.
