(** * The split functions of the crate as data (regenerated into gen/SplitFns.v) and their meaning on the Model state.
      A split sets published indices to 0 (or leaves them), sets liveness bits, and creates iterators at local index 0. *)
From Coq Require Import List String Bool Arith.
Import ListNotations.
Require Import MRB.Model.Types MRB.Model.Seq.

Record split_fn := mkSplit {
  sp_name : string;
  sp_borrow : bool;          (* receiver is [&mut self]: the buffer outlives the iterators and can be split again *)
  sp_reset : tri bool;       (* self.set_{prod,work,cons}_index(0) *)
  sp_alive : tri bool;       (* self.set_{prod,work,cons}_alive(true) *)
  sp_iters : tri bool;       (* ProdIter::new / WorkIter::new / ConsIter::new *)
  sp_heap_only : bool        (* the impl is restricted to heap storage: such a buffer has no [&mut self] split, it is consumed by its one split *)
}.

Definition sp_worker (f : split_fn) : bool := tW (sp_iters f).

(** what the function does to a buffer state *)
Definition apply_split (f : split_fn) (s : mstate) : mstate :=
  mkM (mlen s) (slots s)
      (mkTri (if tP (sp_reset f) then 0 else tP (pub s)) (if tW (sp_reset f) then 0 else tW (pub s)) (if tC (sp_reset f) then 0 else tC (pub s)))
      (mkTri (tP (sp_alive f) || tP (flag s)) (tW (sp_alive f) || tW (flag s)) (tC (sp_alive f) || tC (flag s)))
      (mkTri (if tP (sp_iters f) then new_iter else gone_iter) (if tW (sp_iters f) then new_iter else gone_iter)
             (if tC (sp_iters f) then new_iter else gone_iter))
      (sp_worker f) (heap s) (owned s) (freed s) (nid s).

(** the decidable condition: producer and consumer are created, the liveness bits set are exactly those of the iterators created,
    and a split that can be reached by a buffer that was split before resets all three published indices - that is every
    [&mut self] split AND every by-value split whose impl is not restricted to heap storage (F11: a stack buffer can be split by
    reference, used, and then split by value) *)
Definition split_ok (f : split_fn) : bool :=
  tP (sp_iters f) && tC (sp_iters f) &&
  Bool.eqb (tP (sp_alive f)) (tP (sp_iters f)) && Bool.eqb (tW (sp_alive f)) (tW (sp_iters f)) && Bool.eqb (tC (sp_alive f)) (tC (sp_iters f)) &&
  ((negb (sp_borrow f) && sp_heap_only f) || (tP (sp_reset f) && tW (sp_reset f) && tC (sp_reset f))).
