(** * The lifetime monad into which tools/data_translate.py translates the drop path of the crate (gen/LifeFns.v): [Drop for XIter] ->
      [BufRef::set_X_alive(false)] (fence, the variant's liveness setter, fence, release if last) -> [BufRef::drop] (free the box if this
      handle owns one).  State: the three liveness flags, "the buffer was released"; trace: fences, flag updates, the release. *)
From Coq Require Import List Bool.
Import ListNotations.
Require Import MRB.Model.Types.

Inductive levt := EFence | ESet (k : stage) (b : bool) | EFree.

Record lstate := mkLS { l_flags : tri bool; l_freed : bool; l_trace : list levt }.
(** [needs_drop]: this handle was made by [BufRef::new] (boxed, by-value split) rather than [BufRef::from_ref] *)
Record lenv := mkLE { le_needs_drop : bool }.

Definition LM (A : Type) := lstate -> option (A * lstate).
Definition lret {A} (x : A) : LM A := fun s => Some (x, s).
Definition lbind {A B} (m : LM A) (k : A -> LM B) : LM B := fun s => match m s with Some (x, s') => k x s' | None => None end.
Declare Scope lm_scope.
Delimit Scope lm_scope with lm.
Notation "x <- m ;;; k" := (lbind m (fun x => k)) (at level 61, m at next level, right associativity) : lm_scope.
Notation "m ;;;; k" := (lbind m (fun _ => k)) (at level 61, right associativity) : lm_scope.
Open Scope lm_scope.

Definition emit_l (e : levt) : LM unit := fun s => Some (tt, mkLS (l_flags s) (l_freed s) (l_trace s ++ [e])).
Definition fence_ : LM unit := emit_l EFence.
(** reading / writing one flag of the buffer (a plain cell in the Local variant, one bit of the atomic word in the Concurrent one) *)
Definition get_flag (k : stage) : LM bool := fun s => Some (tget k (l_flags s), s).
Definition put_flag (k : stage) (b : bool) : LM unit :=
  fun s => Some (tt, mkLS (tset k b (l_flags s)) (l_freed s) (l_trace s ++ [ESet k b])).
(** [Box::from_raw]: releasing a buffer twice is undefined *)
Definition free_ : LM unit :=
  fun s => if l_freed s then None else Some (tt, mkLS (l_flags s) true (l_trace s ++ [EFree])).
Definition needs_drop (E : lenv) : LM bool := lret (le_needs_drop E).
(** the Concurrent variant's single read-modify-write: clear (or set) one bit, answer with the word as it was before *)
Definition rmw_flag (k : stage) (b : bool) : LM (tri bool) :=
  fun s => Some (l_flags s, mkLS (tset k b (l_flags s)) (l_freed s) (l_trace s ++ [ESet k b])).
Definition none_set (t : tri bool) : bool := negb (tP t || tW t || tC t).
