(** * Atomic-event traces: which atomic accesses every operation performs, in program order, with which ordering
      and value (the concurrent buffer; the local one performs none).  Mirrors the control flow of [Seq.step];
      compared on every run with the hook log of the real crate (suite S-ev). *)
From Coq Require Import List Arith NArith Bool.
Import ListNotations.
Require Import MRB.Base.Ring MRB.Model.Types MRB.Model.Seq.

Inductive ord := Relaxed | Acquire | Release | AcqRel | SeqCst.
Inductive loc := LIdx (k : stage) | LAlive.

Inductive aev :=
| ELoad (l : loc) (o : ord) (v : nat)
| EStore (l : loc) (o : ord) (v : nat)
| ERmwAnd (l : loc) (o : ord) (mask : nat)     (* fetch_and(mask) *)
| ERmwOr (l : loc) (o : ord) (mask : nat)      (* fetch_or(mask) *)
| EFence (o : ord)
| EFree.                                        (* the heap buffer is released *)

(** orderings per access class (the profile); the observed one is regenerated from the source into gen/Profile.v *)
Record profile := mkProfile {
  p_idx_load : ord; p_idx_store : ord; p_alive_rmw : ord; p_alive_load : ord;
  p_fence_before : bool; p_fence_after : bool      (* SeqCst fences around the liveness update *)
}.
Definition strong_profile := mkProfile Acquire Release AcqRel Acquire true true.

Definition ge_acq (o : ord) : bool := match o with Acquire | AcqRel | SeqCst => true | _ => false end.
Definition ge_rel (o : ord) : bool := match o with Release | AcqRel | SeqCst => true | _ => false end.
(** what the race-freedom and liveness theorems need; fences are irrelevant once the liveness word is an RMW *)
Definition profile_ok (p : profile) : bool :=
  ge_acq (p_idx_load p) && ge_rel (p_idx_store p) && ge_acq (p_alive_rmw p) && ge_rel (p_alive_rmw p) && ge_acq (p_alive_load p).

Section T.
Variable pr : profile.

Definition succ_stage (k : stage) (m : mstate) : stage :=
  match k with P => C | W => P | C => if hasW m then W else P end.

Definition t_fresh (k : stage) (m : mstate) : list aev := [ELoad (LIdx (succ_stage k m)) (p_idx_load pr) (succ_idx k m)].
Definition t_check (k : stage) (n : nat) (m : mstate) : list aev :=
  if n <=? ca (it_of k m) then [] else t_fresh k m.
(** [_advance]: publish unless detached; [m'] is the state after the move *)
Definition t_pub (k : stage) (m' : mstate) : list aev :=
  if det (it_of k m') then [] else [EStore (LIdx k) (p_idx_store pr) (ix (it_of k m'))].

Definition alive_bit (k : stage) : nat := match k with P => 1 | W => 2 | C => 4 end.

Definition t_request (k : stage) (n : nat) (m : mstate) (moves : bool) : list aev :=
  let '(g, m1) := check k n m in
  t_check k n m ++ (if g && moves then t_pub k (advance k n m1) else []).

Definition st_own (k : stage) (v : nat) : aev := EStore (LIdx k) (p_idx_store pr) v.

Definition t_drop (k : stage) (m : mstate) : list aev :=
  let fl := tset k false (flag m) in
  let last := negb (tP fl) && negb (tW fl) && negb (tC fl) in
  (if p_fence_before pr then [EFence SeqCst] else []) ++
  [ERmwAnd LAlive (p_alive_rmw pr) (255 - alive_bit k)] ++
  (if p_fence_after pr then [EFence SeqCst] else []) ++
  (if last && heap m then [EFree] else []).

Definition trace (m : mstate) (o : op) : list aev :=
  match o with
  | Avail k => if usable k m then t_fresh k m else []
  | Advance k n => if usable k m then t_pub k (advance k n m) else []
  | GetOne k => if usable k m then t_check k 1 m else []
  | GetExact k n => if usable k m then t_check k n m else []
  | GetAvail k | GetMult k _ => if usable k m then t_fresh k m else []
  | Poke _ _ _ | PokeInit _ _ _ | Edit _ _ _ => []
  | Push _ | PushInit _ => if attached P m then t_request P 1 m true else []
  | PushSlice vs | PushSliceInit vs => if attached P m && plain m then t_request P (length vs) m true else []
  | PushSliceClone vs | PushSliceCloneInit vs => if attached P m then t_request P (length vs) m true else []
  | NextItemInit => if attached P m then t_check P 1 m else []
  | PeekAvail => if attached C m then t_fresh C m else []
  | Pop | PopMove | CloneItem => if attached C m then t_request C 1 m true else []
  | CopyItem => if attached C m && plain m then t_request C 1 m true else []
  | CopySlice n => if attached C m && plain m then t_request C n m true else []
  | CloneSlice n => if attached C m then t_request C n m true else []
  | Reset k =>
      match k with
      | P => []
      | _ => if attached k m then t_fresh k m ++ [st_own k (succ_idx k m)] else []
      end
  | Detach _ | SetIndex _ _ | GoBack _ _ => []
  | Attach k | Sync k => if detached k m then [st_own k (ix (it_of k m))] else []
  | DReset k => if detached k m then t_fresh k m else []
  | DropIter k => if usable k m then t_drop k m else []
  | DropBuf => []
  | Resplit w =>
      if negb (heap m) && negb (freed m) && no_iters m then
        [st_own P 0; st_own W 0; st_own C 0; ERmwOr LAlive (p_alive_rmw pr) 1] ++
        (if w then [ERmwOr LAlive (p_alive_rmw pr) 2] else []) ++ [ERmwOr LAlive (p_alive_rmw pr) 4]
      else []
  end.

(** every operation performs a bounded number of atomic accesses: at most one successor load and one own store
    (reset: one of each; drop: one read-modify-write between two fences; re-split: three stores and up to three RMWs) *)
Definition loads (l : list aev) : nat := length (filter (fun e => match e with ELoad _ _ _ => true | _ => false end) l).
Definition stores (l : list aev) : nat := length (filter (fun e => match e with EStore _ _ _ => true | _ => false end) l).
End T.
