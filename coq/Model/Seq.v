(** * The executable sequential Model: one Gallina function per Rust function.

    Mirrors the data layout of the crate (ring indices, local index + remembered availability per
    iterator, published indices, liveness flags, cells) and the control flow of
    [iterator_trait.rs], [prod_iter.rs], [work_iter.rs], [cons_iter.rs], [detached.rs],
    [buf_ref.rs] (drop protocol, sequential view) and the split functions. *)
From Coq Require Import List Arith NArith Bool.
Import ListNotations.
Require Import MRB.Base.Ring MRB.Base.ListAux MRB.Model.Types.

(** An iterator: local index, remembered availability ([cached_avail]), detached?, exists? *)
Record iter := mkIter { ix : nat; ca : nat; det : bool; here : bool }.

Record mstate := mkM {
  mlen : nat;
  slots : list cell;
  pub : tri nat;        (* prod_idx / work_idx / cons_idx *)
  flag : tri bool;      (* prod_alive / work_alive / cons_alive *)
  its : tri iter;
  hasW : bool;
  heap : bool;
  owned : bool;
  freed : bool;         (* storage released (heap: by the last iterator; stack: by its owner) *)
  nid : N               (* identity of the next clone *)
}.

Definition set_slots sl s := mkM (mlen s) sl (pub s) (flag s) (its s) (hasW s) (heap s) (owned s) (freed s) (nid s).
Definition set_pub k i s := mkM (mlen s) (slots s) (tset k i (pub s)) (flag s) (its s) (hasW s) (heap s) (owned s) (freed s) (nid s).
Definition set_it k it s := mkM (mlen s) (slots s) (pub s) (flag s) (tset k it (its s)) (hasW s) (heap s) (owned s) (freed s) (nid s).
Definition set_nid n s := mkM (mlen s) (slots s) (pub s) (flag s) (its s) (hasW s) (heap s) (owned s) (freed s) n.
Definition it_of k s := tget k (its s).

(** [succ_index]: producer <- consumer, worker <- producer, consumer <- worker (W) or producer (!W). *)
Definition succ_idx (k : stage) (s : mstate) : nat :=
  match k with
  | P => tC (pub s)
  | W => tP (pub s)
  | C => if hasW s then tW (pub s) else tP (pub s)
  end.

(** [_available] (three versions). *)
Definition avail_of (k : stage) (len i succ : nat) : nat :=
  match k with P => pavail len i succ | _ => dist len i succ end.

Definition fresh (k : stage) (s : mstate) : nat :=
  avail_of k (mlen s) (ix (it_of k s)) (succ_idx k s).

Definition set_ca k a s :=
  let it := it_of k s in set_it k (mkIter (ix it) a (det it) (here it)) s.
Definition set_ix_ca k i a s :=
  let it := it_of k s in set_it k (mkIter i a (det it) (here it)) s.
Definition set_det k b s :=
  let it := it_of k s in set_it k (mkIter (ix it) (ca it) b (here it)) s.

(** [available()]: recompute and remember. *)
Definition refresh (k : stage) (s : mstate) : mstate * nat :=
  let a := fresh k s in (set_ca k a s, a).

(** [check(count)]: [cached_avail >= count || _available() >= count]. *)
Definition check (k : stage) (n : nat) (s : mstate) : bool * mstate :=
  if n <=? ca (it_of k s) then (true, s)
  else let '(s', a) := refresh k s in (n <=? a, s').

(** [advance_local] + (attached) [set_atomic_index]. *)
Definition advance (k : stage) (n : nat) (s : mstate) : mstate :=
  let it := it_of k s in
  let i' := wadd (mlen s) (ix it) n in
  let s1 := set_ix_ca k i' (ca it - n) s in
  if det it then s1 else set_pub k i' s1.

(** [next_chunk(_mut)]: the two raw slices for [n] slots starting at [i]. *)
Definition rd (s : mstate) (i n : nat) : list cell * list cell :=
  let '(h, t) := chunk (mlen s) i n in (sub (slots s) i h, sub (slots s) 0 t).
(** store [vs] through the two slices ([_push_slice]). *)
Definition wr (s : mstate) (i : nat) (vs : list cell) : mstate :=
  let '(h, t) := chunk (mlen s) i (length vs) in
  set_slots (write (write (slots s) i (firstn h vs)) 0 (skipn h vs)) s.

Definition slot (s : mstate) (i : nat) : cell := nth i (slots s) 0%N.

(** ** Ledger *)
Inductive smode := SAssign | SInit | SWrite | SCopy.

Definition isz (v : cell) : bool := N.eqb v 0.

Definition store_ev (m : smode) (old : cell) : list lev :=
  match m with
  | SAssign => if isz old then [LZeroDrop] else [LDrop old]
  | SInit => if isz old then [] else [LDrop old]
  | SWrite => if isz old then [] else [LLost old]
  | SCopy => []
  end.

Definition ev (s : mstate) (l : list lev) : list lev := if owned s then l else [].

Fixpoint ids (base : N) (n : nat) : list cell :=
  match n with 0 => [] | S n' => base :: ids (N.succ base) n' end.

(** clones of [vs]: fresh identities for owned items, the same numbers for plain ones *)
Definition clones (s : mstate) (vs : list cell) : list cell * mstate :=
  if owned s then (ids (nid s) (length vs), set_nid (nid s + N.of_nat (length vs))%N s) else (vs, s).

Fixpoint store_evs (m : smode) (olds : list cell) : list lev :=
  match olds with [] => [] | o :: r => store_ev m o ++ store_evs m r end.

(** clones: a zeroed source is a read of an empty slot *)
Fixpoint clone_evs (srcs news : list cell) : list lev :=
  match srcs, news with
  | a :: sr, b :: nr => (if isz a then LZeroRead else LMake b) :: clone_evs sr nr
  | _, _ => []
  end.

Definition release_evs (sl : list cell) : list lev :=
  flat_map (fun v => if isz v then [] else [LDrop v]) sl.

(** ** Typing: which operations the API offers in which state *)
Definition usable (k : stage) (s : mstate) : bool :=
  negb (freed s) && here (it_of k s) && (match k with W => hasW s | _ => true end).
Definition attached k s := usable k s && negb (det (it_of k s)).
Definition detached k s := usable k s && det (it_of k s).
Definition plain s := negb (owned s).

Definition res := (mstate * (out * list lev))%type.
Definition ret (s : mstate) (o : out) : res := (s, (o, [])).
Definition rete (s : mstate) (o : out) (l : list lev) : res := (s, (o, ev s l)).
Definition bad (s : mstate) : res := (s, (OBad, [])).

(** grant of [n] slots at the iterator's index, no move *)
Definition grant (k : stage) (n : nat) (s : mstate) : res :=
  let '(g, s1) := check k n s in
  if g then let i := ix (it_of k s1) in let '(h, t) := rd s1 i n in ret s1 (OSlices i h t)
  else ret s1 ONone.

Definition grant_one (k : stage) (s : mstate) : res :=
  let '(g, s1) := check k 1 s in
  if g then let i := ix (it_of k s1) in ret s1 (ORef i (slot s1 i)) else ret s1 ONone.

(** [_push] *)
Definition push (m : smode) (v : cell) (s : mstate) : res :=
  let '(g, s1) := check P 1 s in
  if g then
    let i := ix (it_of P s1) in
    let old := slot s1 i in
    let s2 := set_slots (upd i v (slots s1)) s1 in
    rete (advance P 1 s2) OOk (store_ev m old ++ [LTake v])
  else ret s1 (OErr v).

(** [_push_slice]; [cl]: the stored values are clones of [vs] *)
Definition push_slice (m : smode) (cl : bool) (vs : list cell) (s : mstate) : res :=
  let n := length vs in
  let '(g, s1) := check P n s in
  if g then
    let i := ix (it_of P s1) in
    let '(h, t) := rd s1 i n in
    let '(news, s2) := if cl then clones s1 vs else (vs, s1) in
    let s3 := wr s2 i news in
    rete (advance P n s3) OOk
         ((if cl then clone_evs vs news else []) ++ store_evs m (h ++ t))
  else ret s1 ONone.

(** [next] / [next_duplicate] *)
Definition pop (move : bool) (s : mstate) : res :=
  let '(g, s1) := check C 1 s in
  if g then
    let i := ix (it_of C s1) in
    let v := slot s1 i in
    let s2 := if move then set_slots (upd i 0%N (slots s1)) s1 else s1 in
    rete (advance C 1 s2) (OVal v)
         (if isz v then [LZeroRead] else if move then [LGive v] else [LDup v])
  else ret s1 ONone.

(** [_extract_item] *)
Definition extract_item (cl : bool) (s : mstate) : res :=
  let '(g, s1) := check C 1 s in
  if g then
    let i := ix (it_of C s1) in
    let v := slot s1 i in
    let '(news, s2) := if cl then clones s1 [v] else ([v], s1) in
    rete (advance C 1 s2) (ODst news)
         (if cl then clone_evs [v] news else [])
  else ret s1 ONone.

(** [_extract_slice] *)
Definition extract_slice (cl : bool) (n : nat) (s : mstate) : res :=
  let '(g, s1) := check C n s in
  if g then
    let i := ix (it_of C s1) in
    let '(h, t) := rd s1 i n in
    let '(news, s2) := if cl then clones s1 (h ++ t) else (h ++ t, s1) in
    rete (advance C n s2) (ODst news)
         (if cl then clone_evs (h ++ t) news else [])
  else ret s1 ONone.

(** user access through a granted reference: slot [index + off] *)
Definition poke (m : smode) (k : stage) (off : nat) (v : cell) (s : mstate) : res :=
  let i := wadd (mlen s) (ix (it_of k s)) off in
  let old := slot s i in
  rete (set_slots (upd i v (slots s)) s) OUnit (store_ev m old ++ [LTake v]).

Definition edit (k : stage) (off : nat) (d : N) (s : mstate) : res :=
  let i := wadd (mlen s) (ix (it_of k s)) off in
  ret (set_slots (upd i (slot s i + d)%N (slots s)) s) OUnit.

(** [BufRef::set_*_alive(false)] seen sequentially: clear the flag; the last one releases a heap buffer *)
Definition drop_iter (k : stage) (s : mstate) : res :=
  let it := it_of k s in
  let fl := tset k false (flag s) in
  let last := negb (tP fl) && negb (tW fl) && negb (tC fl) in
  let rel := last && heap s in
  let s1 := mkM (mlen s) (slots s) (pub s) fl (tset k (mkIter (ix it) (ca it) (det it) false) (its s))
                (hasW s) (heap s) (owned s) (freed s || rel) (nid s) in
  rete s1 OUnit (if rel then release_evs (slots s) else []).

Definition no_iters (s : mstate) : bool :=
  negb (here (tP (its s))) && negb (here (tW (its s))) && negb (here (tC (its s))).

Definition new_iter : iter := mkIter 0 0 false true.
Definition gone_iter : iter := mkIter 0 0 false false.

(** the split functions (stack: also on a used buffer, after fix F4) *)
Definition do_split (w : bool) (s : mstate) : mstate :=
  mkM (mlen s) (slots s) (mkTri 0 0 0)
      (mkTri true (if w then true else tW (flag s)) true)
      (mkTri new_iter (if w then new_iter else gone_iter) new_iter)
      w (heap s) (owned s) (freed s) (nid s).

Definition step (s : mstate) (o : op) : res :=
  match o with
  | Avail k => if usable k s then let '(s1, a) := refresh k s in ret s1 (ONum a) else bad s
  | Advance k n => if usable k s then ret (advance k n s) OUnit else bad s
  | GetOne k => if usable k s then grant_one k s else bad s
  | GetExact k n => if usable k s then grant k n s else bad s
  | GetAvail k =>
      if usable k s then
        let '(s1, a) := refresh k s in
        match a with 0 => ret s1 ONone | _ => grant k a s1 end
      else bad s
  | GetMult k r =>
      if usable k s then
        let '(s1, a) := refresh k s in
        match r with
        | 0 => ret s1 OPanic
        | _ => match a - a mod r with 0 => ret s1 ONone | m => grant k m s1 end
        end
      else bad s
  | Poke k off v => if usable k s then poke SAssign k off v s else bad s
  | PokeInit k off v => if usable k s then poke SWrite k off v s else bad s
  | Edit k off d => if usable k s && plain s then edit k off d s else bad s
  | Push v => if attached P s then push SAssign v s else bad s
  | PushInit v => if attached P s then push SInit v s else bad s
  | PushSlice vs => if attached P s && plain s then push_slice SCopy false vs s else bad s
  | PushSliceInit vs => if attached P s && plain s then push_slice SCopy false vs s else bad s
  | PushSliceClone vs => if attached P s then push_slice SAssign true vs s else bad s
  | PushSliceCloneInit vs => if attached P s then push_slice SInit true vs s else bad s
  | NextItemInit => if attached P s then grant_one P s else bad s
  | PeekAvail => if attached C s then let '(s1, a) := refresh C s in grant C a s1 else bad s
  | Pop => if attached C s then pop false s else bad s
  | PopMove => if attached C s then pop true s else bad s
  | CopyItem => if attached C s && plain s then extract_item false s else bad s
  | CloneItem => if attached C s then extract_item true s else bad s
  | CopySlice n => if attached C s && plain s then extract_slice false n s else bad s
  | CloneSlice n => if attached C s then extract_slice true n s else bad s
  | Reset k =>
      match k with
      | P => bad s
      | _ => if attached k s then
               let i := succ_idx k s in ret (set_pub k i (set_ix_ca k i 0 s)) OUnit
             else bad s
      end
  | Detach k => if attached k s then ret (set_det k true s) OUnit else bad s
  | Attach k => if detached k s then ret (set_det k false (set_pub k (ix (it_of k s)) s)) OUnit else bad s
  | Sync k => if detached k s then ret (set_pub k (ix (it_of k s)) s) OUnit else bad s
  | SetIndex k i => if detached k s then ret (set_ix_ca k i 0 s) OUnit else bad s
  | GoBack k n =>
      if detached k s then
        let it := it_of k s in ret (set_ix_ca k (wsub (mlen s) (ix it) n) (ca it + n) s) OUnit
      else bad s
  | DReset k => if detached k s then ret (set_ix_ca k (succ_idx k s) 0 s) OUnit else bad s
  | DropIter k => if usable k s then drop_iter k s else bad s
  | DropBuf =>
      if negb (heap s) && negb (freed s) && no_iters s then
        rete (mkM (mlen s) (slots s) (pub s) (flag s) (its s) (hasW s) (heap s) (owned s) true (nid s))
             OUnit (release_evs (slots s))
      else bad s
  | Resplit w =>
      if negb (heap s) && negb (freed s) && no_iters s then ret (do_split w s) OUnit else bad s
  end.

(** Constructors: [from] / [default] / [new_zeroed] (contents given by the configuration) then split. *)
Definition first_clone_id : N := 1000000%N.

Definition init (c : config) : option mstate :=
  match length (c_init c) with
  | 0 => None                                   (* assert!(value.len() > 0) : panic *)
  | len =>
    Some (do_split (c_worker c)
      (mkM len (c_init c) (mkTri 0 0 0) (mkTri false false false)
           (mkTri gone_iter gone_iter gone_iter) false (c_heap c) (c_owned c) false first_clone_id))
  end.

Fixpoint run (s : mstate) (h : list op) : mstate * list (out * list lev) :=
  match h with
  | [] => (s, [])
  | o :: r => let '(s1, x) := step s o in let '(s2, xs) := run s1 r in (s2, x :: xs)
  end.
