(** * The data-level monad into which tools/extract_facts.py translates the bodies of the DATA-TOUCHING functions of the
      crate (gen/DataFns.v): [next*], [next_chunk*], [_push], [_push_slice], [_extract_*], the public wrappers and the
      closures they pass around.  It extends the checked-arithmetic monad of Model/KernelM.v (the iterator's local state,
      publications) with the buffer's cells, the caller's source slice and destination, the ledger of owned values and the
      supply of clone identities.  [None] = undefined behaviour or a panic (out-of-bounds pointer arithmetic, a slice that
      leaves the allocation, unchecked overflow, [clone_from_slice] on different lengths, remainder by zero). *)
From Coq Require Import List Arith NArith Bool Lia.
Import ListNotations.
Require Import MRB.Base.ListAux MRB.Model.Types MRB.Model.Seq MRB.Model.KernelM.

(** places an item can live in: a cell of the buffer, an element of the caller's source slice, of the caller's destination *)
Inductive loc := LBuf (i : nat) | LSrc (i : nat) | LDst (i : nat).
(** [RBufV len]: a slice of the DOUBLE MAPPING of the vmem build - addresses [0, 2*len) of which [a] and [a + len] are the same cell *)
Inductive region := RBuf | RSrc | RDst | RBufV (len : nat).
(** a raw slice: region, first element, number of elements *)
Record sl := mkSl { s_reg : region; s_off : nat; s_len : nat }.

Record dst := mkD {
  d_l : lst;               (* local index / remembered availability *)
  d_slots : list cell;     (* the buffer's cells *)
  d_pubs : list nat;       (* values stored through set_atomic_index, in order *)
  d_evs : list lev;        (* ledger of owned values *)
  d_nid : N;               (* identity of the next clone *)
  d_out : list cell        (* the caller's destination ([dst]) *)
}.

Record denv := mkDE {
  dn_E : env;              (* successor's published index, buffer length *)
  dn_avail : M nat;        (* the iterator's own [_available] (translated kernel) *)
  dn_owned : bool;         (* owned items (ledger on) *)
  dn_src : list cell       (* the caller's source slice *)
}.

Definition DM (A : Type) := dst -> option (A * dst).
Definition dret {A} (x : A) : DM A := fun d => Some (x, d).
Definition dbind {A B} (m : DM A) (k : A -> DM B) : DM B :=
  fun d => match m d with Some (x, d') => k x d' | None => None end.
Declare Scope dm_scope.
Delimit Scope dm_scope with dm.
Notation "x <~ m ;; k" := (dbind m (fun x => k)) (at level 61, m at next level, right associativity) : dm_scope.
Notation "m ;;~ k" := (dbind m (fun _ => k)) (at level 61, right associativity) : dm_scope.
Open Scope dm_scope.

Definition dfail {A} : DM A := fun _ => None.

(** a kernel runs on the local state; what it publishes is appended *)
Definition lift {A} (m : M A) : DM A :=
  fun d => match m (d_l d) [] with
           | Some (x, l', p') => Some (x, mkD l' (d_slots d) (d_pubs d ++ p') (d_evs d) (d_nid d) (d_out d))
           | None => None
           end.

Definition set_slots_d sl d := mkD (d_l d) sl (d_pubs d) (d_evs d) (d_nid d) (d_out d).
Definition set_out_d o d := mkD (d_l d) (d_slots d) (d_pubs d) (d_evs d) (d_nid d) o.

Definition emit (E : denv) (l : list lev) : DM unit :=
  fun d => Some (tt, mkD (d_l d) (d_slots d) (d_pubs d) (d_evs d ++ (if dn_owned E then l else [])) (d_nid d) (d_out d)).

(** [Option::then]-style helpers *)
Definition then_ {A} (b : bool) (m : DM A) : DM (option A) :=
  if b then (x <~ m ;; dret (Some x)) else dret None.

Inductive result (A B : Type) := Ok (a : A) | Err (b : B).
Arguments Ok {A B}. Arguments Err {A B}.

(** ** memory *)
(** the cells the iterator HOLDS: [l_cached] cells from its local index on, cyclically - what an Acquire load of the successor's index
    has shown to be its own and what it has not yet published away.  A buffer cell outside them belongs to a neighbouring stage
    (or will, as soon as the index is published): touching it is a data race waiting to happen, whatever a sequential run shows.
    Reads and writes of buffer cells are DEFINED only inside this window - so every theorem that says a translated function runs
    ([= Some ..]) also says that it touches nothing before the availability check has covered it and nothing after [advance]. *)
Definition in_window (d : dst) (i : nat) : bool :=
  (if l_index (d_l d) <=? i then i - l_index (d_l d) else i + length (d_slots d) - l_index (d_l d)) <? l_cached (d_l d).

Definition rd (E : denv) (p : loc) : DM cell :=
  fun d => match p with
           | LBuf i => if (i <? length (d_slots d)) && in_window d i then Some (nth i (d_slots d) 0%N, d) else None
           | LSrc i => if i <? length (dn_src E) then Some (nth i (dn_src E) 0%N, d) else None
           | LDst i => if i <? length (d_out d) then Some (nth i (d_out d) 0%N, d) else None
           end.

(** raw store (no ledger) *)
Definition st (p : loc) (v : cell) : DM unit :=
  fun d => match p with
           | LBuf i => if (i <? length (d_slots d)) && in_window d i then Some (tt, set_slots_d (upd i v (d_slots d)) d) else None
           | LSrc _ => None                                   (* the source slice is shared: never written *)
           | LDst i => if i <? length (d_out d) then Some (tt, set_out_d (upd i v (d_out d)) d) else None
           end.

Definition is_buf (p : loc) : bool := match p with LBuf _ => true | _ => false end.

(** a store into a place, in one of the ledger modes of the Model ([SAssign]: [*p = v] drops the old value first, an all-zero one
    included; [SWrite]: [p.write(v)] does not look at the old contents; [SInit]: drop it unless it is all-zero).  The destination
    belongs to the caller: what is dropped there is the caller's. *)
Definition store_mode (E : denv) (m : smode) (p : loc) (v : cell) : DM unit :=
  old <~ rd E p ;; emit E (if is_buf p then store_ev m old else []) ;;~ st p v.
(** [*p = v] *)
Definition assign (E : denv) (p : loc) (v : cell) : DM unit := store_mode E SAssign p v.
(** [p.write(v)] *)
Definition write_ (E : denv) (p : loc) (v : cell) : DM unit := store_mode E SWrite p v.
(** the same with a value MOVED in by the caller: the buffer takes ownership *)
Definition assign_move (E : denv) (p : loc) (v : cell) : DM unit := assign E p v ;;~ emit E [LTake v].
Definition write_move (E : denv) (p : loc) (v : cell) : DM unit := write_ E p v ;;~ emit E [LTake v].

Definition check_zeroed (E : denv) (p : loc) : DM bool := v <~ rd E p ;; dret (isz v).

(** [Clone::clone]: a fresh identity for an owned item, the same number for a plain one *)
Definition clone_ (E : denv) (v : cell) : DM cell :=
  fun d => Some (if dn_owned E then d_nid d else v,
                 mkD (d_l d) (d_slots d) (d_pubs d)
                     (d_evs d ++ (if dn_owned E then [if isz v then LZeroRead else LMake (d_nid d)] else []))
                     (if dn_owned E then N.succ (d_nid d) else d_nid d) (d_out d)).

(** [UnsafeSyncCell::take_inner / inner_duplicate / inner_ref(_mut) / as_mut_ptr] on the cell [inner()[i]] (bounds-checked index) *)
Definition cell_at (i : nat) : DM loc :=
  fun d => if i <? length (d_slots d) then Some (LBuf i, d) else None.
Definition take_inner (E : denv) (p : loc) : DM cell :=
  v <~ rd E p ;; st p 0%N ;;~ emit E [if isz v then LZeroRead else LGive v] ;;~ dret v.
Definition inner_duplicate (E : denv) (p : loc) : DM cell :=
  v <~ rd E p ;; emit E [if isz v then LZeroRead else LDup v] ;;~ dret v.
Definition inner_ref (p : loc) : DM loc := dret p.

(** ** raw slices *)
Definition buf_ptr : DM loc := dret (LBuf 0).
(** [ptr.add(i)]: stays inside the allocation or one past its end *)
Definition ptr_add (p : loc) (i : nat) : DM loc :=
  fun d => match p with
           | LBuf o => if o + i <=? length (d_slots d) then Some (LBuf (o + i), d) else None
           | _ => None
           end.
(** [slice::from_raw_parts(_mut)(p, n)]: the whole range lies inside the allocation *)
Definition raw_parts (p : loc) (n : nat) : DM sl :=
  fun d => match p with
           | LBuf o => if o + n <=? length (d_slots d) then Some (mkSl RBuf o n, d) else None
           | _ => None
           end.
(** the vmem build: [slice::from_raw_parts(_mut)(p, n)] over the double mapping - the range lies inside the [2*len] mapped cells *)
Definition raw_parts_v (p : loc) (n : nat) : DM sl :=
  fun d => match p with
           | LBuf o => if o + n <=? 2 * length (d_slots d) then Some (mkSl (RBufV (length (d_slots d))) o n, d) else None
           | _ => None
           end.
Definition empty_sl : sl := mkSl RBuf 0 0.
Definition src_sl (E : denv) : sl := mkSl RSrc 0 (length (dn_src E)).
Definition out_sl : DM sl := fun d => Some (mkSl RDst 0 (length (d_out d)), d).

Definition sl_at (s : sl) (j : nat) : loc :=
  match s_reg s with
  | RBuf => LBuf (s_off s + j) | RSrc => LSrc (s_off s + j) | RDst => LDst (s_off s + j)
  | RBufV len => LBuf ((s_off s + j) mod len)
  end.
(** [s.get_unchecked(..mid)] / [s.get_unchecked(mid..)] (also [_mut]): undefined outside the slice *)
Definition sl_prefix (s : sl) (mid : nat) : DM sl :=
  if mid <=? s_len s then dret (mkSl (s_reg s) (s_off s) mid) else dfail.
Definition sl_suffix (s : sl) (mid : nat) : DM sl :=
  if mid <=? s_len s then dret (mkSl (s_reg s) (s_off s + mid) (s_len s - mid)) else dfail.

Fixpoint for_n (n : nat) (j : nat) (body : nat -> DM unit) : DM unit :=
  match n with 0 => dret tt | S n' => body j ;;~ for_n n' (S j) body end.

(** [for (x, y) in a.iter_mut().zip(b) { body }] *)
Definition for_zip (a b : sl) (body : loc -> loc -> DM unit) : DM unit :=
  for_n (Nat.min (s_len a) (s_len b)) 0 (fun j => body (sl_at a j) (sl_at b j)).

(** [copy_from_slice_unchecked(src, dst)] = [ptr::copy_nonoverlapping(src, dst, src.len())]: a bitwise copy, no ledger *)
Definition copy_from_slice_unchecked (E : denv) (src dst_ : sl) : DM unit :=
  if s_len src <=? s_len dst_
  then for_n (s_len src) 0 (fun j => v <~ rd E (sl_at src j) ;; st (sl_at dst_ j) v)
  else dfail.

(** [dst.clone_from_slice(src)]: panics on different lengths; element-wise [clone_from] *)
Definition clone_from_slice (E : denv) (dst_ src : sl) : DM unit :=
  if s_len src =? s_len dst_
  then for_n (s_len src) 0 (fun j => v <~ rd E (sl_at src j) ;; c <~ clone_ E v ;; assign E (sl_at dst_ j) c)
  else dfail.

(** [while c { b }] with at most [fuel] rounds: answers [true] when the condition became false (the loop ended), [false] when the
    fuel ran out with the loop still spinning *)
Fixpoint while_ (fuel : nat) (c : DM bool) (b : DM unit) : DM bool :=
  match fuel with
  | 0 => dret false
  | S f => x <~ c ;; if x then (b ;;~ while_ f c b) else dret true
  end.
(** still inside a busy-wait loop when the fuel ran out: not a return *)
Definition spinning {A} : DM (option A) := dret None.

(** [a % b]: panics on a zero divisor *)
Definition umod (a b : nat) : DM nat := match b with 0 => dfail | _ => dret (a mod b) end.

Definition drun {A} (m : DM A) (d : dst) : option (A * dst) := m d.
