(** * The checked-arithmetic monad into which tools/extract_facts.py translates the arithmetic kernels of the crate
      (gen/Kernels.v).  [usize] is a natural number below [2^64]; [unchecked_add] / [unchecked_sub] / [+] are UNDEFINED
      (None) on overflow / underflow, [saturating_sub] is total.  The state is the iterator's local state. *)
From Coq Require Import List Arith Bool Lia.
Import ListNotations.

Definition usize_max : nat := 2 ^ 64.

Record lst := mkL { l_index : nat; l_cached : nat }.
(** what the iterator can read from its surroundings: the successor's published index, the buffer length *)
Record env := mkE { e_succ : nat; e_len : nat }.

(** result: value, new local state, values published through set_atomic_index (in order) *)
Definition M (A : Type) := lst -> list nat -> option (A * lst * list nat).

Definition ret {A} (x : A) : M A := fun s p => Some (x, s, p).
Definition bind {A B} (m : M A) (k : A -> M B) : M B :=
  fun s p => match m s p with Some (x, s', p') => k x s' p' | None => None end.
Notation "x <- m ;; k" := (bind m (fun x => k)) (at level 61, m at next level, right associativity).
Notation "m ;;; k" := (bind m (fun _ => k)) (at level 61, right associativity).

Definition get_index : M nat := fun s p => Some (l_index s, s, p).
Definition get_cached : M nat := fun s p => Some (l_cached s, s, p).
Definition set_index (i : nat) : M unit := fun s p => Some (tt, mkL i (l_cached s), p).
Definition set_cached (c : nat) : M unit := fun s p => Some (tt, mkL (l_index s) c, p).
Definition publish (i : nat) : M unit := fun s p => Some (tt, s, p ++ [i]).
Definition succ_index (E : env) : M nat := ret (e_succ E).
Definition buf_len (E : env) : M nat := ret (e_len E).

Definition uadd (a b : nat) : M nat := fun s p => if a + b <? usize_max then Some (a + b, s, p) else None.
Definition usub (a b : nat) : M nat := fun s p => if b <=? a then Some (a - b, s, p) else None.
Definition ssub (a b : nat) : M nat := ret (a - b).
Definition geb (a b : nat) : bool := b <=? a.
Definition gtb (a b : nat) : bool := b <? a.

(** short-circuit [||] *)
Definition orelse (a : bool) (m : M bool) : M bool := if a then ret true else m.

Definition run {A} (m : M A) (s : lst) : option (A * lst * list nat) := m s [].
