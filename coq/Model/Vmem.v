(** * vmem (C17): the double mapping built by [vmem_helper::new], as a small model of the address space.

    Addresses are (half, offset): the reserved range has two halves of [size] bytes; each half is backed either by
    anonymous zero pages of its own or by a shared memory object.  The calls are regenerated from the source
    (gen/VmemCalls.v); the semantics of mmap/memcpy used here (anonymous private = fresh zero pages, a MAP_SHARED|MAP_FIXED
    mapping of an fd replaces what was there and aliases every other mapping of the same object and offset) is validated
    on the running kernel by the vmem build of the harness. *)
From Coq Require Import List Arith Bool Lia.
Import ListNotations.

Inductive backing := Unmapped | Anon (id : nat) | Shared (obj : nat) (off : nat).   (* off: in units of [size] *)
Inductive half := Lo | Hi.

Inductive vcall :=
| VShmCreate                                   (* fd := a fresh shared memory object, sized to [size] *)
| VReserve (halves : nat)                      (* mmap(NULL, halves*size, .., MAP_PRIVATE|MAP_ANONYMOUS, -1, 0) *)
| VMapShared (h : half) (fixed : bool) (off : nat)     (* mmap(base + h*size, size, RW, MAP_SHARED|MAP_FIXED, fd, off) *)
| VMapAnon (h : half) (fixed : bool)           (* mmap(base + h*size, size, RW, MAP_PRIVATE|MAP_ANONYMOUS|MAP_FIXED, -1, 0) *)
| VCopyIn (full : bool)                        (* memcpy(mapping <- caller's data, full ? size : something else) *)
| VCopyOut                                     (* memcpy(caller's data <- mapping): the pinned tree's reversed copy *)
| VClose.

Record vstate := mkVS {
  lo : backing; hi : backing;
  obj : option nat;           (* the shared object behind the fd, if any *)
  fresh : nat;
  obj_has_data : bool;        (* the shared object holds the caller's data (completely) *)
  lo_has_data : bool;         (* a private low half holds the data (no aliasing) *)
  data_intact : bool          (* the caller's data has not been overwritten *)
}.

Definition vinit := mkVS Unmapped Unmapped None 0 false false true.

Definition set_half (h : half) (b : backing) (s : vstate) : vstate :=
  match h with
  | Lo => mkVS b (hi s) (obj s) (fresh s) (obj_has_data s) false (data_intact s)
  | Hi => mkVS (lo s) b (obj s) (fresh s) (obj_has_data s) (lo_has_data s) (data_intact s)
  end.

Definition vstep (s : vstate) (c : vcall) : vstate :=
  match c with
  | VShmCreate => mkVS (lo s) (hi s) (Some (fresh s)) (S (fresh s)) false (lo_has_data s) (data_intact s)
  | VReserve n =>
      mkVS (Anon (fresh s)) (if 2 <=? n then Anon (S (fresh s)) else Unmapped) (obj s) (S (S (fresh s))) (obj_has_data s) false (data_intact s)
  | VMapShared h fixed off =>
      match obj s with
      | Some o => if fixed then set_half h (Shared o off) s else s      (* not fixed: lands somewhere else; the half keeps its mapping *)
      | None => s
      end
  | VMapAnon h fixed => if fixed then let s1 := set_half h (Anon (fresh s)) s in
                           mkVS (lo s1) (hi s1) (obj s1) (S (fresh s1)) (obj_has_data s1) (lo_has_data s1) (data_intact s1) else s
  | VCopyIn full =>
      match lo s with
      | Shared o 0 => mkVS (lo s) (hi s) (obj s) (fresh s) (full && data_intact s) (lo_has_data s) (data_intact s)
      | Anon _ => mkVS (lo s) (hi s) (obj s) (fresh s) (obj_has_data s) (full && data_intact s) (data_intact s)
      | _ => s
      end
  | VCopyOut => mkVS (lo s) (hi s) (obj s) (fresh s) (obj_has_data s) (lo_has_data s) false
  | VClose => s       (* mappings keep the object alive *)
  end.

Definition vexec_calls (cs : list vcall) : vstate := fold_left vstep cs vinit.

(** both halves are views of the same object at the same offset, and that object holds the data *)
Definition mirrored (s : vstate) : bool :=
  match lo s, hi s with
  | Shared o 0, Shared o' 0 => Nat.eqb o o' && obj_has_data s
  | _, _ => false
  end.

(** where a byte of the mapping lives: (memory object, byte offset) *)
Definition resolve (size : nat) (s : vstate) (h : half) (o : nat) : option (nat * nat) :=
  match (match h with Lo => lo s | Hi => hi s end) with
  | Shared ob off => Some (ob, off * size + o)
  | Anon id => Some (1000 + id, o)
  | Unmapped => None
  end.

(** page rounding: [min_size.div_ceil(page) * page] *)
(** Rust's [usize::div_ceil] *)
Definition div_ceil (a b : nat) : nat := a / b + (if a mod b =? 0 then 0 else 1).
Definition page_mul (page m : nat) : nat := ((m + page - 1) / page) * page.

(** release of a vmem HeapStorage, regenerated from heap/mod.rs *)
Record vrelease := mkVR { r_drops_items_first : bool; r_munmap_halves : nat; r_source_box_forgotten : bool }.
Definition release_ok (r : vrelease) : bool := r_drops_items_first r && Nat.eqb (r_munmap_halves r) 2 && r_source_box_forgotten r.
