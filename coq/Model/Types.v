(** * Types shared by the Model and the Spec: stages, operations, results, ledger events. *)
From Coq Require Import List Arith NArith Bool.
Import ListNotations.

(** The three iterators. *)
Inductive stage := P | W | C.

Definition stage_eqb (a b : stage) : bool :=
  match a, b with P, P | W, W | C, C => true | _, _ => false end.

Lemma stage_eqb_spec a b : reflect (a = b) (stage_eqb a b).
Proof. destruct a, b; simpl; constructor; congruence. Qed.

(** A record with one component per stage, with get/set by stage. *)
Record tri (A : Type) := mkTri { tP : A; tW : A; tC : A }.
Arguments mkTri {A}. Arguments tP {A}. Arguments tW {A}. Arguments tC {A}.

Definition tget {A} (k : stage) (t : tri A) : A :=
  match k with P => tP t | W => tW t | C => tC t end.
Definition tset {A} (k : stage) (x : A) (t : tri A) : tri A :=
  match k with
  | P => mkTri x (tW t) (tC t)
  | W => mkTri (tP t) x (tC t)
  | C => mkTri (tP t) (tW t) x
  end.

Lemma tget_tset_same {A} k (x : A) t : tget k (tset k x t) = x.
Proof. destruct k; reflexivity. Qed.
Lemma tget_tset_other {A} k j (x : A) t : k <> j -> tget j (tset k x t) = tget j t.
Proof. destruct k, j; simpl; congruence. Qed.
Lemma tset_tget {A} k (t : tri A) : tset k (tget k t) t = t.
Proof. destruct k, t; reflexivity. Qed.

(** Slot contents: a value; [0] is the all-zero byte pattern the crate reserves for "empty".
    Plain mode ([usize] items): every value is an ordinary number (0 included).
    Owned mode ([Drop] items): a non-zero value is the identity of a live object. *)
Notation cell := N (only parsing).

(** Operations: one constructor per public method family (the history-file names that map to
    each constructor are listed in ocaml/driver.ml and DESIGN.md appendix A). *)
Inductive op :=
(* MRBIterator (every stage; also through Detached) *)
| Avail (k : stage)                       (* available() *)
| Advance (k : stage) (n : nat)           (* advance(n): attached = _advance, detached = advance_local *)
| GetOne (k : stage)                      (* get_workable / get_next_item_mut / peek_ref *)
| GetExact (k : stage) (n : nat)          (* get_workable_slice_exact / get_next_slices_mut / peek_slice *)
| GetAvail (k : stage)                    (* get_workable_slice_avail *)
| GetMult (k : stage) (r : nat)           (* get_workable_slice_multiple_of *)
(* user accesses through a granted reference (between a grant and the next advance) *)
| Poke (k : stage) (off : nat) (v : cell)      (* *r = v      : assignment, drops the old value *)
| PokeInit (k : stage) (off : nat) (v : cell)  (* ptr.write(v): no drop of the old contents     *)
| Edit (k : stage) (off : nat) (d : N)         (* *r += d     : in-place mutation (plain items)  *)
(* ProdIter *)
| Push (v : cell) | PushInit (v : cell)
| PushSlice (vs : list cell) | PushSliceInit (vs : list cell)
| PushSliceClone (vs : list cell) | PushSliceCloneInit (vs : list cell)
| NextItemInit                            (* get_next_item_mut_init: raw pointer to the slot *)
(* ConsIter *)
| PeekAvail                               (* peek_available *)
| Pop | PopMove | CopyItem | CloneItem
| CopySlice (n : nat) | CloneSlice (n : nat)
| Reset (k : stage)                       (* ConsIter/WorkIter::reset_index (attached) *)
(* Detached *)
| Detach (k : stage) | Attach (k : stage) | Sync (k : stage)
| SetIndex (k : stage) (i : nat) | GoBack (k : stage) (n : nat) | DReset (k : stage)
(* lifetime *)
| DropIter (k : stage) | DropBuf | Resplit (w : bool).

Inductive out :=
| OUnit
| ONum (n : nat)
| ONone
| OOk
| OErr (v : cell)                          (* Err(value): the caller's value handed back *)
| ORef (off : nat) (v : cell)              (* Some(reference to slot [off]) and what it holds *)
| OVal (v : cell)                          (* Some(value) moved / duplicated out *)
| OSlices (hoff : nat) (h t : list cell)   (* head slice at slot [hoff], tail slice at slot 0 *)
| ODst (vs : list cell)                    (* Some(()) and what was copied / cloned into dst *)
| OPanic
| OPending                                 (* Poll::Pending (async wrappers only) *)
| OBad.                                    (* operation not offered in this state (typing) *)

(** Ledger events of owned items (what the buffer does to objects). *)
Inductive lev :=
| LTake (v : cell)     (* took ownership of the caller's value *)
| LGive (v : cell)     (* handed ownership to the caller (pop_move) *)
| LMake (v : cell)     (* constructed a clone *)
| LDrop (v : cell)     (* ran the destructor *)
| LDup (v : cell)      (* handed out a bitwise duplicate (pop) *)
| LLost (v : cell)     (* overwrote an occupied slot without dropping it *)
| LZeroDrop            (* ran a destructor on an empty slot *)
| LZeroRead.           (* interpreted an empty slot as a value *)

(** Buffer configuration. *)
Record config := mkConfig {
  c_init : list cell;     (* initial contents (length = len); all 0 for new_zeroed *)
  c_worker : bool;        (* split_mut (three stages) or split (two) *)
  c_heap : bool;          (* heap storage (iterators free it) or stack storage *)
  c_owned : bool          (* owned items (ledger on) or plain numbers *)
}.
