(** * The shape of [MRBFuture::poll] as data (regenerated into gen/PollGen.v by symbolic execution of the source): for every sequence
      of attempt outcomes, which events happen in which order and how the poll ends - and its meaning on the async Model state. *)
From Coq Require Import List Bool NArith.
Import ListNotations.
Require Import MRB.Model.Types MRB.Model.Seq MRB.Model.Async.

Inductive pev := PAttempt | PRegister.     (* one attempt of the stored operation on the borrowed iterator / registration of the polling task's waker *)
Inductive pend := PReady | PPending.

(** run the events; every attempt must have the recorded outcome ([true] = the operation went through) *)
Fixpoint run_events (k : stage) (o : op) (evs : list pev) (outs : list bool) (s : astate) (acc : list lev) (last : out)
  : option (astate * out * list lev) :=
  match evs with
  | [] => match outs with [] => Some (s, last, acc) | _ => None end
  | PAttempt :: r =>
      match outs with
      | ok :: outs' =>
          let '(m1, (x, e)) := step (base s) o in
          if Bool.eqb (negb (refused x)) ok then run_events k o r outs' (set_base m1 s) (acc ++ e) x else None
      | [] => None
      end
  | PRegister :: r => run_events k o r outs (register k s) acc last
  end.

Definition run_entry (k : stage) (o : op) (en : list bool * list pev * pend) (s : astate) : option (astate * (out * list lev)) :=
  let '(outs, evs, e) := en in
  match run_events k o evs outs s [] OUnit with
  | Some (s', x, l) => Some (s', (match e with PReady => x | PPending => OPending end, l))
  | None => None
  end.

(** the poll described by a shape: the entry whose recorded outcomes are the actual ones *)
Fixpoint poll_by_shape (sh : list (list bool * list pev * pend)) (k : stage) (o : op) (s : astate) : option (astate * (out * list lev)) :=
  match sh with
  | [] => None
  | en :: r => match run_entry k o en s with Some x => Some x | None => poll_by_shape r k o s end
  end.
