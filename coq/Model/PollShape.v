(** * The shape of [MRBFuture::poll] as data (regenerated into gen/PollGen.v by symbolic execution of the source): for every sequence
      of attempt outcomes, which events happen in which order and how the poll ends - and its meaning on the async Model state. *)
From Coq Require Import List Bool NArith.
Import ListNotations.
Require Import MRB.Model.Types MRB.Model.Seq MRB.Model.Async.

Inductive pev := PAttempt | PRegister.     (* one attempt of the stored operation on the borrowed iterator / registration of the polling task's waker *)
Inductive pend := PReady | PPending.

(** run the events; every attempt must have the recorded outcome ([true] = the operation went through) *)
Fixpoint run_events (k : stage) (o : op) (evs : list pev) (outs : list bool) (s : astate) (acc : list lev) (last : out)
  : option (astate * out * list lev) :=
  match evs with
  | [] => match outs with [] => Some (s, last, acc) | _ => None end
  | PAttempt :: r =>
      match outs with
      | ok :: outs' =>
          let '(m1, (x, e)) := step (base s) o in
          if Bool.eqb (negb (refused x)) ok then run_events k o r outs' (set_base m1 s) (acc ++ e) x else None
      | [] => None
      end
  | PRegister :: r => run_events k o r outs (register k s) acc last
  end.

Definition run_entry (k : stage) (o : op) (en : list bool * list pev * pend) (s : astate) : option (astate * (out * list lev)) :=
  let '(outs, evs, e) := en in
  match run_events k o evs outs s [] OUnit with
  | Some (s', x, l) => Some (s', (match e with PReady => x | PPending => OPending end, l))
  | None => None
  end.

(** the poll described by a shape: the entry whose recorded outcomes are the actual ones *)
Fixpoint poll_by_shape (sh : list (list bool * list pev * pend)) (k : stage) (o : op) (s : astate) : option (astate * (out * list lev)) :=
  match sh with
  | [] => None
  | en :: r => match run_entry k o en s with Some x => Some x | None => poll_by_shape r k o s end
  end.

(** ** the same shape with another stage acting during the registration ([Async.poll_inj]): the injected step runs right after the
       [PRegister] event - that is where [register_waker] hands control to foreign code ([Waker::clone]) *)
Fixpoint run_events_inj (k : stage) (o : op) (d : aop) (evs : list pev) (outs : list bool) (s : astate) (acc : list lev) (last : out)
  (xi : option out) : option (astate * out * list lev * option out) :=
  match evs with
  | [] => match outs with [] => Some (s, last, acc, xi) | _ => None end
  | PAttempt :: r =>
      match outs with
      | ok :: outs' =>
          let '(m1, (x, e)) := step (base s) o in
          if Bool.eqb (negb (refused x)) ok then run_events_inj k o d r outs' (set_base m1 s) (acc ++ e) x xi else None
      | [] => None
      end
  | PRegister :: r =>
      let '(si, (x, e)) := astep (register k s) d in
      run_events_inj k o d r outs si (acc ++ e) last (Some x)
  end.

Definition run_entry_inj (k : stage) (o : op) (d : aop) (en : list bool * list pev * pend) (s : astate) :=
  let '(outs, evs, e) := en in
  match run_events_inj k o d evs outs s [] OUnit None with
  | Some (s', x, l, xi) => Some (s', (match e with PReady => x | PPending => OPending end, l), xi)
  | None => None
  end.

Fixpoint poll_inj_by_shape (sh : list (list bool * list pev * pend)) (k : stage) (o : op) (d : aop) (s : astate) :=
  match sh with
  | [] => None
  | en :: r => match run_entry_inj k o d en s with Some x => Some x | None => poll_inj_by_shape r k o d s end
  end.
