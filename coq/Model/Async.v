(** * Async wrappers: [MRBFuture::poll], waker registration, [AsyncDetached] (C14, C15).

    A future of operation [o] on iterator [k] borrows the iterator; polling it runs the synchronous operation
    (the very [step] of the sequential Model) - once, and if that fails, registers the waker of the polling task
    in the iterator and runs it a second time; if that fails too it returns [Pending] with the payload put back.
    Nothing in the crate ever calls [Waker::wake]: there is no wake action in this model either. *)
From Coq Require Import List Arith NArith Bool.
Import ListNotations.
Require Import MRB.Base.Ring MRB.Model.Types MRB.Model.Seq.

Record astate := mkA {
  base : mstate;
  held : tri (option op);       (* the pending future that currently borrows the iterator *)
  wk : tri (option nat);        (* the task whose waker is registered in the iterator *)
  task : nat;                   (* the task that is polling *)
  wakes : nat                   (* number of Waker::wake calls made by the crate *)
}.

Definition a_init_state (m : mstate) : astate := mkA m (mkTri None None None) (mkTri None None None) 0 0.

Inductive aop :=
| ADirect (o : op)              (* methods the async iterators delegate synchronously: available, advance, reset_index, detach;
                                   and user accesses through granted references *)
| APoll (o : op)                (* create the future, poll it once, drop it *)
| AHold (o : op)                (* create the future, poll it once, keep it while Pending *)
| ARepoll (k : stage)           (* poll the kept future again *)
| ADropFut (k : stage)          (* drop the kept future *)
| ASetTask (n : nat)            (* another task becomes the poller *)
| ARewrap (k : stage).          (* [into_sync] then [from_sync]: the same iterator in a fresh wrapper - the registered waker is released, nothing else changes *)

(** the operations that exist as futures, and the iterator they borrow *)
Definition future_of (o : op) : option stage :=
  match o with
  | GetOne k | GetExact k _ | GetAvail k | GetMult k _ => Some k
  | Push _ | PushSlice _ | PushSliceClone _ | NextItemInit => Some P
  | PeekAvail | Pop | PopMove | CopyItem | CloneItem | CopySlice _ | CloneSlice _ => Some C
  | _ => None
  end.

(** synchronous methods of the async wrappers / of AsyncDetached, and raw accesses *)
Definition direct_of (o : op) (m : mstate) : option stage :=
  match o with
  | Avail k => if det (it_of k m) then None else Some k            (* AsyncDetached has no available() *)
  | Advance k _ => Some k
  | Reset k => Some k
  | Detach k | Attach k | Sync k | GoBack k _ => Some k
  | Poke k _ _ | PokeInit k _ _ | Edit k _ _ => Some k
  | DropIter k => Some k
  | _ => None
  end.

Definition refused (x : out) : bool := match x with ONone | OErr _ => true | _ => false end.

Definition set_base m s := mkA m (held s) (wk s) (task s) (wakes s).
Definition set_held k h s := mkA (base s) (tset k h (held s)) (wk s) (task s) (wakes s).
Definition register k s := mkA (base s) (held s) (tset k (Some (task s)) (wk s)) (task s) (wakes s).

(** [MRBFuture::poll] *)
Definition poll (k : stage) (o : op) (s : astate) : astate * (out * list lev) :=
  let '(m1, (x1, e1)) := step (base s) o in
  if refused x1 then
    let s1 := register k (set_base m1 s) in
    let '(m2, (x2, e2)) := step m1 o in
    if refused x2 then (set_base m2 s1, (OPending, e1 ++ e2)) else (set_base m2 s1, (x2, e1 ++ e2))
  else (set_base m1 s, (x1, e1)).

Definition free_iter (k : stage) (s : astate) : bool :=
  match tget k (held s) with None => true | Some _ => false end.

Definition astep (s : astate) (o : aop) : astate * (out * list lev) :=
  match o with
  | ADirect d =>
      match direct_of d (base s) with
      | Some k => if free_iter k s then let '(m1, x) := step (base s) d in (set_base m1 s, x) else (s, (OBad, []))
      | None => (s, (OBad, []))
      end
  | APoll f =>
      match future_of f with
      | Some k =>
          if free_iter k s && negb (det (it_of k (base s))) then
            poll k f s      (* a Pending future that is dropped gives its payload back to the caller *)
          else (s, (OBad, []))
      | None => (s, (OBad, []))
      end
  | AHold f =>
      match future_of f with
      | Some k =>
          if free_iter k s && negb (det (it_of k (base s))) then
            let '(s1, (x, e)) := poll k f s in
            match x with OPending => (set_held k (Some f) s1, (x, e)) | _ => (s1, (x, e)) end
          else (s, (OBad, []))
      | None => (s, (OBad, []))
      end
  | ARepoll k =>
      match tget k (held s) with
      | Some f =>
          let '(s1, (x, e)) := poll k f s in
          match x with OPending => (s1, (x, e)) | _ => (set_held k None s1, (x, e)) end
      | None => (s, (OBad, []))
      end
  | ADropFut k =>
      match tget k (held s) with
      | Some _ => (set_held k None s, (OUnit, []))
      | None => (s, (OBad, []))
      end
  | ASetTask n => (mkA (base s) (held s) (wk s) n (wakes s), (OUnit, []))
  | ARewrap k =>
      if free_iter k s && usable k (base s) && negb (det (it_of k (base s)))
      then (mkA (base s) (held s) (tset k None (wk s)) (task s) (wakes s), (OUnit, []))
      else (s, (OBad, []))
  end.

Fixpoint arun (s : astate) (h : list aop) : astate * list (out * list lev) :=
  match h with
  | [] => (s, [])
  | o :: r => let '(s1, x) := astep s o in let '(s2, xs) := arun s1 r in (s2, x :: xs)
  end.

(** ** A poll during whose waker registration ANOTHER stage acts

    [MRBFuture::poll] is not atomic: between its first attempt and its second one it calls [register_waker], which runs code of the
    polling task ([Waker::clone]) - and, on a concurrent buffer, any other stage may act at that point.  [poll_inj] is the poll with
    one async step [d] of another stage placed exactly there: attempt; registration; [d]; second attempt.  The sequential
    histories can never reach the "second attempt succeeds" branch of [poll]; these can (the harness performs [d] inside the
    polling task's [Waker::clone]). *)

(** the stage an injected step acts on: a synchronous method or a future created, polled once and dropped *)
Definition inj_stage (d : aop) (m : mstate) : option stage :=
  match d with
  | ADirect o => direct_of o m
  | APoll f => future_of f
  | _ => None
  end.
Definition inj_ok (k : stage) (d : aop) (s : astate) : bool :=
  match inj_stage d (base s) with Some k' => negb (stage_eqb k k') | None => false end.

(** answers: the state, the poll's answer with ALL ledger events in program order, and what the injected step answered (if it ran) *)
Definition poll_inj (k : stage) (o : op) (d : aop) (s : astate) : astate * (out * list lev) * option out :=
  let '(m1, (x1, e1)) := step (base s) o in
  if refused x1 then
    let s1 := register k (set_base m1 s) in
    let '(si, (xi, ei)) := astep s1 d in
    let '(m2, (x2, e2)) := step (base si) o in
    (set_base m2 si, ((if refused x2 then OPending else x2), e1 ++ ei ++ e2), Some xi)
  else (set_base m1 s, (x1, e1), None).

(** [APoll f] / [AHold f] / [ARepoll k] with the injection [d] *)
Definition astep_inj (s : astate) (o : aop) (d : aop) : astate * (out * list lev) * option out :=
  let bad := (s, (OBad, []), None) in
  match o with
  | APoll f =>
      match future_of f with
      | Some k => if free_iter k s && negb (det (it_of k (base s))) && inj_ok k d s then poll_inj k f d s else bad
      | None => bad
      end
  | AHold f =>
      match future_of f with
      | Some k =>
          if free_iter k s && negb (det (it_of k (base s))) && inj_ok k d s then
            let '(s1, (x, e), xi) := poll_inj k f d s in
            match x with OPending => (set_held k (Some f) s1, (x, e), xi) | _ => (s1, (x, e), xi) end
          else bad
      | None => bad
      end
  | ARepoll k =>
      match tget k (held s) with
      | Some f =>
          if inj_ok k d s then
            let '(s1, (x, e), xi) := poll_inj k f d s in
            match x with OPending => (s1, (x, e), xi) | _ => (set_held k None s1, (x, e), xi) end
          else bad
      | None => bad
      end
  | _ => bad
  end.
