(** * The byte level of one slot: [UnsafeSyncCell<T> = UnsafeCell<MaybeUninit<T>>]

    The Model (and the monad [DataM] the data-touching functions are translated into) speaks of a slot as a number: [0] is the
    empty slot, anything else the identity of a live item.  The crate decides "empty" by looking at the BYTES of the slot
    ([check_zeroed]: all [size_of::<T>()] bytes are zero).  This file is the vocabulary the functions of
    [src/ring_buffer/wrappers/unsafe_sync_cell.rs] are translated into on every run ([gen/CellFns.v]); [Proofs/CellTie.v] proves that,
    for every representation of items by bytes in which live values are never all-zero (the hypothesis C08 / C09 state), the
    translated functions are exactly the primitives of [DataM] and the release rule of [Seq] (C-tie). *)
From Coq Require Import List Arith NArith Bool.
Import ListNotations.
Require Import MRB.Model.Types MRB.Model.Seq.

(** how an item type lays its values out in memory; [cell 0] stands for "no item" (what [MaybeUninit::zeroed()] holds) *)
Record repr := mkRepr {
  r_sz : nat;                         (* size_of::<T>() *)
  r_enc : cell -> list N;             (* the bytes of a value *)
  r_dec : list N -> cell;             (* reading [size_of::<T>()] bytes as a T (assume_init) *)
  r_clone : cell -> cell;             (* what T::clone answers *)
  r_default : cell                    (* T::default() *)
}.

Definition zeros (n : nat) : list N := repeat 0%N n.
Definition all_zero (l : list N) : bool := forallb (N.eqb 0) l.

Record repr_ok (R : repr) : Prop := {
  enc_len : forall v, length (r_enc R v) = r_sz R;
  dec_enc : forall v, r_dec R (r_enc R v) = v;
  enc_none : r_enc R 0%N = zeros (r_sz R);
  (** the representation the crate reserves for 'empty': a live value is never all-zero bytes (C08's hypothesis) *)
  live_nonzero : forall v, all_zero (r_enc R v) = true -> v = 0%N
}.

(** what a cell function can do that the outside can observe *)
Inductive cev := CDropped (v : cell) | CCloned (v : cell) | CDefault.

(** the bytes of [*self] and the calls into [T]'s own code made so far *)
Record cst := mkC { c_mem : list N; c_evs : list cev }.

Definition CM (A : Type) := cst -> option (A * cst).
Definition cret {A} (a : A) : CM A := fun s => Some (a, s).
Definition cbind {A B} (m : CM A) (k : A -> CM B) : CM B :=
  fun s => match m s with Some (a, s') => k a s' | None => None end.
Declare Scope cm_scope.
Delimit Scope cm_scope with cm.
Notation "x <-- m ;; k" := (cbind m (fun x => k)) (at level 61, m at next level, right associativity) : cm_scope.
Notation "m ;;- k" := (cbind m (fun _ => k)) (at level 61, right associativity) : cm_scope.
Open Scope cm_scope.

(** a pointer into a cell: the only pointers these functions form point at the start of a cell's own bytes - [self] or the cell
    the caller passed ([check_zeroed(ptr)]) *)
Inductive cptr := PSelf.

(** [slice_from_raw_parts(ptr as *const u8, n)]: the first [n] bytes at [ptr] (reading past the cell is outside the model) *)
Definition bytes_at (p : cptr) (n : nat) : CM (list N) :=
  fun s => if n <=? length (c_mem s) then Some (firstn n (c_mem s), s) else None.
Definition size_of (R : repr) : nat := r_sz R.
(** [.iter().all(f)] *)
Definition all_ (f : N -> bool) (l : list N) : CM bool := cret (forallb f l).
(** [.iter().any(f)] *)
Definition any_ (f : N -> bool) (l : list N) : CM bool := cret (existsb f l).

(** [MaybeUninit<T>] by value: its bytes *)
Definition mu_zeroed (R : repr) : CM (list N) := cret (zeros (r_sz R)).
Definition mu_new (R : repr) (v : cell) : CM (list N) := cret (r_enc R v).
(** [.assume_init()] of a by-value [MaybeUninit] *)
Definition mu_into (R : repr) (b : list N) : CM cell := cret (r_dec R b).
(** the place [*self.0.get()]: *)
Definition mu_replace (b : list N) : CM (list N) := fun s => Some (c_mem s, mkC b (c_evs s)).
Definition mu_read (R : repr) : CM cell := fun s => Some (r_dec R (c_mem s), s).
Definition mu_ref (R : repr) : CM cell := fun s => Some (r_dec R (c_mem s), s).
Definition mu_drop (R : repr) : CM unit := fun s => Some (tt, mkC (c_mem s) (c_evs s ++ [CDropped (r_dec R (c_mem s))])).
Definition mu_ptr : CM cptr := cret PSelf.
(** calls into the item type *)
Definition clone_val (R : repr) (v : cell) : CM cell := fun s => Some (r_clone R v, mkC (c_mem s) (c_evs s ++ [CCloned v])).
Definition default_val (R : repr) : CM cell := fun s => Some (r_default R, mkC (c_mem s) (c_evs s ++ [CDefault])).

(** running a cell function on a cell that holds [v] *)
Definition crun {A} (R : repr) (m : CM A) (v : cell) : option (A * cst) := m (mkC (r_enc R v) []).

(** ** what the Model says about the same operations (the vocabulary of [DataM] / [Seq] on one slot) *)
Definition a_check_zeroed (v : cell) : bool := isz v.
Definition a_drop (v : cell) : list cev := if isz v then [] else [CDropped v].
Definition a_clone (R : repr) (v : cell) : cell * list cev := if isz v then (0%N, []) else (r_clone R v, [CCloned v]).
