(* Scratch prototype: SPSC ring buffer under a release/acquire view machine.
   2 threads (P pushes single items, C pops), arbitrary len, arbitrary script
   (interleaving x stale-read choices). Goal: race = false for every script. *)
From Coq Require Import List Arith Lia Bool.
Import ListNotations.

Definition wadd (len i n : nat) : nat := if len <=? i + n then i + n - len else i + n.
Definition dist (len a b : nat) : nat := if a <=? b then b - a else len - a + b.
Definition pavail (len p c : nat) : nat := if p <? c then c - p - 1 else len - p + c - 1.

Lemma wadd_mod len a n : 0 < len -> n <= len -> wadd len (a mod len) n = (a + n) mod len.
Proof.
  intros Hl Hn. unfold wadd.
  pose proof (Nat.mod_upper_bound a len ltac:(lia)) as Hb.
  pose proof (Nat.div_mod a len ltac:(lia)) as Hd.
  set (r := a mod len) in *. set (q := a / len) in *.
  destruct (len <=? r + n) eqn:E; [apply Nat.leb_le in E | apply Nat.leb_gt in E].
  - apply Nat.mod_unique with (q := q + 1); nia.
  - apply Nat.mod_unique with (q := q); nia.
Qed.

Lemma dist_mod len a b : 0 < len -> a <= b -> b - a < len -> dist len (a mod len) (b mod len) = b - a.
Proof.
  intros Hl Hab Hd.
  replace b with (a + (b - a)) at 1 by lia.
  rewrite <- wadd_mod by lia.
  pose proof (Nat.mod_upper_bound a len ltac:(lia)).
  unfold dist, wadd.
  destruct (len <=? a mod len + (b - a)) eqn:E1;
  [apply Nat.leb_le in E1 | apply Nat.leb_gt in E1];
  match goal with |- context[if ?x <=? ?y then _ else _] => destruct (x <=? y) eqn:E2 end;
  [apply Nat.leb_le in E2 | apply Nat.leb_gt in E2 | apply Nat.leb_le in E2 | apply Nat.leb_gt in E2]; lia.
Qed.

Lemma pavail_mod len p c : 0 < len -> c <= p -> p - c < len ->
  pavail len (p mod len) (c mod len) = len - 1 - (p - c).
Proof.
  intros Hl Hcp Hd.
  pose proof (dist_mod len c p Hl Hcp Hd) as D.
  pose proof (Nat.mod_upper_bound p len ltac:(lia)).
  pose proof (Nat.mod_upper_bound c len ltac:(lia)).
  unfold pavail, dist in *.
  destruct (c mod len <=? p mod len) eqn:E1;
  [apply Nat.leb_le in E1 | apply Nat.leb_gt in E1];
  destruct (p mod len <? c mod len) eqn:E2;
  [apply Nat.ltb_lt in E2 | apply Nat.ltb_ge in E2 | apply Nat.ltb_lt in E2 | apply Nat.ltb_ge in E2]; lia.
Qed.

(* congruent and closer than len => not above *)
Lemma congr_le len a b : 0 < len -> a mod len = b mod len -> a < b + len -> a <= b.
Proof.
  intros Hl Hm Hlt.
  pose proof (Nat.div_mod a len ltac:(lia)) as Ha.
  pose proof (Nat.div_mod b len ltac:(lia)) as Hb.
  pose proof (Nat.mod_upper_bound a len ltac:(lia)).
  rewrite Hm in Ha.
  assert (a / len <= b / len) by nia. nia.
Qed.

(* ---------- list update ---------- *)
Fixpoint upd {A} (k : nat) (x : A) (l : list A) : list A :=
  match l, k with
  | [], _ => []
  | _ :: t, 0 => x :: t
  | h :: t, S k' => h :: upd k' x t
  end.
Lemma upd_length {A} k (x : A) l : length (upd k x l) = length l.
Proof. revert k; induction l; destruct k; simpl; auto. Qed.
Lemma nth_upd_eq {A} k (x d : A) l : k < length l -> nth k (upd k x l) d = x.
Proof. revert k; induction l; destruct k; simpl; intros; try lia; auto. apply IHl; lia. Qed.
Lemma nth_upd_neq {A} k j (x d : A) l : k <> j -> nth j (upd k x l) d = nth j l d.
Proof. revert k j; induction l; destruct k, j; simpl; intros; try lia; auto. Qed.

(* ---------- machine ---------- *)
Record view := mkV { vpi : nat; vci : nat; kp : nat; kc : nat; wP : nat; wC : nat }.
Definition vjoin (a b : view) : view :=
  mkV (max (vpi a) (vpi b)) (max (vci a) (vci b)) (max (kp a) (kp b)) (max (kc a) (kc b))
      (max (wP a) (wP b)) (max (wC a) (wC b)).
Record msg := mkM { mval : nat; mabs : nat; mview : view }.
Record meta := mkMeta { wpos : nat; wclk : nat; rpos : nat; rclk : nat }.
Record thr := mkT { ix : nat; ca : nat; V : view; pc : nat; pos : nat }.
Record cfg := mkC { Mpi : list msg; Mci : list msg; metas : list meta; P : thr; C : thr; race : bool }.

Definition dmsg := mkM 0 0 (mkV 0 0 0 0 0 0).
Definition dmeta := mkMeta 0 0 0 0.
Definition pick (lo n j : nat) : nat := Nat.min (Nat.max j lo) (n - 1).

Section M.
Variable len : nat.

Definition stepP (j : nat) (c : cfg) : cfg :=
  let t := P c in
  match pc t with
  | 0 =>
    if 1 <=? ca t then mkC (Mpi c) (Mci c) (metas c) (mkT (ix t) (ca t) (V t) 2 (pos t)) (C c) (race c)
    else
      let i := pick (vci (V t)) (length (Mci c)) j in
      let m := nth i (Mci c) dmsg in
      let v0 := V t in
      let v1 := vjoin (mkV (vpi v0) i (kp v0) (kc v0) (wP v0) (wC v0)) (mview m) in
      let a := pavail len (ix t) (mval m) in
      mkC (Mpi c) (Mci c) (metas c) (mkT (ix t) a v1 (if 1 <=? a then 2 else 0) (pos t)) (C c) (race c)
  | 2 =>
    let mt := nth (ix t) (metas c) dmeta in
    let bad := negb (rclk mt <=? kc (V t)) in
    mkC (Mpi c) (Mci c) (upd (ix t) (mkMeta (pos t) (kp (V t)) (rpos mt) (rclk mt)) (metas c))
        (mkT (ix t) (ca t) (V t) 3 (pos t)) (C c) (race c || bad)
  | 3 =>
    let ix' := wadd len (ix t) 1 in
    let v0 := V t in
    let v1 := mkV (length (Mpi c)) (vci v0) (kp v0) (kc v0) (S (pos t)) (wC v0) in
    let m := mkM ix' (S (pos t)) v1 in
    mkC (Mpi c ++ [m]) (Mci c) (metas c)
        (mkT ix' (ca t - 1) (mkV (vpi v1) (vci v1) (S (kp v1)) (kc v1) (wP v1) (wC v1)) 0 (S (pos t)))
        (C c) (race c)
  | _ => c
  end.

Definition stepC (j : nat) (c : cfg) : cfg :=
  let t := C c in
  match pc t with
  | 0 =>
    if 1 <=? ca t then mkC (Mpi c) (Mci c) (metas c) (P c) (mkT (ix t) (ca t) (V t) 2 (pos t)) (race c)
    else
      let i := pick (vpi (V t)) (length (Mpi c)) j in
      let m := nth i (Mpi c) dmsg in
      let v0 := V t in
      let v1 := vjoin (mkV i (vci v0) (kp v0) (kc v0) (wP v0) (wC v0)) (mview m) in
      let a := dist len (ix t) (mval m) in
      mkC (Mpi c) (Mci c) (metas c) (P c) (mkT (ix t) a v1 (if 1 <=? a then 2 else 0) (pos t)) (race c)
  | 2 =>
    let mt := nth (ix t) (metas c) dmeta in
    let bad := negb (wclk mt <=? kp (V t)) in
    mkC (Mpi c) (Mci c) (upd (ix t) (mkMeta (wpos mt) (wclk mt) (pos t) (kc (V t))) (metas c))
        (P c) (mkT (ix t) (ca t) (V t) 3 (pos t)) (race c || bad)
  | 3 =>
    let ix' := wadd len (ix t) 1 in
    let v0 := V t in
    let v1 := mkV (vpi v0) (length (Mci c)) (kp v0) (kc v0) (wP v0) (S (pos t)) in
    let m := mkM ix' (S (pos t)) v1 in
    mkC (Mpi c) (Mci c ++ [m]) (metas c) (P c)
        (mkT ix' (ca t - 1) (mkV (vpi v1) (vci v1) (kp v1) (S (kc v1)) (wP v1) (wC v1)) 0 (S (pos t)))
        (race c)
  | _ => c
  end.

Definition step (c : cfg) (s : bool * nat) : cfg :=
  if fst s then stepP (snd s) c else stepC (snd s) c.
Definition exec (c : cfg) (script : list (bool * nat)) : cfg := fold_left step script c.

Definition v0P := mkV 0 0 1 0 len len.
Definition v0C := mkV 0 0 0 1 len len.
Definition vbot := mkV 0 0 0 0 len len.
Definition init : cfg :=
  mkC [mkM 0 len vbot] [mkM 0 len vbot]
      (map (fun k => mkMeta k 0 k 0) (seq 0 len))
      (mkT 0 0 v0P 0 len) (mkT 0 0 v0C 0 len) false.

End M.
