(** * The three-stage release/acquire view machine of RA3.v with MULTI-SLOT operations.

    As in RA3.v: three threads, producer P -> worker W -> consumer C.  P writes slots, W edits slots in place
    (a read-modify-write, treated by the detector as a write carrying the worker's clock), C reads slots.
    The consumer follows the worker's index, the worker follows the producer's, the producer follows the
    consumer's.  Index locations are append-only message lists (value, absolute position, view); a load may
    read any message at or after the loading thread's view (stale reads) and joins the view of the message read;
    a store appends a message carrying the storing thread's view; every slot access goes through the
    vector-clock race detector ([metas3], [race3]; last write epoch with writer id, consumer read clock).

    New here (the [cnt]/[off] mechanism of RAn.v): one operation handles a WINDOW of [cnt >= 1] consecutive
    ring slots.  A script entry is [(thread, read choice j, requested count n)].  The count is consulted only
    at pc 0, when an operation starts, and is remembered in the thread record (fields [cnt3], [off3]).

      pc 0  check : let n := max 1 (requested count)     -- a request of 0 items is treated as a request of 1
                    if n <= ca then grant (pc := 2, cnt := n, off := 0)
                    else load the successor's index (any admissible message, acquire),
                         ca := fresh availability ([pavail] for P, [dist] for W and C);
                         if n <= ca then grant else stay at pc 0
      pc 2  access ONE slot of the window: slot [wadd len ix off] at absolute position [pos + off]
                    (P: write; W: read-modify-write; C: read -- exactly the race checks of RA3.v),
                    off := off + 1, and when off = cnt go to pc 3
      pc 3  publish: ix := wadd len ix cnt, pos := pos + cnt, ca := ca - cnt,
                    append the message with the thread's view (watermark pos + cnt), pc := 0.

    The booleans [acqP] / [acqW] / [acqC] say whether the index load of the producer / worker / consumer is
    (at least) Acquire, i.e. joins the view of the message read.  [stepP3_n], [stepW3_n], [stepC3_n], [exec3_n]
    are the machine with all three set; the examples at the end show that dropping a join makes the detector
    fire. *)
From Coq Require Import List Arith Lia Bool.
Import ListNotations.
Require Import MRB.Conc.RA.    (* wadd dist pavail pick upd *)
Require Import MRB.Conc.RA3.   (* tid view3 vjoin3 msg3 meta3 dmsg3 dmeta3 wcov vinit *)

(* The thread record of RA3.v lacks [cnt] and [off]: new records, same field names (they shadow RA3's). *)
Record thr3n := mkT3n { ix3 : nat; ca3 : nat; V3 : view3; pc3 : nat; pos3 : nat; cnt3 : nat; off3 : nat }.
Record cfg3n := mkC3n { Mpi3 : list msg3; Mwi3 : list msg3; Mci3 : list msg3; metas3 : list meta3;
                        P3 : thr3n; W3 : thr3n; C3 : thr3n; race3 : bool }.

Definition vzero3 := mkV3 0 0 0 0 0 0 0 0 0.

Section M3n.
Variables (acqP acqW acqC : bool).
Variable len : nat.

Definition stepP3_a (j n0 : nat) (c : cfg3n) : cfg3n :=
  let t := P3 c in
  match pc3 t with
  | 0 =>
    let n := Nat.max 1 n0 in
    if n <=? ca3 t then
      mkC3n (Mpi3 c) (Mwi3 c) (Mci3 c) (metas3 c) (mkT3n (ix3 t) (ca3 t) (V3 t) 2 (pos3 t) n 0) (W3 c) (C3 c) (race3 c)
    else
      let i := pick (vci3 (V3 t)) (length (Mci3 c)) j in
      let m := nth i (Mci3 c) dmsg3 in
      let v0 := V3 t in
      let v1 := vjoin3 (mkV3 (vpi3 v0) (vwi3 v0) i (kp3 v0) (kw3 v0) (kc3 v0) (wP3 v0) (wW3 v0) (wC3 v0))
                       (if acqP then mview3 m else vzero3) in
      let a := pavail len (ix3 t) (mval3 m) in
      mkC3n (Mpi3 c) (Mwi3 c) (Mci3 c) (metas3 c)
            (mkT3n (ix3 t) a v1 (if n <=? a then 2 else 0) (pos3 t) n 0) (W3 c) (C3 c) (race3 c)
  | 2 =>
    let k := wadd len (ix3 t) (off3 t) in
    let mt := nth k (metas3 c) dmeta3 in
    let bad := negb (wcov TP mt (V3 t)) || negb (rclk3 mt <=? kc3 (V3 t)) in
    mkC3n (Mpi3 c) (Mwi3 c) (Mci3 c)
          (upd k (mkMeta3 TP (pos3 t + off3 t) (kp3 (V3 t)) (rpos3 mt) (rclk3 mt)) (metas3 c))
          (mkT3n (ix3 t) (ca3 t) (V3 t) (if cnt3 t <=? off3 t + 1 then 3 else 2) (pos3 t) (cnt3 t) (off3 t + 1))
          (W3 c) (C3 c) (race3 c || bad)
  | 3 =>
    let ix' := wadd len (ix3 t) (cnt3 t) in
    let p' := pos3 t + cnt3 t in
    let v0 := V3 t in
    let v1 := mkV3 (length (Mpi3 c)) (vwi3 v0) (vci3 v0) (kp3 v0) (kw3 v0) (kc3 v0) p' (wW3 v0) (wC3 v0) in
    let m := mkM3 ix' p' v1 in
    mkC3n (Mpi3 c ++ [m]) (Mwi3 c) (Mci3 c) (metas3 c)
          (mkT3n ix' (ca3 t - cnt3 t)
                 (mkV3 (vpi3 v1) (vwi3 v1) (vci3 v1) (S (kp3 v1)) (kw3 v1) (kc3 v1) (wP3 v1) (wW3 v1) (wC3 v1))
                 0 p' (cnt3 t) 0)
          (W3 c) (C3 c) (race3 c)
  | _ => c
  end.

Definition stepW3_a (j n0 : nat) (c : cfg3n) : cfg3n :=
  let t := W3 c in
  match pc3 t with
  | 0 =>
    let n := Nat.max 1 n0 in
    if n <=? ca3 t then
      mkC3n (Mpi3 c) (Mwi3 c) (Mci3 c) (metas3 c) (P3 c) (mkT3n (ix3 t) (ca3 t) (V3 t) 2 (pos3 t) n 0) (C3 c) (race3 c)
    else
      let i := pick (vpi3 (V3 t)) (length (Mpi3 c)) j in
      let m := nth i (Mpi3 c) dmsg3 in
      let v0 := V3 t in
      let v1 := vjoin3 (mkV3 i (vwi3 v0) (vci3 v0) (kp3 v0) (kw3 v0) (kc3 v0) (wP3 v0) (wW3 v0) (wC3 v0))
                       (if acqW then mview3 m else vzero3) in
      let a := dist len (ix3 t) (mval3 m) in
      mkC3n (Mpi3 c) (Mwi3 c) (Mci3 c) (metas3 c) (P3 c)
            (mkT3n (ix3 t) a v1 (if n <=? a then 2 else 0) (pos3 t) n 0) (C3 c) (race3 c)
  | 2 =>
    let k := wadd len (ix3 t) (off3 t) in
    let mt := nth k (metas3 c) dmeta3 in
    let bad := negb (wcov TW mt (V3 t)) || negb (rclk3 mt <=? kc3 (V3 t)) in
    mkC3n (Mpi3 c) (Mwi3 c) (Mci3 c)
          (upd k (mkMeta3 TW (pos3 t + off3 t) (kw3 (V3 t)) (rpos3 mt) (rclk3 mt)) (metas3 c))
          (P3 c)
          (mkT3n (ix3 t) (ca3 t) (V3 t) (if cnt3 t <=? off3 t + 1 then 3 else 2) (pos3 t) (cnt3 t) (off3 t + 1))
          (C3 c) (race3 c || bad)
  | 3 =>
    let ix' := wadd len (ix3 t) (cnt3 t) in
    let p' := pos3 t + cnt3 t in
    let v0 := V3 t in
    let v1 := mkV3 (vpi3 v0) (length (Mwi3 c)) (vci3 v0) (kp3 v0) (kw3 v0) (kc3 v0) (wP3 v0) p' (wC3 v0) in
    let m := mkM3 ix' p' v1 in
    mkC3n (Mpi3 c) (Mwi3 c ++ [m]) (Mci3 c) (metas3 c) (P3 c)
          (mkT3n ix' (ca3 t - cnt3 t)
                 (mkV3 (vpi3 v1) (vwi3 v1) (vci3 v1) (kp3 v1) (S (kw3 v1)) (kc3 v1) (wP3 v1) (wW3 v1) (wC3 v1))
                 0 p' (cnt3 t) 0)
          (C3 c) (race3 c)
  | _ => c
  end.

Definition stepC3_a (j n0 : nat) (c : cfg3n) : cfg3n :=
  let t := C3 c in
  match pc3 t with
  | 0 =>
    let n := Nat.max 1 n0 in
    if n <=? ca3 t then
      mkC3n (Mpi3 c) (Mwi3 c) (Mci3 c) (metas3 c) (P3 c) (W3 c) (mkT3n (ix3 t) (ca3 t) (V3 t) 2 (pos3 t) n 0) (race3 c)
    else
      let i := pick (vwi3 (V3 t)) (length (Mwi3 c)) j in
      let m := nth i (Mwi3 c) dmsg3 in
      let v0 := V3 t in
      let v1 := vjoin3 (mkV3 (vpi3 v0) i (vci3 v0) (kp3 v0) (kw3 v0) (kc3 v0) (wP3 v0) (wW3 v0) (wC3 v0))
                       (if acqC then mview3 m else vzero3) in
      let a := dist len (ix3 t) (mval3 m) in
      mkC3n (Mpi3 c) (Mwi3 c) (Mci3 c) (metas3 c) (P3 c) (W3 c)
            (mkT3n (ix3 t) a v1 (if n <=? a then 2 else 0) (pos3 t) n 0) (race3 c)
  | 2 =>
    let k := wadd len (ix3 t) (off3 t) in
    let mt := nth k (metas3 c) dmeta3 in
    let bad := negb (wcov TC mt (V3 t)) in
    mkC3n (Mpi3 c) (Mwi3 c) (Mci3 c)
          (upd k (mkMeta3 (wt mt) (wpos3 mt) (wclk3 mt) (pos3 t + off3 t) (kc3 (V3 t))) (metas3 c))
          (P3 c) (W3 c)
          (mkT3n (ix3 t) (ca3 t) (V3 t) (if cnt3 t <=? off3 t + 1 then 3 else 2) (pos3 t) (cnt3 t) (off3 t + 1))
          (race3 c || bad)
  | 3 =>
    let ix' := wadd len (ix3 t) (cnt3 t) in
    let p' := pos3 t + cnt3 t in
    let v0 := V3 t in
    let v1 := mkV3 (vpi3 v0) (vwi3 v0) (length (Mci3 c)) (kp3 v0) (kw3 v0) (kc3 v0) (wP3 v0) (wW3 v0) p' in
    let m := mkM3 ix' p' v1 in
    mkC3n (Mpi3 c) (Mwi3 c) (Mci3 c ++ [m]) (metas3 c) (P3 c) (W3 c)
          (mkT3n ix' (ca3 t - cnt3 t)
                 (mkV3 (vpi3 v1) (vwi3 v1) (vci3 v1) (kp3 v1) (kw3 v1) (S (kc3 v1)) (wP3 v1) (wW3 v1) (wC3 v1))
                 0 p' (cnt3 t) 0)
          (race3 c)
  | _ => c
  end.

(* script entry: (thread, read choice, requested count) *)
Definition step3_a (c : cfg3n) (s : tid * nat * nat) : cfg3n :=
  let '(t, j, n) := s in
  match t with TP => stepP3_a j n c | TW => stepW3_a j n c | TC => stepC3_a j n c end.
Definition exec3_a (c : cfg3n) (script : list (tid * nat * nat)) : cfg3n := fold_left step3_a script c.

(* As in RA3.v all three threads start at absolute position [len] (so that "one lap earlier" never underflows);
   slot k was last "written" by nobody that matters (writer id TC: always covered) and read at position k,
   with clock 0. *)
Definition init3_n : cfg3n :=
  mkC3n [mkM3 0 len (vinit len 0 0 0)] [mkM3 0 len (vinit len 0 0 0)] [mkM3 0 len (vinit len 0 0 0)]
        (map (fun k => mkMeta3 TC k 0 k 0) (seq 0 len))
        (mkT3n 0 0 (vinit len 1 0 0) 0 len 0 0) (mkT3n 0 0 (vinit len 0 1 0) 0 len 0 0)
        (mkT3n 0 0 (vinit len 0 0 1) 0 len 0 0) false.

End M3n.

(* The release/acquire machine: all three index loads acquire. *)
Definition stepP3_n := stepP3_a true.
Definition stepW3_n := stepW3_a true.
Definition stepC3_n := stepC3_a true.
Definition step3_n := step3_a true true true.
Definition exec3_n := exec3_a true true true.

(* ------------------------------------------------------------------------------------------------ *)
(* Examples, len = 4 (capacity 3).  [sP n] / [sW n] / [sC n] : one step of the producer / worker / consumer,
   always reading the latest message of the followed index (read choice 99), requested count n (only looked
   at when an operation starts).                                                                         *)
Definition sP (n : nat) : tid * nat * nat := (TP, 99, n).
Definition sW (n : nat) : tid * nat * nat := (TW, 99, n).
Definition sC (n : nat) : tid * nat * nat := (TC, 99, n).

Definition demo3 : list (tid * nat * nat) :=
  [ sP 3; sP 3; sP 3; sP 3; sP 3;             (* P: load+grant 3, write slots 0,1,2, publish     -> ix 3 *)
    sW 2; sW 2; sW 2; sW 2;                   (* W: load+grant 2, edit slots 0,1, publish        -> ix 2 *)
    sC 2; sC 2; sC 2; sC 2;                   (* C: load+grant 2, read slots 0,1, publish        -> ix 2 *)
    sP 2; sW 1; sP 2; sW 1; sP 2; sW 1; sP 2; (* P: load+grant 2, write slots 3,0 (the window WRAPS),
                                                    publish -> ix 1, interleaved with
                                                 W: grant 1 from the remembered ca, edit slot 2,
                                                    publish -> ix 3 *)
    sW 2; sW 2; sW 2; sW 2;                   (* W: load+grant 2, edit slots 3,0 (wraps), publish -> ix 1 *)
    sC 3; sC 3; sC 3; sC 3; sC 3              (* C: load+grant 3, read slots 2,3,0 (wraps), publish -> ix 1 *)
  ].

Definition summary3 (c : cfg3n) :=
  (race3 c, (ix3 (P3 c), pos3 (P3 c), ca3 (P3 c), pc3 (P3 c)),
            (ix3 (W3 c), pos3 (W3 c), ca3 (W3 c), pc3 (W3 c)),
            (ix3 (C3 c), pos3 (C3 c), ca3 (C3 c), pc3 (C3 c))).

Example demo3_race_free :
  summary3 (exec3_n 4 (init3_n 4) demo3) = (false, (1, 9, 0, 0), (1, 9, 0, 0), (1, 9, 0, 0)).
Proof. vm_compute. reflexivity. Qed.

(* Same script, but the worker's load of the producer index does not join the message view (a Relaxed load):
   the worker's first edit of slot 0 is not ordered after the producer's write of it. *)
Example demo3_worker_relaxed_races :
  race3 (exec3_a true false true 4 (init3_n 4) demo3) = true.
Proof. vm_compute. reflexivity. Qed.

(* ... already after the worker's first slot access: *)
Example demo3_worker_relaxed_races_early :
  race3 (exec3_a true false true 4 (init3_n 4) [sP 3; sP 3; sP 3; sP 3; sP 3; sW 2; sW 2]) = true.
Proof. vm_compute. reflexivity. Qed.

(* Same script, consumer's load of the worker index relaxed: its read of slot 0 races with the worker's edit. *)
Example demo3_consumer_relaxed_races :
  race3 (exec3_a true true false 4 (init3_n 4) demo3) = true.
Proof. vm_compute. reflexivity. Qed.

(* Same script, producer's load of the consumer index relaxed: the producer's second window overwrites slot 0
   without being ordered after the worker's edit / the consumer's read of it. *)
Example demo3_producer_relaxed_races :
  race3 (exec3_a false true true 4 (init3_n 4) demo3) = true.
Proof. vm_compute. reflexivity. Qed.

(* A stale read simply does not grant: W reads the initial message (choice 0) and stays at pc 0. *)
Example demo3_stale_read :
  summary3 (exec3_n 4 (init3_n 4) [sP 3; sP 3; sP 3; sP 3; sP 3; (TW, 0, 2)])
  = (false, (3, 7, 0, 0), (0, 4, 0, 0), (0, 4, 0, 0)).
Proof. vm_compute. reflexivity. Qed.

(* A request larger than the capacity is never granted. *)
Example demo3_too_large :
  summary3 (exec3_n 4 (init3_n 4) [sP 4; sP 4; sP 4]) = (false, (0, 4, 3, 0), (0, 4, 0, 0), (0, 4, 0, 0)).
Proof. vm_compute. reflexivity. Qed.
