(** * The three-stage (producer -> worker -> consumer) release/acquire machine with the orderings as parameters
      (see RAg.v); with both flags set it is the machine of RA3.v. *)
From Coq Require Import List Arith Lia Bool.
Import ListNotations.
Require Import MRB.Conc.RA MRB.Conc.RA3 MRB.Conc.RA3proof.

Section MG3.
Variables (acq rel : bool).
Definition vzero3 := mkV3 0 0 0 0 0 0 0 0 0.
Variable len : nat.

Definition gstepP3 (j : nat) (c : cfg3) : cfg3 :=
  let t := P3 c in
  match pc3 t with
  | 0 =>
    if 1 <=? ca3 t then (mkC3 (Mpi3 c) (Mwi3 c) (Mci3 c) (metas3 c) (mkT3 (ix3 t) (ca3 t) (V3 t) 2 (pos3 t)) (W3 c) (C3 c) (race3 c))
    else
      let i := pick (vci3 (V3 t)) (length (Mci3 c)) j in
      let m := nth i (Mci3 c) dmsg3 in
      let v0 := V3 t in
      let v1 := vjoin3 (mkV3 (vpi3 v0) (vwi3 v0) i (kp3 v0) (kw3 v0) (kc3 v0) (wP3 v0) (wW3 v0) (wC3 v0)) (if acq then mview3 m else vzero3) in
      let a := pavail len (ix3 t) (mval3 m) in
      (mkC3 (Mpi3 c) (Mwi3 c) (Mci3 c) (metas3 c) (mkT3 (ix3 t) a v1 (if 1 <=? a then 2 else 0) (pos3 t)) (W3 c) (C3 c) (race3 c))
  | 2 =>
    let mt := nth (ix3 t) (metas3 c) dmeta3 in
    let bad := negb (wcov TP mt (V3 t)) || negb (rclk3 mt <=? kc3 (V3 t)) in
    (mkC3 (Mpi3 c) (Mwi3 c) (Mci3 c) (upd (ix3 t) (mkMeta3 TP (pos3 t) (kp3 (V3 t)) (rpos3 mt) (rclk3 mt)) (metas3 c)) (mkT3 (ix3 t) (ca3 t) (V3 t) 3 (pos3 t)) (W3 c) (C3 c) (race3 c || bad))
  | 3 =>
    let ix' := wadd len (ix3 t) 1 in
    let v0 := V3 t in
    let v1 := (mkV3 (length (Mpi3 c)) (vwi3 v0) (vci3 v0) (kp3 v0) (kw3 v0) (kc3 v0) (S (pos3 t)) (wW3 v0) (wC3 v0)) in
    let m := mkM3 ix' (S (pos3 t)) (if rel then v1 else vzero3) in
    (mkC3 (Mpi3 c ++ [m]) (Mwi3 c) (Mci3 c) (metas3 c) (mkT3 ix' (ca3 t - 1) (mkV3 (vpi3 v1) (vwi3 v1) (vci3 v1) (S (kp3 v1)) (kw3 v1) (kc3 v1) (wP3 v1) (wW3 v1) (wC3 v1)) 0 (S (pos3 t))) (W3 c) (C3 c) (race3 c))
  | _ => c
  end.

Definition gstepW3 (j : nat) (c : cfg3) : cfg3 :=
  let t := W3 c in
  match pc3 t with
  | 0 =>
    if 1 <=? ca3 t then (mkC3 (Mpi3 c) (Mwi3 c) (Mci3 c) (metas3 c) (P3 c) (mkT3 (ix3 t) (ca3 t) (V3 t) 2 (pos3 t)) (C3 c) (race3 c))
    else
      let i := pick (vpi3 (V3 t)) (length (Mpi3 c)) j in
      let m := nth i (Mpi3 c) dmsg3 in
      let v0 := V3 t in
      let v1 := vjoin3 (mkV3 i (vwi3 v0) (vci3 v0) (kp3 v0) (kw3 v0) (kc3 v0) (wP3 v0) (wW3 v0) (wC3 v0)) (if acq then mview3 m else vzero3) in
      let a := dist len (ix3 t) (mval3 m) in
      (mkC3 (Mpi3 c) (Mwi3 c) (Mci3 c) (metas3 c) (P3 c) (mkT3 (ix3 t) a v1 (if 1 <=? a then 2 else 0) (pos3 t)) (C3 c) (race3 c))
  | 2 =>
    let mt := nth (ix3 t) (metas3 c) dmeta3 in
    let bad := negb (wcov TW mt (V3 t)) || negb (rclk3 mt <=? kc3 (V3 t)) in
    (mkC3 (Mpi3 c) (Mwi3 c) (Mci3 c) (upd (ix3 t) (mkMeta3 TW (pos3 t) (kw3 (V3 t)) (rpos3 mt) (rclk3 mt)) (metas3 c)) (P3 c) (mkT3 (ix3 t) (ca3 t) (V3 t) 3 (pos3 t)) (C3 c) (race3 c || bad))
  | 3 =>
    let ix' := wadd len (ix3 t) 1 in
    let v0 := V3 t in
    let v1 := (mkV3 (vpi3 v0) (length (Mwi3 c)) (vci3 v0) (kp3 v0) (kw3 v0) (kc3 v0) (wP3 v0) (S (pos3 t)) (wC3 v0)) in
    let m := mkM3 ix' (S (pos3 t)) (if rel then v1 else vzero3) in
    (mkC3 (Mpi3 c) (Mwi3 c ++ [m]) (Mci3 c) (metas3 c) (P3 c) (mkT3 ix' (ca3 t - 1) (mkV3 (vpi3 v1) (vwi3 v1) (vci3 v1) (kp3 v1) (S (kw3 v1)) (kc3 v1) (wP3 v1) (wW3 v1) (wC3 v1)) 0 (S (pos3 t))) (C3 c) (race3 c))
  | _ => c
  end.

Definition gstepC3 (j : nat) (c : cfg3) : cfg3 :=
  let t := C3 c in
  match pc3 t with
  | 0 =>
    if 1 <=? ca3 t then (mkC3 (Mpi3 c) (Mwi3 c) (Mci3 c) (metas3 c) (P3 c) (W3 c) (mkT3 (ix3 t) (ca3 t) (V3 t) 2 (pos3 t)) (race3 c))
    else
      let i := pick (vwi3 (V3 t)) (length (Mwi3 c)) j in
      let m := nth i (Mwi3 c) dmsg3 in
      let v0 := V3 t in
      let v1 := vjoin3 (mkV3 (vpi3 v0) i (vci3 v0) (kp3 v0) (kw3 v0) (kc3 v0) (wP3 v0) (wW3 v0) (wC3 v0)) (if acq then mview3 m else vzero3) in
      let a := dist len (ix3 t) (mval3 m) in
      (mkC3 (Mpi3 c) (Mwi3 c) (Mci3 c) (metas3 c) (P3 c) (W3 c) (mkT3 (ix3 t) a v1 (if 1 <=? a then 2 else 0) (pos3 t)) (race3 c))
  | 2 =>
    let mt := nth (ix3 t) (metas3 c) dmeta3 in
    let bad := negb (wcov TC mt (V3 t)) in
    (mkC3 (Mpi3 c) (Mwi3 c) (Mci3 c) (upd (ix3 t) (mkMeta3 (wt mt) (wpos3 mt) (wclk3 mt) (pos3 t) (kc3 (V3 t))) (metas3 c)) (P3 c) (W3 c) (mkT3 (ix3 t) (ca3 t) (V3 t) 3 (pos3 t)) (race3 c || bad))
  | 3 =>
    let ix' := wadd len (ix3 t) 1 in
    let v0 := V3 t in
    let v1 := (mkV3 (vpi3 v0) (vwi3 v0) (length (Mci3 c)) (kp3 v0) (kw3 v0) (kc3 v0) (wP3 v0) (wW3 v0) (S (pos3 t))) in
    let m := mkM3 ix' (S (pos3 t)) (if rel then v1 else vzero3) in
    (mkC3 (Mpi3 c) (Mwi3 c) (Mci3 c ++ [m]) (metas3 c) (P3 c) (W3 c) (mkT3 ix' (ca3 t - 1) (mkV3 (vpi3 v1) (vwi3 v1) (vci3 v1) (kp3 v1) (kw3 v1) (S (kc3 v1)) (wP3 v1) (wW3 v1) (wC3 v1)) 0 (S (pos3 t))) (race3 c))
  | _ => c
  end.

Definition gstep3 (c : cfg3) (s : tid * nat) : cfg3 :=
  match fst s with TP => gstepP3 (snd s) c | TW => gstepW3 (snd s) c | TC => gstepC3 (snd s) c end.
Definition gexec3 (c : cfg3) (script : list (tid * nat)) : cfg3 := fold_left gstep3 script c.

Definition gvinit (kp kw kc : nat) := mkV3 0 0 0 kp kw kc len len len.
Definition ginit3 : cfg3 :=
  mkC3 [mkM3 0 len (gvinit 0 0 0)] [mkM3 0 len (gvinit 0 0 0)] [mkM3 0 len (gvinit 0 0 0)]
       (map (fun k => mkMeta3 TC k 0 k 0) (seq 0 len))
       (mkT3 0 0 (gvinit 1 0 0) 0 len) (mkT3 0 0 (gvinit 0 1 0) 0 len) (mkT3 0 0 (gvinit 0 0 1) 0 len) false.
End MG3.

Lemma gstep3_strong len c s : gstep3 true true len c s = step3 len c s.
Proof. unfold gstep3, step3, gstepP3, stepP, gstepW3, stepW, gstepC3, stepC. destruct (fst s); reflexivity. Qed.

Lemma gexec3_strong len script : forall c, gexec3 true true len c script = exec3 len c script.
Proof. induction script as [|s r IH]; intros c; simpl; auto. Qed.

Lemma ginit3_eq len : ginit3 len = init3 len.
Proof. reflexivity. Qed.

Theorem g3_race_free acq rel : acq = true -> rel = true ->
  forall len script, 0 < len -> race3 (gexec3 acq rel len (ginit3 len) script) = false.
Proof. intros -> -> len script Hl. rewrite gexec3_strong, ginit3_eq. apply pipeline3_race_free; auto. Qed.

(** with a relaxed worker load the worker can edit a slot whose producer write it has not acquired *)
Example relaxed_worker_load_races :
  race3 (gexec3 false true 2 (ginit3 2) [(TP, 0); (TP, 0); (TP, 0); (TW, 1); (TW, 0)]) = true.
Proof. vm_compute. reflexivity. Qed.
