Require Import MRB.Conc.RA.
From Coq Require Import List Arith Lia Bool.
Import ListNotations.

Local Arguments Nat.leb : simpl never.
Local Arguments Nat.ltb : simpl never.
Local Arguments Nat.modulo : simpl never.
Local Arguments Nat.max : simpl never.
Local Arguments Nat.min : simpl never.
Section Inv.
Variable len : nat.
Hypothesis Hlen : 0 < len.

Definition sorted (M : list msg) : Prop :=
  forall i j, i <= j -> j < length M -> mabs (nth i M dmsg) <= mabs (nth j M dmsg).
Definition lastabs (M : list msg) : nat := mabs (nth (length M - 1) M dmsg).
Definition mt (c : cfg) (k : nat) : meta := nth k (metas c) dmeta.

Definition view_ok (c : cfg) (v : view) : Prop :=
  vpi v < length (Mpi c) /\ vci v < length (Mci c) /\
  wP v <= pos (P c) /\ wC v <= pos (C c) /\
  mabs (nth (vpi v) (Mpi c) dmsg) <= wP v /\
  mabs (nth (vci v) (Mci c) dmsg) <= wC v /\
  (forall k, k < len -> wpos (mt c k) < wP v -> wclk (mt c k) <= kp v) /\
  (forall k, k < len -> rpos (mt c k) < wC v -> rclk (mt c k) <= kc v).

Definition msg_ok (c : cfg) (m : msg) : Prop :=
  mval m = mabs m mod len /\ view_ok c (mview m).

Definition seenP (c : cfg) := mabs (nth (vci (V (P c))) (Mci c) dmsg).
Definition seenC (c : cfg) := mabs (nth (vpi (V (C c))) (Mpi c) dmsg).

Record Inv (c : cfg) : Prop := mkInv {
  i_metas : length (metas c) = len;
  i_npi : 0 < length (Mpi c);
  i_nci : 0 < length (Mci c);
  i_spi : sorted (Mpi c);
  i_sci : sorted (Mci c);
  i_lpi : lastabs (Mpi c) = pos (P c);
  i_lci : lastabs (Mci c) = pos (C c);
  i_mpi : Forall (msg_ok c) (Mpi c);
  i_mci : Forall (msg_ok c) (Mci c);
  i_wpi : forall i, i < length (Mpi c) -> mabs (nth i (Mpi c) dmsg) <= wP (mview (nth i (Mpi c) dmsg));
  i_wci : forall i, i < length (Mci c) -> mabs (nth i (Mci c) dmsg) <= wC (mview (nth i (Mci c) dmsg));
  i_vP : view_ok c (V (P c));
  i_vC : view_ok c (V (C c));
  i_ixP : ix (P c) = pos (P c) mod len;
  i_ixC : ix (C c) = pos (C c) mod len;
  i_caP : ca (P c) + pos (P c) + 1 <= seenP c + len;
  i_caC : ca (C c) + pos (C c) <= seenC c;
  i_pcP : pc (P c) = 0 \/ (pc (P c) = 2 /\ 1 <= ca (P c)) \/ (pc (P c) = 3 /\ 1 <= ca (P c));
  i_pcC : pc (C c) = 0 \/ (pc (C c) = 2 /\ 1 <= ca (C c)) \/ (pc (C c) = 3 /\ 1 <= ca (C c));
  i_slot : forall k, k < len ->
     wpos (mt c k) mod len = k /\ rpos (mt c k) mod len = k /\
     wpos (mt c k) <= pos (P c) /\ rpos (mt c k) <= pos (C c) /\
     (wpos (mt c k) = pos (P c) -> pc (P c) = 3 /\ k = ix (P c)) /\
     (rpos (mt c k) = pos (C c) -> pc (C c) = 3 /\ k = ix (C c)) /\
     wclk (mt c k) <= kp (V (P c)) /\ rclk (mt c k) <= kc (V (C c));
  i_race : race c = false
}.

(* ---- basic list facts ---- *)
Lemma nth_app_l (M : list msg) x i : i < length M -> nth i (M ++ [x]) dmsg = nth i M dmsg.
Proof. intros; apply app_nth1; auto. Qed.
Lemma nth_app_last (M : list msg) x : nth (length M) (M ++ [x]) dmsg = x.
Proof. rewrite app_nth2 by lia. rewrite Nat.sub_diag. reflexivity. Qed.

Lemma sorted_app M x : 0 < length M -> sorted M -> lastabs M <= mabs x -> sorted (M ++ [x]).
Proof.
  intros Hn Hs Hl i j Hij Hj. rewrite app_length in Hj; simpl in Hj.
  destruct (Nat.eq_dec j (length M)) as [->|Hne].
  - rewrite nth_app_last.
    destruct (Nat.eq_dec i (length M)) as [->|Hi].
    + rewrite nth_app_last; lia.
    + rewrite nth_app_l by lia. unfold lastabs in Hl.
      specialize (Hs i (length M - 1) ltac:(lia) ltac:(lia)). lia.
  - rewrite !nth_app_l by lia. apply Hs; lia.
Qed.

Lemma sorted_last M i : sorted M -> i < length M -> mabs (nth i M dmsg) <= lastabs M.
Proof. intros Hs Hi. unfold lastabs. apply Hs; lia. Qed.

Lemma lastabs_app M x : lastabs (M ++ [x]) = mabs x.
Proof. unfold lastabs. rewrite app_length; simpl. replace (length M + 1 - 1) with (length M) by lia.
  rewrite nth_app_last; reflexivity. Qed.

Lemma pick_bounds lo n j : lo < n -> lo <= pick lo n j /\ pick lo n j < n.
Proof. unfold pick; intros; lia. Qed.

(* ---- view_ok is stable under "growth" of the configuration ---- *)
Definition grows (c c' : cfg) : Prop :=
  (exists xs, Mpi c' = Mpi c ++ xs) /\ (exists ys, Mci c' = Mci c ++ ys) /\
  pos (P c) <= pos (P c') /\ pos (C c) <= pos (C c') /\
  (forall k, k < len ->
     (mt c' k = mt c k) \/
     (wpos (mt c' k) = pos (P c) /\ rpos (mt c' k) = rpos (mt c k) /\ rclk (mt c' k) = rclk (mt c k)) \/
     (rpos (mt c' k) = pos (C c) /\ wpos (mt c' k) = wpos (mt c k) /\ wclk (mt c' k) = wclk (mt c k))).

Lemma view_ok_grows c c' v : grows c c' -> view_ok c v -> view_ok c' v.
Proof.
  intros (Hpi & Hci & HpP & HpC & Hm) (H1 & H2 & H3 & H4 & H5 & H6 & H7 & H8).
  destruct Hpi as [xs Hpi]. destruct Hci as [ys Hci].
  unfold view_ok. rewrite Hpi, Hci, !app_length.
  repeat split; try lia.
  - rewrite app_nth1 by lia; auto.
  - rewrite app_nth1 by lia; auto.
  - intros k Hk Hw. destruct (Hm k Hk) as [E|[(E1&E2&E3)|(E1&E2&E3)]].
    + rewrite E in *; auto.
    + lia.
    + rewrite E2, E3 in *; auto.
  - intros k Hk Hw. destruct (Hm k Hk) as [E|[(E1&E2&E3)|(E1&E2&E3)]].
    + rewrite E in *; auto.
    + rewrite E2, E3 in *; auto.
    + lia.
Qed.

Lemma msgs_ok_grows c c' M : grows c c' -> Forall (msg_ok c) M -> Forall (msg_ok c') M.
Proof.
  intros G F. eapply Forall_impl; [|exact F].
  intros m [A B]; split; auto. eapply view_ok_grows; eauto.
Qed.

Lemma grows_refl c : grows c c.
Proof. repeat split; try (exists []; rewrite app_nil_r; reflexivity); try lia. intros; left; reflexivity. Qed.

(* join of two good views is good *)
Lemma view_ok_join c a b : sorted (Mpi c) -> sorted (Mci c) -> view_ok c a -> view_ok c b -> view_ok c (vjoin a b).
Proof.
  intros Sp Sc (A1&A2&A3&A4&A5&A6&A7&A8) (B1&B2&B3&B4&B5&B6&B7&B8).
  unfold view_ok, vjoin; simpl. repeat split; try lia.
  - destruct (Nat.max_spec (vpi a) (vpi b)) as [[_ ->]|[_ ->]]; lia.
  - destruct (Nat.max_spec (vci a) (vci b)) as [[_ ->]|[_ ->]]; lia.
  - intros k Hk Hw.
    destruct (Nat.max_spec (wP a) (wP b)) as [[_ E]|[_ E]]; rewrite E in Hw.
    + specialize (B7 k Hk Hw); lia.
    + specialize (A7 k Hk Hw); lia.
  - intros k Hk Hw.
    destruct (Nat.max_spec (wC a) (wC b)) as [[_ E]|[_ E]]; rewrite E in Hw.
    + specialize (B8 k Hk Hw); lia.
    + specialize (A8 k Hk Hw); lia.
Qed.


Lemma Forall_nth_msg (Q : msg -> Prop) M i : Forall Q M -> i < length M -> Q (nth i M dmsg).
Proof. intros F Hi. rewrite Forall_forall in F. apply F. apply nth_In; auto. Qed.

Lemma posC_le_posP c : Inv c -> pos (C c) <= pos (P c).
Proof.
  intros I. pose proof (i_caC c I). pose proof (i_lpi c I).
  destruct (i_vC c I) as (A&_).
  pose proof (sorted_last (Mpi c) (vpi (V (C c))) (i_spi c I) A). unfold seenC in *. lia.
Qed.
Lemma posP_lt c : Inv c -> pos (P c) + 1 <= pos (C c) + len.
Proof.
  intros I. pose proof (i_caP c I). pose proof (i_lci c I).
  destruct (i_vP c I) as (_&A&_).
  pose proof (sorted_last (Mci c) (vci (V (P c))) (i_sci c I) A). unfold seenP in *. lia.
Qed.

Ltac splits := repeat match goal with |- _ /\ _ => split end.
Ltac inv_fields I :=
  pose proof (i_metas _ I) as Hmetas; pose proof (i_npi _ I) as Hnpi; pose proof (i_nci _ I) as Hnci;
  pose proof (i_spi _ I) as Hspi; pose proof (i_sci _ I) as Hsci;
  pose proof (i_lpi _ I) as Hlpi; pose proof (i_lci _ I) as Hlci;
  pose proof (i_mpi _ I) as Hmpi; pose proof (i_mci _ I) as Hmci;
  pose proof (i_wpi _ I) as Hwpi; pose proof (i_wci _ I) as Hwci;
  pose proof (i_vP _ I) as HvP; pose proof (i_vC _ I) as HvC;
  pose proof (i_ixP _ I) as HixP; pose proof (i_ixC _ I) as HixC;
  pose proof (i_caP _ I) as HcaP; pose proof (i_caC _ I) as HcaC;
  pose proof (i_pcP _ I) as HpcP; pose proof (i_pcC _ I) as HpcC;
  pose proof (i_slot _ I) as Hslot; pose proof (i_race _ I) as Hrace;
  pose proof (posC_le_posP _ I) as Hcp; pose proof (posP_lt _ I) as Hpc.

(* ---------- P, pc = 0, cached availability suffices ---------- *)
Lemma stepP_fast c j : Inv c -> pc (P c) = 0 -> 1 <= ca (P c) -> Inv (stepP len j c).
Proof.
  intros I Hpc0 Hca. inv_fields I.
  unfold stepP. rewrite Hpc0. destruct (1 <=? ca (P c)) eqn:E; [|apply Nat.leb_gt in E; lia].
  set (c' := mkC _ _ _ _ _ _).
  assert (G : grows c c') by (repeat split; simpl; try (exists []; rewrite app_nil_r; reflexivity); try lia; intros; left; reflexivity).
  constructor; simpl; auto.
  intros k Hk. destruct (Hslot k Hk) as (S1&S2&S3&S4&S5&S6&S7&S8).
  unfold mt in *; simpl. splits; auto; intros Hw; destruct (S5 Hw); congruence.
Qed.

(* ---------- P, pc = 0, must look at the consumer's index (acquire load, any admissible message) ---------- *)
Lemma stepP_load c j : Inv c -> pc (P c) = 0 -> ca (P c) = 0 -> Inv (stepP len j c).
Proof.
  intros I Hpc0 Hca. inv_fields I.
  unfold stepP. rewrite Hpc0. destruct (1 <=? ca (P c)) eqn:E; [apply Nat.leb_le in E; lia|]. clear E.
  destruct HvP as (P1&P2&P3&P4&P5&P6&P7&P8).
  pose proof (pick_bounds (vci (V (P c))) (length (Mci c)) j P2) as [Hi1 Hi2].
  set (i := pick (vci (V (P c))) (length (Mci c)) j) in *.
  set (m := nth i (Mci c) dmsg).
  pose proof (Forall_nth_msg _ _ i Hmci Hi2) as [Hmv Hmok]. fold m in Hmv, Hmok.
  pose proof (Hwci i Hi2) as Hmw. fold m in Hmw.
  destruct Hmok as (Q1&Q2&Q3&Q4&Q5&Q6&Q7&Q8).
  assert (Hseen : seenP c <= mabs m) by (unfold seenP, m; apply Hsci; lia).
  assert (Hm : mabs m = mabs (nth i (Mci c) dmsg)) by reflexivity.
  clearbody m. clearbody i.
  assert (HmC : mabs m <= pos (C c)) by (rewrite <- Hlci, Hm; apply sorted_last; auto).
  assert (Ha : pavail len (ix (P c)) (mval m) = len - 1 - (pos (P c) - mabs m)).
  { rewrite HixP, Hmv. apply pavail_mod; lia. }
  set (v1 := vjoin _ (mview m)).
  assert (Hv1 : view_ok c v1).
  { unfold view_ok, v1, vjoin; simpl. splits; try lia.
    - destruct (Nat.max_spec (vpi (V (P c))) (vpi (mview m))) as [[_ ->]|[_ ->]]; lia.
    - destruct (Nat.max_spec i (vci (mview m))) as [[_ ->]|[_ ->]]; lia.
    - intros k Hk Hw.
      destruct (Nat.max_spec (wP (V (P c))) (wP (mview m))) as [[_ E]|[_ E]]; rewrite E in Hw.
      + specialize (Q7 k Hk Hw); lia.
      + specialize (P7 k Hk Hw); lia.
    - intros k Hk Hw.
      destruct (Nat.max_spec (wC (V (P c))) (wC (mview m))) as [[_ E]|[_ E]]; rewrite E in Hw.
      + specialize (Q8 k Hk Hw); lia.
      + specialize (P8 k Hk Hw); lia. }
  constructor; simpl; auto.
  - (* caP *)
    unfold seenP; simpl. rewrite Ha.
    assert (mabs m <= mabs (nth (Nat.max i (vci (mview m))) (Mci c) dmsg)) by (rewrite Hm; apply Hsci; lia).
    lia.
  - (* pcP *)
    destruct (1 <=? pavail len (ix (P c)) (mval m)) eqn:E; [apply Nat.leb_le in E; right; left; auto | left; auto].
  - (* slots *)
    intros k Hk. destruct (Hslot k Hk) as (S1&S2&S3&S4&S5&S6&S7&S8).
    unfold mt in *; simpl. splits; auto; try lia.
Qed.

Lemma mod_plus_len a : (a + len) mod len = a mod len.
Proof. replace (a + len) with (a + 1 * len) by lia. apply Nat.mod_add; lia. Qed.

(* ---------- P, pc = 2: the non-atomic write of the granted slot ---------- *)
Lemma stepP_write c j : Inv c -> pc (P c) = 2 -> Inv (stepP len j c).
Proof.
  intros I Hpc2. inv_fields I.
  destruct HpcP as [X|[[_ Hca]|[X _]]]; try congruence.
  unfold stepP. rewrite Hpc2.
  destruct HvP as (P1&P2&P3&P4&P5&P6&P7&P8).
  assert (Hk : ix (P c) < len) by (rewrite HixP; apply Nat.mod_upper_bound; lia).
  destruct (Hslot _ Hk) as (S1&S2&S3&S4&S5&S6&S7&S8).
  fold (mt c (ix (P c))).
  (* the consumer's last read of this slot is covered by the producer's view *)
  assert (Hr : rpos (mt c (ix (P c))) + len <= pos (P c)).
  { assert (rpos (mt c (ix (P c))) <> pos (P c)).
    { intros Heq. assert (rpos (mt c (ix (P c))) = pos (C c)) by lia.
      destruct (S6 H) as [Hc3 _]. destruct HpcC as [Y|[[Y _]|[_ Y]]]; try congruence.
      destruct HvC as (C1&_). pose proof (sorted_last _ _ Hspi C1). unfold seenC in HcaC. lia. }
    apply (congr_le len); auto; try lia.
    rewrite mod_plus_len, S2, HixP; reflexivity. }
  assert (Hcov : rclk (mt c (ix (P c))) <= kc (V (P c))).
  { apply P8; auto. unfold seenP in HcaP. lia. }
  assert (Hb : negb (rclk (mt c (ix (P c))) <=? kc (V (P c))) = false)
    by (apply negb_false_iff, Nat.leb_le; auto).
  rewrite Hb, orb_false_r.
  set (c' := mkC _ _ _ _ _ _).
  assert (Hmt : forall k, k < len -> k <> ix (P c) -> mt c' k = mt c k)
    by (intros; unfold mt, c'; simpl; apply nth_upd_neq; auto).
  assert (Hmt0 : mt c' (ix (P c)) = mkMeta (pos (P c)) (kp (V (P c))) (rpos (mt c (ix (P c)))) (rclk (mt c (ix (P c)))))
    by (unfold mt, c'; simpl; apply nth_upd_eq; lia).
  assert (G : grows c c').
  { unfold grows; splits; simpl; try (exists []; rewrite app_nil_r; reflexivity); try lia.
    intros k Hk'. destruct (Nat.eq_dec k (ix (P c))) as [->|Hne].
    - right; left. rewrite Hmt0; simpl; auto.
    - left; auto. }
  constructor; simpl; auto.
  - rewrite upd_length; auto.
  - apply (msgs_ok_grows c c' _ G Hmpi).
  - apply (msgs_ok_grows c c' _ G Hmci).
  - apply (view_ok_grows c c' _ G). unfold view_ok; splits; auto.
  - apply (view_ok_grows c c' _ G HvC).
  - intros k Hk'. destruct (Nat.eq_dec k (ix (P c))) as [->|Hne].
    + rewrite Hmt0; simpl. splits; auto; try lia.
    + rewrite (Hmt k Hk' Hne). destruct (Hslot k Hk') as (T1&T2&T3&T4&T5&T6&T7&T8).
      splits; auto. intros Hw. destruct (T5 Hw); congruence.
Qed.

Lemma Forall_app1 {A} (Q : A -> Prop) l x : Forall Q l -> Q x -> Forall Q (l ++ [x]).
Proof. intros; apply Forall_app; split; auto. Qed.

(* ---------- P, pc = 3: advance + release store of the new index ---------- *)
Lemma stepP_store c j : Inv c -> pc (P c) = 3 -> Inv (stepP len j c).
Proof.
  intros I Hpc3. inv_fields I.
  destruct HpcP as [X|[[X _]|[_ Hca]]]; try congruence.
  unfold stepP. rewrite Hpc3.
  destruct HvP as (P1&P2&P3&P4&P5&P6&P7&P8).
  assert (Hix' : wadd len (ix (P c)) 1 = (pos (P c) + 1) mod len) by (rewrite HixP; apply wadd_mod; lia).
  set (v1 := mkV (length (Mpi c)) _ _ _ (S (pos (P c))) _).
  set (m := mkM _ _ v1).
  set (c' := mkC _ _ _ _ _ _).
  assert (G : grows c c').
  { unfold grows; splits; simpl; try lia.
    - exists [m]; reflexivity.
    - exists []; rewrite app_nil_r; reflexivity.
    - intros; left; reflexivity. }
  assert (Hnth : forall i, i < length (Mpi c) -> nth i (Mpi c ++ [m]) dmsg = nth i (Mpi c) dmsg)
    by (intros; apply nth_app_l; auto).
  assert (Hv1 : view_ok c' v1).
  { unfold view_ok, v1, c'; simpl. rewrite app_length; simpl. splits; try lia.
    - rewrite nth_app_last; simpl; lia.
    - intros k Hk Hw. destruct (Hslot k Hk) as (_&_&_&_&_&_&S7&_). exact S7.
    - intros k Hk Hw. apply P8; auto. }
  constructor; simpl; auto.
  - rewrite app_length; simpl; lia.
  - apply sorted_app; auto. simpl. lia.
  - rewrite lastabs_app; reflexivity.
  - apply Forall_app1.
    + apply (msgs_ok_grows c c' _ G Hmpi).
    + split; simpl; auto. rewrite Hix'. f_equal; lia.
  - apply (msgs_ok_grows c c' _ G Hmci).
  - intros i Hi. rewrite app_length in Hi; simpl in Hi.
    destruct (Nat.eq_dec i (length (Mpi c))) as [->|Hne].
    + rewrite nth_app_last; simpl; lia.
    + rewrite Hnth by lia. apply Hwpi; lia.
  - destruct Hv1 as (A1&A2&A3&A4&A5&A6&A7&A8). unfold view_ok; simpl. splits; auto.
  - apply (view_ok_grows c c' _ G HvC).
  - rewrite Hix'. f_equal; lia.
  - unfold seenP in *; simpl. lia.
  - unfold seenC in *; simpl. destruct HvC as (C1&_). rewrite Hnth by auto. auto.
  - intros k Hk. destruct (Hslot k Hk) as (S1&S2&S3&S4&S5&S6&S7&S8).
    unfold mt in *; simpl. splits; auto; try lia.
Qed.

(* ================= consumer ================= *)
Lemma stepC_fast c j : Inv c -> pc (C c) = 0 -> 1 <= ca (C c) -> Inv (stepC len j c).
Proof.
  intros I Hpc0 Hca. inv_fields I.
  unfold stepC. rewrite Hpc0. destruct (1 <=? ca (C c)) eqn:E; [|apply Nat.leb_gt in E; lia].
  constructor; simpl; auto.
  intros k Hk. destruct (Hslot k Hk) as (S1&S2&S3&S4&S5&S6&S7&S8).
  unfold mt in *; simpl. splits; auto; intros Hw; destruct (S6 Hw); congruence.
Qed.

Lemma stepC_load c j : Inv c -> pc (C c) = 0 -> ca (C c) = 0 -> Inv (stepC len j c).
Proof.
  intros I Hpc0 Hca. inv_fields I.
  unfold stepC. rewrite Hpc0. destruct (1 <=? ca (C c)) eqn:E; [apply Nat.leb_le in E; lia|]. clear E.
  destruct HvC as (P1&P2&P3&P4&P5&P6&P7&P8).
  pose proof (pick_bounds (vpi (V (C c))) (length (Mpi c)) j P1) as [Hi1 Hi2].
  set (i := pick (vpi (V (C c))) (length (Mpi c)) j) in *.
  set (m := nth i (Mpi c) dmsg).
  pose proof (Forall_nth_msg _ _ i Hmpi Hi2) as [Hmv Hmok]. fold m in Hmv, Hmok.
  pose proof (Hwpi i Hi2) as Hmw. fold m in Hmw.
  destruct Hmok as (Q1&Q2&Q3&Q4&Q5&Q6&Q7&Q8).
  assert (Hseen : seenC c <= mabs m) by (unfold seenC, m; apply Hspi; lia).
  assert (Hm : mabs m = mabs (nth i (Mpi c) dmsg)) by reflexivity.
  clearbody m. clearbody i.
  assert (HmP : mabs m <= pos (P c)) by (rewrite <- Hlpi, Hm; apply sorted_last; auto).
  assert (Ha : dist len (ix (C c)) (mval m) = mabs m - pos (C c)).
  { rewrite HixC, Hmv. apply dist_mod; lia. }
  set (v1 := vjoin _ (mview m)).
  assert (Hv1 : view_ok c v1).
  { unfold view_ok, v1, vjoin; simpl. splits; try lia.
    - destruct (Nat.max_spec i (vpi (mview m))) as [[_ ->]|[_ ->]]; lia.
    - destruct (Nat.max_spec (vci (V (C c))) (vci (mview m))) as [[_ ->]|[_ ->]]; lia.
    - intros k Hk Hw.
      destruct (Nat.max_spec (wP (V (C c))) (wP (mview m))) as [[_ E]|[_ E]]; rewrite E in Hw.
      + specialize (Q7 k Hk Hw); lia.
      + specialize (P7 k Hk Hw); lia.
    - intros k Hk Hw.
      destruct (Nat.max_spec (wC (V (C c))) (wC (mview m))) as [[_ E]|[_ E]]; rewrite E in Hw.
      + specialize (Q8 k Hk Hw); lia.
      + specialize (P8 k Hk Hw); lia. }
  constructor; simpl; auto.
  - unfold seenC; simpl. rewrite Ha.
    assert (mabs m <= mabs (nth (Nat.max i (vpi (mview m))) (Mpi c) dmsg)) by (rewrite Hm; apply Hspi; lia).
    lia.
  - destruct (1 <=? dist len (ix (C c)) (mval m)) eqn:E; [apply Nat.leb_le in E; right; left; auto | left; auto].
  - intros k Hk. destruct (Hslot k Hk) as (S1&S2&S3&S4&S5&S6&S7&S8).
    unfold mt in *; simpl. splits; auto; try lia.
Qed.

Lemma stepC_read c j : Inv c -> pc (C c) = 2 -> Inv (stepC len j c).
Proof.
  intros I Hpc2. inv_fields I.
  destruct HpcC as [X|[[_ Hca]|[X _]]]; try congruence.
  unfold stepC. rewrite Hpc2.
  destruct HvC as (P1&P2&P3&P4&P5&P6&P7&P8).
  assert (Hk : ix (C c) < len) by (rewrite HixC; apply Nat.mod_upper_bound; lia).
  destruct (Hslot _ Hk) as (S1&S2&S3&S4&S5&S6&S7&S8).
  fold (mt c (ix (C c))).
  assert (Hw : wpos (mt c (ix (C c))) <= pos (C c)).
  { apply (congr_le len); auto; lia. }
  assert (Hcov : wclk (mt c (ix (C c))) <= kp (V (C c))).
  { apply P7; auto. unfold seenC in HcaC. lia. }
  assert (Hb : negb (wclk (mt c (ix (C c))) <=? kp (V (C c))) = false)
    by (apply negb_false_iff, Nat.leb_le; auto).
  rewrite Hb, orb_false_r.
  set (c' := mkC _ _ _ _ _ _).
  assert (Hmt : forall k, k < len -> k <> ix (C c) -> mt c' k = mt c k)
    by (intros; unfold mt, c'; simpl; apply nth_upd_neq; auto).
  assert (Hmt0 : mt c' (ix (C c)) = mkMeta (wpos (mt c (ix (C c)))) (wclk (mt c (ix (C c)))) (pos (C c)) (kc (V (C c))))
    by (unfold mt, c'; simpl; apply nth_upd_eq; lia).
  assert (G : grows c c').
  { unfold grows; splits; simpl; try (exists []; rewrite app_nil_r; reflexivity); try lia.
    intros k Hk'. destruct (Nat.eq_dec k (ix (C c))) as [->|Hne].
    - right; right. rewrite Hmt0; simpl; auto.
    - left; auto. }
  constructor; simpl; auto.
  - rewrite upd_length; auto.
  - apply (msgs_ok_grows c c' _ G Hmpi).
  - apply (msgs_ok_grows c c' _ G Hmci).
  - apply (view_ok_grows c c' _ G HvP).
  - apply (view_ok_grows c c' _ G). unfold view_ok; splits; auto.
  - intros k Hk'. destruct (Nat.eq_dec k (ix (C c))) as [->|Hne].
    + rewrite Hmt0; simpl. splits; auto; try lia.
    + rewrite (Hmt k Hk' Hne). destruct (Hslot k Hk') as (T1&T2&T3&T4&T5&T6&T7&T8).
      splits; auto. intros Hq. destruct (T6 Hq); congruence.
Qed.

Lemma stepC_store c j : Inv c -> pc (C c) = 3 -> Inv (stepC len j c).
Proof.
  intros I Hpc3. inv_fields I.
  destruct HpcC as [X|[[X _]|[_ Hca]]]; try congruence.
  unfold stepC. rewrite Hpc3.
  destruct HvC as (P1&P2&P3&P4&P5&P6&P7&P8).
  assert (Hix' : wadd len (ix (C c)) 1 = (pos (C c) + 1) mod len) by (rewrite HixC; apply wadd_mod; lia).
  set (v1 := mkV _ (length (Mci c)) _ _ _ (S (pos (C c)))).
  set (m := mkM _ _ v1).
  set (c' := mkC _ _ _ _ _ _).
  assert (G : grows c c').
  { unfold grows; splits; simpl; try lia.
    - exists []; rewrite app_nil_r; reflexivity.
    - exists [m]; reflexivity.
    - intros; left; reflexivity. }
  assert (Hnth : forall i, i < length (Mci c) -> nth i (Mci c ++ [m]) dmsg = nth i (Mci c) dmsg)
    by (intros; apply nth_app_l; auto).
  assert (Hv1 : view_ok c' v1).
  { unfold view_ok, v1, c'; simpl. rewrite app_length; simpl. splits; try lia.
    - rewrite nth_app_last; simpl; lia.
    - intros k Hk Hw. apply P7; auto.
    - intros k Hk Hw. destruct (Hslot k Hk) as (_&_&_&_&_&_&_&S8). exact S8. }
  constructor; simpl; auto.
  - rewrite app_length; simpl; lia.
  - apply sorted_app; auto. simpl. lia.
  - rewrite lastabs_app; reflexivity.
  - apply (msgs_ok_grows c c' _ G Hmpi).
  - apply Forall_app1.
    + apply (msgs_ok_grows c c' _ G Hmci).
    + split; simpl; auto. rewrite Hix'. f_equal; lia.
  - intros i Hi. rewrite app_length in Hi; simpl in Hi.
    destruct (Nat.eq_dec i (length (Mci c))) as [->|Hne].
    + rewrite nth_app_last; simpl; lia.
    + rewrite Hnth by lia. apply Hwci; lia.
  - apply (view_ok_grows c c' _ G HvP).
  - destruct Hv1 as (A1&A2&A3&A4&A5&A6&A7&A8). unfold view_ok; simpl. splits; auto.
  - rewrite Hix'. f_equal; lia.
  - unfold seenP in *; simpl. destruct (i_vP c I) as (_&C2&_). rewrite Hnth by auto. lia.
  - unfold seenC in *; simpl. lia.
  - intros k Hk. destruct (Hslot k Hk) as (S1&S2&S3&S4&S5&S6&S7&S8).
    unfold mt in *; simpl. splits; auto; try lia.
Qed.

Lemma step_inv c s : Inv c -> Inv (step len c s).
Proof.
  intros I. destruct s as [[|] j]; unfold step; simpl.
  - destruct (i_pcP c I) as [H0|[[H2 _]|[H3 _]]].
    + destruct (ca (P c)) eqn:E.
      * apply stepP_load; auto.
      * apply stepP_fast; auto; lia.
    + apply stepP_write; auto.
    + apply stepP_store; auto.
  - destruct (i_pcC c I) as [H0|[[H2 _]|[H3 _]]].
    + destruct (ca (C c)) eqn:E.
      * apply stepC_load; auto.
      * apply stepC_fast; auto; lia.
    + apply stepC_read; auto.
    + apply stepC_store; auto.
Qed.

Lemma nth_init_meta k : k < len -> nth k (map (fun k => mkMeta k 0 k 0) (seq 0 len)) dmeta = mkMeta k 0 k 0.
Proof.
  intros Hk. change dmeta with ((fun k => mkMeta k 0 k 0) 0).
  rewrite map_nth. rewrite seq_nth by auto. reflexivity.
Qed.

Lemma init_inv : Inv (init len).
Proof.
  assert (Hv : forall kp0 kc0, view_ok (init len) (mkV 0 0 kp0 kc0 len len)).
  { intros. unfold view_ok, init, mt; simpl. splits; try lia.
    - intros k Hk Hw. rewrite nth_init_meta by auto. simpl. lia.
    - intros k Hk Hw. rewrite nth_init_meta by auto. simpl. lia. }
  constructor; simpl; auto.
  - rewrite map_length, seq_length; reflexivity.
  - intros i j Hij Hj. simpl in Hj. assert (i = 0) by lia. assert (j = 0) by lia. subst. lia.
  - intros i j Hij Hj. simpl in Hj. assert (i = 0) by lia. assert (j = 0) by lia. subst. lia.
  - constructor; [|constructor]. split; simpl; [symmetry; apply Nat.mod_same; lia | apply Hv].
  - constructor; [|constructor]. split; simpl; [symmetry; apply Nat.mod_same; lia | apply Hv].
  - intros i Hi. assert (i = 0) by lia. subst; simpl; lia.
  - intros i Hi. assert (i = 0) by lia. subst; simpl; lia.
  - apply Hv.
  - apply Hv.
  - symmetry; apply Nat.mod_same; lia.
  - symmetry; apply Nat.mod_same; lia.
  - unfold seenP; simpl. lia.
  - intros k Hk. unfold mt; simpl. rewrite nth_init_meta by auto. simpl.
    splits; try lia; apply Nat.mod_small; auto.
Qed.

Theorem exec_inv script : Inv (exec len (init len) script).
Proof.
  unfold exec. generalize init_inv. generalize (init len).
  induction script as [|s script IH]; intros c I; simpl; auto.
  apply IH. apply step_inv; auto.
Qed.
End Inv.

(* Every release/acquire-consistent execution (any interleaving, any stale read) is race free. *)
Theorem spsc_race_free : forall len script, 0 < len -> race (exec len (init len) script) = false.
Proof. intros len script Hl. apply (i_race len _ (exec_inv len Hl script)). Qed.
Print Assumptions spsc_race_free.
