(** * Race freedom of the extended three-stage release/acquire machine (RA3x.v): multi-slot operations,
      [reset_index] and detached operation (local advance, sync, attach) of the WORKER and of the CONSUMER.

    [pipeline3_x_race_free : forall len script, 0 < len -> race3 (exec3_x len (init3_x len) script) = false]
    is proved completely - both extensions, both threads, no step case missing.  Further theorems about all
    executions:
    [published_le_local_3x]  the position published by W / by C is <= its local position, = when attached;
    [never_goes_back_3x]     the local positions of P, W and C are monotone (a reset never moves backwards);
    [order_always_3x]        pos C + off C <= publishedW <= pos W,  pos W + off W <= pos P = publishedP,
                             pos P + off P + 1 <= publishedC + len,  publishedC <= pos C.

    The invariant [Inv3x] is [Inv3n] of RA3nproof.v with the changes RAxproof.v made to [InvN], twice:
    - [x_lwi] / [x_lci]: the PUBLISHED position of W / C ([lastabs3] of its message list) is only <= its LOCAL
      position ([x_attW] / [x_attC]: equal while attached).  Nothing else was using the equality: each
      availability bound ([x_caP], [x_caC]) goes through the MESSAGE the thread saw of the followed index, i.e.
      through a published position; the watermark of a W / C message is its own (published) position, and later
      accesses of that thread are at positions >= its local position at that time, so old views stay valid
      ([grows3x]) whether or not a later advance is published.
    - [pc_okr]: W and C have a fourth resting state, pc 5, between the load and the store of a reset; there
      [pos <= npos <= seen] and [nix = npos mod len].  "Not backwards" comes from the view rule: the message read
      is at or after the thread's view, and [x_caW] / [x_caC] say everything the thread was ever granted lies at
      or below the message AT its view; message lists are sorted by position.
    - every way of ending a W / C operation (pc 3 / pc 5, attached / detached, Sync, Attach) is an instance of
      [publishW_inv] / [publishC_inv] (with store) or [localW_inv] / [localC_inv] (without).
    A worker reset skips items: the slot argument never needed "W edited position q before C reads it", only
    that the last WRITE of the slot (by P or by W) is at a position <= q, below the watermarks C acquired
    (views keep [wC <= wW <= wP]).
    The pure list facts ([sorted3], [lastabs3], ...) and [wcover] are reused from RA3proof.v. *)
Require Import MRB.Conc.RA MRB.Conc.RA3 MRB.Conc.RA3proof MRB.Conc.RA3x.
From Coq Require Import List Arith Lia Bool.
Import ListNotations.

Local Arguments Nat.leb : simpl never.
Local Arguments Nat.ltb : simpl never.
Local Arguments Nat.modulo : simpl never.
Local Arguments Nat.max : simpl never.
Local Arguments Nat.min : simpl never.

(* Pure facts of RA3proof.v (stated there inside a section with [0 < len] in the context, which they picked up
   although they do not depend on it): restated without it. *)
Lemma nth_app_last3x (M : list msg3) x : nth (length M) (M ++ [x]) dmsg3 = x.
Proof. exact (nth_app_last3 1 Nat.lt_0_1 M x). Qed.
Lemma sorted3_app_x M x : 0 < length M -> sorted3 M -> lastabs3 M <= mabs3 x -> sorted3 (M ++ [x]).
Proof. exact (sorted3_app 1 Nat.lt_0_1 M x). Qed.
Lemma sorted3_last_x M i : sorted3 M -> i < length M -> mabs3 (nth i M dmsg3) <= lastabs3 M.
Proof. exact (sorted3_last 1 Nat.lt_0_1 M i). Qed.
Lemma lastabs3_app_x M x : lastabs3 (M ++ [x]) = mabs3 x.
Proof. exact (lastabs3_app 1 Nat.lt_0_1 M x). Qed.
Lemma pick_bounds3x lo n j : lo < n -> lo <= pick lo n j /\ pick lo n j < n.
Proof. exact (pick_bounds 1 Nat.lt_0_1 lo n j). Qed.

(* [lastabs3] is the absolute position of the last message: RA3x.v's [publishedP3] / [publishedW3] / [publishedC3]. *)
Lemma lastabs3_last (M : list msg3) : lastabs3 M = mabs3 (last M dmsg3).
Proof.
  unfold lastabs3. f_equal.
  induction M as [|x M IH]; [reflexivity|].
  destruct M as [|y M]; [reflexivity|].
  simpl length in *.
  replace (S (S (length M)) - 1) with (S (length M)) by lia.
  replace (S (length M) - 1) with (length M) in IH by lia.
  change (nth (S (length M)) (x :: y :: M) dmsg3) with (nth (length M) (y :: M) dmsg3).
  rewrite IH. reflexivity.
Qed.

Ltac splits := repeat match goal with |- _ /\ _ => split end.

Section Inv3x.
Variable len : nat.
Hypothesis Hlen : 0 < len.

Definition mtx3 (c : cfg3x) (k : nat) : meta3 := nth k (metas3 c) dmeta3.

Definition view_ok3x (c : cfg3x) (v : view3) : Prop :=
  vpi3 v < length (Mpi3 c) /\ vwi3 v < length (Mwi3 c) /\ vci3 v < length (Mci3 c) /\
  wP3 v <= pos3 (P3 c) /\ wW3 v <= pos3 (W3 c) /\ wC3 v <= pos3 (C3 c) /\
  mabs3 (nth (vpi3 v) (Mpi3 c) dmsg3) <= wP3 v /\
  mabs3 (nth (vwi3 v) (Mwi3 c) dmsg3) <= wW3 v /\
  mabs3 (nth (vci3 v) (Mci3 c) dmsg3) <= wC3 v /\
  wC3 v <= wW3 v /\ wW3 v <= wP3 v /\ wP3 v + 1 <= wC3 v + len /\
  (forall k, k < len -> wcover (mtx3 c k) v) /\
  (forall k, k < len -> rpos3 (mtx3 c k) < wC3 v -> rclk3 (mtx3 c k) <= kc3 v).

Definition msg_ok3x (c : cfg3x) (m : msg3) : Prop :=
  mval3 m = mabs3 m mod len /\ view_ok3x c (mview3 m).

Definition seenP3x (c : cfg3x) := mabs3 (nth (vci3 (V3 (P3 c))) (Mci3 c) dmsg3).
Definition seenW3x (c : cfg3x) := mabs3 (nth (vpi3 (V3 (W3 c))) (Mpi3 c) dmsg3).
Definition seenC3x (c : cfg3x) := mabs3 (nth (vwi3 (V3 (C3 c))) (Mwi3 c) dmsg3).

(* pc 0: no window; pc 2: window granted, [off] slots done, more to do; pc 3: window done, index not yet moved *)
Definition pc_okx (t : thr3x) : Prop :=
  (pc3 t = 0 /\ off3 t = 0) \/
  (pc3 t = 2 /\ off3 t < cnt3 t /\ cnt3 t <= ca3 t) \/
  (pc3 t = 3 /\ off3 t = cnt3 t /\ cnt3 t <= ca3 t).

(* W and C may also be between the load and the store of a reset (pc 5): the loaded position [npos] is not
   behind the local position, not ahead of what the thread has seen of the index it follows *)
Definition pc_okr (t : thr3x) (seen : nat) : Prop :=
  pc_okx t \/
  (pc3 t = 5 /\ off3 t = 0 /\ pos3 t <= npos3 t /\ npos3 t <= seen /\ nix3 t = npos3 t mod len).

(* every recorded slot access sits strictly below the frontier [pos + off] of the accessing thread *)
Definition slot_okx (c : cfg3x) (k : nat) : Prop :=
  wpos3 (mtx3 c k) mod len = k /\ rpos3 (mtx3 c k) mod len = k /\
  (wt (mtx3 c k) = TP ->
     wpos3 (mtx3 c k) < pos3 (P3 c) + off3 (P3 c) /\ wclk3 (mtx3 c k) <= kp3 (V3 (P3 c))) /\
  (wt (mtx3 c k) = TW ->
     wpos3 (mtx3 c k) < pos3 (W3 c) + off3 (W3 c) /\ wclk3 (mtx3 c k) <= kw3 (V3 (W3 c))) /\
  rpos3 (mtx3 c k) < pos3 (C3 c) + off3 (C3 c) /\ rclk3 (mtx3 c k) <= kc3 (V3 (C3 c)).

Record Inv3x (c : cfg3x) : Prop := mkInv3x {
  x_metas : length (metas3 c) = len;
  x_npi : 0 < length (Mpi3 c); x_nwi : 0 < length (Mwi3 c); x_nci : 0 < length (Mci3 c);
  x_spi : sorted3 (Mpi3 c); x_swi : sorted3 (Mwi3 c); x_sci : sorted3 (Mci3 c);
  x_lpi : lastabs3 (Mpi3 c) = pos3 (P3 c);
  x_lwi : lastabs3 (Mwi3 c) <= pos3 (W3 c);                          (* published <= local *)
  x_lci : lastabs3 (Mci3 c) <= pos3 (C3 c);
  x_attW : det3 (W3 c) = false -> lastabs3 (Mwi3 c) = pos3 (W3 c);   (* attached: equal    *)
  x_attC : det3 (C3 c) = false -> lastabs3 (Mci3 c) = pos3 (C3 c);
  x_mpi : Forall (msg_ok3x c) (Mpi3 c);
  x_mwi : Forall (msg_ok3x c) (Mwi3 c);
  x_mci : Forall (msg_ok3x c) (Mci3 c);
  x_wpi : forall i, i < length (Mpi3 c) -> mabs3 (nth i (Mpi3 c) dmsg3) <= wP3 (mview3 (nth i (Mpi3 c) dmsg3));
  x_wwi : forall i, i < length (Mwi3 c) -> mabs3 (nth i (Mwi3 c) dmsg3) <= wW3 (mview3 (nth i (Mwi3 c) dmsg3));
  x_wci : forall i, i < length (Mci3 c) -> mabs3 (nth i (Mci3 c) dmsg3) <= wC3 (mview3 (nth i (Mci3 c) dmsg3));
  x_vP : view_ok3x c (V3 (P3 c));
  x_vW : view_ok3x c (V3 (W3 c));
  x_vC : view_ok3x c (V3 (C3 c));
  x_ixP : ix3 (P3 c) = pos3 (P3 c) mod len;
  x_ixW : ix3 (W3 c) = pos3 (W3 c) mod len;
  x_ixC : ix3 (C3 c) = pos3 (C3 c) mod len;
  x_caP : ca3 (P3 c) + pos3 (P3 c) + 1 <= seenP3x c + len;
  x_caW : ca3 (W3 c) + pos3 (W3 c) <= seenW3x c;
  x_caC : ca3 (C3 c) + pos3 (C3 c) <= seenC3x c;
  x_pcP : pc_okx (P3 c);
  x_pcW : pc_okr (W3 c) (seenW3x c);
  x_pcC : pc_okr (C3 c) (seenC3x c);
  x_slot : forall k, k < len -> slot_okx c k;
  x_race : race3 c = false
}.

(* ---- view_ok3x is stable under "growth" of the configuration ---- *)
Definition grows3x (c c' : cfg3x) : Prop :=
  (exists xs, Mpi3 c' = Mpi3 c ++ xs) /\ (exists xs, Mwi3 c' = Mwi3 c ++ xs) /\ (exists xs, Mci3 c' = Mci3 c ++ xs) /\
  pos3 (P3 c) <= pos3 (P3 c') /\ pos3 (W3 c) <= pos3 (W3 c') /\ pos3 (C3 c) <= pos3 (C3 c') /\
  (forall k, k < len ->
     mtx3 c' k = mtx3 c k \/
     (wt (mtx3 c' k) = TP /\ pos3 (P3 c) <= wpos3 (mtx3 c' k) /\
      rpos3 (mtx3 c' k) = rpos3 (mtx3 c k) /\ rclk3 (mtx3 c' k) = rclk3 (mtx3 c k)) \/
     (wt (mtx3 c' k) = TW /\ pos3 (W3 c) <= wpos3 (mtx3 c' k) /\
      rpos3 (mtx3 c' k) = rpos3 (mtx3 c k) /\ rclk3 (mtx3 c' k) = rclk3 (mtx3 c k)) \/
     (pos3 (C3 c) <= rpos3 (mtx3 c' k) /\ wt (mtx3 c' k) = wt (mtx3 c k) /\
      wpos3 (mtx3 c' k) = wpos3 (mtx3 c k) /\ wclk3 (mtx3 c' k) = wclk3 (mtx3 c k))).

Lemma view_ok3x_grows c c' v : grows3x c c' -> view_ok3x c v -> view_ok3x c' v.
Proof.
  intros (Hpi & Hwi & Hci & HpP & HpW & HpC & Hm) (H1&H2&H3&H4&H5&H6&H7&H8&H9&H10&H11&H12&H13&H14).
  destruct Hpi as [xs Hpi]. destruct Hwi as [ys Hwi]. destruct Hci as [zs Hci].
  unfold view_ok3x. rewrite Hpi, Hwi, Hci, !app_length.
  splits; try lia.
  - rewrite app_nth1 by lia; auto.
  - rewrite app_nth1 by lia; auto.
  - rewrite app_nth1 by lia; auto.
  - intros k Hk. specialize (H13 k Hk). unfold wcover in *.
    destruct (Hm k Hk) as [E|[(E0&E1&E2&E3)|[(E0&E1&E2&E3)|(E1&E0&E2&E3)]]].
    + rewrite E; auto.
    + rewrite E0. intros Hw; lia.
    + rewrite E0. intros Hw; lia.
    + rewrite E0, E2, E3. auto.
  - intros k Hk Hw. specialize (H14 k Hk).
    destruct (Hm k Hk) as [E|[(E0&E1&E2&E3)|[(E0&E1&E2&E3)|(E1&E0&E2&E3)]]].
    + rewrite E in *; auto.
    + rewrite E2, E3 in *; auto.
    + rewrite E2, E3 in *; auto.
    + lia.
Qed.

Lemma msgs_ok3x_grows c c' M : grows3x c c' -> Forall (msg_ok3x c) M -> Forall (msg_ok3x c') M.
Proof.
  intros G F. eapply Forall_impl; [|exact F].
  intros m [A B]; split; auto. eapply view_ok3x_grows; eauto.
Qed.

(* acquiring the view [mv] of a message: indices [a b c0] are the new coherence points *)
Lemma view_ok3x_acq c v mv a b c0 :
  view_ok3x c v -> view_ok3x c mv ->
  a < length (Mpi3 c) -> b < length (Mwi3 c) -> c0 < length (Mci3 c) ->
  mabs3 (nth a (Mpi3 c) dmsg3) <= Nat.max (wP3 v) (wP3 mv) ->
  mabs3 (nth b (Mwi3 c) dmsg3) <= Nat.max (wW3 v) (wW3 mv) ->
  mabs3 (nth c0 (Mci3 c) dmsg3) <= Nat.max (wC3 v) (wC3 mv) ->
  view_ok3x c (vjoin3 (mkV3 a b c0 (kp3 v) (kw3 v) (kc3 v) (wP3 v) (wW3 v) (wC3 v)) mv).
Proof.
  intros (A1&A2&A3&A4&A5&A6&A7&A8&A9&A10&A11&A12&A13&A14) (B1&B2&B3&B4&B5&B6&B7&B8&B9&B10&B11&B12&B13&B14)
         Ha Hb Hc Ma Mb Mc.
  unfold view_ok3x, vjoin3; simpl. splits; try lia.
  - destruct (Nat.max_spec a (vpi3 mv)) as [[_ ->]|[_ ->]]; lia.
  - destruct (Nat.max_spec b (vwi3 mv)) as [[_ ->]|[_ ->]]; lia.
  - destruct (Nat.max_spec c0 (vci3 mv)) as [[_ ->]|[_ ->]]; lia.
  - intros k Hk. specialize (A13 k Hk). specialize (B13 k Hk). unfold wcover in *; simpl.
    destruct (wt (mtx3 c k)); auto; intros Hw.
    + destruct (Nat.max_spec (wP3 v) (wP3 mv)) as [[_ E]|[_ E]]; rewrite E in Hw;
      [specialize (B13 Hw) | specialize (A13 Hw)]; lia.
    + destruct (Nat.max_spec (wW3 v) (wW3 mv)) as [[_ E]|[_ E]]; rewrite E in Hw;
      [specialize (B13 Hw) | specialize (A13 Hw)]; lia.
  - intros k Hk Hw.
    destruct (Nat.max_spec (wC3 v) (wC3 mv)) as [[_ E]|[_ E]]; rewrite E in Hw.
    + specialize (B14 k Hk Hw); lia.
    + specialize (A14 k Hk Hw); lia.
Qed.

Lemma off_le_ca_x t : pc_okx t -> off3 t <= ca3 t.
Proof. intros [[_ X]|[(_&X&Y)|(_&X&Y)]]; lia. Qed.
Lemma off_le_ca_r t s : pc_okr t s -> off3 t <= ca3 t.
Proof. intros [H|(_&X&_)]; [apply off_le_ca_x; auto | lia]. Qed.

(* Order of the three stages - through the PUBLISHED positions; the frontier of a thread never passes what it
   has seen of the index it follows; the remembered availability never exceeds the capacity len - 1. *)
Lemma order3x c : Inv3x c ->
  pos3 (C3 c) <= pos3 (W3 c) /\ pos3 (W3 c) <= pos3 (P3 c) /\ pos3 (P3 c) + 1 <= pos3 (C3 c) + len /\
  pos3 (C3 c) + off3 (C3 c) <= lastabs3 (Mwi3 c) /\
  pos3 (W3 c) + off3 (W3 c) <= pos3 (P3 c) /\
  pos3 (P3 c) + off3 (P3 c) + 1 <= lastabs3 (Mci3 c) + len /\
  ca3 (P3 c) + 1 <= len /\ ca3 (W3 c) + 1 <= len /\ ca3 (C3 c) + 1 <= len.
Proof.
  intros I.
  pose proof (x_caP c I) as HcaP. pose proof (x_caW c I) as HcaW. pose proof (x_caC c I) as HcaC.
  pose proof (x_lpi c I) as Hlpi. pose proof (x_lwi c I) as Hlwi. pose proof (x_lci c I) as Hlci.
  destruct (x_vP c I) as (_&_&A&_). destruct (x_vW c I) as (B&_). destruct (x_vC c I) as (_&C&_).
  pose proof (sorted3_last_x _ _ (x_sci c I) A) as HsP.
  pose proof (sorted3_last_x _ _ (x_spi c I) B) as HsW.
  pose proof (sorted3_last_x _ _ (x_swi c I) C) as HsC.
  pose proof (off_le_ca_x _ (x_pcP c I)) as HoP.
  pose proof (off_le_ca_r _ _ (x_pcW c I)) as HoW.
  pose proof (off_le_ca_r _ _ (x_pcC c I)) as HoC.
  unfold seenP3x, seenW3x, seenC3x in *. lia.
Qed.

Ltac inv3x_fields I :=
  pose proof (x_metas _ I) as Hmetas;
  pose proof (x_npi _ I) as Hnpi; pose proof (x_nwi _ I) as Hnwi; pose proof (x_nci _ I) as Hnci;
  pose proof (x_spi _ I) as Hspi; pose proof (x_swi _ I) as Hswi; pose proof (x_sci _ I) as Hsci;
  pose proof (x_lpi _ I) as Hlpi; pose proof (x_lwi _ I) as Hlwi; pose proof (x_lci _ I) as Hlci;
  pose proof (x_attW _ I) as HattW; pose proof (x_attC _ I) as HattC;
  pose proof (x_mpi _ I) as Hmpi; pose proof (x_mwi _ I) as Hmwi; pose proof (x_mci _ I) as Hmci;
  pose proof (x_wpi _ I) as Hwpi; pose proof (x_wwi _ I) as Hwwi; pose proof (x_wci _ I) as Hwci;
  pose proof (x_vP _ I) as HvP; pose proof (x_vW _ I) as HvW; pose proof (x_vC _ I) as HvC;
  pose proof (x_ixP _ I) as HixP; pose proof (x_ixW _ I) as HixW; pose proof (x_ixC _ I) as HixC;
  pose proof (x_caP _ I) as HcaP; pose proof (x_caW _ I) as HcaW; pose proof (x_caC _ I) as HcaC;
  pose proof (x_pcP _ I) as HpcP; pose proof (x_pcW _ I) as HpcW; pose proof (x_pcC _ I) as HpcC;
  pose proof (x_slot _ I) as Hslot; pose proof (x_race _ I) as Hrace;
  pose proof (order3x _ I) as (Hcw & Hwp & Hpc & HfC & HfW & HfP & HcapP & HcapW & HcapC).

(* a step that only changes thread-local control state of one thread (not its frontier) keeps the slots fine *)
Lemma slot_okx_pcP c k t' : slot_okx c k ->
  pos3 (P3 c) + off3 (P3 c) <= pos3 t' + off3 t' -> kp3 (V3 (P3 c)) <= kp3 (V3 t') ->
  slot_okx (mkC3x (Mpi3 c) (Mwi3 c) (Mci3 c) (metas3 c) t' (W3 c) (C3 c) (race3 c)) k.
Proof.
  unfold slot_okx, mtx3; simpl. intros (S1&S2&S3&S4&S5&S6) Hpos Hk.
  splits; auto. intros E. destruct (S3 E) as (T1&T2). split; lia.
Qed.
Lemma slot_okx_pcW c k t' : slot_okx c k ->
  pos3 (W3 c) + off3 (W3 c) <= pos3 t' + off3 t' -> kw3 (V3 (W3 c)) <= kw3 (V3 t') ->
  slot_okx (mkC3x (Mpi3 c) (Mwi3 c) (Mci3 c) (metas3 c) (P3 c) t' (C3 c) (race3 c)) k.
Proof.
  unfold slot_okx, mtx3; simpl. intros (S1&S2&S3&S4&S5&S6) Hpos Hk.
  splits; auto. intros E. destruct (S4 E) as (T1&T2). split; lia.
Qed.
Lemma slot_okx_pcC c k t' : slot_okx c k ->
  pos3 (C3 c) + off3 (C3 c) <= pos3 t' + off3 t' -> kc3 (V3 (C3 c)) <= kc3 (V3 t') ->
  slot_okx (mkC3x (Mpi3 c) (Mwi3 c) (Mci3 c) (metas3 c) (P3 c) (W3 c) t' (race3 c)) k.
Proof.
  unfold slot_okx, mtx3; simpl. intros (S1&S2&S3&S4&S5&S6) Hpos Hk.
  splits; auto; lia.
Qed.

(* ======================= producer ======================= *)

(* ---------- P, pc = 0, remembered availability suffices: grant a window of n = max 1 n0 ---------- *)
Lemma P_fast_x c j n0 : Inv3x c -> pc3 (P3 c) = 0 -> Nat.max 1 n0 <= ca3 (P3 c) -> Inv3x (opP3_a true len j n0 c).
Proof.
  intros I Hpc0 Hca. inv3x_fields I.
  destruct HpcP as [[_ Hoff]|[(X&_)|(X&_)]]; try congruence.
  unfold opP3_a. rewrite Hpc0. cbv beta iota zeta.
  set (n := Nat.max 1 n0) in *. assert (Hn : 1 <= n) by (unfold n; lia). clearbody n.
  destruct (n <=? ca3 (P3 c)) eqn:E; [|apply Nat.leb_gt in E; lia].
  unfold t_grant.
  constructor; simpl; auto.
  - right; left; simpl. splits; auto; lia.
  - intros k Hk. apply slot_okx_pcP; simpl; auto; lia.
Qed.

(* ---------- P, pc = 0, must look at the consumer's index (acquire load, any admissible message) ---------- *)
Lemma P_load_x c j n0 : Inv3x c -> pc3 (P3 c) = 0 -> ca3 (P3 c) < Nat.max 1 n0 -> Inv3x (opP3_a true len j n0 c).
Proof.
  intros I Hpc0 Hca. inv3x_fields I.
  destruct HpcP as [[_ Hoff]|[(X&_)|(X&_)]]; try congruence.
  unfold opP3_a. rewrite Hpc0. cbv beta iota zeta.
  set (n := Nat.max 1 n0) in *. assert (Hn : 1 <= n) by (unfold n; lia). clearbody n.
  destruct (n <=? ca3 (P3 c)) eqn:E; [apply Nat.leb_le in E; lia|]. clear E.
  pose proof HvP as (P1&P2&P3'&P4&P5&P6&P7&P8&P9&P10&P11&P12&P13&P14).
  pose proof (pick_bounds3x (vci3 (V3 (P3 c))) (length (Mci3 c)) j P3') as [Hi1 Hi2].
  set (i := pick (vci3 (V3 (P3 c))) (length (Mci3 c)) j) in *.
  set (m := nth i (Mci3 c) dmsg3).
  pose proof (Forall_nth_msg3 _ _ i Hmci Hi2) as [Hmv Hmok]. fold m in Hmv, Hmok.
  pose proof (Hwci i Hi2) as Hmw. fold m in Hmw.
  assert (Hseen : seenP3x c <= mabs3 m) by (unfold seenP3x, m; apply Hsci; lia).
  assert (Hm : mabs3 m = mabs3 (nth i (Mci3 c) dmsg3)) by reflexivity.
  clearbody m. clearbody i.
  assert (HmC : mabs3 m <= pos3 (C3 c)).
  { apply Nat.le_trans with (lastabs3 (Mci3 c)); [rewrite Hm; apply sorted3_last_x; auto | exact Hlci]. }
  assert (Ha : pavail len (ix3 (P3 c)) (mval3 m) = len - 1 - (pos3 (P3 c) - mabs3 m)).
  { rewrite HixP, Hmv. apply pavail_mod; lia. }
  unfold t_load.
  set (v1 := vjoin3 _ (mview3 m)).
  assert (Hv1 : view_ok3x c v1).
  { apply view_ok3x_acq; auto; try lia. }
  constructor; simpl; auto.
  - unfold seenP3x; simpl. rewrite Ha.
    assert (mabs3 m <= mabs3 (nth (Nat.max i (vci3 (mview3 m))) (Mci3 c) dmsg3))
      by (rewrite Hm; apply Hsci; destruct Hmok as (_&_&Q&_); lia).
    lia.
  - unfold pc_okx; simpl.
    destruct (n <=? pavail len (ix3 (P3 c)) (mval3 m)) eqn:E;
      [apply Nat.leb_le in E; right; left; splits; auto; lia | left; auto].
  - intros k Hk. apply slot_okx_pcP; simpl; auto; lia.
Qed.

(* ---------- P, pc = 2: the non-atomic write of slot (pos + off) mod len of the granted window ---------- *)
Lemma P_write_x c j n0 : Inv3x c -> pc3 (P3 c) = 2 -> Inv3x (opP3_a true len j n0 c).
Proof.
  intros I Hpc2. inv3x_fields I.
  destruct HpcP as [[X _]|[(_&Hoff&Hcnt)|(X&_)]]; try congruence.
  unfold opP3_a. rewrite Hpc2. cbv beta iota zeta. unfold t_slot.
  pose proof HvP as (P1&P2&P3'&P4&P5&P6&P7&P8&P9&P10&P11&P12&P13&P14).
  assert (Hk0 : wadd len (ix3 (P3 c)) (off3 (P3 c)) = (pos3 (P3 c) + off3 (P3 c)) mod len)
    by (rewrite HixP; apply wadd_mod; lia).
  set (k0 := wadd len (ix3 (P3 c)) (off3 (P3 c))) in *.
  set (q := pos3 (P3 c) + off3 (P3 c)) in *.
  assert (Hk : k0 < len) by (rewrite Hk0; apply Nat.mod_upper_bound; lia).
  destruct (Hslot _ Hk) as (S1&S2&S3&S4&S5&S6).
  fold (mtx3 c k0).
  assert (HseenP : q + 2 <= wC3 (V3 (P3 c)) + len) by (unfold seenP3x in HcaP; lia).
  (* the consumer's last read of this slot is one lap (or more) below, and covered by the producer's view *)
  assert (Hr : rpos3 (mtx3 c k0) + len <= q).
  { apply (congr_le len);
      [exact Hlen | rewrite (mod_plus_len len Hlen), S2, Hk0; reflexivity | lia]. }
  assert (Hcov : rclk3 (mtx3 c k0) <= kc3 (V3 (P3 c))) by (apply P14; auto; lia).
  (* the worker's last write of this slot (if the last writer is the worker) likewise *)
  assert (Hwc : wcov TP (mtx3 c k0) (V3 (P3 c)) = true).
  { unfold wcov. destruct (wt (mtx3 c k0)) eqn:Ew; auto.
    destruct (S4 eq_refl) as (T1&T2).
    assert (Hw : wpos3 (mtx3 c k0) + len <= q).
    { apply (congr_le len);
        [exact Hlen | rewrite (mod_plus_len len Hlen), S1, Hk0; reflexivity | lia]. }
    apply Nat.leb_le. specialize (P13 _ Hk). unfold wcover in P13. rewrite Ew in P13.
    apply P13. lia. }
  assert (Hb : negb (wcov TP (mtx3 c k0) (V3 (P3 c))) || negb (rclk3 (mtx3 c k0) <=? kc3 (V3 (P3 c))) = false).
  { rewrite Hwc. simpl. apply negb_false_iff, Nat.leb_le; auto. }
  rewrite Hb, orb_false_r.
  set (c' := mkC3x _ _ _ _ _ _ _ _).
  assert (Hmt : forall k, k < len -> k <> k0 -> mtx3 c' k = mtx3 c k)
    by (intros; unfold mtx3, c'; simpl; apply nth_upd_neq; auto).
  assert (Hmt0 : mtx3 c' k0 = mkMeta3 TP q (kp3 (V3 (P3 c))) (rpos3 (mtx3 c k0)) (rclk3 (mtx3 c k0)))
    by (unfold mtx3, c'; simpl; apply nth_upd_eq; lia).
  assert (G : grows3x c c').
  { unfold grows3x; splits; simpl; try (exists []; rewrite app_nil_r; reflexivity); try lia.
    intros k Hk'. destruct (Nat.eq_dec k k0) as [->|Hne].
    - right; left. rewrite Hmt0; simpl; splits; auto; lia.
    - left; auto. }
  constructor; simpl; auto.
  - rewrite upd_length; auto.
  - apply (msgs_ok3x_grows c c' _ G Hmpi).
  - apply (msgs_ok3x_grows c c' _ G Hmwi).
  - apply (msgs_ok3x_grows c c' _ G Hmci).
  - apply (view_ok3x_grows c c' _ G HvP).
  - apply (view_ok3x_grows c c' _ G HvW).
  - apply (view_ok3x_grows c c' _ G HvC).
  - unfold pc_okx; simpl.
    destruct (cnt3 (P3 c) <=? off3 (P3 c) + 1) eqn:E; [apply Nat.leb_le in E | apply Nat.leb_gt in E].
    + right; right; splits; auto; lia.
    + right; left; splits; auto; lia.
  - intros k Hk'. unfold slot_okx. destruct (Nat.eq_dec k k0) as [->|Hne].
    + rewrite Hmt0; simpl. splits; auto; try lia; intros E; discriminate E.
    + rewrite (Hmt k Hk' Hne). destruct (Hslot k Hk') as (T1&T2&T3&T4&T5&T6).
      unfold c'; simpl. splits; auto.
      intros E. destruct (T3 E) as (U1&U2). split; [lia|auto].
Qed.

(* ---------- P, pc = 3: advance by cnt + release store of the new index ---------- *)
Lemma P_store_x c j n0 : Inv3x c -> pc3 (P3 c) = 3 -> Inv3x (opP3_a true len j n0 c).
Proof.
  intros I Hpc3. inv3x_fields I.
  destruct HpcP as [[X _]|[(X&_)|(_&Hoff&Hcnt)]]; try congruence.
  unfold opP3_a. rewrite Hpc3. cbv beta iota zeta. unfold t_end.
  pose proof HvP as (P1&P2&P3'&P4&P5&P6&P7&P8&P9&P10&P11&P12&P13&P14).
  assert (Hix' : wadd len (ix3 (P3 c)) (cnt3 (P3 c)) = (pos3 (P3 c) + cnt3 (P3 c)) mod len)
    by (rewrite HixP; apply wadd_mod; lia).
  set (p' := pos3 (P3 c) + cnt3 (P3 c)) in *.
  set (v1 := mkV3 (length (Mpi3 c)) _ _ _ _ _ p' _ _).
  set (m := mkM3 _ _ v1).
  set (c' := mkC3x _ _ _ _ _ _ _ _).
  assert (G : grows3x c c').
  { unfold grows3x; splits; simpl; try lia; try (exists []; rewrite app_nil_r; reflexivity).
    - exists [m]; reflexivity.
    - intros; left; reflexivity. }
  assert (Hnth : forall i, i < length (Mpi3 c) -> nth i (Mpi3 c ++ [m]) dmsg3 = nth i (Mpi3 c) dmsg3)
    by (intros; apply nth_app_l3; auto).
  assert (HseenP : p' + 1 <= wC3 (V3 (P3 c)) + len) by (unfold seenP3x in HcaP; lia).
  assert (HsW : seenW3x c' = seenW3x c).
  { unfold seenW3x, c'; simpl. destruct HvW as (C1&_). rewrite Hnth by auto. reflexivity. }
  assert (Hv1 : view_ok3x c' v1).
  { unfold view_ok3x, v1, c'; simpl. rewrite app_length; simpl. splits; try lia.
    - rewrite nth_app_last3x; simpl; lia.
    - intros k Hk. unfold wcover. destruct (Hslot k Hk) as (_&_&S3&S4&_).
      specialize (P13 k Hk). unfold wcover in P13. unfold mtx3 in *; simpl.
      destruct (wt (nth k (metas3 c) dmeta3)) eqn:Ew; auto.
      intros _. destruct (S3 eq_refl) as (_&T). exact T.
    - intros k Hk Hw. apply P14; auto. }
  constructor; simpl; auto.
  - rewrite app_length; simpl; lia.
  - apply sorted3_app_x; auto. simpl. lia.
  - rewrite lastabs3_app_x; reflexivity.
  - apply Forall_app1.
    + apply (msgs_ok3x_grows c c' _ G Hmpi).
    + split; simpl; auto.
  - apply (msgs_ok3x_grows c c' _ G Hmwi).
  - apply (msgs_ok3x_grows c c' _ G Hmci).
  - intros i Hi. rewrite app_length in Hi; simpl in Hi.
    destruct (Nat.eq_dec i (length (Mpi3 c))) as [->|Hne].
    + rewrite nth_app_last3x; simpl; lia.
    + rewrite Hnth by lia. apply Hwpi; lia.
  - destruct Hv1 as (A1&A2&A3&A4&A5&A6&A7&A8&A9&A10&A11&A12&A13&A14). unfold view_ok3x; simpl. splits; auto.
    intros k Hk. specialize (A13 k Hk). unfold wcover in *; simpl in *.
    destruct (wt (mtx3 c' k)); auto; intros Hw; specialize (A13 Hw); lia.
  - apply (view_ok3x_grows c c' _ G HvW).
  - apply (view_ok3x_grows c c' _ G HvC).
  - unfold seenP3x in *; simpl. lia.
  - change (ca3 (W3 c) + pos3 (W3 c) <= seenW3x c'). rewrite HsW; auto.
  - left; simpl; auto.
  - change (pc_okr (W3 c) (seenW3x c')). rewrite HsW; auto.
  - intros k Hk. destruct (Hslot k Hk) as (S1&S2&S3&S4&S5&S6).
    unfold slot_okx, mtx3 in *; simpl. splits; auto.
    intros E. destruct (S3 E) as (U1&U2). split; lia.
Qed.

(* ======================= worker ======================= *)
Lemma W_fast_x c j n0 : Inv3x c -> pc3 (W3 c) = 0 -> Nat.max 1 n0 <= ca3 (W3 c) -> Inv3x (opW3_a true len j n0 c).
Proof.
  intros I Hpc0 Hca. inv3x_fields I.
  destruct HpcW as [[[_ Hoff]|[(X&_)|(X&_)]]|(X&_)]; try congruence.
  unfold opW3_a. rewrite Hpc0. cbv beta iota zeta.
  set (n := Nat.max 1 n0) in *. assert (Hn : 1 <= n) by (unfold n; lia). clearbody n.
  destruct (n <=? ca3 (W3 c)) eqn:E; [|apply Nat.leb_gt in E; lia].
  unfold t_grant.
  constructor; simpl; auto.
  - left; right; left; simpl. splits; auto; lia.
  - intros k Hk. apply slot_okx_pcW; simpl; auto; lia.
Qed.

(* The acquire load of the producer's index by the worker (message i, at or after the worker's view): used by
   the load of an operation and by the load of a reset. *)
Lemma W_acq c i :
  Inv3x c -> vpi3 (V3 (W3 c)) <= i -> i < length (Mpi3 c) ->
  let m := nth i (Mpi3 c) dmsg3 in
  let v0 := V3 (W3 c) in
  let v1 := vjoin3 (mkV3 i (vwi3 v0) (vci3 v0) (kp3 v0) (kw3 v0) (kc3 v0) (wP3 v0) (wW3 v0) (wC3 v0)) (mview3 m) in
  view_ok3x c v1 /\ mval3 m = mabs3 m mod len /\ seenW3x c <= mabs3 m /\ mabs3 m <= pos3 (P3 c) /\
  mabs3 m <= mabs3 (nth (vpi3 v1) (Mpi3 c) dmsg3) /\ kw3 v0 <= kw3 v1.
Proof.
  intros I Hi1 Hi2 m v0 v1. inv3x_fields I.
  pose proof HvW as (P1&P2&P3'&P4&P5&P6&P7&P8&P9&P10&P11&P12&P13&P14).
  pose proof (Forall_nth_msg3 _ _ i Hmpi Hi2) as [Hmv Hmok]. fold m in Hmv, Hmok.
  pose proof (Hwpi i Hi2) as Hmw. fold m in Hmw.
  assert (Hseen : seenW3x c <= mabs3 m) by (unfold seenW3x, m; apply Hspi; lia).
  assert (Hm : mabs3 m = mabs3 (nth i (Mpi3 c) dmsg3)) by reflexivity.
  assert (HmP : mabs3 m <= pos3 (P3 c)) by (rewrite <- Hlpi, Hm; apply sorted3_last_x; auto).
  splits; auto.
  - unfold v1, v0. apply view_ok3x_acq; auto; fold m; lia.
  - unfold v1, vjoin3; simpl. rewrite Hm. apply Hspi; destruct Hmok as (Q&_); lia.
  - unfold v1, vjoin3; simpl. lia.
Qed.

(* ---------- W, pc = 0, must look at the producer's index (acquire load, any admissible message) ---------- *)
Lemma W_load_x c j n0 : Inv3x c -> pc3 (W3 c) = 0 -> ca3 (W3 c) < Nat.max 1 n0 -> Inv3x (opW3_a true len j n0 c).
Proof.
  intros I Hpc0 Hca. inv3x_fields I.
  destruct HpcW as [[[_ Hoff]|[(X&_)|(X&_)]]|(X&_)]; try congruence.
  unfold opW3_a. rewrite Hpc0. cbv beta iota zeta.
  set (n := Nat.max 1 n0) in *. assert (Hn : 1 <= n) by (unfold n; lia). clearbody n.
  destruct (n <=? ca3 (W3 c)) eqn:E; [apply Nat.leb_le in E; lia|]. clear E.
  destruct HvW as (P1&_).
  pose proof (pick_bounds3x (vpi3 (V3 (W3 c))) (length (Mpi3 c)) j P1) as [Hi1 Hi2].
  set (i := pick (vpi3 (V3 (W3 c))) (length (Mpi3 c)) j) in *. clearbody i.
  destruct (W_acq c i I Hi1 Hi2) as (Hv1 & Hmv & Hseen & HmP & Hmono & Hkw).
  set (m := nth i (Mpi3 c) dmsg3) in *. clearbody m.
  assert (Ha : dist len (ix3 (W3 c)) (mval3 m) = mabs3 m - pos3 (W3 c)).
  { rewrite HixW, Hmv. apply dist_mod; lia. }
  unfold t_load.
  set (v1 := vjoin3 _ (mview3 m)) in *. clearbody v1.
  constructor; simpl; auto.
  - unfold seenW3x; simpl. rewrite Ha. lia.
  - left. unfold pc_okx; simpl.
    destruct (n <=? dist len (ix3 (W3 c)) (mval3 m)) eqn:E;
      [apply Nat.leb_le in E; right; left; splits; auto; lia | left; auto].
  - intros k Hk. apply slot_okx_pcW; simpl; auto; lia.
Qed.

(* ---------- W, pc = 2: the in-place edit (read-modify-write) of slot (pos + off) mod len ---------- *)
Lemma W_write_x c j n0 : Inv3x c -> pc3 (W3 c) = 2 -> Inv3x (opW3_a true len j n0 c).
Proof.
  intros I Hpc2. inv3x_fields I.
  destruct HpcW as [[[X _]|[(_&Hoff&Hcnt)|(X&_)]]|(X&_)]; try congruence.
  unfold opW3_a. rewrite Hpc2. cbv beta iota zeta. unfold t_slot.
  pose proof HvW as (P1&P2&P3'&P4&P5&P6&P7&P8&P9&P10&P11&P12&P13&P14).
  assert (Hk0 : wadd len (ix3 (W3 c)) (off3 (W3 c)) = (pos3 (W3 c) + off3 (W3 c)) mod len)
    by (rewrite HixW; apply wadd_mod; lia).
  set (k0 := wadd len (ix3 (W3 c)) (off3 (W3 c))) in *.
  set (q := pos3 (W3 c) + off3 (W3 c)) in *.
  assert (Hk : k0 < len) by (rewrite Hk0; apply Nat.mod_upper_bound; lia).
  destruct (Hslot _ Hk) as (S1&S2&S3&S4&S5&S6).
  fold (mtx3 c k0).
  assert (HseenW : q + 1 <= wP3 (V3 (W3 c))) by (unfold seenW3x in HcaW; lia).
  (* the consumer's last read of this slot is one lap (or more) below, and covered by the worker's view *)
  assert (Hr : rpos3 (mtx3 c k0) + len <= q).
  { apply (congr_le len);
      [exact Hlen | rewrite (mod_plus_len len Hlen), S2, Hk0; reflexivity | lia]. }
  assert (Hcov : rclk3 (mtx3 c k0) <= kc3 (V3 (W3 c))) by (apply P14; auto; lia).
  (* the producer's last write of this slot is not above the position being edited, hence below the
     watermark the worker acquired *)
  assert (Hwc : wcov TW (mtx3 c k0) (V3 (W3 c)) = true).
  { unfold wcov. destruct (wt (mtx3 c k0)) eqn:Ew; auto.
    destruct (S3 eq_refl) as (T1&T2).
    assert (Hw : wpos3 (mtx3 c k0) <= q).
    { apply (congr_le len); [exact Hlen | rewrite S1, Hk0; reflexivity | lia]. }
    apply Nat.leb_le. specialize (P13 _ Hk). unfold wcover in P13. rewrite Ew in P13.
    apply P13. lia. }
  assert (Hb : negb (wcov TW (mtx3 c k0) (V3 (W3 c))) || negb (rclk3 (mtx3 c k0) <=? kc3 (V3 (W3 c))) = false).
  { rewrite Hwc. simpl. apply negb_false_iff, Nat.leb_le; auto. }
  rewrite Hb, orb_false_r.
  set (c' := mkC3x _ _ _ _ _ _ _ _).
  assert (Hmt : forall k, k < len -> k <> k0 -> mtx3 c' k = mtx3 c k)
    by (intros; unfold mtx3, c'; simpl; apply nth_upd_neq; auto).
  assert (Hmt0 : mtx3 c' k0 = mkMeta3 TW q (kw3 (V3 (W3 c))) (rpos3 (mtx3 c k0)) (rclk3 (mtx3 c k0)))
    by (unfold mtx3, c'; simpl; apply nth_upd_eq; lia).
  assert (G : grows3x c c').
  { unfold grows3x; splits; simpl; try (exists []; rewrite app_nil_r; reflexivity); try lia.
    intros k Hk'. destruct (Nat.eq_dec k k0) as [->|Hne].
    - right; right; left. rewrite Hmt0; simpl; splits; auto; lia.
    - left; auto. }
  constructor; simpl; auto.
  - rewrite upd_length; auto.
  - apply (msgs_ok3x_grows c c' _ G Hmpi).
  - apply (msgs_ok3x_grows c c' _ G Hmwi).
  - apply (msgs_ok3x_grows c c' _ G Hmci).
  - apply (view_ok3x_grows c c' _ G HvP).
  - apply (view_ok3x_grows c c' _ G HvW).
  - apply (view_ok3x_grows c c' _ G HvC).
  - left. unfold pc_okx; simpl.
    destruct (cnt3 (W3 c) <=? off3 (W3 c) + 1) eqn:E; [apply Nat.leb_le in E | apply Nat.leb_gt in E].
    + right; right; splits; auto; lia.
    + right; left; splits; auto; lia.
  - intros k Hk'. unfold slot_okx. destruct (Nat.eq_dec k k0) as [->|Hne].
    + rewrite Hmt0; simpl. splits; auto; try lia; intros E; discriminate E.
    + rewrite (Hmt k Hk' Hne). destruct (Hslot k Hk') as (T1&T2&T3&T4&T5&T6).
      unfold c'; simpl. splits; auto.
      intros E. destruct (T4 E) as (U1&U2). split; [lia|auto].
Qed.

(* ---------- W: the end of an operation WITH a release store ----------
   Used for: pc 3 attached (advance by cnt), pc 5 attached (reset: jump to the loaded position), Sync, Attach.
   Premises: the new local position p' is not behind the frontier of the worker's edits, and together with the
   new remembered availability it is not ahead of what the worker has seen of the producer's index. *)
Lemma publishW_inv c ix' p' ca' d :
  Inv3x c -> pos3 (W3 c) + off3 (W3 c) <= p' -> p' + ca' <= seenW3x c -> ix' = p' mod len ->
  Inv3x (publishW c ix' p' ca' d).
Proof.
  intros I Hp' Hca' Hix'. inv3x_fields I.
  unfold publishW. cbv beta iota zeta. unfold t_end.
  pose proof HvW as (P1&P2&P3'&P4&P5&P6&P7&P8&P9&P10&P11&P12&P13&P14).
  set (v1 := mkV3 _ (length (Mwi3 c)) _ _ _ _ _ p' _).
  set (m := mkM3 _ _ v1).
  set (c' := mkC3x _ _ _ _ _ _ _ _).
  assert (G : grows3x c c').
  { unfold grows3x; splits; simpl; try lia; try (exists []; rewrite app_nil_r; reflexivity).
    - exists [m]; reflexivity.
    - intros; left; reflexivity. }
  assert (Hnth : forall i, i < length (Mwi3 c) -> nth i (Mwi3 c ++ [m]) dmsg3 = nth i (Mwi3 c) dmsg3)
    by (intros; apply nth_app_l3; auto).
  assert (HseenW : p' <= wP3 (V3 (W3 c))) by (unfold seenW3x in Hca'; lia).
  assert (HsC : seenC3x c' = seenC3x c).
  { unfold seenC3x, c'; simpl. destruct HvC as (_&C2&_). rewrite Hnth by auto. reflexivity. }
  assert (Hv1 : view_ok3x c' v1).
  { unfold view_ok3x, v1, c'; simpl. rewrite app_length; simpl. splits; try lia.
    - rewrite nth_app_last3x; simpl; lia.
    - intros k Hk. unfold wcover. destruct (Hslot k Hk) as (_&_&S3&S4&_).
      specialize (P13 k Hk). unfold wcover in P13. unfold mtx3 in *; simpl.
      destruct (wt (nth k (metas3 c) dmeta3)) eqn:Ew; auto.
      intros _. destruct (S4 eq_refl) as (_&T). exact T.
    - intros k Hk Hw. apply P14; auto. }
  constructor; simpl; auto.
  - rewrite app_length; simpl; lia.
  - apply sorted3_app_x; auto. simpl. lia.
  - rewrite lastabs3_app_x; simpl; lia.
  - intros _. rewrite lastabs3_app_x; reflexivity.
  - apply (msgs_ok3x_grows c c' _ G Hmpi).
  - apply Forall_app1.
    + apply (msgs_ok3x_grows c c' _ G Hmwi).
    + split; simpl; auto.
  - apply (msgs_ok3x_grows c c' _ G Hmci).
  - intros i Hi. rewrite app_length in Hi; simpl in Hi.
    destruct (Nat.eq_dec i (length (Mwi3 c))) as [->|Hne].
    + rewrite nth_app_last3x; simpl; lia.
    + rewrite Hnth by lia. apply Hwwi; lia.
  - apply (view_ok3x_grows c c' _ G HvP).
  - destruct Hv1 as (A1&A2&A3&A4&A5&A6&A7&A8&A9&A10&A11&A12&A13&A14). unfold view_ok3x; simpl. splits; auto.
    intros k Hk. specialize (A13 k Hk). unfold wcover in *; simpl in *.
    destruct (wt (mtx3 c' k)); auto; intros Hw; specialize (A13 Hw); lia.
  - apply (view_ok3x_grows c c' _ G HvC).
  - unfold seenW3x in *; simpl. lia.
  - change (ca3 (C3 c) + pos3 (C3 c) <= seenC3x c'). rewrite HsC; auto.
  - left; left; simpl; auto.
  - change (pc_okr (C3 c) (seenC3x c')). rewrite HsC; auto.
  - intros k Hk. destruct (Hslot k Hk) as (S1&S2&S3&S4&S5&S6).
    unfold slot_okx, mtx3 in *; simpl. splits; auto.
    intros E. destruct (S4 E) as (U1&U2). split; lia.
Qed.

(* ---------- W detached: the end of an operation WITHOUT a store (only the local index moves) ---------- *)
Lemma localW_inv c ix' p' ca' :
  Inv3x c -> det3 (W3 c) = true -> pos3 (W3 c) + off3 (W3 c) <= p' -> p' + ca' <= seenW3x c -> ix' = p' mod len ->
  Inv3x (localW c ix' p' ca').
Proof.
  intros I Hdet Hp' Hca' Hix'. inv3x_fields I.
  unfold localW. cbv beta iota zeta. unfold t_end.
  set (c' := mkC3x _ _ _ _ _ _ _ _).
  assert (G : grows3x c c').
  { unfold grows3x; splits; simpl; try lia; try (exists []; rewrite app_nil_r; reflexivity).
    intros; left; reflexivity. }
  constructor; simpl; auto.
  - lia.
  - rewrite Hdet; discriminate.
  - apply (msgs_ok3x_grows c c' _ G Hmpi).
  - apply (msgs_ok3x_grows c c' _ G Hmwi).
  - apply (msgs_ok3x_grows c c' _ G Hmci).
  - apply (view_ok3x_grows c c' _ G HvP).
  - apply (view_ok3x_grows c c' _ G HvW).
  - apply (view_ok3x_grows c c' _ G HvC).
  - unfold seenW3x in *; simpl. lia.
  - left; left; simpl; auto.
  - intros k Hk. apply slot_okx_pcW; simpl; auto; lia.
Qed.

Lemma finishW_inv c ix' p' ca' :
  Inv3x c -> pos3 (W3 c) + off3 (W3 c) <= p' -> p' + ca' <= seenW3x c -> ix' = p' mod len ->
  Inv3x (finishW c ix' p' ca').
Proof.
  intros I Hp' Hca' Hix'. unfold finishW.
  destruct (det3 (W3 c)) eqn:Hdet.
  - apply localW_inv; auto.
  - apply publishW_inv; auto.
Qed.

(* ---------- W, pc = 3: advance by cnt (published when attached, local when detached) ---------- *)
Lemma W_store_x c j n0 : Inv3x c -> pc3 (W3 c) = 3 -> Inv3x (opW3_a true len j n0 c).
Proof.
  intros I Hpc3. inv3x_fields I.
  destruct HpcW as [[[X _]|[(X&_)|(_&Hoff&Hcnt)]]|(X&_)]; try congruence.
  unfold opW3_a. rewrite Hpc3. cbv beta iota zeta.
  apply finishW_inv; auto; try lia.
  rewrite HixW; apply wadd_mod; lia.
Qed.

(* ---------- W, pc = 5: the store of reset_index: jump to the loaded position ---------- *)
Lemma W_rstore_x c j n0 : Inv3x c -> pc3 (W3 c) = 5 -> Inv3x (opW3_a true len j n0 c).
Proof.
  intros I Hpc5. inv3x_fields I.
  destruct HpcW as [[[X _]|[(X&_)|(X&_)]]|(_&Hoff&Hge&Hle&Hnix)]; try congruence.
  unfold opW3_a. rewrite Hpc5. cbv beta iota zeta.
  apply finishW_inv; auto; lia.
Qed.

(* ---------- W, pc = 0, Reset: the load of reset_index (acquire, any admissible message) ----------
   The message read is at or after the worker's view, and everything the worker was ever granted lies at or
   below the message at its view ([x_caW]): the loaded position is not behind the local position. *)
Lemma resetW_inv c j : Inv3x c -> pc3 (W3 c) = 0 -> Inv3x (resetW_a true j c).
Proof.
  intros I Hpc0. inv3x_fields I.
  destruct HpcW as [[[_ Hoff]|[(X&_)|(X&_)]]|(X&_)]; try congruence.
  unfold resetW_a. cbv beta iota zeta.
  destruct HvW as (P1&_).
  pose proof (pick_bounds3x (vpi3 (V3 (W3 c))) (length (Mpi3 c)) j P1) as [Hi1 Hi2].
  set (i := pick (vpi3 (V3 (W3 c))) (length (Mpi3 c)) j) in *. clearbody i.
  destruct (W_acq c i I Hi1 Hi2) as (Hv1 & Hmv & Hseen & HmP & Hmono & Hkw).
  set (m := nth i (Mpi3 c) dmsg3) in *. clearbody m.
  unfold t_reset.
  set (v1 := vjoin3 _ (mview3 m)) in *. clearbody v1.
  constructor; simpl; auto.
  - unfold seenW3x in *; simpl. lia.
  - right; unfold seenW3x in *; simpl. splits; auto; lia.
  - intros k Hk. apply slot_okx_pcW; simpl; auto; lia.
Qed.

(* ---------- W, pc = 0, Detach ---------- *)
Lemma detachW_inv c : Inv3x c -> pc3 (W3 c) = 0 -> Inv3x (detachW c).
Proof.
  intros I Hpc0. inv3x_fields I.
  destruct HpcW as [[[_ Hoff]|[(X&_)|(X&_)]]|(X&_)]; try congruence.
  unfold detachW, t_detach.
  constructor; simpl; auto.
  - discriminate.
  - left; left; simpl; auto.
Qed.

(* ---------- W, pc = 0, Sync / Attach: publish the current local position ---------- *)
Lemma syncW_inv c d :
  Inv3x c -> pc3 (W3 c) = 0 -> Inv3x (publishW c (ix3 (W3 c)) (pos3 (W3 c)) (ca3 (W3 c)) d).
Proof.
  intros I Hpc0. inv3x_fields I.
  destruct HpcW as [[[_ Hoff]|[(X&_)|(X&_)]]|(X&_)]; try congruence.
  apply publishW_inv; auto; lia.
Qed.

(* ======================= consumer ======================= *)
Lemma C_fast_x c j n0 : Inv3x c -> pc3 (C3 c) = 0 -> Nat.max 1 n0 <= ca3 (C3 c) -> Inv3x (opC3_a true len j n0 c).
Proof.
  intros I Hpc0 Hca. inv3x_fields I.
  destruct HpcC as [[[_ Hoff]|[(X&_)|(X&_)]]|(X&_)]; try congruence.
  unfold opC3_a. rewrite Hpc0. cbv beta iota zeta.
  set (n := Nat.max 1 n0) in *. assert (Hn : 1 <= n) by (unfold n; lia). clearbody n.
  destruct (n <=? ca3 (C3 c)) eqn:E; [|apply Nat.leb_gt in E; lia].
  unfold t_grant.
  constructor; simpl; auto.
  - left; right; left; simpl. splits; auto; lia.
  - intros k Hk. apply slot_okx_pcC; simpl; auto; lia.
Qed.

(* The acquire load of the worker's index by the consumer (message i, at or after the consumer's view): used
   by the load of an operation and by the load of a reset.  The message carries a PUBLISHED worker position. *)
Lemma C_acq c i :
  Inv3x c -> vwi3 (V3 (C3 c)) <= i -> i < length (Mwi3 c) ->
  let m := nth i (Mwi3 c) dmsg3 in
  let v0 := V3 (C3 c) in
  let v1 := vjoin3 (mkV3 (vpi3 v0) i (vci3 v0) (kp3 v0) (kw3 v0) (kc3 v0) (wP3 v0) (wW3 v0) (wC3 v0)) (mview3 m) in
  view_ok3x c v1 /\ mval3 m = mabs3 m mod len /\ seenC3x c <= mabs3 m /\ mabs3 m <= pos3 (W3 c) /\
  mabs3 m <= mabs3 (nth (vwi3 v1) (Mwi3 c) dmsg3) /\ kc3 v0 <= kc3 v1.
Proof.
  intros I Hi1 Hi2 m v0 v1. inv3x_fields I.
  pose proof HvC as (P1&P2&P3'&P4&P5&P6&P7&P8&P9&P10&P11&P12&P13&P14).
  pose proof (Forall_nth_msg3 _ _ i Hmwi Hi2) as [Hmv Hmok]. fold m in Hmv, Hmok.
  pose proof (Hwwi i Hi2) as Hmw. fold m in Hmw.
  assert (Hseen : seenC3x c <= mabs3 m) by (unfold seenC3x, m; apply Hswi; lia).
  assert (Hm : mabs3 m = mabs3 (nth i (Mwi3 c) dmsg3)) by reflexivity.
  assert (HmW : mabs3 m <= pos3 (W3 c)).
  { apply Nat.le_trans with (lastabs3 (Mwi3 c)); [rewrite Hm; apply sorted3_last_x; auto | exact Hlwi]. }
  splits; auto.
  - unfold v1, v0. apply view_ok3x_acq; auto; fold m; lia.
  - unfold v1, vjoin3; simpl. rewrite Hm. apply Hswi; destruct Hmok as (_&Q&_); lia.
  - unfold v1, vjoin3; simpl. lia.
Qed.

(* ---------- C, pc = 0, must look at the worker's index (acquire load, any admissible message) ---------- *)
Lemma C_load_x c j n0 : Inv3x c -> pc3 (C3 c) = 0 -> ca3 (C3 c) < Nat.max 1 n0 -> Inv3x (opC3_a true len j n0 c).
Proof.
  intros I Hpc0 Hca. inv3x_fields I.
  destruct HpcC as [[[_ Hoff]|[(X&_)|(X&_)]]|(X&_)]; try congruence.
  unfold opC3_a. rewrite Hpc0. cbv beta iota zeta.
  set (n := Nat.max 1 n0) in *. assert (Hn : 1 <= n) by (unfold n; lia). clearbody n.
  destruct (n <=? ca3 (C3 c)) eqn:E; [apply Nat.leb_le in E; lia|]. clear E.
  destruct HvC as (_&P2&_).
  pose proof (pick_bounds3x (vwi3 (V3 (C3 c))) (length (Mwi3 c)) j P2) as [Hi1 Hi2].
  set (i := pick (vwi3 (V3 (C3 c))) (length (Mwi3 c)) j) in *. clearbody i.
  destruct (C_acq c i I Hi1 Hi2) as (Hv1 & Hmv & Hseen & HmW & Hmono & Hkc).
  set (m := nth i (Mwi3 c) dmsg3) in *. clearbody m.
  assert (Ha : dist len (ix3 (C3 c)) (mval3 m) = mabs3 m - pos3 (C3 c)).
  { rewrite HixC, Hmv. apply dist_mod; lia. }
  unfold t_load.
  set (v1 := vjoin3 _ (mview3 m)) in *. clearbody v1.
  constructor; simpl; auto.
  - unfold seenC3x; simpl. rewrite Ha. lia.
  - left. unfold pc_okx; simpl.
    destruct (n <=? dist len (ix3 (C3 c)) (mval3 m)) eqn:E;
      [apply Nat.leb_le in E; right; left; splits; auto; lia | left; auto].
  - intros k Hk. apply slot_okx_pcC; simpl; auto; lia.
Qed.

(* ---------- C, pc = 2: the non-atomic read of slot (pos + off) mod len of the granted window ---------- *)
Lemma C_read_x c j n0 : Inv3x c -> pc3 (C3 c) = 2 -> Inv3x (opC3_a true len j n0 c).
Proof.
  intros I Hpc2. inv3x_fields I.
  destruct HpcC as [[[X _]|[(_&Hoff&Hcnt)|(X&_)]]|(X&_)]; try congruence.
  unfold opC3_a. rewrite Hpc2. cbv beta iota zeta. unfold t_slot.
  pose proof HvC as (P1&P2&P3'&P4&P5&P6&P7&P8&P9&P10&P11&P12&P13&P14).
  assert (Hk0 : wadd len (ix3 (C3 c)) (off3 (C3 c)) = (pos3 (C3 c) + off3 (C3 c)) mod len)
    by (rewrite HixC; apply wadd_mod; lia).
  set (k0 := wadd len (ix3 (C3 c)) (off3 (C3 c))) in *.
  set (q := pos3 (C3 c) + off3 (C3 c)) in *.
  assert (Hk : k0 < len) by (rewrite Hk0; apply Nat.mod_upper_bound; lia).
  destruct (Hslot _ Hk) as (S1&S2&S3&S4&S5&S6).
  fold (mtx3 c k0).
  assert (HseenC : q + 1 <= wW3 (V3 (C3 c))) by (unfold seenC3x in HcaC; lia).
  (* the last write of this slot (by the producer, or by the worker - if it did not skip the item) is not above
     the position being read, hence below the watermarks the consumer acquired *)
  assert (Hwc : wcov TC (mtx3 c k0) (V3 (C3 c)) = true).
  { unfold wcov. specialize (P13 _ Hk). unfold wcover in P13.
    destruct (wt (mtx3 c k0)) eqn:Ew; auto; apply Nat.leb_le; apply P13.
    - destruct (S3 eq_refl) as (T1&T2).
      assert (Hw : wpos3 (mtx3 c k0) <= q)
        by (apply (congr_le len); [exact Hlen | rewrite S1, Hk0; reflexivity | lia]).
      lia.
    - destruct (S4 eq_refl) as (T1&T2).
      assert (Hw : wpos3 (mtx3 c k0) <= q)
        by (apply (congr_le len); [exact Hlen | rewrite S1, Hk0; reflexivity | lia]).
      lia. }
  rewrite Hwc. simpl. rewrite orb_false_r.
  set (c' := mkC3x _ _ _ _ _ _ _ _).
  assert (Hmt : forall k, k < len -> k <> k0 -> mtx3 c' k = mtx3 c k)
    by (intros; unfold mtx3, c'; simpl; apply nth_upd_neq; auto).
  assert (Hmt0 : mtx3 c' k0 = mkMeta3 (wt (mtx3 c k0)) (wpos3 (mtx3 c k0)) (wclk3 (mtx3 c k0)) q (kc3 (V3 (C3 c))))
    by (unfold mtx3, c'; simpl; apply nth_upd_eq; lia).
  assert (G : grows3x c c').
  { unfold grows3x; splits; simpl; try (exists []; rewrite app_nil_r; reflexivity); try lia.
    intros k Hk'. destruct (Nat.eq_dec k k0) as [->|Hne].
    - right; right; right. rewrite Hmt0; simpl; splits; auto; lia.
    - left; auto. }
  constructor; simpl; auto.
  - rewrite upd_length; auto.
  - apply (msgs_ok3x_grows c c' _ G Hmpi).
  - apply (msgs_ok3x_grows c c' _ G Hmwi).
  - apply (msgs_ok3x_grows c c' _ G Hmci).
  - apply (view_ok3x_grows c c' _ G HvP).
  - apply (view_ok3x_grows c c' _ G HvW).
  - apply (view_ok3x_grows c c' _ G HvC).
  - left. unfold pc_okx; simpl.
    destruct (cnt3 (C3 c) <=? off3 (C3 c) + 1) eqn:E; [apply Nat.leb_le in E | apply Nat.leb_gt in E].
    + right; right; splits; auto; lia.
    + right; left; splits; auto; lia.
  - intros k Hk'. unfold slot_okx. destruct (Nat.eq_dec k k0) as [->|Hne].
    + rewrite Hmt0; simpl. splits; auto; lia.
    + rewrite (Hmt k Hk' Hne). destruct (Hslot k Hk') as (T1&T2&T3&T4&T5&T6).
      unfold c'; simpl. splits; auto; lia.
Qed.

(* ---------- C: the end of an operation WITH a release store ---------- *)
Lemma publishC_inv c ix' p' ca' d :
  Inv3x c -> pos3 (C3 c) + off3 (C3 c) <= p' -> p' + ca' <= seenC3x c -> ix' = p' mod len ->
  Inv3x (publishC c ix' p' ca' d).
Proof.
  intros I Hp' Hca' Hix'. inv3x_fields I.
  unfold publishC. cbv beta iota zeta. unfold t_end.
  pose proof HvC as (P1&P2&P3'&P4&P5&P6&P7&P8&P9&P10&P11&P12&P13&P14).
  set (v1 := mkV3 _ _ (length (Mci3 c)) _ _ _ _ _ p').
  set (m := mkM3 _ _ v1).
  set (c' := mkC3x _ _ _ _ _ _ _ _).
  assert (G : grows3x c c').
  { unfold grows3x; splits; simpl; try lia; try (exists []; rewrite app_nil_r; reflexivity).
    - exists [m]; reflexivity.
    - intros; left; reflexivity. }
  assert (Hnth : forall i, i < length (Mci3 c) -> nth i (Mci3 c ++ [m]) dmsg3 = nth i (Mci3 c) dmsg3)
    by (intros; apply nth_app_l3; auto).
  assert (HseenC : p' <= wW3 (V3 (C3 c))) by (unfold seenC3x in Hca'; lia).
  assert (Hv1 : view_ok3x c' v1).
  { unfold view_ok3x, v1, c'; simpl. rewrite app_length; simpl. splits; try lia.
    - rewrite nth_app_last3x; simpl; lia.
    - intros k Hk. apply P13; auto.
    - intros k Hk Hw. destruct (Hslot k Hk) as (_&_&_&_&_&S6). exact S6. }
  constructor; simpl; auto.
  - rewrite app_length; simpl; lia.
  - apply sorted3_app_x; auto. simpl. lia.
  - rewrite lastabs3_app_x; simpl; lia.
  - intros _. rewrite lastabs3_app_x; reflexivity.
  - apply (msgs_ok3x_grows c c' _ G Hmpi).
  - apply (msgs_ok3x_grows c c' _ G Hmwi).
  - apply Forall_app1.
    + apply (msgs_ok3x_grows c c' _ G Hmci).
    + split; simpl; auto.
  - intros i Hi. rewrite app_length in Hi; simpl in Hi.
    destruct (Nat.eq_dec i (length (Mci3 c))) as [->|Hne].
    + rewrite nth_app_last3x; simpl; lia.
    + rewrite Hnth by lia. apply Hwci; lia.
  - apply (view_ok3x_grows c c' _ G HvP).
  - apply (view_ok3x_grows c c' _ G HvW).
  - destruct Hv1 as (A1&A2&A3&A4&A5&A6&A7&A8&A9&A10&A11&A12&A13&A14). unfold view_ok3x; simpl. splits; auto.
  - unfold seenP3x in *; simpl. destruct HvP as (_&_&C3'&_). rewrite Hnth by auto. lia.
  - unfold seenC3x in *; simpl. lia.
  - left; left; simpl; auto.
  - intros k Hk. destruct (Hslot k Hk) as (S1&S2&S3&S4&S5&S6).
    unfold slot_okx, mtx3 in *; simpl. splits; auto; lia.
Qed.

(* ---------- C detached: the end of an operation WITHOUT a store (only the local index moves) ---------- *)
Lemma localC_inv c ix' p' ca' :
  Inv3x c -> det3 (C3 c) = true -> pos3 (C3 c) + off3 (C3 c) <= p' -> p' + ca' <= seenC3x c -> ix' = p' mod len ->
  Inv3x (localC c ix' p' ca').
Proof.
  intros I Hdet Hp' Hca' Hix'. inv3x_fields I.
  unfold localC. cbv beta iota zeta. unfold t_end.
  set (c' := mkC3x _ _ _ _ _ _ _ _).
  assert (G : grows3x c c').
  { unfold grows3x; splits; simpl; try lia; try (exists []; rewrite app_nil_r; reflexivity).
    intros; left; reflexivity. }
  constructor; simpl; auto.
  - lia.
  - rewrite Hdet; discriminate.
  - apply (msgs_ok3x_grows c c' _ G Hmpi).
  - apply (msgs_ok3x_grows c c' _ G Hmwi).
  - apply (msgs_ok3x_grows c c' _ G Hmci).
  - apply (view_ok3x_grows c c' _ G HvP).
  - apply (view_ok3x_grows c c' _ G HvW).
  - apply (view_ok3x_grows c c' _ G HvC).
  - unfold seenC3x in *; simpl. lia.
  - left; left; simpl; auto.
  - intros k Hk. apply slot_okx_pcC; simpl; auto; lia.
Qed.

Lemma finishC_inv c ix' p' ca' :
  Inv3x c -> pos3 (C3 c) + off3 (C3 c) <= p' -> p' + ca' <= seenC3x c -> ix' = p' mod len ->
  Inv3x (finishC c ix' p' ca').
Proof.
  intros I Hp' Hca' Hix'. unfold finishC.
  destruct (det3 (C3 c)) eqn:Hdet.
  - apply localC_inv; auto.
  - apply publishC_inv; auto.
Qed.

Lemma C_store_x c j n0 : Inv3x c -> pc3 (C3 c) = 3 -> Inv3x (opC3_a true len j n0 c).
Proof.
  intros I Hpc3. inv3x_fields I.
  destruct HpcC as [[[X _]|[(X&_)|(_&Hoff&Hcnt)]]|(X&_)]; try congruence.
  unfold opC3_a. rewrite Hpc3. cbv beta iota zeta.
  apply finishC_inv; auto; try lia.
  rewrite HixC; apply wadd_mod; lia.
Qed.

Lemma C_rstore_x c j n0 : Inv3x c -> pc3 (C3 c) = 5 -> Inv3x (opC3_a true len j n0 c).
Proof.
  intros I Hpc5. inv3x_fields I.
  destruct HpcC as [[[X _]|[(X&_)|(X&_)]]|(_&Hoff&Hge&Hle&Hnix)]; try congruence.
  unfold opC3_a. rewrite Hpc5. cbv beta iota zeta.
  apply finishC_inv; auto; lia.
Qed.

(* ---------- C, pc = 0, Reset: the load of reset_index (the worker's PUBLISHED index) ---------- *)
Lemma resetC_inv c j : Inv3x c -> pc3 (C3 c) = 0 -> Inv3x (resetC_a true j c).
Proof.
  intros I Hpc0. inv3x_fields I.
  destruct HpcC as [[[_ Hoff]|[(X&_)|(X&_)]]|(X&_)]; try congruence.
  unfold resetC_a. cbv beta iota zeta.
  destruct HvC as (_&P2&_).
  pose proof (pick_bounds3x (vwi3 (V3 (C3 c))) (length (Mwi3 c)) j P2) as [Hi1 Hi2].
  set (i := pick (vwi3 (V3 (C3 c))) (length (Mwi3 c)) j) in *. clearbody i.
  destruct (C_acq c i I Hi1 Hi2) as (Hv1 & Hmv & Hseen & HmW & Hmono & Hkc).
  set (m := nth i (Mwi3 c) dmsg3) in *. clearbody m.
  unfold t_reset.
  set (v1 := vjoin3 _ (mview3 m)) in *. clearbody v1.
  constructor; simpl; auto.
  - unfold seenC3x in *; simpl. lia.
  - right; unfold seenC3x in *; simpl. splits; auto; lia.
  - intros k Hk. apply slot_okx_pcC; simpl; auto; lia.
Qed.

Lemma detachC_inv c : Inv3x c -> pc3 (C3 c) = 0 -> Inv3x (detachC c).
Proof.
  intros I Hpc0. inv3x_fields I.
  destruct HpcC as [[[_ Hoff]|[(X&_)|(X&_)]]|(X&_)]; try congruence.
  unfold detachC, t_detach.
  constructor; simpl; auto.
  - discriminate.
  - left; left; simpl; auto.
Qed.

Lemma syncC_inv c d :
  Inv3x c -> pc3 (C3 c) = 0 -> Inv3x (publishC c (ix3 (C3 c)) (pos3 (C3 c)) (ca3 (C3 c)) d).
Proof.
  intros I Hpc0. inv3x_fields I.
  destruct HpcC as [[[_ Hoff]|[(X&_)|(X&_)]]|(X&_)]; try congruence.
  apply publishC_inv; auto; lia.
Qed.

(* ======================= assembly ======================= *)
Lemma opP_inv_x c j n0 : Inv3x c -> Inv3x (opP3_a true len j n0 c).
Proof.
  intros I. destruct (x_pcP c I) as [[H0 _]|[[H2 _]|[H3 _]]].
  - destruct (Nat.max 1 n0 <=? ca3 (P3 c)) eqn:E; [apply Nat.leb_le in E | apply Nat.leb_gt in E].
    + apply P_fast_x; auto.
    + apply P_load_x; auto.
  - apply P_write_x; auto.
  - apply P_store_x; auto.
Qed.

Lemma opW_inv_x c j n0 : Inv3x c -> Inv3x (opW3_a true len j n0 c).
Proof.
  intros I. destruct (x_pcW c I) as [[[H0 _]|[[H2 _]|[H3 _]]]|[H5 _]].
  - destruct (Nat.max 1 n0 <=? ca3 (W3 c)) eqn:E; [apply Nat.leb_le in E | apply Nat.leb_gt in E].
    + apply W_fast_x; auto.
    + apply W_load_x; auto.
  - apply W_write_x; auto.
  - apply W_store_x; auto.
  - apply W_rstore_x; auto.
Qed.

Lemma opC_inv_x c j n0 : Inv3x c -> Inv3x (opC3_a true len j n0 c).
Proof.
  intros I. destruct (x_pcC c I) as [[[H0 _]|[[H2 _]|[H3 _]]]|[H5 _]].
  - destruct (Nat.max 1 n0 <=? ca3 (C3 c)) eqn:E; [apply Nat.leb_le in E | apply Nat.leb_gt in E].
    + apply C_fast_x; auto.
    + apply C_load_x; auto.
  - apply C_read_x; auto.
  - apply C_store_x; auto.
  - apply C_rstore_x; auto.
Qed.

Lemma step3x_inv c s : Inv3x c -> Inv3x (step3_x len c s).
Proof.
  intros I. destruct s as [[| |] k]; unfold step3_x, step3_a; simpl fst; simpl snd; cbv iota.
  - (* producer: only Op does anything *)
    destruct k as [j n0|j| | |]; simpl; auto. apply opP_inv_x; auto.
  - (* worker: Reset / Detach / Attach / Sync are accepted at pc 0 only *)
    unfold stepW3_a. destruct k as [j n0|j| | |].
    + apply opW_inv_x; auto.
    + destruct (pc3 (W3 c)) as [|q] eqn:E; auto. apply resetW_inv; auto.
    + destruct (pc3 (W3 c)) as [|q] eqn:E; auto. apply detachW_inv; auto.
    + destruct (pc3 (W3 c)) as [|q] eqn:E; auto. apply syncW_inv; auto.
    + destruct (pc3 (W3 c)) as [|q] eqn:E; auto. apply syncW_inv; auto.
  - (* consumer: likewise *)
    unfold stepC3_a. destruct k as [j n0|j| | |].
    + apply opC_inv_x; auto.
    + destruct (pc3 (C3 c)) as [|q] eqn:E; auto. apply resetC_inv; auto.
    + destruct (pc3 (C3 c)) as [|q] eqn:E; auto. apply detachC_inv; auto.
    + destruct (pc3 (C3 c)) as [|q] eqn:E; auto. apply syncC_inv; auto.
    + destruct (pc3 (C3 c)) as [|q] eqn:E; auto. apply syncC_inv; auto.
Qed.

(* ---------- additional facts ---------- *)

(* No step moves a local position backwards - in particular not the store of a reset. *)
Lemma step3x_pos_mono c s : Inv3x c ->
  pos3 (P3 c) <= pos3 (P3 (step3_x len c s)) /\
  pos3 (W3 c) <= pos3 (W3 (step3_x len c s)) /\
  pos3 (C3 c) <= pos3 (C3 (step3_x len c s)).
Proof.
  intros I. pose proof (x_pcW c I) as HpcW. pose proof (x_pcC c I) as HpcC.
  destruct s as [[| |] k]; unfold step3_x, step3_a; simpl fst; simpl snd; cbv iota.
  - destruct k as [j n0|j| | |]; simpl; auto. unfold opP3_a.
    destruct (pc3 (P3 c)) as [|[|[|[|q]]]]; cbv beta iota zeta; simpl; auto.
    + destruct (Nat.max 1 n0 <=? ca3 (P3 c)); simpl; auto.
    + splits; auto; lia.
  - unfold stepW3_a. destruct k as [j n0|j| | |].
    + unfold opW3_a, finishW, localW, publishW.
      destruct HpcW as [[[H0 _]|[[H2 _]|[H3 _]]]|(H5&_&Hge&_)];
        [rewrite H0|rewrite H2|rewrite H3|rewrite H5]; cbv beta iota zeta.
      * destruct (Nat.max 1 n0 <=? ca3 (W3 c)); simpl; auto.
      * simpl; auto.
      * destruct (det3 (W3 c)); simpl; splits; auto; lia.
      * destruct (det3 (W3 c)); simpl; splits; auto; lia.
    + destruct (pc3 (W3 c)) as [|q]; simpl; auto.
    + destruct (pc3 (W3 c)) as [|q]; simpl; auto.
    + destruct (pc3 (W3 c)) as [|q]; simpl; auto.
    + destruct (pc3 (W3 c)) as [|q]; simpl; auto.
  - unfold stepC3_a. destruct k as [j n0|j| | |].
    + unfold opC3_a, finishC, localC, publishC.
      destruct HpcC as [[[H0 _]|[[H2 _]|[H3 _]]]|(H5&_&Hge&_)];
        [rewrite H0|rewrite H2|rewrite H3|rewrite H5]; cbv beta iota zeta.
      * destruct (Nat.max 1 n0 <=? ca3 (C3 c)); simpl; auto.
      * simpl; auto.
      * destruct (det3 (C3 c)); simpl; splits; auto; lia.
      * destruct (det3 (C3 c)); simpl; splits; auto; lia.
    + destruct (pc3 (C3 c)) as [|q]; simpl; auto.
    + destruct (pc3 (C3 c)) as [|q]; simpl; auto.
    + destruct (pc3 (C3 c)) as [|q]; simpl; auto.
    + destruct (pc3 (C3 c)) as [|q]; simpl; auto.
Qed.

Lemma nth_init_meta3x k :
  k < len -> nth k (map (fun k => mkMeta3 TC k 0 k 0) (seq 0 len)) dmeta3 = mkMeta3 TC k 0 k 0.
Proof.
  intros Hk. rewrite (nth_indep _ dmeta3 (mkMeta3 TC 0 0 0 0)) by (rewrite map_length, seq_length; auto).
  change (mkMeta3 TC 0 0 0 0) with ((fun k => mkMeta3 TC k 0 k 0) 0).
  rewrite map_nth. rewrite seq_nth by auto. reflexivity.
Qed.

Lemma init3x_inv : Inv3x (init3_x len).
Proof.
  assert (Hv : forall a b c0, view_ok3x (init3_x len) (vinit len a b c0)).
  { intros. unfold view_ok3x, init3_x, vinit, mtx3; simpl. splits; try lia.
    - intros k Hk. unfold wcover. rewrite nth_init_meta3x by auto. simpl. auto.
    - intros k Hk Hw. rewrite nth_init_meta3x in * by auto. simpl in *. lia. }
  assert (Hs : forall x, sorted3 [x]).
  { intros x i j Hij Hj. simpl in Hj. assert (i = 0) by lia. assert (j = 0) by lia. subst. lia. }
  assert (Hm : forall c0, msg_ok3x c0 (mkM3 0 len (vinit len 0 0 0)) <-> view_ok3x c0 (vinit len 0 0 0)).
  { intros; unfold msg_ok3x; simpl. split; [tauto|]. intros; split; auto. symmetry; apply Nat.mod_same; lia. }
  constructor; simpl; auto; try (unfold pc_okr, pc_okx; simpl; auto; fail);
    try (symmetry; apply Nat.mod_same; lia);
    try apply Hv;
    try (constructor; [|constructor]; apply Hm, Hv);
    try (intros i Hi; assert (i = 0) by lia; subst; simpl; lia).
  - rewrite map_length, seq_length; reflexivity.
  - unfold seenP3x; simpl. lia.
  - intros k Hk. unfold slot_okx, mtx3; simpl. rewrite nth_init_meta3x by auto. simpl.
    splits; try lia; try (apply Nat.mod_small; auto); intros E; discriminate E.
Qed.

Theorem exec3x_inv script : Inv3x (exec3_x len (init3_x len) script).
Proof.
  unfold exec3_x, exec3_a. change (step3_a true true true len) with (step3_x len).
  generalize init3x_inv. generalize (init3_x len).
  induction script as [|s script IH]; intros c I; simpl; auto.
  apply IH. apply step3x_inv; auto.
Qed.
End Inv3x.

(* Every release/acquire-consistent execution of the extended three-stage pipeline - any interleaving, any stale
   read, any sequence of window sizes, resets, detach / sync / attach commands of worker and consumer - is race
   free. *)
Theorem pipeline3_x_race_free : forall len script, 0 < len -> race3 (exec3_x len (init3_x len) script) = false.
Proof. intros len script Hl. apply (x_race len _ (exec3x_inv len Hl script)). Qed.

(* The position the worker / the consumer has published never exceeds its local position; attached, they are
   equal (at every pc: the local index is set by the step that publishes it). *)
Theorem published_le_local_3x : forall len script, 0 < len ->
  let c := exec3_x len (init3_x len) script in
  (publishedW3 c <= pos3 (W3 c) /\ (det3 (W3 c) = false -> publishedW3 c = pos3 (W3 c))) /\
  (publishedC3 c <= pos3 (C3 c) /\ (det3 (C3 c) = false -> publishedC3 c = pos3 (C3 c))) /\
  publishedP3 c = pos3 (P3 c).
Proof.
  intros len script Hl c. pose proof (exec3x_inv len Hl script) as I. fold c in I.
  unfold publishedW3, publishedC3, publishedP3. rewrite <- !lastabs3_last.
  splits;
    [apply (x_lwi len c I) | apply (x_attW len c I) | apply (x_lci len c I) | apply (x_attC len c I)
    | apply (x_lpi len c I)].
Qed.

(* The local positions of all three threads are monotone along every execution: a reset never goes backwards. *)
Theorem never_goes_back_3x : forall len s1 s2, 0 < len ->
  let c1 := exec3_x len (init3_x len) s1 in
  let c2 := exec3_x len (init3_x len) (s1 ++ s2) in
  pos3 (P3 c1) <= pos3 (P3 c2) /\ pos3 (W3 c1) <= pos3 (W3 c2) /\ pos3 (C3 c1) <= pos3 (C3 c2).
Proof.
  intros len s1 s2 Hl. cbv zeta. unfold exec3_x, exec3_a. rewrite fold_left_app.
  change (step3_a true true true len) with (step3_x len).
  pose proof (exec3x_inv len Hl s1) as I. unfold exec3_x, exec3_a in I.
  change (step3_a true true true len) with (step3_x len) in I.
  revert I. generalize (fold_left (step3_x len) s1 (init3_x len)).
  induction s2 as [|s s2 IH]; intros c I; simpl; [lia|].
  pose proof (step3x_pos_mono len Hl c s I) as (A1&A2&A3).
  pose proof (IH _ (step3x_inv len Hl c s I)) as (B1&B2&B3).
  lia.
Qed.

(* The order of the three stages at every moment of every execution, through the PUBLISHED positions:
   the consumer's read frontier is at or below what the worker has PUBLISHED (not merely its local position);
   the worker's edit frontier is at or below the producer's position (always published);
   the producer's write frontier stays strictly less than a lap above what the consumer has PUBLISHED. *)
Theorem order_always_3x : forall len script, 0 < len ->
  let c := exec3_x len (init3_x len) script in
  pos3 (C3 c) + off3 (C3 c) <= publishedW3 c /\ publishedW3 c <= pos3 (W3 c) /\
  pos3 (W3 c) + off3 (W3 c) <= pos3 (P3 c) /\ publishedP3 c = pos3 (P3 c) /\
  pos3 (P3 c) + off3 (P3 c) + 1 <= publishedC3 c + len /\ publishedC3 c <= pos3 (C3 c).
Proof.
  intros len script Hl c. pose proof (exec3x_inv len Hl script) as I. fold c in I.
  unfold publishedW3, publishedC3, publishedP3. rewrite <- !lastabs3_last.
  pose proof (order3x len Hl c I) as (_&_&_&HfC&HfW&HfP&_).
  pose proof (x_lwi len c I) as Hlwi. pose proof (x_lci len c I) as Hlci. pose proof (x_lpi len c I) as Hlpi.
  splits; auto.
Qed.

Print Assumptions pipeline3_x_race_free.
Print Assumptions published_le_local_3x.
Print Assumptions never_goes_back_3x.
Print Assumptions order_always_3x.
