(** * C07, last sentence: observing a peer as dead (message passing through the liveness word).

    "is_prod_alive / is_work_alive / is_cons_alive turn false only after the corresponding iterator was dropped,
     and a thread that observes a peer as dead also observes everything that peer published before."

    A release/acquire view machine in the style of [RA.v] (append-only message histories, per-thread views, stale
    reads chosen by the script), with the orderings as boolean parameters as in [Drop.v].

    Threads
    - X, the peer being dropped.  It performs [k] publications, numbered 1..k; publication i is a non-atomic data
      write (write clock [dw] becomes i) followed by a Release store of the value i to X's index word (the ring
      arithmetic is abstracted to the publication counter).  Then its drop: [fetch_and(!bitX)] on the liveness word,
      acquire iff [xacq], release iff [rel].
    - Z, another iterator being dropped: one [fetch_and(!bitZ)], acquire iff [zacq], release iff [zrel].  The script
      decides whether it lands before or after X's RMW in the modification order of the liveness word; when it lands
      after, an observer reading Z's message is synchronising with X through the release sequence.
    - Y, the observer.  It repeatedly loads the liveness word (acquire iff [acq]); the load may return ANY message
      of the history at or after Y's view of the word (coherence), the script chooses which.  When the returned
      value has X's bit clear, Y has "observed X dead" and then (1) reads all the data X ever wrote, without
      consulting the index (race detector: every write of X must be in Y's view), and (2) loads X's index word
      (again any message at or after Y's view of that word) and records the value.

    C11 rules encoded (C11 5.1.2.4 / C++ [intro.races], as in the view semantics of RC11 / promising):
    - a Release write publishes the writer's view in its message; an Acquire read joins the view of the message
      it reads into the reader's view; a Relaxed read only advances the reader's timestamp for that location;
    - coherence: a read cannot return a message older than the one in the reader's view of the location;
    - atomicity of RMW: it reads the last message of the modification order and its message is placed right after;
    - RELEASE SEQUENCE: the message of an RMW carries the view of the message it read, whatever the RMW's own
      ordering ("a release sequence headed by a release operation A is continued by read-modify-write operations";
      an acquire load that reads from any member of the sequence synchronises with A).  A relaxed RMW adds nothing
      of its own thread's view, but it does not cut the chain.
    - a data race is a pair of conflicting non-atomic accesses not ordered by happens-before: the reader's view
      must contain the write clock, and the writer must not write after an unsynchronised read.

    The theorems hold for every number of publications [k], every script (interleaving and stale-read choices, any
    length), and every choice of the orderings that the property does not depend on ([xacq], [zacq], [zrel]).
    They are proved by an inductive invariant, not by enumeration. *)
From Coq Require Import List Arith Bool Lia.
Import ListNotations.

Record view := mkV { vd : nat; vi : nat; vl : nat }.
(* vd: X's data writes known (publication number); vi / vl: timestamp known of X's index word / the liveness word *)
Definition vbot := mkV 0 0 0.
Definition vjoin (a b : view) : view := mkV (max (vd a) (vd b)) (max (vi a) (vi b)) (max (vl a) (vl b)).

Record lmsg := mkL { lx : bool; lz : bool; lview : view }.   (* liveness word: X's bit, Z's bit *)
Record imsg := mkI { ival : nat; iview : view }.             (* X's index word *)
Record thr := mkT { pc : nat; V : view; n : nat }.           (* n: X: publications completed; Y: index value read *)
Record cfg := mkC { L : list lmsg; I : list imsg; dw : nat; X : thr; Z : thr; Y : thr; race : bool }.

Definition dL := mkL true true vbot.
Definition dI := mkI 0 vbot.
Definition pick (lo len j : nat) : nat := Nat.min (Nat.max j lo) (len - 1).

Inductive tid := TX | TZ | TY.

(** [fetch_and] on the liveness word by a thread with view [v]: returns the thread's new view and the new message.
    The message view always contains the view of the message read (release sequence). *)
Definition rmw (a r isx : bool) (v : view) (l : list lmsg) : view * lmsg :=
  let m := last l dL in
  let ts := length l in
  let v0 := mkV (vd v) (vi v) ts in
  let v1 := if a then vjoin v0 (lview m) else v0 in
  let mv := vjoin (lview m) (if r then v1 else mkV 0 0 ts) in
  (v1, mkL (if isx then false else lx m) (if isx then lz m else false) mv).

Section M.
Variables (k : nat) (acq rel xacq zacq zrel : bool).

Definition stepX (c : cfg) : cfg :=
  let t := X c in
  let v := V t in
  match pc t with
  | 0 =>
    if n t <? k then (* data write of publication n+1; races with any read Y has already done *)
      mkC (L c) (I c) (S (dw c)) (mkT 1 (mkV (S (dw c)) (vi v) (vl v)) (n t)) (Z c) (Y c)
          (race c || (2 <=? pc (Y c)))
    else (* drop *)
      let r := rmw xacq rel true v (L c) in
      mkC (L c ++ [snd r]) (I c) (dw c) (mkT 2 (fst r) (n t)) (Z c) (Y c) (race c)
  | 1 => (* Release store of the index word *)
    let v1 := mkV (vd v) (length (I c)) (vl v) in
    mkC (L c) (I c ++ [mkI (S (n t)) v1]) (dw c) (mkT 0 v1 (S (n t))) (Z c) (Y c) (race c)
  | _ => c
  end.

Definition stepZ (c : cfg) : cfg :=
  let t := Z c in
  match pc t with
  | 0 =>
    let r := rmw zacq zrel false (V t) (L c) in
    mkC (L c ++ [snd r]) (I c) (dw c) (X c) (mkT 1 (fst r) (n t)) (Y c) (race c)
  | _ => c
  end.

Definition stepY (j : nat) (c : cfg) : cfg :=
  let t := Y c in
  let v := V t in
  match pc t with
  | 0 => (* is_x_alive(): load the liveness word *)
    let i := pick (vl v) (length (L c)) j in
    let m := nth i (L c) dL in
    let v0 := mkV (vd v) (vi v) i in
    let v1 := if acq then vjoin v0 (lview m) else v0 in
    mkC (L c) (I c) (dw c) (X c) (Z c) (mkT (if lx m then 0 else 1) v1 (n t)) (race c)
  | 1 => (* read everything X wrote *)
    mkC (L c) (I c) (dw c) (X c) (Z c) (mkT 2 v (n t)) (race c || negb (dw c <=? vd v))
  | 2 => (* Acquire load of X's index word *)
    let i := pick (vi v) (length (I c)) j in
    let m := nth i (I c) dI in
    mkC (L c) (I c) (dw c) (X c) (Z c) (mkT 3 (vjoin (mkV (vd v) i (vl v)) (iview m)) (ival m)) (race c)
  | _ => c
  end.

Definition step (c : cfg) (s : tid * nat) : cfg :=
  match fst s with TX => stepX c | TZ => stepZ c | TY => stepY (snd s) c end.

Definition init : cfg := mkC [dL] [dI] 0 (mkT 0 vbot 0) (mkT 0 vbot 0) (mkT 0 vbot 0) false.
Definition exec (script : list (tid * nat)) : cfg := fold_left step script init.

(** vocabulary of the property *)
Definition saw_dead (c : cfg) : Prop := 1 <= pc (Y c).     (* Y has read X's bit as clear *)
Definition dropped (c : cfg) : Prop := pc (X c) = 2.       (* X has executed its fetch_and *)
Definition idx_read (c : cfg) : Prop := pc (Y c) = 3.      (* Y has loaded X's index word; the value is [n (Y c)] *)

Record Inv (c : cfg) : Prop := mkInv {
  iLdead : forall m, In m (L c) -> lx m = false -> pc (X c) = 2;
  iLview : rel = true -> forall m, In m (L c) -> lx m = false -> k <= vd (lview m) /\ k <= vi (lview m);
  iXpc : pc (X c) <= 2;
  iXn : n (X c) <= k;
  iXmid : pc (X c) = 1 -> n (X c) < k;
  iXend : pc (X c) = 2 -> n (X c) = k;
  iXdw : dw c = n (X c) + (if pc (X c) =? 1 then 1 else 0);
  iXv : pc (X c) <> 2 -> dw c <= vd (V (X c)) /\ n (X c) <= vi (V (X c));
  iI : map ival (I c) = seq 0 (S (n (X c)));
  iYdead : 1 <= pc (Y c) -> pc (X c) = 2;
  iYview : acq = true -> rel = true -> 1 <= pc (Y c) -> k <= vd (V (Y c)) /\ k <= vi (V (Y c));
  iYrace : acq = true -> rel = true -> race c = false;
  iYidx : acq = true -> rel = true -> pc (Y c) = 3 -> n (Y c) = k }.

Lemma last_or (l : list lmsg) : last l dL = dL \/ In (last l dL) l.
Proof.
  induction l as [|a r IH]; [left; reflexivity|].
  destruct r as [|b r']; [right; left; reflexivity|].
  change (last (a :: b :: r') dL) with (last (b :: r') dL).
  destruct IH as [E|H]; [left; exact E | right; right; exact H].
Qed.

Lemma last_ival (l : list imsg) : ival (last l dI) = last (map ival l) 0.
Proof.
  induction l as [|a r IH]; [reflexivity|].
  destruct r as [|b r']; [reflexivity|].
  change (last (a :: b :: r') dI) with (last (b :: r') dI). rewrite IH. reflexivity.
Qed.

Lemma nth_or (i : nat) (l : list lmsg) : nth i l dL = dL \/ In (nth i l dL) l.
Proof. destruct (nth_in_or_default i l dL) as [H|H]; [right|left]; exact H. Qed.

Lemma length_I c : Inv c -> length (I c) = S (n (X c)).
Proof. intros H. rewrite <- (map_length ival), (iI c H), seq_length. reflexivity. Qed.

Lemma inv_init : Inv init.
Proof.
  constructor; cbn [init L I dw X Z Y race pc V n dL lx lview vbot vd vi In map seq Nat.eqb];
    try (intros; lia); try reflexivity.
  - intros m [E|[]] Hx. subst m. discriminate.
  - intros _ m [E|[]] Hx. subst m. discriminate.
Qed.

Lemma inv_stepX c : Inv c -> Inv (stepX c).
Proof.
  intros H. pose proof (length_I c H) as HlenI.
  destruct H as [hLdead hLview hXpc hXn hXmid hXend hXdw hXv hI hYdead hYview hYrace hYidx]. unfold stepX.
  destruct (pc (X c)) as [|[|p]] eqn:Epc.
  - destruct (n (X c) <? k) eqn:Elt; [apply Nat.ltb_lt in Elt | apply Nat.ltb_ge in Elt].
    + (* data write *)
      assert (HY : pc (Y c) = 0) by (destruct (pc (Y c)) eqn:EY; [reflexivity | exfalso; lia]).
      cbn [Nat.eqb] in hXdw.
      constructor; cbn [L I dw X Z Y race pc V n vd vi vl Nat.eqb]; try (intros; lia); auto.
      * intros m Hm Hx. specialize (hLdead m Hm Hx). lia.
      * intros Ha Hr. rewrite (hYrace Ha Hr), HY. reflexivity.
    + (* drop *)
      assert (Hn : n (X c) = k) by lia.
      cbn [Nat.eqb] in hXdw. specialize (hXv ltac:(lia)).
      constructor; unfold rmw; cbn [L I dw X Z Y race pc V n fst snd Nat.eqb]; try (intros; lia); auto.
      * intros Hr m Hm Hx. apply in_app_or in Hm as [Hm|[Hm|[]]]; [apply hLview; assumption|].
        subst m. rewrite Hr. cbn [lview].
        destruct xacq; cbn [vjoin vd vi vl]; lia.
  - (* index store *)
    specialize (hXmid eq_refl). cbn [Nat.eqb] in hXdw. specialize (hXv ltac:(lia)).
    constructor; cbn [L I dw X Z Y race pc V n vd vi vl Nat.eqb]; try (intros; lia); auto.
    + intros m Hm Hx. specialize (hLdead m Hm Hx). lia.
    + rewrite map_app, hI. cbn [map ival]. rewrite (seq_S (S (n (X c))) 0). reflexivity.
  - constructor; rewrite ?Epc; auto.
Qed.

Lemma inv_stepZ c : Inv c -> Inv (stepZ c).
Proof.
  intros H.
  destruct H as [hLdead hLview hXpc hXn hXmid hXend hXdw hXv hI hYdead hYview hYrace hYidx]. unfold stepZ.
  destruct (pc (Z c)) as [|p] eqn:Epc; [|constructor; rewrite ?Epc; auto].
  constructor; unfold rmw; cbn [L I dw X Z Y race pc V n fst snd]; auto.
  - intros m Hm Hx. apply in_app_or in Hm as [Hm|[Hm|[]]]; [apply (hLdead m); assumption|].
    subst m. cbn [lx] in Hx. destruct (last_or (L c)) as [E|Hin].
    + rewrite E in Hx. discriminate.
    + apply (hLdead _ Hin Hx).
  - intros Hr m Hm Hx. apply in_app_or in Hm as [Hm|[Hm|[]]]; [apply hLview; assumption|].
    subst m. cbn [lx] in Hx. cbn [lview]. destruct (last_or (L c)) as [E|Hin].
    + rewrite E in Hx. discriminate.
    + destruct (hLview Hr _ Hin Hx) as [Hd Hi].
      destruct zrel, zacq; cbn [vjoin vd vi vl]; lia.
Qed.

Lemma inv_stepY j c : Inv c -> Inv (stepY j c).
Proof.
  intros H. pose proof (length_I c H) as HlenI.
  destruct H as [hLdead hLview hXpc hXn hXmid hXend hXdw hXv hI hYdead hYview hYrace hYidx]. unfold stepY.
  destruct (pc (Y c)) as [|[|[|p]]] eqn:Epc.
  - (* load of the liveness word *)
    set (i := pick (vl (V (Y c))) (length (L c)) j).
    destruct (lx (nth i (L c) dL)) eqn:Ex.
    + constructor; cbn [L I dw X Z Y race pc V n]; auto; intros; lia.
    + destruct (nth_or i (L c)) as [E|Hin]; [rewrite E in Ex; discriminate|].
      constructor; cbn [L I dw X Z Y race pc V n]; auto; try (intros; lia).
      * intros _. apply (hLdead _ Hin Ex).
      * intros Ha Hr _. rewrite Ha. destruct (hLview Hr _ Hin Ex) as [Hd Hi].
        cbn [vjoin vd vi vl]. lia.
  - (* data read *)
    constructor; cbn [L I dw X Z Y race pc V n]; auto; try (intros; lia).
    + intros Ha Hr. rewrite (hYrace Ha Hr). cbn [orb].
      destruct (hYview Ha Hr ltac:(lia)) as [Hd _].
      specialize (hYdead ltac:(lia)). specialize (hXend hYdead). rewrite hYdead in hXdw. cbn [Nat.eqb] in hXdw.
      replace (dw c <=? vd (V (Y c))) with true; [reflexivity|]. symmetry. apply Nat.leb_le. lia.
  - (* index load *)
    constructor; cbn [L I dw X Z Y race pc V n]; auto; try (intros; lia).
    + intros Ha Hr _. destruct (hYview Ha Hr ltac:(lia)) as [Hd Hi].
      unfold pick. rewrite HlenI. specialize (hYdead ltac:(lia)). specialize (hXend hYdead).
      cbn [vjoin vd vi vl]. lia.
    + intros Ha Hr _. destruct (hYview Ha Hr ltac:(lia)) as [Hd Hi].
      specialize (hYdead ltac:(lia)). specialize (hXend hYdead).
      assert (Ei : pick (vi (V (Y c))) (length (I c)) j = k) by (unfold pick; rewrite HlenI; lia).
      rewrite Ei.
      rewrite <- (map_nth ival), hI, hXend. rewrite seq_nth by lia. reflexivity.
  - constructor; rewrite ?Epc; auto.
Qed.

Lemma inv_exec script : Inv (exec script).
Proof.
  unfold exec. generalize inv_init. generalize init.
  induction script as [|[t j] r IH]; intros c Hc; cbn [fold_left]; [exact Hc|].
  apply IH. unfold step. cbn [fst snd]. destruct t; [apply inv_stepX | apply inv_stepZ | apply inv_stepY]; exact Hc.
Qed.

(** (a) whatever the orderings: the flag reads false only after the drop - and then X's history is complete:
    all k data writes are done and the index word's history is exactly the values 0..k *)
Theorem dead_only_after_drop_ script :
  let c := exec script in
  saw_dead c -> dropped c /\ dw c = k /\ map ival (I c) = seq 0 (S k).
Proof.
  intros c Hs. pose proof (inv_exec script) as H. fold c in H.
  destruct H as [hLdead hLview hXpc hXn hXmid hXend hXdw hXv hI hYdead hYview hYrace hYidx].
  unfold saw_dead, dropped in *. specialize (hYdead Hs). specialize (hXend hYdead).
  split; [exact hYdead|]. split.
  - rewrite hXdw, hYdead. cbn [Nat.eqb]. lia.
  - rewrite hI, hXend. reflexivity.
Qed.

(** (b) Acquire load, Release RMW: no race in any execution; once Y has observed X dead its view contains every
    data write of X and the last message of X's index word; the value it loads from the index word is X's final one *)
Theorem dead_implies_published_visible_ script :
  acq = true -> rel = true ->
  let c := exec script in
  race c = false /\
  (saw_dead c -> dw c <= vd (V (Y c)) /\ length (I c) - 1 <= vi (V (Y c))) /\
  (idx_read c -> n (Y c) = k /\ n (Y c) = ival (last (I c) dI)).
Proof.
  intros Ha Hr c. pose proof (inv_exec script) as H. fold c in H.
  pose proof (length_I c H) as HlenI.
  destruct H as [hLdead hLview hXpc hXn hXmid hXend hXdw hXv hI hYdead hYview hYrace hYidx]. unfold saw_dead, idx_read.
  split; [auto|]. split.
  - intros Hs. destruct (hYview Ha Hr Hs) as [Hd Hi].
    specialize (hYdead Hs). specialize (hXend hYdead). rewrite hYdead in hXdw. cbn [Nat.eqb] in hXdw. lia.
  - intros Hp. specialize (hYidx Ha Hr Hp). split; [exact hYidx|].
    specialize (hYdead ltac:(lia)). specialize (hXend hYdead).
    rewrite hYidx, last_ival, hI, hXend, seq_S, last_last. reflexivity.
Qed.
End M.

Theorem dead_only_after_drop : forall k acq rel xacq zacq zrel script,
  let c := exec k acq rel xacq zacq zrel script in
  saw_dead c -> dropped c /\ dw c = k /\ map ival (I c) = seq 0 (S k).
Proof. exact dead_only_after_drop_. Qed.

Theorem dead_implies_published_visible : forall k acq rel xacq zacq zrel script,
  acq = true -> rel = true ->
  let c := exec k acq rel xacq zacq zrel script in
  race c = false /\
  (saw_dead c -> dw c <= vd (V (Y c)) /\ length (I c) - 1 <= vi (V (Y c))) /\
  (idx_read c -> n (Y c) = k /\ n (Y c) = ival (last (I c) dI)).
Proof. exact dead_implies_published_visible_. Qed.

Print Assumptions dead_only_after_drop.
Print Assumptions dead_implies_published_visible.

(** (c) the orderings are necessary and the detector is not vacuous.  Two publications; X runs to completion
    (data, index, data, index, fetch_and); Y loads the liveness word and reads X's message (bit clear), reads the
    data, loads the index word choosing the oldest message it is allowed to read.
    Result = (race, pc of Y, index value read, Y's view). *)
Definition xall : list (tid * nat) := [(TX, 0); (TX, 0); (TX, 0); (TX, 0); (TX, 0)].
Definition obs (c : cfg) := (race c, pc (Y c), n (Y c), vd (V (Y c))).

Example acqrel_sees_everything :
  obs (exec 2 true true true true true (xall ++ [(TY, 1); (TY, 0); (TY, 0)])) = (false, 3, 2, 2).
Proof. vm_compute. reflexivity. Qed.

(** Relaxed load of the liveness word: Y sees the bit clear but learns nothing: data race, stale index 0 *)
Example relaxed_load_is_bad :
  obs (exec 2 false true true true true (xall ++ [(TY, 1); (TY, 0); (TY, 0)])) = (true, 3, 0, 0).
Proof. vm_compute. reflexivity. Qed.

(** fetch_and without Release (Acquire only): the message carries nothing of X: data race, stale index 0 *)
Example nonrelease_rmw_is_bad :
  obs (exec 2 true false true true true (xall ++ [(TY, 1); (TY, 0); (TY, 0)])) = (true, 3, 0, 0).
Proof. vm_compute. reflexivity. Qed.

(** Release sequence: Z's RMW - fully relaxed here - lands after X's; Y reads Z's message (position 2) and still
    synchronises with X.  With a non-Release X the same schedule is bad. *)
Example through_relaxed_rmw_of_Z :
  obs (exec 2 true true true false false (xall ++ [(TZ, 0); (TY, 2); (TY, 0); (TY, 0)])) = (false, 3, 2, 2).
Proof. vm_compute. reflexivity. Qed.
Example through_Z_nonrelease_X_is_bad :
  obs (exec 2 true false true true true (xall ++ [(TZ, 0); (TY, 2); (TY, 0); (TY, 0)])) = (true, 3, 0, 0).
Proof. vm_compute. reflexivity. Qed.

(** stale reads are really allowed: after X's drop Y may still read the initial message and see X alive;
    and Z dropping first does not make X look dead *)
Example stale_alive : pc (Y (exec 2 true true true true true (xall ++ [(TY, 0)]))) = 0.
Proof. vm_compute. reflexivity. Qed.
Example Z_first_X_alive : pc (Y (exec 2 true true true true true [(TZ, 0); (TX, 0); (TY, 1)])) = 0.
Proof. vm_compute. reflexivity. Qed.
