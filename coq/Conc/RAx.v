(** * The multi-slot release/acquire view machine of RAn.v, extended with
      - [ConsIter::reset_index]   (the consumer jumps to the producer's published index), and
      - DETACHED operation of the consumer ([Detached]: local advance without publishing, [sync_index], [attach]).

    Everything of RAn.v is kept unchanged: two threads (P pushes, C pops), append-only message lists for the two
    index locations (value, absolute position, view), stale reads (a load may read any message at or after the
    loading thread's view and - when it is an acquire load - joins the view of the message read), release
    stores (the appended message carries the storing thread's view), multi-slot windows ([cnt], [off]), and the
    vector-clock race detector on every slot access ([metas], [race]).

    ** Script entries
    A script entry is [(thread, command)] with

      Inductive cmd := Op (j n : nat) | Reset (j : nat) | Detach | Attach | Sync.

    - [Op j n]   : one step of a push (P) / pop (C) operation exactly as in RAn.v: read choice [j], requested
                   count [n] (looked at only at pc 0, when an operation starts).  If the thread is in the middle
                   of ANY operation (pc <> 0, including a reset at pc 5) [Op] performs the next step of that
                   operation (j and n are then irrelevant: no step other than the ones at pc 0 loads anything).
    - [Reset j], [Detach], [Attach], [Sync] are accepted only by the CONSUMER and only at pc 0 (between two
                   operations).  Everywhere else - for the producer, or for a consumer with pc <> 0 - they are
                   no-ops (the configuration is returned unchanged).

    ** Consumer steps (new ones marked +)
      pc 0, Op      check / load / grant                                   (RAn.v)
      pc 2, Op      read one slot of the window                            (RAn.v)
      pc 3, Op      ix := ix (+) cnt, pos := pos + cnt, ca := ca - cnt, pc := 0, and
                      attached : append the message (release store, watermark = the new pos)   (RAn.v)
                  +   detached : nothing else - NO message is appended, the clock is not advanced
                                 ([Detached::advance] = [advance_local])
    + pc 0, Reset j "pc 4", the LOAD of [reset_index]: read any admissible message m of the producer's index
                    (choice j, acquire: join its view), remember it: nix := mval m, npos := mabs m; pc := 5.
                    (The load is executed by the script entry that starts the reset, so a thread never RESTS at
                    pc 4; the resting pcs are 0, 2, 3, 5.)
    + pc 5, Op      the STORE of [reset_index]: ix := nix, pos := npos, ca := 0, pc := 0, and
                      attached : append the message (release store, watermark = the new pos)
                      detached : no message ([Detached::reset_index] only sets the local index)
    + pc 0, Detach  det := true
    + pc 0, Sync    append a message for the CURRENT local index (release store with the thread's view,
                    watermark = pos); ix, pos, ca unchanged.  ([Detached::sync_index]; the machine also accepts
                    it while attached, where it republishes the already published position - harmless.)
    + pc 0, Attach  Sync, and det := false.

    The thread record gets the fields [det] (detached?), [nix], [npos] (index / absolute position loaded by a
    reset in progress).  The producer never changes them.  (go_back / set_index of the crate are not modelled.)

    [acqP] / [acqC] say whether the producer's / the consumer's index loads (including the reset's load) join
    the view of the message read; [exec_x] is the machine with both set. *)
From Coq Require Import List Arith Lia Bool.
Import ListNotations.
Require Import MRB.Conc.RA.

Inductive cmd := Op (j n : nat) | Reset (j : nat) | Detach | Attach | Sync.

(* New records (RA.v's / RAn.v's lack the new fields); same field names, they shadow RA's. *)
Record thr_x := mkTx { ix : nat; ca : nat; V : view; pc : nat; pos : nat; cnt : nat; off : nat;
                       det : bool; nix : nat; npos : nat }.
Record cfg_x := mkCx { Mpi : list msg; Mci : list msg; metas : list meta; P : thr_x; C : thr_x; race : bool }.

Definition vzero := mkV 0 0 0 0 0 0.

(* The absolute position the consumer / producer has PUBLISHED: that of the last message of its index. *)
Definition publishedC (c : cfg_x) : nat := mabs (last (Mci c) dmsg).
Definition publishedP (c : cfg_x) : nat := mabs (last (Mpi c) dmsg).

Section M.
Variables (acqP acqC : bool).
Variable len : nat.

(* ---------------- producer: exactly RAn.v (the new fields are carried along) ---------------- *)
Definition opP_a (j n0 : nat) (c : cfg_x) : cfg_x :=
  let t := P c in
  match pc t with
  | 0 =>
    let n := Nat.max 1 n0 in
    if n <=? ca t then
      mkCx (Mpi c) (Mci c) (metas c)
           (mkTx (ix t) (ca t) (V t) 2 (pos t) n 0 (det t) (nix t) (npos t)) (C c) (race c)
    else
      let i := pick (vci (V t)) (length (Mci c)) j in
      let m := nth i (Mci c) dmsg in
      let v0 := V t in
      let v1 := vjoin (mkV (vpi v0) i (kp v0) (kc v0) (wP v0) (wC v0)) (if acqP then mview m else vzero) in
      let a := pavail len (ix t) (mval m) in
      mkCx (Mpi c) (Mci c) (metas c)
           (mkTx (ix t) a v1 (if n <=? a then 2 else 0) (pos t) n 0 (det t) (nix t) (npos t)) (C c) (race c)
  | 2 =>
    let k := wadd len (ix t) (off t) in
    let mt := nth k (metas c) dmeta in
    let bad := negb (rclk mt <=? kc (V t)) in
    mkCx (Mpi c) (Mci c) (upd k (mkMeta (pos t + off t) (kp (V t)) (rpos mt) (rclk mt)) (metas c))
         (mkTx (ix t) (ca t) (V t) (if cnt t <=? off t + 1 then 3 else 2) (pos t) (cnt t) (off t + 1)
               (det t) (nix t) (npos t))
         (C c) (race c || bad)
  | 3 =>
    let ix' := wadd len (ix t) (cnt t) in
    let p' := pos t + cnt t in
    let v0 := V t in
    let v1 := mkV (length (Mpi c)) (vci v0) (kp v0) (kc v0) p' (wC v0) in
    let m := mkM ix' p' v1 in
    mkCx (Mpi c ++ [m]) (Mci c) (metas c)
         (mkTx ix' (ca t - cnt t) (mkV (vpi v1) (vci v1) (S (kp v1)) (kc v1) (wP v1) (wC v1)) 0 p' (cnt t) 0
               (det t) (nix t) (npos t))
         (C c) (race c)
  | _ => c
  end.

(* ---------------- consumer ---------------- *)

(* End of an operation WITH a release store: the local index becomes (ix', p'), the remembered availability
   ca', the mode d; a message (ix', p', view with watermark p') is appended; the clock is advanced; pc := 0. *)
Definition publishC (c : cfg_x) (ix' p' ca' : nat) (d : bool) : cfg_x :=
  let t := C c in
  let v0 := V t in
  let v1 := mkV (vpi v0) (length (Mci c)) (kp v0) (kc v0) (wP v0) p' in
  let m := mkM ix' p' v1 in
  mkCx (Mpi c) (Mci c ++ [m]) (metas c) (P c)
       (mkTx ix' ca' (mkV (vpi v1) (vci v1) (kp v1) (S (kc v1)) (wP v1) (wC v1)) 0 p' (cnt t) 0
             d (nix t) (npos t))
       (race c).

(* End of an operation WITHOUT a store (detached): only the thread-local fields change. *)
Definition localC (c : cfg_x) (ix' p' ca' : nat) : cfg_x :=
  let t := C c in
  mkCx (Mpi c) (Mci c) (metas c) (P c)
       (mkTx ix' ca' (V t) 0 p' (cnt t) 0 (det t) (nix t) (npos t)) (race c).

Definition finishC (c : cfg_x) (ix' p' ca' : nat) : cfg_x :=
  if det (C c) then localC c ix' p' ca' else publishC c ix' p' ca' false.

Definition opC_a (j n0 : nat) (c : cfg_x) : cfg_x :=
  let t := C c in
  match pc t with
  | 0 =>
    let n := Nat.max 1 n0 in
    if n <=? ca t then
      mkCx (Mpi c) (Mci c) (metas c) (P c)
           (mkTx (ix t) (ca t) (V t) 2 (pos t) n 0 (det t) (nix t) (npos t)) (race c)
    else
      let i := pick (vpi (V t)) (length (Mpi c)) j in
      let m := nth i (Mpi c) dmsg in
      let v0 := V t in
      let v1 := vjoin (mkV i (vci v0) (kp v0) (kc v0) (wP v0) (wC v0)) (if acqC then mview m else vzero) in
      let a := dist len (ix t) (mval m) in
      mkCx (Mpi c) (Mci c) (metas c) (P c)
           (mkTx (ix t) a v1 (if n <=? a then 2 else 0) (pos t) n 0 (det t) (nix t) (npos t)) (race c)
  | 2 =>
    let k := wadd len (ix t) (off t) in
    let mt := nth k (metas c) dmeta in
    let bad := negb (wclk mt <=? kp (V t)) in
    mkCx (Mpi c) (Mci c) (upd k (mkMeta (wpos mt) (wclk mt) (pos t + off t) (kc (V t))) (metas c))
         (P c)
         (mkTx (ix t) (ca t) (V t) (if cnt t <=? off t + 1 then 3 else 2) (pos t) (cnt t) (off t + 1)
               (det t) (nix t) (npos t))
         (race c || bad)
  | 3 => finishC c (wadd len (ix t) (cnt t)) (pos t + cnt t) (ca t - cnt t)
  | 5 => finishC c (nix t) (npos t) 0
  | _ => c
  end.

(* "pc 4": the load of reset_index. *)
Definition resetC_a (j : nat) (c : cfg_x) : cfg_x :=
  let t := C c in
  let i := pick (vpi (V t)) (length (Mpi c)) j in
  let m := nth i (Mpi c) dmsg in
  let v0 := V t in
  let v1 := vjoin (mkV i (vci v0) (kp v0) (kc v0) (wP v0) (wC v0)) (if acqC then mview m else vzero) in
  mkCx (Mpi c) (Mci c) (metas c) (P c)
       (mkTx (ix t) (ca t) v1 5 (pos t) (cnt t) (off t) (det t) (mval m) (mabs m)) (race c).

Definition detachC (c : cfg_x) : cfg_x :=
  let t := C c in
  mkCx (Mpi c) (Mci c) (metas c) (P c)
       (mkTx (ix t) (ca t) (V t) (pc t) (pos t) (cnt t) (off t) true (nix t) (npos t)) (race c).

Definition stepP_a (k : cmd) (c : cfg_x) : cfg_x :=
  match k with
  | Op j n => opP_a j n c
  | _ => c
  end.

Definition stepC_a (k : cmd) (c : cfg_x) : cfg_x :=
  let t := C c in
  match k with
  | Op j n => opC_a j n c
  | Reset j => match pc t with 0 => resetC_a j c | _ => c end
  | Detach  => match pc t with 0 => detachC c | _ => c end
  | Attach  => match pc t with 0 => publishC c (ix t) (pos t) (ca t) false | _ => c end
  | Sync    => match pc t with 0 => publishC c (ix t) (pos t) (ca t) (det t) | _ => c end
  end.

(* script entry: (thread (true = P), command) *)
Definition step_a (c : cfg_x) (s : bool * cmd) : cfg_x :=
  if fst s then stepP_a (snd s) c else stepC_a (snd s) c.
Definition exec_a (c : cfg_x) (script : list (bool * cmd)) : cfg_x := fold_left step_a script c.

(* As in RA.v / RAn.v both threads start at absolute position [len]; the consumer starts attached. *)
Definition init_x : cfg_x :=
  mkCx [mkM 0 len (vbot len)] [mkM 0 len (vbot len)]
       (map (fun k => mkMeta k 0 k 0) (seq 0 len))
       (mkTx 0 0 (v0P len) 0 len 0 0 false 0 0) (mkTx 0 0 (v0C len) 0 len 0 0 false 0 0) false.

End M.

(* The release/acquire machine: all index loads acquire. *)
Definition stepP_x := stepP_a true.
Definition stepC_x := stepC_a true.
Definition step_x := step_a true true.
Definition exec_x := exec_a true true.

(* ------------------------------------------------------------------------------------------------ *)
(* Examples, len = 4 (capacity 3).  Read choice 99 = always the latest message.                       *)
Definition sP (n : nat) : bool * cmd := (true, Op 99 n).
Definition sC (n : nat) : bool * cmd := (false, Op 99 n).
Definition kC (k : cmd) : bool * cmd := (false, k).

(* (race, P: (ix, pos, ca, pc), C: (ix, pos, ca, pc, det), position published by C) *)
Definition summary (c : cfg_x) :=
  (race c, (ix (P c), pos (P c), ca (P c), pc (P c)),
           (ix (C c), pos (C c), ca (C c), pc (C c), det (C c)), publishedC c).

(* With [Op] commands only the machine is RAn.v's: the demo script of RAn.v gives the same result. *)
Definition demo_n : list (bool * cmd) :=
  [ sP 3; sP 3; sP 3; sP 3; sP 3;
    sC 2; sC 2; sC 2; sC 2;
    sP 2; sC 1; sP 2; sC 1; sP 2; sC 1; sP 2 ].
Example demo_n_race_free :
  summary (exec_x 4 (init_x 4) demo_n) = (false, (1, 9, 0, 0), (3, 7, 0, 0, false), 7).
Proof. vm_compute. reflexivity. Qed.

(* ---- reset_index ----
   P pushes 3 (positions 4,5,6); C pops 1 (position 4); P starts pushing 1 more (position 7) and, interleaved with
   P's write and store, C resets: it loads P's index (position 7 - the store of 8 has not happened yet), and
   publishes 7: the items at positions 5 and 6 are skipped, never read.
   P keeps pushing: it now gets 2 slots (positions 8, 9 = slots 0, 1: slot 1 holds the skipped item of position 5)
   and overwrites them; C pops the 3 items at positions 7, 8, 9. *)
Definition demo_reset : list (bool * cmd) :=
  [ sP 3; sP 3; sP 3; sP 3; sP 3;          (* P: load+grant 3, write slots 0,1,2, publish      -> pos 7 *)
    sC 1; sC 1; sC 1;                      (* C: load+grant 1, read slot 0, publish            -> pos 5 *)
    sP 1;                                  (* P: load (C at 5): 1 free slot, grant                       *)
    kC (Reset 99);                         (* C: reset, the load: sees P at 7                            *)
    sP 1; sP 1;                            (* P: write slot 3 (pos 7), publish                 -> pos 8 *)
    sC 0;                                  (* C: reset, the store: ix 3, pos 7 published (5, 6 skipped)  *)
    sP 2; sP 2; sP 2; sP 2;                (* P: load (C at 7): 2 free, write slots 0,1, publish -> pos 10 *)
    sC 3; sC 3; sC 3; sC 3; sC 3 ].        (* C: load+grant 3, read slots 3,0,1, publish       -> pos 10 *)

Example demo_reset_mid :   (* just after the reset: C at 7 = what it published; P at 8 *)
  summary (exec_x 4 (init_x 4) (firstn 13 demo_reset)) = (false, (0, 8, 0, 0), (3, 7, 0, 0, false), 7).
Proof. vm_compute. reflexivity. Qed.
Example demo_reset_race_free :
  summary (exec_x 4 (init_x 4) demo_reset) = (false, (2, 10, 0, 0), (2, 10, 0, 0, false), 10).
Proof. vm_compute. reflexivity. Qed.

(* A reset with a stale read choice reads the oldest message it may (the one at the thread's view); that is
   never behind the local index: here C has seen P at 7 and popped up to 5, the "stale" reset takes it to 7. *)
Example demo_reset_stale :
  summary (exec_x 4 (init_x 4) (firstn 8 demo_reset ++ [kC (Reset 0); sC 0]))
  = (false, (3, 7, 0, 0), (3, 7, 0, 0, false), 7).
Proof. vm_compute. reflexivity. Qed.

(* The same script with Relaxed consumer loads (no join) races. *)
Example demo_reset_relaxed_races :
  race (exec_a true false 4 (init_x 4) demo_reset) = true.
Proof. vm_compute. reflexivity. Qed.

(* ---- detached operation ----
   P fills the ring (positions 4,5,6).  C detaches and pops 2 items: its local index moves to 6, nothing is
   published.  P wants to push: it still sees C at 4, no free slot.  C syncs (publishes 6).  Now P gets the two
   released slots: positions 7, 8 = slots 3 and 0 - it wraps around into a slot C has read while detached.
   C pops 1 more item (detached), attaches (publishes 7), pops 2 more (attached: published at once). *)
Definition demo_detached : list (bool * cmd) :=
  [ sP 3; sP 3; sP 3; sP 3; sP 3;          (* P: load+grant 3, write slots 0,1,2, publish      -> pos 7 *)
    kC Detach;
    sC 2; sC 2; sC 2; sC 2;                (* C: load+grant 2, read slots 0,1, LOCAL advance   -> pos 6 *)
    sP 2;                                  (* P: load: C still at 4, nothing free, no grant              *)
    kC Sync;                               (* C: publish 6                                               *)
    sP 2; sP 2; sP 2; sP 2;                (* P: load (C at 6): 2 free, write slots 3,0, publish -> pos 9 *)
    sC 1; sC 1; sC 1;                      (* C: load+grant 1, read slot 2, local advance      -> pos 7 *)
    kC Attach;                             (* C: publish 7, attached again                               *)
    sC 2; sC 2; sC 2; sC 2 ].              (* C: grant 2 from ca, read slots 3,0, publish      -> pos 9 *)

Example demo_detached_blocked :   (* before the sync: C is at 6 locally, 4 is published, P got nothing *)
  summary (exec_x 4 (init_x 4) (firstn 11 demo_detached)) = (false, (3, 7, 0, 0), (2, 6, 1, 0, true), 4).
Proof. vm_compute. reflexivity. Qed.
Example demo_detached_wrapped :   (* after the sync P has written slots 3 and 0 *)
  summary (exec_x 4 (init_x 4) (firstn 16 demo_detached)) = (false, (1, 9, 0, 0), (2, 6, 1, 0, true), 6).
Proof. vm_compute. reflexivity. Qed.
Example demo_detached_race_free :
  summary (exec_x 4 (init_x 4) demo_detached) = (false, (1, 9, 0, 0), (1, 9, 0, 0, false), 9).
Proof. vm_compute. reflexivity. Qed.

(* Reset while detached: the local index jumps, nothing is published until the sync. *)
Example demo_detached_reset :
  summary (exec_x 4 (init_x 4) (firstn 6 demo_detached ++ [kC (Reset 99); sC 0]))
  = (false, (3, 7, 0, 0), (3, 7, 0, 0, true), 4).
Proof. vm_compute. reflexivity. Qed.

(* The same script with Relaxed producer loads races (P overwrites slot 3/0 without having acquired C's reads). *)
Example demo_detached_relaxed_races :
  race (exec_a false true 4 (init_x 4) demo_detached) = true.
Proof. vm_compute. reflexivity. Qed.
