(** * C02 on the three-stage release/acquire machine: what the consumer reads.

    Values are threaded alongside the machine of RA3.v: the producer stores the [p]-th value [pv p] at position [p],
    the worker replaces the value it finds by [f] of it, the consumer appends what it reads to its log.
    For every interleaving and every admissible stale read the consumer's log is, at every moment, the list
    [f (pv len); f (pv (len+1)); ...] - a prefix of the pushed sequence with the worker's transformation applied
    item by item, in order, nothing lost, duplicated or seen half-processed. *)
From Coq Require Import List Arith Lia Bool.
Import ListNotations.
Require Import MRB.Conc.RA MRB.Conc.RA3 MRB.Conc.RA3proof.
Local Arguments Nat.leb : simpl never.
Local Arguments Nat.ltb : simpl never.
Local Arguments Nat.modulo : simpl never.
Local Arguments Nat.max : simpl never.
Local Arguments Nat.min : simpl never.
Local Arguments Nat.sub : simpl never.
Local Arguments Nat.add : simpl never.

Section Values.
Variable len : nat.
Hypothesis Hlen : 0 < len.
Variables (pv f : nat -> nat) (init : nat -> nat).

Record vst := mkVst { vals : list nat; clog : list nat }.

Definition vstep (c : cfg3) (s : tid * nat) (v : vst) : vst :=
  match fst s with
  | TP => if pc3 (P3 c) =? 2 then mkVst (upd (ix3 (P3 c)) (pv (pos3 (P3 c))) (vals v)) (clog v) else v
  | TW => if pc3 (W3 c) =? 2 then mkVst (upd (ix3 (W3 c)) (f (nth (ix3 (W3 c)) (vals v) 0)) (vals v)) (clog v) else v
  | TC => if pc3 (C3 c) =? 2 then mkVst (vals v) (clog v ++ [nth (ix3 (C3 c)) (vals v) 0]) else v
  end.

Fixpoint vexec (c : cfg3) (v : vst) (script : list (tid * nat)) : cfg3 * vst :=
  match script with
  | [] => (c, v)
  | s :: r => vexec (step3 len c s) (vstep c s v) r
  end.

Definition vinit0 : vst := mkVst (map init (seq 0 len)) [].

(** positions whose access has been performed *)
Definition done (t : thr3) : nat := pos3 t + (if pc3 t =? 3 then 1 else 0).

Definition val_of (m : meta3) : nat :=
  match wt m with TP => pv (wpos3 m) | TW => f (pv (wpos3 m)) | TC => init (wpos3 m) end.

Record VInv (c : cfg3) (v : vst) : Prop := mkVInv {
  v_len : length (vals v) = len;
  v_val : forall k, k < len -> nth k (vals v) 0 = val_of (mt3 c k);
  (* released by the worker, not yet consumed: last written by the worker at exactly that position *)
  v_e1 : forall p, pos3 (C3 c) <= p < done (W3 c) -> wt (mt3 c (p mod len)) = TW /\ wpos3 (mt3 c (p mod len)) = p;
  (* pushed, not yet worked: last written by the producer at exactly that position *)
  v_e2 : forall p, done (W3 c) <= p < done (P3 c) -> wt (mt3 c (p mod len)) = TP /\ wpos3 (mt3 c (p mod len)) = p;
  v_log : clog v = map (fun p => f (pv p)) (seq len (done (C3 c) - len));
  v_pos : len <= pos3 (C3 c)
}.

Lemma sorted_last M i : sorted3 M -> i < length M -> mabs3 (nth i M dmsg3) <= lastabs3 M.
Proof. intros S Hi. unfold lastabs3. apply S; lia. Qed.

(** order facts from the race-freedom invariant *)
Lemma order_facts c : Inv3 len c ->
  seenC3 c <= pos3 (W3 c) /\ seenW3 c <= pos3 (P3 c) /\ seenP3 c <= pos3 (C3 c).
Proof.
  intros I. destruct I.
  destruct j_vP as (a1 & a2 & a3 & _). destruct j_vW as (b1 & b2 & b3 & _). destruct j_vC as (c1 & c2 & c3 & _).
  unfold seenC3, seenW3, seenP3. rewrite <- j_lwi, <- j_lpi, <- j_lci.
  repeat split; apply sorted_last; auto.
Qed.

Lemma mod_close_eq a b : a mod len = b mod len -> a < b + len -> b < a + len -> a = b.
Proof.
  intros E H1 H2. assert (a <= b) by (apply (congr_le len); auto). assert (b <= a) by (apply (congr_le len); auto). lia.
Qed.

Ltac dn := repeat match goal with
  | H : context[if ?b then 1 else 0] |- _ => destruct b
  | |- context[if ?b then 1 else 0] => destruct b
  end.


Lemma pc_facts c : Inv3 len c ->
  done (C3 c) <= pos3 (W3 c) /\ done (W3 c) <= pos3 (P3 c) /\ pos3 (P3 c) + 1 <= pos3 (C3 c) + len /\
  (pc3 (P3 c) = 2 \/ pc3 (P3 c) = 3 -> pos3 (P3 c) + 2 <= pos3 (C3 c) + len) /\
  (pc3 (W3 c) = 2 -> pos3 (W3 c) < pos3 (P3 c)) /\ (pc3 (C3 c) = 2 -> pos3 (C3 c) < pos3 (W3 c)).
Proof.
  intros I. destruct (order_facts c I) as (A & B & D). destruct I.
  unfold done. unfold pc_ok in *.
  repeat match goal with |- _ /\ _ => split end.
  - destruct (pc3 (C3 c) =? 3) eqn:E; [apply Nat.eqb_eq in E|]; destruct j_pcC as [?|[[? ?]|[? ?]]]; try lia.
  - destruct (pc3 (W3 c) =? 3) eqn:E; [apply Nat.eqb_eq in E|]; destruct j_pcW as [?|[[? ?]|[? ?]]]; try lia.
  - lia.
  - intros H. destruct j_pcP as [?|[[? ?]|[? ?]]]; try lia.
  - intros H. destruct j_pcW as [?|[[? ?]|[? ?]]]; try lia.
  - intros H. destruct j_pcC as [?|[[? ?]|[? ?]]]; try lia.
Qed.

Lemma mt3_upd c k j x : k < length (metas3 c) ->
  nth j (upd k x (metas3 c)) dmeta3 = if Nat.eqb k j then x else nth j (metas3 c) dmeta3.
Proof.
  intros H. destruct (Nat.eqb_spec k j) as [->|Hne]; [apply nth_upd_eq | apply nth_upd_neq]; auto.
Qed.

Lemma vstep_inv c v s : Inv3 len c -> VInv c v -> VInv (step3 len c s) (vstep c s v).
Proof.
  intros I V. pose proof (pc_facts c I) as (F1 & F2 & F3 & F4 & F5 & F6).
  pose proof (j_ixP _ _ I) as XP. pose proof (j_ixW _ _ I) as XW. pose proof (j_ixC _ _ I) as XC.
  pose proof (j_metas _ _ I) as LM.
  assert (MB : forall x, x mod len < len) by (intros; apply Nat.mod_upper_bound; lia).
  destruct V as [VL VV E1 E2 LG VP].
  destruct s as [t j]. unfold step3, vstep. simpl fst. simpl snd. destruct t.
  - (* producer *)
    unfold stepP. destruct (pc3 (P3 c)) as [|[|[|[|n]]]] eqn:PC; simpl Nat.eqb.
    + (* check *) destruct (1 <=? ca3 (P3 c)); constructor; unfold done, mt3 in *; simpl; rewrite ?PC in *; simpl in *; auto;
        repeat match goal with |- context[if ?b then 2 else 0] => destruct b end; simpl; auto.
    + constructor; unfold done, mt3 in *; simpl; auto.
    + (* write the slot *)
      specialize (F4 (or_introl eq_refl)).
      constructor; unfold done, mt3 in *; simpl; rewrite ?PC in *; simpl in *.
      * rewrite upd_length; auto.
      * intros k Hk. rewrite mt3_upd by (rewrite LM, XP; auto).
        destruct (Nat.eqb_spec (ix3 (P3 c)) k) as [<-|Hne].
        -- rewrite nth_upd_eq by (rewrite VL, XP; auto). reflexivity.
        -- rewrite nth_upd_neq by auto. apply VV; auto.
      * intros p Hp. rewrite mt3_upd by (rewrite LM, XP; auto).
        destruct (Nat.eqb_spec (ix3 (P3 c)) (p mod len)) as [E|Hne]; [|apply E1; auto].
        exfalso. rewrite XP in E. assert (p = pos3 (P3 c)) by (apply mod_close_eq; [auto | dn; lia | dn; lia]). dn; lia.
      * intros p Hp. rewrite mt3_upd by (rewrite LM, XP; auto).
        destruct (Nat.eqb_spec (ix3 (P3 c)) (p mod len)) as [E|Hne].
        -- rewrite XP in E. assert (p = pos3 (P3 c)) by (apply mod_close_eq; [auto | dn; lia | dn; lia]). subst p. simpl; auto.
        -- apply E2. split; [lia|]. destruct (Nat.eq_dec p (pos3 (P3 c))) as [->|Hn]; [rewrite XP in Hne; congruence | lia].
      * auto.
      * auto.
    + (* publish *) constructor; unfold done, mt3 in *; simpl; rewrite ?PC in *; simpl in *; auto.
      intros p Hp. apply E2. lia.
    + constructor; unfold done, mt3 in *; simpl; auto.
  - (* worker *)
    unfold stepW. destruct (pc3 (W3 c)) as [|[|[|[|n]]]] eqn:PC; simpl Nat.eqb.
    + destruct (1 <=? ca3 (W3 c)); constructor; unfold done, mt3 in *; simpl; rewrite ?PC in *; simpl in *; auto;
        repeat match goal with |- context[if ?b then 2 else 0] => destruct b end; simpl; auto.
    + constructor; unfold done, mt3 in *; simpl; auto.
    + (* edit the slot *)
      specialize (F5 eq_refl).
      assert (Cur : wt (nth (ix3 (W3 c)) (metas3 c) dmeta3) = TP /\ wpos3 (nth (ix3 (W3 c)) (metas3 c) dmeta3) = pos3 (W3 c)).
      { rewrite XW. apply E2. unfold done. rewrite PC. simpl. dn; lia. }
      destruct Cur as [CW CP].
      constructor; unfold done, mt3 in *; simpl; rewrite ?PC in *; simpl in *.
      * rewrite upd_length; auto.
      * intros k Hk. rewrite mt3_upd by (rewrite LM, XW; auto).
        destruct (Nat.eqb_spec (ix3 (W3 c)) k) as [<-|Hne].
        -- rewrite nth_upd_eq by (rewrite VL, XW; auto). rewrite VV by (rewrite XW; auto).
           unfold val_of. unfold mt3. rewrite CW, CP. reflexivity.
        -- rewrite nth_upd_neq by auto. apply VV; auto.
      * intros p Hp. rewrite mt3_upd by (rewrite LM, XW; auto).
        destruct (Nat.eqb_spec (ix3 (W3 c)) (p mod len)) as [E|Hne].
        -- rewrite XW in E. assert (p = pos3 (W3 c)) by (apply mod_close_eq; [auto | dn; lia | dn; lia]). subst p. simpl; auto.
        -- apply E1. split; [lia|]. destruct (Nat.eq_dec p (pos3 (W3 c))) as [->|Hn]; [rewrite XW in Hne; congruence | lia].
      * intros p Hp. rewrite mt3_upd by (rewrite LM, XW; auto).
        destruct (Nat.eqb_spec (ix3 (W3 c)) (p mod len)) as [E|Hne]; [|apply E2; lia].
        exfalso. rewrite XW in E. assert (p = pos3 (W3 c)) by (apply mod_close_eq; [auto | dn; lia | dn; lia]). lia.
      * auto.
      * auto.
    + constructor; unfold done, mt3 in *; simpl; rewrite ?PC in *; simpl in *; auto.
      * intros p Hp. apply E1. lia.
      * intros p Hp. apply E2. lia.
    + constructor; unfold done, mt3 in *; simpl; auto.
  - (* consumer *)
    unfold stepC. destruct (pc3 (C3 c)) as [|[|[|[|n]]]] eqn:PC; simpl Nat.eqb.
    + destruct (1 <=? ca3 (C3 c)); constructor; unfold done, mt3 in *; simpl; rewrite ?PC in *; simpl in *; auto;
        repeat match goal with |- context[if ?b then 2 else 0] => destruct b end; simpl; auto.
    + constructor; unfold done, mt3 in *; simpl; auto.
    + (* read the slot *)
      specialize (F6 eq_refl).
      assert (Cur : wt (nth (ix3 (C3 c)) (metas3 c) dmeta3) = TW /\ wpos3 (nth (ix3 (C3 c)) (metas3 c) dmeta3) = pos3 (C3 c)).
      { rewrite XC. apply E1. unfold done. dn; lia. }
      destruct Cur as [CW CP].
      constructor; unfold done, mt3 in *; simpl; rewrite ?PC in *; simpl in *; auto.
      * intros k Hk. rewrite mt3_upd by (rewrite LM, XC; auto).
        destruct (Nat.eqb_spec (ix3 (C3 c)) k) as [<-|Hne]; [|apply VV; auto].
        rewrite VV by (rewrite XC; auto). unfold val_of, mt3. simpl. reflexivity.
      * intros p Hp. rewrite mt3_upd by (rewrite LM, XC; auto).
        destruct (Nat.eqb_spec (ix3 (C3 c)) (p mod len)) as [E|Hne]; [|apply E1; auto].
        simpl. rewrite XC in E.
        assert (p = pos3 (C3 c)) by (apply mod_close_eq; [auto | unfold done in *; dn; lia | unfold done in *; dn; lia]). subst p. rewrite CW, CP. auto.
      * intros p Hp. rewrite mt3_upd by (rewrite LM, XC; auto).
        destruct (Nat.eqb_spec (ix3 (C3 c)) (p mod len)) as [E|Hne]; [|apply E2; auto].
        exfalso. rewrite XC in E. assert (p = pos3 (C3 c)) by (apply mod_close_eq; [auto | dn; lia | dn; lia]). dn; lia.
      * rewrite LG. replace (pos3 (C3 c) + 1 - len) with (S (pos3 (C3 c) + 0 - len)) by lia.
        rewrite seq_S, map_app. simpl. f_equal. f_equal.
        rewrite VV by (rewrite XC; auto). unfold val_of, mt3. rewrite CW, CP. f_equal. f_equal. lia.
    + constructor; unfold done, mt3 in *; simpl; rewrite ?PC in *; simpl in *; auto; try lia.
      * intros p Hp. apply E1. lia.
      * rewrite LG. f_equal. f_equal. lia.
    + constructor; unfold done, mt3 in *; simpl; auto.
Qed.

Lemma vinit_inv : VInv (init3 len) vinit0.
Proof.
  constructor; unfold done, vinit0, init3, mt3; simpl.
  - rewrite map_length, seq_length. reflexivity.
  - intros k Hk. rewrite nth_init_meta3 by auto. unfold val_of. simpl.
    rewrite (nth_indep _ 0 (init 0)) by (rewrite map_length, seq_length; auto).
    rewrite map_nth, seq_nth by auto. reflexivity.
  - intros p Hp. lia.
  - intros p Hp. lia.
  - rewrite Nat.add_0_r, Nat.sub_diag. reflexivity.
  - lia.
Qed.

Theorem vexec_inv script : forall c v, Inv3 len c -> VInv c v ->
  Inv3 len (fst (vexec c v script)) /\ VInv (fst (vexec c v script)) (snd (vexec c v script)).
Proof.
  induction script as [|s r IH]; intros c v I V; simpl; auto.
  apply IH; [apply step3_inv; auto | apply vstep_inv; auto].
Qed.

Lemma vexec_fst script : forall c v, fst (vexec c v script) = exec3 len c script.
Proof. induction script as [|s r IH]; intros; simpl; auto. Qed.
End Values.

(** the consumed sequence is always a prefix of the pushed sequence with the worker's transformation applied *)
Theorem consumed_is_prefix len pv f init script : 0 < len ->
  let '(c, v) := vexec len pv f (init3 len) (vinit0 len init) script in
  clog v = map (fun p => f (pv p)) (seq len (done (C3 c) - len)) /\ race3 c = false.
Proof.
  intros Hl. pose proof (vexec_inv len Hl pv f init script _ _ (init3_inv len Hl) (vinit_inv len Hl pv f init)) as [I V].
  destruct (vexec len pv f (init3 len) (vinit0 len init) script) as [c v]. simpl in *.
  split; [apply (v_log _ _ _ _ _ _ V) | apply (j_race _ _ I)].
Qed.
Print Assumptions consumed_is_prefix.
