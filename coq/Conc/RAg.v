(** * The two-stage release/acquire machine with the memory orderings as parameters:
      [acq]: index loads are (at least) Acquire - the loading thread joins the view of the message it reads;
      [rel]: index stores are (at least) Release - the message carries the storing thread's view.
      With both set it is the machine of RA.v (transfer lemma below); with [acq = false] a racy execution exists. *)
From Coq Require Import List Arith Lia Bool.
Import ListNotations.
Require Import MRB.Conc.RA MRB.Conc.RAproof.

Section MG.
Variables (acq rel : bool).
Definition vzero := mkV 0 0 0 0 0 0.
Variable len : nat.

Definition gstepP (j : nat) (c : cfg) : cfg :=
  let t := P c in
  match pc t with
  | 0 =>
    if 1 <=? ca t then mkC (Mpi c) (Mci c) (metas c) (mkT (ix t) (ca t) (V t) 2 (pos t)) (C c) (race c)
    else
      let i := pick (vci (V t)) (length (Mci c)) j in
      let m := nth i (Mci c) dmsg in
      let v0 := V t in
      let v1 := vjoin (mkV (vpi v0) i (kp v0) (kc v0) (wP v0) (wC v0)) (if acq then mview m else vzero) in
      let a := pavail len (ix t) (mval m) in
      mkC (Mpi c) (Mci c) (metas c) (mkT (ix t) a v1 (if 1 <=? a then 2 else 0) (pos t)) (C c) (race c)
  | 2 =>
    let mt := nth (ix t) (metas c) dmeta in
    let bad := negb (rclk mt <=? kc (V t)) in
    mkC (Mpi c) (Mci c) (upd (ix t) (mkMeta (pos t) (kp (V t)) (rpos mt) (rclk mt)) (metas c))
        (mkT (ix t) (ca t) (V t) 3 (pos t)) (C c) (race c || bad)
  | 3 =>
    let ix' := wadd len (ix t) 1 in
    let v0 := V t in
    let v1 := mkV (length (Mpi c)) (vci v0) (kp v0) (kc v0) (S (pos t)) (wC v0) in
    let m := mkM ix' (S (pos t)) (if rel then v1 else vzero) in
    mkC (Mpi c ++ [m]) (Mci c) (metas c)
        (mkT ix' (ca t - 1) (mkV (vpi v1) (vci v1) (S (kp v1)) (kc v1) (wP v1) (wC v1)) 0 (S (pos t)))
        (C c) (race c)
  | _ => c
  end.

Definition gstepC (j : nat) (c : cfg) : cfg :=
  let t := C c in
  match pc t with
  | 0 =>
    if 1 <=? ca t then mkC (Mpi c) (Mci c) (metas c) (P c) (mkT (ix t) (ca t) (V t) 2 (pos t)) (race c)
    else
      let i := pick (vpi (V t)) (length (Mpi c)) j in
      let m := nth i (Mpi c) dmsg in
      let v0 := V t in
      let v1 := vjoin (mkV i (vci v0) (kp v0) (kc v0) (wP v0) (wC v0)) (if acq then mview m else vzero) in
      let a := dist len (ix t) (mval m) in
      mkC (Mpi c) (Mci c) (metas c) (P c) (mkT (ix t) a v1 (if 1 <=? a then 2 else 0) (pos t)) (race c)
  | 2 =>
    let mt := nth (ix t) (metas c) dmeta in
    let bad := negb (wclk mt <=? kp (V t)) in
    mkC (Mpi c) (Mci c) (upd (ix t) (mkMeta (wpos mt) (wclk mt) (pos t) (kc (V t))) (metas c))
        (P c) (mkT (ix t) (ca t) (V t) 3 (pos t)) (race c || bad)
  | 3 =>
    let ix' := wadd len (ix t) 1 in
    let v0 := V t in
    let v1 := mkV (vpi v0) (length (Mci c)) (kp v0) (kc v0) (wP v0) (S (pos t)) in
    let m := mkM ix' (S (pos t)) (if rel then v1 else vzero) in
    mkC (Mpi c) (Mci c ++ [m]) (metas c) (P c)
        (mkT ix' (ca t - 1) (mkV (vpi v1) (vci v1) (kp v1) (S (kc v1)) (wP v1) (wC v1)) 0 (S (pos t)))
        (race c)
  | _ => c
  end.

Definition gstep (c : cfg) (s : bool * nat) : cfg :=
  if fst s then gstepP (snd s) c else gstepC (snd s) c.
Definition gexec (c : cfg) (script : list (bool * nat)) : cfg := fold_left gstep script c.

Definition gv0P := mkV 0 0 1 0 len len.
Definition gv0C := mkV 0 0 0 1 len len.
Definition gvbot := mkV 0 0 0 0 len len.
Definition ginit : cfg :=
  mkC [mkM 0 len gvbot] [mkM 0 len gvbot]
      (map (fun k => mkMeta k 0 k 0) (seq 0 len))
      (mkT 0 0 gv0P 0 len) (mkT 0 0 gv0C 0 len) false.

End MG.

Lemma gstep_strong len c s : gstep true true len c s = step len c s.
Proof.
  unfold gstep, step, gstepP, stepP, gstepC, stepC. destruct (fst s); reflexivity.
Qed.

Lemma gexec_strong len script : forall c, gexec true true len c script = exec len c script.
Proof. induction script as [|s r IH]; intros c; simpl; auto. Qed.

Lemma ginit_eq len : ginit len = init len.
Proof. reflexivity. Qed.

(** race freedom for every execution of the two-stage pipeline whose index accesses are acquire / release *)
Theorem g_race_free acq rel : acq = true -> rel = true ->
  forall len script, 0 < len -> race (gexec acq rel len (ginit len) script) = false.
Proof. intros -> -> len script Hl. rewrite gexec_strong, ginit_eq. apply spsc_race_free; auto. Qed.

(** non-vacuity of the detector and of the hypothesis: with a relaxed consumer load there is a racy execution
    (message passing: the consumer reads the published index without acquiring the slot write) *)
Example relaxed_load_races : race (gexec false true 2 (ginit 2) [(true, 0); (true, 0); (true, 0); (false, 1); (false, 0)]) = true.
Proof. vm_compute. reflexivity. Qed.
Example relaxed_store_races : race (gexec true false 2 (ginit 2) [(true, 0); (true, 0); (true, 0); (false, 1); (false, 0)]) = true.
Proof. vm_compute. reflexivity. Qed.
