(** * C07: the drop protocol (after fix F5): one read-modify-write on the liveness word decides the last iterator.

    Threads = the iterators being dropped.  Each performs its last access to the buffer, then clears its bit with
    [fetch_and] and, if the word became zero, frees the buffer.  Views are "whose last access do I know about";
    an acquiring RMW joins the view carried by the word (release sequence), a releasing one adds its own.
    The state space is finite: the theorems are proved for every schedule (every list of thread choices, of any
    length) by computing the set of reachable states, checking that it is closed under every step, and checking
    every state in it - with [vm_compute] inside the kernel, lifted by [forallb_forall]. *)
From Coq Require Import List Arith Bool Lia.
Import ListNotations.

Inductive th := TP | TW | TC.
Record b3 := mkB3 { bP : bool; bW : bool; bC : bool }.
Record dthr := mkDT { dpc : nat; dview : b3 }.
Record dcfg := mkDC { word : b3; wview : b3; tp : dthr; tw : dthr; tc : dthr; frees : nat; uaf : bool }.

Scheme Equality for b3.
Scheme Equality for dthr.
Scheme Equality for dcfg.

Definition get (k : th) (b : b3) : bool := match k with TP => bP b | TW => bW b | TC => bC b end.
Definition set (k : th) (x : bool) (b : b3) : b3 :=
  match k with TP => mkB3 x (bW b) (bC b) | TW => mkB3 (bP b) x (bC b) | TC => mkB3 (bP b) (bW b) x end.
Definition join (a b : b3) : b3 := mkB3 (bP a || bP b) (bW a || bW b) (bC a || bC b).
Definition none (b : b3) : bool := negb (bP b) && negb (bW b) && negb (bC b).
Definition covers (present v : b3) : bool :=
  implb (bP present) (bP v) && implb (bW present) (bW v) && implb (bC present) (bC v).
Definition thr_of (k : th) (c : dcfg) : dthr := match k with TP => tp c | TW => tw c | TC => tc c end.
Definition set_thr (k : th) (t : dthr) (c : dcfg) : dcfg :=
  match k with
  | TP => mkDC (word c) (wview c) t (tw c) (tc c) (frees c) (uaf c)
  | TW => mkDC (word c) (wview c) (tp c) t (tc c) (frees c) (uaf c)
  | TC => mkDC (word c) (wview c) (tp c) (tw c) t (frees c) (uaf c)
  end.

Section D.
Variables (acq rel : bool) (present : b3).

Definition dstep (c : dcfg) (k : th) : dcfg :=
  if negb (get k present) then c else
  let t := thr_of k c in
  match dpc t with
  | 0 => (* the iterator's last access to the buffer *)
    let c1 := set_thr k (mkDT 1 (set k true (dview t))) c in
    mkDC (word c1) (wview c1) (tp c1) (tw c1) (tc c1) (frees c1) (uaf c1 || (0 <? frees c))
  | 1 => (* fetch_and(!bit): reads the last value; acquire joins the carried view; release adds its own *)
    let v1 := if acq then join (dview t) (wview c) else dview t in
    let w' := set k false (word c) in
    let wv' := if rel then join (wview c) v1 else wview c in
    let c1 := set_thr k (mkDT (if none w' then 2 else 3) v1) c in
    mkDC w' wv' (tp c1) (tw c1) (tc c1) (frees c1) (uaf c1)
  | 2 => (* the last one frees the buffer: an access to everything *)
    let c1 := set_thr k (mkDT 3 (dview t)) c in
    mkDC (word c1) (wview c1) (tp c1) (tw c1) (tc c1) (S (frees c)) (uaf c1 || negb (covers present (dview t)))
  | _ => c
  end.

Definition dinit : dcfg :=
  let t0 := mkDT 0 (mkB3 false false false) in
  mkDC present (mkB3 false false false) t0 t0 t0 0 false.

Definition dexec (script : list th) : dcfg := fold_left dstep script dinit.

Definition all_done (c : dcfg) : bool :=
  implb (bP present) (dpc (tp c) =? 3) && implb (bW present) (dpc (tw c) =? 3) && implb (bC present) (dpc (tc c) =? 3).

(** freed at most once, never used after being freed, the free is ordered after every iterator's last access,
    and once every iterator is gone it has been freed exactly once *)
Definition good (c : dcfg) : bool :=
  (frees c <=? 1) && negb (uaf c) && implb (all_done c) (frees c =? 1).

(** reachable states: closure under every thread's step *)
Fixpoint mem (c : dcfg) (l : list dcfg) : bool :=
  match l with [] => false | x :: r => dcfg_beq c x || mem c r end.
Fixpoint add_all (xs l : list dcfg) : list dcfg :=
  match xs with [] => l | x :: r => if mem x l then add_all r l else add_all r (l ++ [x]) end.
Fixpoint closure (n : nat) (l : list dcfg) : list dcfg :=
  match n with 0 => l | S n' => closure n' (add_all (flat_map (fun c => [dstep c TP; dstep c TW; dstep c TC]) l) l) end.

Definition states : list dcfg := closure 12 [dinit].
Definition closed (l : list dcfg) : bool :=
  mem dinit l && forallb (fun c => mem (dstep c TP) l && mem (dstep c TW) l && mem (dstep c TC) l) l.

Lemma mem_In c l : mem c l = true -> In c l.
Proof.
  induction l as [|x r IH]; simpl; [discriminate|]. intros H. apply orb_prop in H as [H|H].
  - left. symmetry. apply internal_dcfg_dec_bl. exact H.
  - right. auto.
Qed.

Lemma closed_reach l : closed l = true -> forall script c, In c l -> In (fold_left dstep script c) l.
Proof.
  intros H. apply andb_prop in H as [_ H]. rewrite forallb_forall in H.
  induction script as [|k r IH]; intros c Hc; simpl; auto.
  apply IH. specialize (H c Hc). apply andb_prop in H as [H H3]. apply andb_prop in H as [H1 H2].
  destruct k; apply mem_In; auto.
Qed.

Theorem all_good : closed states = true -> forallb good states = true -> forall script, good (dexec script) = true.
Proof.
  intros C G script. pose proof (andb_prop _ _ C) as [I _].
  rewrite forallb_forall in G. apply G. apply closed_reach; auto. apply mem_In; auto.
Qed.
End D.

(** three iterators (split_mut) and two (split), acquire-release RMW: every schedule is good *)
Theorem drop3_good : forall script, good (mkB3 true true true) (dexec true true (mkB3 true true true) script) = true.
Proof. apply all_good; vm_compute; reflexivity. Qed.
Theorem drop2_good : forall script, good (mkB3 true false true) (dexec true true (mkB3 true false true) script) = true.
Proof. apply all_good; vm_compute; reflexivity. Qed.
Print Assumptions drop3_good.

(** non-vacuity of the detector: with a relaxed RMW the last iterator frees the buffer without having synchronised
    with the other's last access *)
Example relaxed_rmw_is_bad :
  uaf (dexec false false (mkB3 true false true) [TP; TC; TP; TC; TC]) = true.
Proof. vm_compute. reflexivity. Qed.

(** the protocol of the pinned tree (store own flag, then load the other flags), two iterators, sequentially
    consistent interleaving store/store/load/load: both free (double free); finding F5, repaired by 7af37e8 *)
Record pcfg := mkPC { fp : bool; fc : bool; pcP : nat; pcC : nat; seenP : bool; seenC : bool; pfrees : nat }.
Definition pinit := mkPC true true 0 0 true true 0.
Definition pstepP (c : pcfg) : pcfg :=
  match pcP c with
  | 0 => mkPC false (fc c) 1 (pcC c) (seenP c) (seenC c) (pfrees c)
  | 1 => mkPC (fp c) (fc c) 2 (pcC c) (fc c) (seenC c) (pfrees c)
  | 2 => mkPC (fp c) (fc c) 3 (pcC c) (seenP c) (seenC c) (if seenP c then pfrees c else S (pfrees c))
  | _ => c end.
Definition pstepC (c : pcfg) : pcfg :=
  match pcC c with
  | 0 => mkPC (fp c) false (pcP c) 1 (seenP c) (seenC c) (pfrees c)
  | 1 => mkPC (fp c) (fc c) (pcP c) 2 (seenP c) (fp c) (pfrees c)
  | 2 => mkPC (fp c) (fc c) (pcP c) 3 (seenP c) (seenC c) (if seenC c then pfrees c else S (pfrees c))
  | _ => c end.
Definition prun (s : list bool) := fold_left (fun (c : pcfg) (b : bool) => if b then pstepP c else pstepC c) s pinit.
Theorem pinned_protocol_refuted : exists s, pfrees (prun s) = 2.
Proof. exists [true; false; true; false; true; false]. vm_compute. reflexivity. Qed.
